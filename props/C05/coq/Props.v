(* C05 — property theorems.  Statements closed by `exact`, each followed by Print Assumptions.
   Every theorem is universally quantified over the content type, the hash, the length function
   and the tree parser (ideal AEAD / zstd are built into the shape of [state], see Model.v), and
   over EVERY repository state: no premise relates the state to a history, so the statements cover
   every state reachable by any history of backup/forget/prune followed by any damage. *)
From Verif.Base Require Import Tactics.
From Coq Require Import Relations.
From Verif.C05 Require Import Extracted Model Proofs Proofs2 Proofs3 Examples.
Local Open Scope N_scope.

(* Soundness.  If the full check (read_data) reports no error then for every snapshot root:
   every tree below it is found in the index, decrypts, decodes with the recorded length and
   parses; every file has a content list; every chunk is found, decrypts, decodes, and hashes to
   the chunk id; every tree, the snapshot's root tree included, hashes to the id it is referenced
   by ([correct ... true]: strict about roots).  [sel] is the answer of the index restore builds
   for itself: it may choose ANY copy of a key that is stored in several packs — read_data reads
   every pack holding a copy of a blob of a collected pack, so every copy is verified; that two
   authentic copies of a tree are the same tree is collision-freedom of the hash. *)
Theorem check_clean_implies_restorable :
  forall (B : Type) (hash : B -> id) (blen : B -> N) (parse : B -> option tree)
         (st : state B) (fuel : nat) (sel : selector),
    (forall b b', hash b = hash b' -> b = b') ->
    check B hash blen parse st fuel = Some [] ->
    sel_valid B st sel ->
    forall r, In r (st_roots st) -> correct B hash blen parse st sel true fuel r = Some true.
Proof. exact check_clean_implies_restorable_sel. Qed.
Print Assumptions check_clean_implies_restorable.

(* Without duplicate keys the statement needs no hypothesis on the hash at all. *)
Theorem check_clean_implies_restorable_nodup :
  forall (B : Type) (hash : B -> id) (blen : B -> N) (parse : B -> option tree)
         (st : state B) (fuel : nat) (sel : selector),
    check B hash blen parse st fuel = Some [] ->
    nodup_keys B st = true -> sel_valid B st sel ->
    forall r, In r (st_roots st) -> correct B hash blen parse st sel true fuel r = Some true.
Proof. exact check_clean_implies_restorable_nodup. Qed.
Print Assumptions check_clean_implies_restorable_nodup.

(* The same without the premise on duplicates when restore's index answers as check's did. *)
Theorem check_clean_implies_restorable_same_index :
  forall (B : Type) (hash : B -> id) (blen : B -> N) (parse : B -> option tree)
         (st : state B) (fuel : nat),
    check B hash blen parse st fuel = Some [] ->
    forall r, In r (st_roots st) ->
      correct B hash blen parse st (lookup B st) true fuel r = Some true.
Proof. exact check_clean_implies_restorable_lemma. Qed.
Print Assumptions check_clean_implies_restorable_same_index.

(* Completeness in the property's sense = the contrapositive on the damaged state: whenever some
   snapshot no longer restores correctly, the check reports an error. *)
Theorem damage_that_matters_is_reported :
  forall (B : Type) (hash : B -> id) (blen : B -> N) (parse : B -> option tree)
         (st : state B) (fuel : nat) (sel : selector) (r : id),
    (forall b b', hash b = hash b' -> b = b') ->
    sel_valid B st sel -> In r (st_roots st) ->
    correct B hash blen parse st sel true fuel r = Some false ->
    check B hash blen parse st fuel <> Some [].
Proof.
  intros B hash blen parse st fuel sel r Hinj Hv Hr Hc Hk.
  rewrite (check_clean_implies_restorable_sel B hash blen parse st fuel sel Hinj Hk Hv r Hr) in Hc.
  discriminate.
Qed.
Print Assumptions damage_that_matters_is_reported.

(* The set of packs check_trees collects is sufficient: every index key restore fetches — the
   snapshot's root tree and everything below it — is answered with a pack of that set, which
   read_data then reads. *)
Theorem packs_to_read_sufficient :
  forall (B : Type) (blen : B -> N) (parse : B -> option tree) (st : state B) (fuel : nat) used,
    check_trees B blen parse st fuel = Some ([], used) ->
    forall r, In r (st_roots st) ->
      (exists p b, lookup B st BTree r = Some (p, b) /\ In p used) /\
      exists ks, fetched B blen parse st fuel r = Some ks /\
                 forall t k, In (t, k) ks -> exists p b, lookup B st t k = Some (p, b) /\ In p used.
Proof. exact packs_to_read_sufficient_lemma. Qed.
Print Assumptions packs_to_read_sufficient.

(* ... and a clean check means check_pack found nothing in any of them: every blob the index lists
   in such a pack reads back and hashes to its id. *)
Theorem used_packs_verified :
  forall (B : Type) (hash : B -> id) (blen : B -> N) (parse : B -> option tree) (st : state B) fuel,
    check B hash blen parse st fuel = Some [] ->
    exists used, check_trees B blen parse st fuel = Some ([], used) /\
      forall pid, In pid used ->
        forall t b, In (t, pid, b) (entries B st) ->
          exists d, read_blob B blen st pid b = Some d /\ hash d = ib_id b.
Proof. exact used_packs_verified_lemma. Qed.
Print Assumptions used_packs_verified.

(* "Correctly" includes "completely": under the conclusion of the soundness theorem every read
   that restore/dump performs below the snapshot root succeeds. *)
Theorem correct_implies_complete :
  forall (B : Type) (hash : B -> id) (blen : B -> N) (parse : B -> option tree)
         (st : state B) (sel : selector) (fuel : nat) (strict : bool) (i : id),
    correct B hash blen parse st sel strict fuel i = Some true ->
    readable B blen parse st sel fuel i = Some true.
Proof. exact correct_readable. Qed.
Print Assumptions correct_implies_complete.

(* Snapshot files: the abstract state keeps only their root ids and whether every snapshot file is
   named by the hash of its contents; a mismatch (a snapshot file replaced by or swapped with
   another one) is always reported (since the fix `check: verify snapshot file names`). *)
Theorem snapshot_name_mismatch_is_reported :
  forall (B : Type) (hash : B -> id) (blen : B -> N) (parse : B -> option tree) (st : state B) fuel,
    st_snap_names_ok st = false -> check B hash blen parse st fuel <> Some [].
Proof. exact snap_name_reported. Qed.
Print Assumptions snapshot_name_mismatch_is_reported.

(* With a collision-free hash, "hashes to its id" is "is the content stored under that id". *)
Theorem hash_fixes_content :
  forall (B : Type) (hash : B -> id),
    (forall b b', hash b = hash b' -> b = b') ->
    forall (orig : id -> B) i d, hash (orig i) = i -> hash d = i -> d = orig i.
Proof. exact hash_determines_content. Qed.
Print Assumptions hash_fixes_content.

(* Before the fix `check: read the packs of the snapshots' root trees` the conclusion had to exempt
   root trees (their pack was not in the read set and the walk compares no hash): the witness
   state of that finding — an authentic tree of the same layout in the root's place — is now
   reported, while the tree walk alone still lets it through. *)
Theorem root_tree_replacement_is_reported :
  check N xhash xblen xparse st_root_replaced 5 = Some [EBlobHash] /\
  check_trees N xblen xparse st_root_replaced 5 = Some ([], [100; 102]) /\
  correct N xhash xblen xparse st_root_replaced (lookup N st_root_replaced) true 5 1 = Some false.
Proof. exact root_replaced_is_reported. Qed.
Print Assumptions root_tree_replacement_is_reported.

(* Duplicate keys.  Before the fix `check: read every pack holding a copy of a used blob` the
   statement needed the premise nodup_keys and had the witness `duplicate_keys_refuted` (a blob
   stored in two packs: check's index answers with one copy and only that pack was read; restore's
   own index may answer with the other copy).  Now every copy is read: *)
Theorem all_copies_verified :
  forall (B : Type) (hash : B -> id) (blen : B -> N) (parse : B -> option tree) (st : state B) fuel,
    check B hash blen parse st fuel = Some [] ->
    exists used, check_trees B blen parse st fuel = Some ([], used) /\
      forall pid, In pid used ->
        forall t b, In (t, pid, b) (entries B st) ->
          forall p' b', In (t, p', b') (entries B st) -> ib_id b' = ib_id b ->
            exists d, read_blob B blen st p' b' = Some d /\ hash d = ib_id b'.
Proof. exact all_copies_verified_lemma. Qed.
Print Assumptions all_copies_verified.

(* ... and the former witness state is reported: the pack with the damaged copy (103) is not among
   the packs the walk collects, but it is read. *)
Theorem duplicate_copy_is_reported :
  check N xhash xblen xparse st_dup 5 = Some [EBlobDecrypt] /\ nodup_keys N st_dup = false /\
  sel_valid N st_dup sel_last /\ readable N xblen xparse st_dup sel_last 5 1 = Some false /\
  check_trees N xblen xparse st_dup 5 = Some ([], [100; 101; 102; 102; 102]) /\
  map ip_id (read_list N st_dup [100; 101; 102; 102; 102]) = [100; 101; 102; 103].
Proof.
  destruct duplicate_witness as [H1 [H2 [H3 H4]]]. destruct duplicate_copy_pack_is_read as [H5 H6].
  repeat split; assumption.
Qed.
Print Assumptions duplicate_copy_is_reported.

(* ---- the fuel of the modelled walk ----
   The real walker keeps a `visited` set; the model unfolds the tree graph with fuel.  More fuel
   never changes a result, so "the" verdict is well defined: *)
Theorem check_verdict_fuel_independent :
  forall (B : Type) (hash : B -> id) (blen : B -> N) (parse : B -> option tree) (st : state B) f f' a b,
    (check B hash blen parse st f = Some a -> (f <= f')%nat -> check B hash blen parse st f' = Some a) /\
    (check B hash blen parse st f = Some a -> check B hash blen parse st f' = Some b -> a = b).
Proof.
  intros. split; [intros H Hle; unfold check in *; eapply check_fuel_le; eauto|apply check_verdict_unique].
Qed.
Print Assumptions check_verdict_fuel_independent.

(* A tree id is the hash of a serialisation that contains the ids of its subtrees, so these existed
   before ([no_hash_cycles]: some rank decreases from hash(b) to every subtree id b lists).  When
   every tree blob the index lists hashes to its id, the graph the walk follows has no cycle ... *)
Theorem tree_graph_acyclic :
  forall (B : Type) (hash : B -> id) (blen : B -> N) (parse : B -> option tree) (st : state B) rank,
    no_hash_cycles B hash parse rank -> trees_authentic B hash blen st ->
    forall i, ~ clos_trans id (fun a b => edge B blen parse st a b) i i.
Proof. intros B hash blen parse st rank Hh Ha. eapply ranked_acyclic, authentic_ranked; eauto. Qed.
Print Assumptions tree_graph_acyclic.

(* ... and the fuelled walk ends once the fuel exceeds the rank of the roots: the model's check
   then has a verdict, which by the previous theorem is the verdict for every larger fuel. *)
Theorem walk_fuel_sufficient :
  forall (B : Type) (hash : B -> id) (blen : B -> N) (parse : B -> option tree) (st : state B) rank,
    no_hash_cycles B hash parse rank -> trees_authentic B hash blen st ->
    (forall f i, (rank i < f)%nat -> walk B blen parse st f i <> None) /\
    check B hash blen parse st (S (max_rank rank (st_roots st))) <> None.
Proof.
  intros B hash blen parse st rank Hh Ha.
  pose proof (authentic_ranked B hash blen parse st rank Hh Ha) as Hr. split.
  - apply walk_fuel_sufficient_rank. exact Hr.
  - unfold check. apply (check_terminates_rank B hash blen parse st rank _ Hr).
    intros r Hin. pose proof (max_rank_ge rank _ r Hin). lia.
Qed.
Print Assumptions walk_fuel_sufficient.

(* Hence soundness without a fuel caveat: with f0 = 1 + the largest root rank, check f0 has a
   verdict, every other fuel that ends gives the same verdict, and a clean verdict implies that
   every snapshot restores completely and correctly through any index answer. *)
Theorem check_clean_implies_restorable_total :
  forall (B : Type) (hash : B -> id) (blen : B -> N) (parse : B -> option tree)
         (st : state B) (sel : selector) rank,
    (forall b b', hash b = hash b' -> b = b') ->
    no_hash_cycles B hash parse rank -> trees_authentic B hash blen st -> sel_valid B st sel ->
    let f0 := S (max_rank rank (st_roots st)) in
    check B hash blen parse st f0 <> None /\
    (forall f es, check B hash blen parse st f = Some es -> check B hash blen parse st f0 = Some es) /\
    (check B hash blen parse st f0 = Some [] ->
     forall r, In r (st_roots st) -> correct B hash blen parse st sel true f0 r = Some true).
Proof.
  intros B hash blen parse st sel rank Hinj Hh Ha Hv f0.
  destruct (walk_fuel_sufficient B hash blen parse st rank Hh Ha) as [_ Hne]. fold f0 in Hne.
  split; [exact Hne|]. split.
  - intros f es Hf. destruct (check B hash blen parse st f0) as [a|] eqn:E; [|contradiction].
    f_equal. symmetry. eapply check_verdict_unique; eauto.
  - intro Hc. apply check_clean_implies_restorable_sel; assumption.
Qed.
Print Assumptions check_clean_implies_restorable_total.

(* ---- read-data-subset (ReadSubsetOption::apply_with_rng; the shuffle is any permutation) ---- *)
Theorem subset_all_reads_everything :
  forall (B : Type) (hash : B -> id) (blen : B -> N) (parse : B -> option tree) (st : state B) sh fuel,
    check_subset B hash blen parse st SAll sh fuel = check B hash blen parse st fuel.
Proof. exact subset_all_is_full. Qed.
Print Assumptions subset_all_reads_everything.

(* Percentage(100) and Size(s) with s at least the total select every pack (since the fix `a pack
   that exactly fits the remaining size is read`; before it the last pack of the shuffle was
   dropped: retain_strict_drops_exact_fit), hence give the verdict of the full check. *)
Theorem subset_full_budget_reads_everything :
  forall (B : Type) (hash : B -> id) (blen : B -> N) (parse : B -> option tree) (st : state B) sh fuel,
    (forall l, Permutation (sh l) l) ->
    (forall l, apply_subset (SPercentage 100) sh l = sh l) /\
    (forall l sz, packs_total l <= sz -> apply_subset (SSize sz) sh l = sh l) /\
    (check_subset B hash blen parse st (SPercentage 100) sh fuel = Some [] <->
     check B hash blen parse st fuel = Some []).
Proof.
  intros B hash blen parse st sh fuel Hp. split; [|split].
  - intro l. apply percentage_100_selects_all, Hp.
  - intros l sz H. apply size_covering_selects_all; [apply Hp|exact H].
  - unfold check_subset. apply subset_perm_same_verdict. intro l.
    rewrite (percentage_100_selects_all sh l (Hp l)). apply Hp.
Qed.
Print Assumptions subset_full_budget_reads_everything.

Theorem strict_budget_dropped_the_exact_fit :
  forall p, 0 < rsize p -> retain_budget false (packs_total [p]) [p] = [].
Proof. exact retain_strict_drops_exact_fit. Qed.
Print Assumptions strict_budget_dropped_the_exact_fit.

(* What a PARTIAL read means: every finding it reports is a finding of the full check (errors are
   real) and a clean full check makes every partial read clean; but a clean partial read says
   nothing about restorability (witness: the damaged pack is simply not selected). *)
Theorem subset_errors_are_real :
  forall (B : Type) (hash : B -> id) (blen : B -> N) (parse : B -> option tree) (st : state B) o sh fuel es,
    (forall l, Permutation (sh l) l) ->
    check_subset B hash blen parse st o sh fuel = Some es ->
    exists es', check B hash blen parse st fuel = Some es' /\ incl es es'.
Proof.
  intros B hash blen parse st o sh fuel es Hp. unfold check_subset. apply subset_errors_real.
  intro l. apply apply_subset_incl, Hp.
Qed.
Print Assumptions subset_errors_are_real.

Theorem partial_subset_clean_is_not_restorability :
  check_subset N xhash xblen xparse st_blob_damaged (SIdSubSet 1 3) (fun l => l) 5 = Some [] /\
  check N xhash xblen xparse st_blob_damaged 5 = Some [EBlobDecrypt] /\
  readable N xblen xparse st_blob_damaged (lookup N st_blob_damaged) 5 1 = Some false.
Proof. exact partial_subset_clean_not_restorable. Qed.
Print Assumptions partial_subset_clean_is_not_restorability.


(* A clean check implies that every snapshot and index file is readable, hence that restore can
   build its index at all (GlobalIndex::new aborts on an unreadable index file, whether or not that
   file lists anything the snapshots need). *)
Theorem check_clean_implies_restore_opens :
  forall (B : Type) (hash : B -> id) (blen : B -> N) (parse : B -> option tree) (st : state B) fuel,
    check B hash blen parse st fuel = Some [] ->
    st_meta_ok st = true /\ st_index_ok st = true /\ restore_opens B st = true.
Proof. exact clean_opens. Qed.
Print Assumptions check_clean_implies_restore_opens.

(* Check's own lookup index and the index restore builds are fed with the same sections of the
   index files (`packs` only, never `packs_to_delete`; both regenerated from the source).  This is
   what lets the soundness theorem speak about "restore's own index": if check also looked into
   packs that prune has only marked, a blob found there would pass although restore cannot find it. *)
Theorem check_and_restore_index_agree :
  forall (B : Type) (st : state B), rentries B st = entries B st.
Proof. exact rentries_eq. Qed.
Print Assumptions check_and_restore_index_agree.

(* A full read may be performed as the documented cycle IdSubSet((1,m)) .. IdSubSet((m,m)): every
   pack is selected by one of the runs (comparison regenerated from check.rs). *)
Theorem nm_cycle_reads_every_pack :
  forall m pid, 0 < m -> exists n, 1 <= n <= m /\ subset_selects n m pid = true.
Proof. exact nm_cycle_covers. Qed.
Print Assumptions nm_cycle_reads_every_pack.

(* The check walks the root tree of EVERY snapshot file of the repository: Repository::check collects
   them with get_all_snapshots (no filter, e.g. not "except snapshots whose delete-after time has
   passed" — those are still in the repository and restorable) and check_repository walks exactly
   the trees it is handed (regenerated from repository.rs / check.rs).  All soundness theorems
   quantify over `In r (st_roots st)`, i.e. over every snapshot. *)
Theorem check_covers_every_snapshot :
  forall (B : Type) (st : state B), checked_roots B st = st_roots st.
Proof. reflexivity. Qed.
Print Assumptions check_covers_every_snapshot.

(* The facts regenerated from the current source (Extracted.v) are the ones the model is written
   against: check_trees collects the packs of the root trees, of subtrees and of file chunks (three
   insert sites); read_data reads the indexed packs that are not missing and are in that set;
   snapshot file names are compared with the content hash; check_pack tests size, hash, header
   length, header = index, then per blob (at the running offset, unzip unwrapped) length and hash;
   check_packs tests types and contiguous offsets on the sorted blobs.  A source edit that changes
   one of them breaks this obligation. *)
Theorem source_facts_as_modelled :
  x_pack_insert_sites = 3 /\ x_collects_root_packs = true /\ x_collects_data_packs = true /\
  x_collects_subtree_packs = true /\ x_filter_missing = true /\ x_filter_used = true /\
  x_snapshot_names_compared = true /\ x_check_pack_order = true /\
  x_blob_loop_running_offset = true /\ x_unzip_unwrap = true /\ x_offsets_checked_on_sorted = true /\
  x_check_index_includes_marked = false /\ x_restore_index_includes_marked = false /\
  x_unreadable_index_aborts_check = true /\ x_unreadable_index_aborts_restore = true /\
  x_subset_reduces_n = true /\ x_reads_all_copies = true /\ x_subset_shape = true /\
  x_subset_fits_exactly = true /\
  x_check_covers_all_snapshots = true /\ x_check_with_trees_passes_trees = true /\
  x_given_trees_are_walked = true /\ x_check_reads_all_index_files = true /\
  x_pack_listing_from_backend = true /\ x_trust_cache_only_guards_cache = true /\
  x_read_data_gates_pack_reading = true /\
  x_length_len = 4 /\ x_comp_overhead = 32 /\ x_entry_len = 37 /\ x_entry_len_compressed = 41.
Proof. repeat split; reflexivity. Qed.
Print Assumptions source_facts_as_modelled.

(* Non-vacuity: a two-level repository on which the check is clean (and the conclusion holds even
   with the strict root comparison), and a damaged one on which the check reports. *)
Theorem hypotheses_satisfiable :
  check N xhash xblen xparse st_clean 5 = Some [] /\ nodup_keys N st_clean = true /\
  correct N xhash xblen xparse st_clean (lookup N st_clean) true 5 1 = Some true /\
  check N xhash xblen xparse st_blob_damaged 5 = Some [EBlobDecrypt] /\
  readable N xblen xparse st_blob_damaged (lookup N st_blob_damaged) 5 1 = Some false /\
  check N xhash xblen xparse st_marked_only 5 <> Some [] /\
  check N xhash xblen xparse st_index_unreadable 5 = Some [EMeta].
Proof. vm_compute. repeat split; try reflexivity. discriminate. Qed.
Print Assumptions hypotheses_satisfiable.
