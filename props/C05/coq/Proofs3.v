(* C05 — proofs, part 3: the fuel of the modelled tree walk (monotone; sufficient on acyclic tree
   graphs; tree graphs of authentic trees are acyclic under the no-hash-cycle hypothesis) and the
   read-data-subset selection (All / Size / Percentage / IdSubSet). *)
From Verif.Base Require Import Tactics.
From Coq Require Import Relations.
From Verif.C05 Require Import Extracted Model Proofs Proofs2.
Local Open Scope N_scope.

(* ---------------------------------------------------------------- subset selection *)

Lemma packs_total_perm l l' : Permutation l l' -> packs_total l = packs_total l'.
Proof.
  induction 1; unfold packs_total in *; simpl in *; lia.
Qed.

(* a budget that covers everything keeps everything ([exact]: a pack that fits exactly is kept) *)
Lemma retain_all_exact : forall l size, packs_total l <= size -> retain_budget true size l = l.
Proof.
  induction l as [|p r IH]; intros size H; [reflexivity|].
  unfold packs_total in H. simpl in H. fold (packs_total r) in H. simpl.
  assert (E : (rsize p <=? size) = true) by (apply N.leb_le; lia). rewrite E.
  f_equal. apply IH. lia.
Qed.
Lemma retain_all_strict : forall l size, packs_total l < size -> retain_budget false size l = l.
Proof.
  induction l as [|p r IH]; intros size H; [reflexivity|].
  unfold packs_total in H. simpl in H. fold (packs_total r) in H. simpl.
  assert (E : (rsize p <? size) = true) by (apply N.ltb_lt; lia). rewrite E.
  f_equal. apply IH. lia.
Qed.
(* with the strict comparison a budget equal to the total drops the last pack that has a size *)
Lemma retain_strict_drops_exact_fit p : 0 < rsize p -> retain_budget false (packs_total [p]) [p] = [].
Proof.
  intro H. unfold packs_total. simpl. rewrite N.add_0_r.
  assert (E : (rsize p <? rsize p) = false) by (apply N.ltb_ge; lia). rewrite E. reflexivity.
Qed.

Lemma retain_incl exact : forall l size, incl (retain_budget exact size l) l.
Proof.
  induction l as [|p r IH]; intros size x Hx; [contradiction|]. simpl in Hx.
  destruct (if exact then rsize p <=? size else rsize p <? size).
  - destruct Hx as [<-|Hx]; [left; reflexivity|right; eapply IH; eauto].
  - right. eapply IH; eauto.
Qed.

(* every subset selection reads a sub-collection of the packs to read *)
Lemma apply_subset_incl o sh l : Permutation (sh l) l -> incl (apply_subset o sh l) l.
Proof.
  intros Hp x Hx. destruct o as [|pc|sz|n m]; simpl in Hx.
  - exact Hx.
  - eapply Permutation_in; [exact Hp|]. eapply retain_incl; eauto.
  - eapply Permutation_in; [exact Hp|]. eapply retain_incl; eauto.
  - apply filter_In in Hx. apply Hx.
Qed.

(* Size(s) with s covering the total, and Percentage(100), select every pack (in shuffled order).
   These use the regenerated fact that a pack which fits the remaining budget exactly is kept. *)
Lemma size_covering_selects_all sh l sz :
  Permutation (sh l) l -> packs_total l <= sz -> apply_subset (SSize sz) sh l = sh l.
Proof.
  intros Hp H. simpl. change x_subset_fits_exactly with true.
  apply retain_all_exact. rewrite (packs_total_perm _ _ Hp). exact H.
Qed.
Lemma percentage_100_selects_all sh l :
  Permutation (sh l) l -> apply_subset (SPercentage 100) sh l = sh l.
Proof.
  intros Hp. simpl. change x_subset_fits_exactly with true.
  apply retain_all_exact. rewrite (packs_total_perm _ _ Hp). rewrite N.div_mul by lia. lia.
Qed.

Lemma flat_map_nil_iff {A C} (f : A -> list C) l : flat_map f l = [] <-> forall a, In a l -> f a = [].
Proof.
  split; [apply flat_map_nil|]. induction l as [|x l IH]; intro H; [reflexivity|]. simpl.
  rewrite (H x) by (left; reflexivity). apply IH. intros a Ha. apply H. right. exact Ha.
Qed.

Lemma flat_map_incl {A C} (f : A -> list C) l l' : incl l l' -> incl (flat_map f l) (flat_map f l').
Proof.
  intros H c Hc. apply in_flat_map in Hc. destruct Hc as [a [Ha Hc]]. apply in_flat_map. exists a. auto.
Qed.

Section Proofs3.
  Variable B : Type.
  Variable hash : B -> id.
  Variable blen : B -> N.
  Variable parse : B -> option tree.
  Variable st : state B.

  Notation lookup := (lookup B st).
  Notation walk := (walk B blen parse st).
  Notation load_tree := (load_tree B blen parse st).
  Notation check := (check B hash blen parse st).
  Notation check_with := (check_with B hash blen parse st).

  (* read_data_subset = All is the full check *)
  Lemma subset_all_is_full sh fuel : check_subset B hash blen parse st SAll sh fuel = check fuel.
  Proof. reflexivity. Qed.

  (* soundness of a partial read: every finding of a subset run is a finding of the full check *)
  Lemma subset_errors_real sub fuel es :
    (forall l, incl (sub l) l) -> check_with sub fuel = Some es ->
    exists es', check fuel = Some es' /\ incl es es'.
  Proof.
    intros Hs. unfold Model.check, Model.check_with.
    destruct (negb (st_meta_ok st)); [intro H; exists es; split; [exact H|apply incl_refl]|].
    destruct (negb (st_index_ok st) && x_unreadable_index_aborts_check); [intro H; exists es; split; [exact H|apply incl_refl]|].
    destruct (check_trees B blen parse st fuel) as [[et used]|]; [|discriminate].
    intro H. injection H as <-. eexists. split; [reflexivity|].
    apply incl_app_app; [apply incl_refl|]. apply incl_app_app; [apply incl_refl|].
    apply incl_app_app; [apply incl_refl|]. apply flat_map_incl. apply Hs.
  Qed.

  (* a selection that is a permutation of the packs to read gives the same verdict as the full check *)
  Lemma subset_perm_same_verdict sub fuel :
    (forall l, Permutation (sub l) l) -> (check_with sub fuel = Some [] <-> check fuel = Some []).
  Proof.
    intros Hs. unfold Model.check, Model.check_with.
    destruct (negb (st_meta_ok st)); [tauto|].
    destruct (negb (st_index_ok st) && x_unreadable_index_aborts_check); [tauto|].
    destruct (check_trees B blen parse st fuel) as [[et used]|]; [|tauto].
    assert (E : flat_map (check_pack B hash blen st) (sub (read_list B st used)) = [] <->
                flat_map (check_pack B hash blen st) (read_list B st used) = []).
    { rewrite !flat_map_nil_iff. split; intros H a Ha; apply H.
      - eapply Permutation_in; [apply Permutation_sym, Hs|exact Ha].
      - eapply Permutation_in; [apply Hs|exact Ha]. }
    split; intro H; injection H as H; f_equal;
      apply app_eq_nil in H; destruct H as [H0 H]; apply app_eq_nil in H; destruct H as [H1 H];
      apply app_eq_nil in H; destruct H as [H2 H]; rewrite H0, H1, H2; simpl; apply E; exact H.
  Qed.

  (* ---------------------------------------------------------------- fuel *)

  (* the body of [walk] with the recursive call abstracted *)
  Definition wstep (w : id -> option (list err * list id)) (n : node) (acc : option (list err * list id)) :=
    match acc with
    | None => None
    | Some (es, ps) =>
      match n with
      | NOther => Some (es, ps)
      | NFile None => Some (EFileNoContent :: es, ps)
      | NFile (Some c) => let '(e1, p1) := file_errs B st c in Some (e1 ++ es, p1 ++ ps)
      | NDir None => Some (ENoSubTree :: es, ps)
      | NDir (Some s) =>
        let '(e1, p1) :=
          if s =? 0 then ([ENullSubTree], [])
          else match lookup BTree s with
               | None => ([ESubTreeNotInIndex], [])
               | Some (p, _) => ([], [p]) end in
        match w s with
        | None => None
        | Some (e2, p2) => Some (e1 ++ e2 ++ es, p1 ++ p2 ++ ps)
        end
      end
    end.

  Lemma walk_unfold f i :
    walk (S f) i = match load_tree i with
                   | None => Some ([ETreeLoad], [])
                   | Some t => fold_right (wstep (walk f)) (Some ([], [])) t
                   end.
  Proof. reflexivity. Qed.

  Lemma wstep_fold_mono (w w' : id -> option (list err * list id)) t :
    (forall s r, In (NDir (Some s)) t -> w s = Some r -> w' s = Some r) ->
    forall r, fold_right (wstep w) (Some ([], [])) t = Some r ->
              fold_right (wstep w') (Some ([], [])) t = Some r.
  Proof.
    induction t as [|n t IH]; intros Hw r H; [exact H|]. simpl in *.
    destruct (fold_right (wstep w) (Some ([], [])) t) as [[es ps]|] eqn:E; [|discriminate].
    rewrite (IH (fun s r Hin => Hw s r (or_intror Hin)) _ eq_refl).
    destruct n as [[c|]|[s|]|]; try exact H.
    unfold wstep in *. destruct (if s =? 0 then _ else _) as [e1 p1].
    destruct (w s) as [[e2 p2]|] eqn:Es; [|discriminate].
    rewrite (Hw s _ (or_introl eq_refl) Es). exact H.
  Qed.

  (* more fuel never changes a result *)
  Lemma walk_fuel_mono : forall f i r, walk f i = Some r -> walk (S f) i = Some r.
  Proof.
    induction f as [|f IH]; intros i r H; [discriminate|].
    rewrite walk_unfold in *. destruct (load_tree i) as [t|]; [|exact H].
    eapply wstep_fold_mono; [|exact H]. intros s r' _. apply IH.
  Qed.

  Lemma walk_fuel_le f f' i r : (f <= f')%nat -> walk f i = Some r -> walk f' i = Some r.
  Proof. induction 1 as [|m Hle IH]; [auto|]. intro Hw. apply walk_fuel_mono. auto. Qed.

  Lemma walk_roots_fuel_le f f' r : (f <= f')%nat ->
    walk_roots B blen parse st f = Some r -> walk_roots B blen parse st f' = Some r.
  Proof.
    intro Hle. unfold walk_roots. change (checked_roots B st) with (st_roots st).
    revert r. induction (st_roots st) as [|x l IH]; intros r H; [exact H|].
    simpl in *. destruct (fold_right _ _ l) as [[es ps]|] eqn:E; [|discriminate].
    rewrite (IH _ eq_refl). destruct (walk f x) as [[e1 p1]|] eqn:Ew; [|discriminate].
    rewrite (walk_fuel_le f f' x _ Hle Ew). exact H.
  Qed.

  Lemma check_fuel_le sub f f' es : (f <= f')%nat -> check_with sub f = Some es -> check_with sub f' = Some es.
  Proof.
    intro Hle. unfold Model.check_with.
    destruct (negb (st_meta_ok st)); [auto|].
    destruct (negb (st_index_ok st) && x_unreadable_index_aborts_check); [auto|].
    unfold check_trees.
    destruct (walk_roots B blen parse st f) as [[e0 p0]|] eqn:E; [|discriminate].
    rewrite (walk_roots_fuel_le f f' _ Hle E). auto.
  Qed.

  (* the verdict does not depend on the fuel: two runs that both end agree *)
  Lemma check_verdict_unique f f' a b : check f = Some a -> check f' = Some b -> a = b.
  Proof.
    intros Ha Hb. unfold Model.check in *.
    pose proof (check_fuel_le _ f (Nat.max f f') a (Nat.le_max_l _ _) Ha) as H1.
    pose proof (check_fuel_le _ f' (Nat.max f f') b (Nat.le_max_r _ _) Hb) as H2.
    congruence.
  Qed.

  (* --- acyclicity.  [edge i s]: the tree check loads for id [i] has a directory entry [s] --- *)
  Definition edge (i s : id) : Prop := exists t, load_tree i = Some t /\ In (NDir (Some s)) t.

  (* a rank that decreases along the edges = the tree graph is well-founded *)
  Definition ranked (rank : id -> nat) : Prop := forall i s, edge i s -> (rank s < rank i)%nat.

  Lemma ranked_acyclic rank : ranked rank -> forall i, ~ clos_trans id (fun a b => edge a b) i i.
  Proof.
    intros Hr i Hc.
    assert (G : forall a b, clos_trans id (fun a b => edge a b) a b -> (rank b < rank a)%nat).
    { induction 1 as [a b H|a b c _ IH1 _ IH2]; [apply Hr, H|lia]. }
    specialize (G i i Hc). lia.
  Qed.

  Lemma wstep_fold_total (w : id -> option (list err * list id)) t :
    (forall s, In (NDir (Some s)) t -> w s <> None) ->
    fold_right (wstep w) (Some ([], [])) t <> None.
  Proof.
    induction t as [|n t IH]; intro Hw; [discriminate|]. simpl.
    destruct (fold_right (wstep w) (Some ([], [])) t) as [[es ps]|] eqn:E.
    - destruct n as [[c|]|[s|]|]; simpl; try discriminate.
      + destruct (file_errs B st c). discriminate.
      + destruct (if s =? 0 then _ else _) as [e1 p1].
        destruct (w s) as [[e2 p2]|] eqn:Es; [discriminate|].
        exfalso. apply (Hw s (or_introl eq_refl) Es).
    - exfalso. apply IH; [|reflexivity]. intros s Hs. apply Hw. right. exact Hs.
  Qed.

  (* on a well-founded tree graph the walk ends as soon as the fuel exceeds the rank *)
  Lemma walk_fuel_sufficient_rank rank : ranked rank ->
    forall f i, (rank i < f)%nat -> walk f i <> None.
  Proof.
    intro Hr. induction f as [|f IH]; intros i Hlt; [lia|].
    rewrite walk_unfold. destruct (load_tree i) as [t|] eqn:El; [|discriminate].
    apply wstep_fold_total. intros s Hs. apply IH.
    assert (rank s < rank i)%nat by (apply Hr; exists t; auto). lia.
  Qed.

  Lemma check_terminates_rank rank sub : ranked rank ->
    forall f, (forall r, In r (st_roots st) -> (rank r < f)%nat) -> check_with sub f <> None.
  Proof.
    intros Hr f Hf. unfold Model.check_with.
    destruct (negb (st_meta_ok st)); [discriminate|].
    destruct (negb (st_index_ok st) && x_unreadable_index_aborts_check); [discriminate|].
    assert (G : walk_roots B blen parse st f <> None).
    { unfold walk_roots. change (checked_roots B st) with (st_roots st).
      induction (st_roots st) as [|x l IH]; [discriminate|]. simpl.
      destruct (fold_right _ _ l) as [[es ps]|] eqn:E.
      - destruct (walk f x) as [[e1 p1]|] eqn:Ew; [discriminate|].
        exfalso. apply (walk_fuel_sufficient_rank rank Hr f x); [apply Hf; left; reflexivity|exact Ew].
      - exfalso. apply IH; [|reflexivity]. intros r Hin. apply Hf. right. exact Hin. }
    unfold check_trees. destruct (walk_roots B blen parse st f) as [[e0 p0]|]; [discriminate|contradiction].
  Qed.

  (* The no-hash-cycle hypothesis: a tree id is the hash of a serialisation that contains the ids of
     its subtrees, so those ids existed before: some rank decreases from hash(b) to every subtree id
     b lists.  Together with "every tree blob the index lists hashes to its id" (what check_pack
     establishes for the packs it reads) the tree graph check walks is well-founded. *)
  Definition no_hash_cycles (rank : id -> nat) : Prop :=
    forall b t s, parse b = Some t -> In (NDir (Some s)) t -> (rank s < rank (hash b))%nat.
  Definition trees_authentic : Prop :=
    forall i p b d, lookup BTree i = Some (p, b) -> read_blob B blen st p b = Some d -> hash d = i.

  Lemma authentic_ranked rank : no_hash_cycles rank -> trees_authentic -> ranked rank.
  Proof.
    intros Hh Ha i s [t [Hl Hin]]. unfold Model.load_tree in Hl.
    destruct (lookup BTree i) as [[p b]|] eqn:El; [|discriminate].
    destruct (read_blob B blen st p b) as [d|] eqn:Er; [|discriminate].
    rewrite <- (Ha i p b d El Er). eapply Hh; eauto.
  Qed.

  Definition max_rank (rank : id -> nat) (l : list id) : nat := fold_right (fun r a => Nat.max (rank r) a) O l.
  Lemma max_rank_ge rank l r : In r l -> (rank r <= max_rank rank l)%nat.
  Proof. induction l as [|x l IH]; intro H; [contradiction|]. simpl. destruct H as [<-|H]; [lia|]. specialize (IH H). lia. Qed.

End Proofs3.
