(* C05 — proofs: a clean full check implies that everything restore fetches is readable and
   hashes to the id it is fetched for (root trees included, since their packs are in the read set). *)
From Verif.Base Require Import Tactics.
From Verif.C05 Require Import Model.
Local Open Scope N_scope.

Lemma btype_eqb_eq a b : btype_eqb a b = true <-> a = b.
Proof. destruct a, b; simpl; split; intro H; try reflexivity; try discriminate. Qed.

Lemma insert_perm b l : Permutation (insert_blob b l) (b :: l).
Proof.
  induction l as [|x r IH]; simpl; [apply Permutation_refl|].
  destruct (loc_leb b x); [apply Permutation_refl|].
  eapply Permutation_trans; [apply perm_skip, IH|apply perm_swap].
Qed.

Lemma sort_perm l : Permutation (sort_blobs l) l.
Proof.
  induction l as [|b l IH]; simpl; [apply Permutation_refl|].
  eapply Permutation_trans; [apply insert_perm|apply perm_skip, IH].
Qed.

Lemma app_nil_inv {A} (l m : list A) : l ++ m = [] -> l = [] /\ m = [].
Proof. apply app_eq_nil. Qed.

Lemma flat_map_nil {A C} (f : A -> list C) l : flat_map f l = [] -> forall a, In a l -> f a = [].
Proof.
  induction l as [|x l IH]; simpl; intros H a Ha; [contradiction|].
  apply app_eq_nil in H. destruct H as [H1 H2]. destruct Ha as [<-|Ha]; auto.
Qed.

Lemma retype_same t b : ib_type b = t -> retype t b = b.
Proof. destruct b; simpl; intros <-; reflexivity. Qed.

Lemma mem_id_In x l : mem_id x l = true <-> In x l.
Proof.
  unfold mem_id. rewrite existsb_exists. split.
  - intros [y [Hy He]]. apply N.eqb_eq in He. subst. assumption.
  - intro H. exists x. split; [assumption|apply N.eqb_refl].
Qed.

Section Proofs.
  Variable B : Type.
  Variable hash : B -> id.
  Variable blen : B -> N.
  Variable parse : B -> option tree.
  Variable st : state B.

  Notation read_blob := (read_blob B blen st).
  Notation lookup := (lookup B st).
  Notation entries := (entries B st).
  Notation walk := (walk B blen parse st).
  Notation check := (check B hash blen parse st).
  Notation correct := (correct B hash blen parse st).

  (* offsets contiguous and types uniform ==> every type is the pack type *)
  Lemma offsets_types pt l : forall off, offsets_errs pt off l = [] -> forall b, In b l -> ib_type b = pt.
  Proof.
    induction l as [|x l IH]; simpl; intros off H b Hb; [contradiction|].
    apply app_eq_nil in H. destruct H as [H1 H2]. apply app_eq_nil in H2. destruct H2 as [H2 H3].
    destruct Hb as [<-|Hb]; [|eapply IH; eauto].
    destruct (btype_eqb (ib_type x) pt) eqn:E; [apply btype_eqb_eq; assumption|discriminate].
  Qed.

  (* the blob loop of check_pack reads every blob at its indexed offset when the offsets of the
     index are contiguous; no finding ==> each decrypts, decodes with the right length, hashes *)
  Lemma blob_loop_ok sp pt l : forall off,
    offsets_errs pt off l = [] -> blob_errs B hash blen sp off l = [] ->
    forall b, In b l ->
      exists pl d, read_seg B sp (ib_off b) (ib_len b) = Some pl /\
                   decode B blen pl (ib_ulen b) = Some d /\ hash d = ib_id b.
  Proof.
    induction l as [|x l IH]; intros off Ho Hb b Hin; [contradiction|].
    simpl in Ho. apply app_eq_nil in Ho. destruct Ho as [_ Ho]. apply app_eq_nil in Ho. destruct Ho as [Ho1 Ho2].
    assert (Hoff : ib_off x = off).
    { destruct (ib_off x =? off) eqn:E; [apply N.eqb_eq; assumption|discriminate]. }
    simpl in Hb.
    destruct (read_seg B sp off (ib_len x)) as [pl|] eqn:Er; [|discriminate].
    destruct pl as [raw unz|hs]; [|discriminate].
    destruct (ib_ulen x) as [n|] eqn:Eu.
    - destruct unz as [d|]; [|discriminate].
      apply app_eq_nil in Hb. destruct Hb as [Hl Hb]. apply app_eq_nil in Hb. destruct Hb as [Hh Hb].
      destruct Hin as [<-|Hin]; [|eapply IH; eauto].
      exists (PBlob raw (Some d)), d. rewrite Hoff, Er, Eu. simpl.
      destruct (blen d =? n); [|discriminate].
      destruct (hash d =? ib_id x) eqn:E; [|discriminate]. apply N.eqb_eq in E. auto.
    - apply app_eq_nil in Hb. destruct Hb as [Hh Hb].
      destruct Hin as [<-|Hin]; [|eapply IH; eauto].
      exists (PBlob raw unz), raw. rewrite Hoff, Er, Eu. simpl.
      destruct (hash raw =? ib_id x) eqn:E; [|discriminate]. apply N.eqb_eq in E. auto.
  Qed.

  (* a pack whose index entry passed check_packs and whose data passed check_pack: every blob the
     index lists for it reads back and hashes to its id *)
  Lemma pack_verified p del :
    index_pack_errs (p, del) = [] -> check_pack B hash blen st p = [] ->
    forall b, In b (ip_blobs p) -> exists d, read_blob (ip_id p) b = Some d /\ hash d = ib_id b.
  Proof.
    unfold index_pack_errs, check_pack, Model.read_blob. intros Hi Hc b Hb.
    apply app_eq_nil in Hi. destruct Hi as [_ Hi].
    assert (Hty : forall x, In x (ip_blobs p) -> ib_type x = ptype p).
    { intros x Hx. eapply offsets_types; [exact Hi|].
      eapply Permutation_in; [apply Permutation_sym, sort_perm|exact Hx]. }
    assert (Hre : rebuilt_blobs p = ip_blobs p).
    { unfold rebuilt_blobs. rewrite <- (map_id (ip_blobs p)) at 2. apply map_ext_in.
      intros x Hx. apply retype_same. auto. }
    rewrite Hre in Hc.
    destruct (find_pack B st (ip_id p)) as [sp|]; [|discriminate].
    destruct (negb (sp_size sp =? computed_size (ip_blobs p))); [discriminate|].
    destruct (negb (sp_hash sp =? ip_id p)); [discriminate|].
    destruct (negb (sp_trailer sp =? hdr_size (ip_blobs p))); [discriminate|].
    destruct (read_seg B sp (sp_size sp - Extracted.x_length_len - hdr_size (ip_blobs p)) (hdr_size (ip_blobs p))) as [pl|]; [|discriminate].
    destruct pl as [? ?|hs]; [discriminate|].
    destruct (list_eqb iblob_eqb hs (sort_blobs (ip_blobs p))); [|discriminate].
    destruct (blob_loop_ok sp (ptype p) (sort_blobs (ip_blobs p)) 0 Hi Hc b) as [pl [d [H1 [H2 H3]]]].
    { eapply Permutation_in; [apply Permutation_sym, sort_perm|exact Hb]. }
    exists d. rewrite H1. auto.
  Qed.

  Definition verified (pid : id) : Prop :=
    forall t b, In (t, pid, b) entries -> exists d, read_blob pid b = Some d /\ hash d = ib_id b.
  (* every COPY (in whatever pack of the index) of every blob the pack lists reads back and hashes *)
  Definition kverified (pid : id) : Prop :=
    forall t b, In (t, pid, b) entries ->
      forall p' b', In (t, p', b') entries -> ib_id b' = ib_id b ->
        exists d, read_blob p' b' = Some d /\ hash d = ib_id b'.

  Lemma kverified_verified pid : kverified pid -> verified pid.
  Proof. intros H t b Hin. exact (H t b Hin pid b Hin eq_refl). Qed.

  Lemma lookup_in t i p b : lookup t i = Some (p, b) -> In (t, p, b) entries /\ ib_id b = i.
  Proof.
    unfold Model.lookup, candidates. intro H.
    destruct (filter (key_match t i) entries) as [|e r] eqn:E; [discriminate|].
    inversion H; subst; clear H.
    assert (Hin : In e (filter (key_match t i) entries)) by (rewrite E; left; reflexivity).
    apply filter_In in Hin. destruct Hin as [Hin Hk].
    unfold key_match in Hk. apply andb_true_iff in Hk. destruct Hk as [Hk1 Hk2].
    apply btype_eqb_eq in Hk1. apply N.eqb_eq in Hk2.
    destruct e as [[t' p'] b']. simpl in *. subst. auto.
  Qed.

  Lemma candidates_in t i p b : In (t, p, b) (candidates B st t i) -> In (t, p, b) entries /\ ib_id b = i.
  Proof.
    unfold candidates. intro H. apply filter_In in H. destruct H as [Hin Hk]. split; [assumption|].
    unfold key_match in Hk. apply andb_true_iff in Hk. destruct Hk as [_ Hk]. apply N.eqb_eq in Hk. exact Hk.
  Qed.

  Lemma entries_in t pid b : In (t, pid, b) entries ->
    exists p, In p (index_packs B st) /\ ip_id p = pid /\ In b (ip_blobs p) /\ t = ptype p.
  Proof.
    unfold Model.entries. rewrite in_flat_map. intros [p [Hp He]].
    unfold entries_of_pack in He. apply in_map_iff in He. destruct He as [b' [Heq Hb]].
    inversion Heq; subst. exists p. auto.
  Qed.

  (* check's own index is fed with the `packs` sections only (fact regenerated from check.rs) *)
  Lemma index_packs_eq : index_packs B st = flat_map if_packs (st_index st).
  Proof. reflexivity. Qed.

  Lemma index_packs_all p : In p (index_packs B st) -> In (p, false) (all_packs B st).
  Proof.
    rewrite index_packs_eq. unfold all_packs. rewrite !in_flat_map. intros [f [Hf Hp]].
    exists f. split; [assumption|]. apply in_or_app. left. apply in_map_iff. eauto.
  Qed.

  Lemma map_const_nil {A C} (c : C) (l : list A) : map (fun _ => c) l = [] -> l = [].
  Proof. destruct l; simpl; [reflexivity|discriminate]. Qed.

  Lemma key_eqb_refl k : key_eqb k k = true.
  Proof. destruct k as [[|] i]; unfold key_eqb; simpl; apply N.eqb_refl. Qed.

  (* read_data reads every pack that holds a copy of a blob of a collected pack (fact regenerated
     from check.rs: x_reads_all_copies) *)
  Lemma copies_are_read used p q b b' :
    In p (index_packs B st) -> mem_id (ip_id p) used = true -> In b (ip_blobs p) ->
    In b' (ip_blobs q) -> ptype q = ptype p -> ib_id b' = ib_id b ->
    is_read B st used q = true.
  Proof.
    intros Hp Hm Hb Hb' Ht Hi. unfold is_read. apply orb_true_iff. right.
    change Extracted.x_reads_all_copies with true. simpl.
    apply existsb_exists. exists (ptype q, ib_id b'). split.
    - unfold pack_keys. apply in_map_iff. exists b'. auto.
    - apply existsb_exists. exists (ptype p, ib_id b). split.
      + unfold used_keys. apply in_flat_map. exists p. split; [assumption|]. rewrite Hm.
        unfold pack_keys. apply in_map_iff. exists b. auto.
      + rewrite Ht, Hi. apply key_eqb_refl.
  Qed.

  (* what a clean full check establishes about the packs the tree walk collected *)
  Lemma check_clean_verified fuel :
    check fuel = Some [] ->
    st_meta_ok st = true /\
    exists used, check_trees B blen parse st fuel = Some ([], used) /\
                 forall pid, In pid used -> kverified pid.
  Proof.
    unfold Model.check, check_with. destruct (st_meta_ok st); simpl; [|discriminate].
    destruct (negb (st_index_ok st) && Extracted.x_unreadable_index_aborts_check); [discriminate|].
    destruct (check_trees B blen parse st fuel) as [[et used]|]; [|discriminate].
    intro H. injection H as H0.
    apply app_eq_nil in H0. destruct H0 as [_ H0].
    apply app_eq_nil in H0. destruct H0 as [Hcp H0]. apply app_eq_nil in H0. destruct H0 as [Het Hpk].
    split; [reflexivity|]. exists used. split; [rewrite Het; reflexivity|].
    unfold check_packs in Hcp. apply app_eq_nil in Hcp. destruct Hcp as [Hix Hcp].
    apply app_eq_nil in Hcp. destruct Hcp as [_ Hmiss]. apply map_const_nil in Hmiss.
    intros pid Hused t b Hin p' b' Hin' Hid'.
    destruct (entries_in t pid b Hin) as [p [Hp [Hid [Hb Htp]]]].
    destruct (entries_in t p' b' Hin') as [q [Hq [Hidq [Hbq Htq]]]].
    assert (Hm : mem_id (ip_id p) used = true) by (apply mem_id_In; rewrite Hid; assumption).
    assert (Hrd : In q (read_list B st used)).
    { unfold read_list. apply filter_In. split; [assumption|]. rewrite Hmiss. simpl.
      apply (copies_are_read used p q b b'); auto. congruence. }
    pose proof (flat_map_nil _ _ Hix _ (index_packs_all q Hq)) as Hie.
    pose proof (flat_map_nil _ _ Hpk _ Hrd) as Hck.
    subst p'. eapply pack_verified; eauto.
  Qed.

  Lemma file_errs_ok c : forall ps, file_errs B st c = ([], ps) ->
    forall ci, In ci c -> exists p b, lookup BData ci = Some (p, b) /\ In p ps.
  Proof.
    induction c as [|x c IH]; intros ps H ci Hci; [contradiction|].
    simpl in H. destruct (file_errs B st c) as [es ps'] eqn:E.
    destruct (lookup BData x) as [[p b]|] eqn:El.
    - inversion H as [[H1 H2]]; clear H. apply app_eq_nil in H1. destruct H1 as [_ H1]. subst es.
      destruct Hci as [<-|Hci].
      + exists p, b. split; [assumption|left; reflexivity].
      + destruct (IH ps' eq_refl ci Hci) as [p' [b' [Hl Hp]]]. exists p', b'. split; [assumption|right; assumption].
    - inversion H as [[H1 H2]]. apply app_eq_nil in H1. destruct H1 as [_ H1]. discriminate.
  Qed.

  (* [sel] : the answer of another index built from the same entries (any copy of a key) *)
  Definition sel_ok (sel : selector) : Prop :=
    forall t i, match sel t i with
                | Some (p, b) => In (t, p, b) (candidates B st t i)
                | None => candidates B st t i = [] end.

  Lemma lookup_sel_ok : sel_ok lookup.
  Proof.
    intros t i. unfold Model.lookup. destruct (candidates B st t i) as [|e r] eqn:E; [reflexivity|].
    assert (Hin : In e (candidates B st t i)) by (rewrite E; left; reflexivity).
    unfold candidates in Hin. apply filter_In in Hin. destruct Hin as [_ Hk].
    unfold key_match in Hk. apply andb_true_iff in Hk. destruct Hk as [Hk _]. apply btype_eqb_eq in Hk.
    destruct e as [[t' p] b]. simpl in *. subst t'. left. reflexivity.
  Qed.

  Lemma fetch_kverified sel t i p b : sel_ok sel -> lookup t i = Some (p, b) -> kverified p ->
    exists d, fetch B blen st sel t i = Some d /\ hash d = i.
  Proof.
    intros Hs Hl Hv. destruct (lookup_in t i p b Hl) as [Hin Hid].
    specialize (Hs t i). unfold fetch. destruct (sel t i) as [[p' b']|].
    - destruct (candidates_in t i p' b' Hs) as [Hin' Hid'].
      destruct (Hv t b Hin p' b' Hin') as [d [Hr Hh]]; [congruence|].
      exists d. split; [assumption|congruence].
    - exfalso. unfold Model.lookup in Hl. rewrite Hs in Hl. discriminate.
  Qed.

  (* the walk of one tree found nothing ==> the executable "restores correctly" holds below it, for
     any index answer [sel]; [Hd]: two contents fetched for one tree id that both hash to it are the
     same content (trivial for sel = lookup, collision-freedom in general) *)
  Lemma walk_correct sel : sel_ok sel ->
    (forall i d d', fetch B blen st lookup BTree i = Some d -> fetch B blen st sel BTree i = Some d' ->
                    hash d = i -> hash d' = i -> d' = d) ->
    forall fuel i ps,
    walk fuel i = Some ([], ps) ->
    (forall p, In p ps -> kverified p) ->
    (exists p b, lookup BTree i = Some (p, b) /\ kverified p) ->
    correct sel true fuel i = Some true.
  Proof.
    intros Hsel Hd. induction fuel as [|f IH]; intros i ps Hw Hv Hs; [discriminate|].
    simpl in Hw. simpl. unfold load_tree in Hw.
    destruct Hs as [p0 [b0 [El0 Hv0]]].
    destruct (fetch_kverified sel BTree i p0 b0 Hsel El0 Hv0) as [d' [Hf' Hh']].
    destruct (fetch_kverified lookup BTree i p0 b0 lookup_sel_ok El0 Hv0) as [d [Hf Hh]].
    assert (Hdd : d' = d) by (eapply Hd; eauto). subst d'.
    rewrite Hf'. unfold fetch in Hf. rewrite El0 in Hf, Hw. rewrite Hf in Hw.
    destruct (parse d) as [t|] eqn:Ep; [|inversion Hw].
    assert (H0 : (hash d =? i) = true) by (apply N.eqb_eq; assumption).
    rewrite H0. clear H0 El0 Hf Hf' Ep Hv0.
    revert ps Hw Hv. induction t as [|n t IHt]; intros ps Hw Hv; [reflexivity|].
    simpl in Hw. simpl.
    match type of Hw with context [fold_right ?F ?A t] => destruct (fold_right F A t) as [[es ps']|] eqn:Ef end; [|discriminate].
    destruct n as [[c|]|[s|]|].
    - (* file with content *)
      destruct (file_errs B st c) as [e1 p1] eqn:Efe. inversion Hw as [[H1 H2]]; clear Hw.
      apply app_eq_nil in H1. destruct H1 as [H1 H1']. subst e1 es.
      rewrite (IHt ps' eq_refl) by (intros q Hq; apply Hv; subst ps; apply in_or_app; right; assumption).
      simpl. f_equal. apply forallb_forall. intros ci Hci.
      destruct (file_errs_ok c p1 Efe ci Hci) as [q [b' [Hl Hq]]].
      destruct (fetch_kverified sel BData ci q b' Hsel Hl) as [d'' [Hf Hh'']].
      { apply Hv. subst ps. apply in_or_app. left. assumption. }
      rewrite Hf. apply N.eqb_eq. assumption.
    - inversion Hw.
    - (* directory *)
      destruct (walk f s) as [[e2 p2]|] eqn:Ews; [|destruct (if s =? 0 then _ else _); discriminate].
      destruct (s =? 0) eqn:Es0.
      + inversion Hw.
      + destruct (lookup BTree s) as [[q bq]|] eqn:Els; [|inversion Hw].
        inversion Hw as [[H1 H2]]; clear Hw. simpl in H1. apply app_eq_nil in H1. destruct H1 as [H1 H1']. subst e2 es.
        rewrite (IHt ps' eq_refl) by (intros x Hx; apply Hv; subst ps; simpl; right; apply in_or_app; right; assumption).
        rewrite (IH s p2 Ews).
        * reflexivity.
        * intros x Hx. apply Hv. subst ps. simpl. right. apply in_or_app. left. assumption.
        * exists q, bq. split; [exact Els|]. apply Hv. subst ps. left. reflexivity.
    - inversion Hw.
    - inversion Hw as [[H1 H2]]; subst. rewrite (IHt ps eq_refl Hv). reflexivity.
  Qed.

  Lemma walk_roots_ok fuel used :
    walk_roots B blen parse st fuel = Some ([], used) ->
    forall r, In r (st_roots st) -> exists ps, walk fuel r = Some ([], ps) /\ incl ps used.
  Proof.
    unfold walk_roots. change (checked_roots B st) with (st_roots st).
    revert used. induction (st_roots st) as [|x l IH]; intros used H r Hr; [contradiction|].
    simpl in H.
    match type of H with context [fold_right ?F ?A l] => destruct (fold_right F A l) as [[es ps']|] eqn:Ef end; [|discriminate].
    destruct (walk fuel x) as [[e1 p1]|] eqn:Ew; [|discriminate].
    inversion H as [[H1 H2]]; clear H. apply app_eq_nil in H1. destruct H1 as [H1 H1']. subst e1 es.
    destruct Hr as [<-|Hr].
    - exists p1. split; [assumption|]. apply incl_appl, incl_refl.
    - destruct (IH ps' eq_refl r Hr) as [ps [Hw Hi]]. exists ps. split; [assumption|].
      apply incl_appr. assumption.
  Qed.

  Lemma root_packs_in r p b : In r (st_roots st) -> lookup BTree r = Some (p, b) -> In p (root_packs B st).
  Proof.
    intros Hr Hl. unfold root_packs. change (checked_roots B st) with (st_roots st). apply in_flat_map. exists r. split; [assumption|].
    rewrite Hl. left. reflexivity.
  Qed.

  Lemma check_trees_roots fuel used :
    check_trees B blen parse st fuel = Some ([], used) ->
    forall r, In r (st_roots st) ->
      (exists ps, walk fuel r = Some ([], ps) /\ incl ps used) /\
      (forall p b, lookup BTree r = Some (p, b) -> In p used).
  Proof.
    unfold check_trees. destruct (walk_roots B blen parse st fuel) as [[es ps]|] eqn:E; [|discriminate].
    intro H. inversion H; subst. intros r Hr. split.
    - destruct (walk_roots_ok fuel ps E r Hr) as [ps' [Hw Hi]]. exists ps'. split; [assumption|].
      apply incl_appr. assumption.
    - intros p b Hl. apply in_or_app. left. eapply root_packs_in; eauto.
  Qed.

  (* MAIN: a clean full check implies that every snapshot restores completely and correctly through
     ANY index answer [sel]: every tree below every root (the root included) is fetched, decrypts,
     decodes, parses and hashes to the id it is referenced by; so does every file chunk *)
  Theorem check_clean_implies_restorable_gen fuel sel : sel_ok sel ->
    (forall i d d', fetch B blen st lookup BTree i = Some d -> fetch B blen st sel BTree i = Some d' ->
                    hash d = i -> hash d' = i -> d' = d) ->
    check fuel = Some [] ->
    forall r, In r (st_roots st) -> correct sel true fuel r = Some true.
  Proof.
    intros Hsel Hd Hc r Hr. destruct (check_clean_verified fuel Hc) as [_ [used [Ht Hv]]].
    destruct (check_trees_roots fuel used Ht r Hr) as [[ps [Hw Hi]] Hroot].
    apply (walk_correct sel Hsel Hd fuel r ps Hw); [intros p Hp; apply Hv, Hi, Hp|].
    destruct (walk fuel r) as [[e0 p0]|] eqn:E; [|discriminate].
    destruct fuel as [|f]; [discriminate|]. simpl in E. unfold load_tree in E.
    destruct (lookup BTree r) as [[p b]|] eqn:El.
    - exists p, b. split; [reflexivity|]. apply Hv. eapply Hroot; eauto.
    - inversion E; subst. discriminate.
  Qed.

  Theorem check_clean_implies_restorable_lemma fuel :
    check fuel = Some [] ->
    forall r, In r (st_roots st) -> correct lookup true fuel r = Some true.
  Proof.
    apply check_clean_implies_restorable_gen; [apply lookup_sel_ok|].
    intros i d d' H1 H2 _ _. congruence.
  Qed.

End Proofs.
