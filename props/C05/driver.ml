(* prelude: zn nat *)
(* C05 driver: one line = one abstract repository state as dumped by harness/src/bin/c05.rs
   (dump_state).  Contents are named by the number given to their SHA-256, so hash = identity.
     meta_ok index_ok snap_names_ok npacks { id size hash trailer nsegs { off len 1 n {entry} | off len 0 raw (0 | 1 unz) } }
     nindex { npacks {ipack} ndel {ipack} }   ipack = id (0 | 1 size) time nblobs {entry}
     nroots {id}   ncontents { tok len (0 | 1 nnodes {node}) }
     entry = tree? id off len (0 | 1 ulen)    node = 0 | 1 0 | 1 1 k {id} | 2 0 | 2 1 id *)
let nn t = n_of_int (ni t)
let rd_opt t f = if ni t = 1 then Some (f t) else None
let rd_list t f = let k = ni t in ntimes k (fun () -> f t)
let rd_entry t =
  let ty = if ni t = 1 then BTree else BData in
  let i = nn t in let off = nn t in let len = nn t in
  let ul = rd_opt t nn in
  { ib_type = ty; ib_id = i; ib_off = off; ib_len = len; ib_ulen = ul }
let rd_seg t =
  let off = nn t in let len = nn t in
  let pl = if ni t = 1 then PHeader (rd_list t rd_entry)
    else (let raw = ni t in let unz = rd_opt t ni in PBlob (raw, unz)) in
  { sg_off = off; sg_len = len; sg_pl = pl }
let rd_spack t =
  let i = nn t in let size = nn t in let h = nn t in let tr = nn t in
  let segs = rd_list t rd_seg in
  { sp_id = i; sp_size = size; sp_hash = h; sp_trailer = tr; sp_segs = segs }
let rd_ipack t =
  let i = nn t in let size = rd_opt t nn in let time = ni t = 1 in
  let blobs = rd_list t rd_entry in
  { ip_id = i; ip_blobs = blobs; ip_size = size; ip_time = time }
let rd_ifile t =
  let packs = rd_list t rd_ipack in let del = rd_list t rd_ipack in
  { if_packs = packs; if_del = del }
let rd_node t =
  match ni t with
  | 1 -> NFile (rd_opt t (fun t -> rd_list t nn))
  | 2 -> NDir (rd_opt t nn)
  | _ -> NOther

let err_name = function
  | EMeta -> "Meta" | ESnapName -> "FileHashMismatch" | EPackTimeNotSet -> "PackTimeNotSet" | EBlobTypes -> "PackBlobTypesMismatch"
  | EBlobOffset -> "PackBlobOffsetMismatch" | EPackSizeIndex -> "PackSizeMismatchIndex" | ENoPack -> "NoPack"
  | ETreeLoad -> "ErrorCheckingTrees" | EFileNoContent -> "FileHasNoContent" | EFileBlobNull -> "FileBlobHasNullId"
  | EFileBlobNotInIndex -> "FileBlobNotInIndex" | ENoSubTree -> "NoSubTree" | ENullSubTree -> "NullSubTree"
  | ESubTreeNotInIndex -> "SubTreeMissingInIndex" | EReadPack -> "ErrorReadingPack" | EPackSize -> "PackSizeMismatch"
  | EPackHash -> "PackHashMismatch" | EHdrLen -> "PackHeaderLengthMismatch" | EHdrDecrypt -> "ErrorCheckingPack"
  | EHdrMismatch -> "PackHeaderMismatchIndex" | EBlobDecrypt -> "ErrorCheckingPack" | EBlobUnzipPanic -> "panic"
  | EBlobLength -> "PackBlobLengthMismatch" | EBlobHash -> "PackBlobHashMismatch"

let tri = function None -> "fuel" | Some true -> "1" | Some false -> "0"
let conj l = List.fold_left (fun a b -> match a, b with
  | None, _ | _, None -> None | Some x, Some y -> Some (x && y)) (Some true) l

let run line =
  let t = toks line in
  let meta = ni t = 1 in
  let index_ok = ni t = 1 in
  let snap_ok = ni t = 1 in
  let packs = rd_list t rd_spack in
  let index = rd_list t rd_ifile in
  let roots = rd_list t nn in
  let lens = Hashtbl.create 64 and trees = Hashtbl.create 64 in
  let _ = rd_list t (fun t ->
    let tok = ni t in let l = nn t in
    let tr = rd_opt t (fun t -> rd_list t rd_node) in
    Hashtbl.replace lens tok l; Hashtbl.replace trees tok tr) in
  let hash b = n_of_int b in
  let blen b = try Hashtbl.find lens b with Not_found -> N0 in
  let parse b = try Hashtbl.find trees b with Not_found -> None in
  let st = { st_meta_ok = meta; st_index_ok = index_ok; st_snap_names_ok = snap_ok; st_packs = packs; st_index = index; st_roots = roots } in
  (* an acyclic tree graph is no deeper than the number of tree blobs the index lists *)
  let ntrees = List.fold_left (fun a f -> List.fold_left (fun a p ->
    a + List.length (List.filter (fun b -> b.ib_type = BTree) p.ip_blobs)) a f.if_packs) 0 index in
  let fuel = nat_of_int (ntrees + 2) in
  let chk = match check hash blen parse st fuel with
    | None -> "fuel"
    | Some [] -> "clean"
    | Some es -> "errors:" ^ String.concat "+" (List.sort_uniq compare (List.map err_name es)) in
  (* restore's own index; when it cannot be built (unreadable index file) nothing restores *)
  let sel = rlookup st in
  let opens = restore_opens st in
  let gate = function Some b -> Some (b && opens) | None -> None in
  let rd = conj (List.map (fun r -> readable blen parse st sel fuel r) roots) in
  let co = conj (List.map (fun r -> correct hash blen parse st sel false fuel r) roots) in
  let cs = conj (List.map (fun r -> correct hash blen parse st sel true fuel r) roots) in
  Printf.sprintf "check=%s nodup=%d readable=%s correct=%s strict=%s roots=%d opens=%d" chk
    (if nodup_keys st then 1 else 0) (tri (gate rd)) (tri (gate co)) (tri (gate cs)) (List.length roots)
    (if opens then 1 else 0)

let () = main_loop run
