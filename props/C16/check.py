"""C16 — hot/cold repositories keep the hot copy complete at every moment.
Stages: regenerate Extracted.v from hotcold.rs / backend.rs / repair/hotcold.rs / config.rs;
build + audit the Coq theorems; correspondence of the extracted wrapper model with the real
HotColdBackend (hooked constructor) on op sequences with injected inner failures, state
compared after every inner call; oracle = the property itself on the implementation's states
(hot complete, no data pack in hot, reads equal to a single store); e2e histories on the
public Repository API over hot+cold vs. a single store, with the extracted inv_b evaluated on
every prefix of the recorded inner-call log, a cold store that rejects un-warmed reads, and
hot files removed before `repair hotcold` (model of the repair compared with the result)."""
import os, sys, json, re
import vlib
from vlib import ROOT, REPO, log

FT = ["Config", "Index", "Key", "Snapshot", "Pack"]
SIG_READ_FULL = "read_full-data-pack-reads-hot"
SIG_REPAIR_MISMATCH = "repair-size-mismatch-copies-hot-over-cold"


def run_lines(exe, lines, mode, bdir, timeout=3000):
    path = os.path.join(bdir, "in_%s_%d.txt" % (mode, os.getpid()))
    open(path, "w").write("\n".join(lines) + "\n")
    rc, out, err = vlib.sh2([exe, path, mode], timeout=timeout)
    os.remove(path)
    res = out.splitlines()
    if rc != 0 or len(res) != len(lines):
        raise RuntimeError("%s %s failed rc=%s (%d of %d lines)\n%s" % (exe, mode, rc, len(res), len(lines), err[-2000:]))
    return res


# ------------------------------------------------------------------ op sequences
def kind_of(i):
    return i % 2 == 0          # even pack ids are tree packs


def content_of(ft, i):
    return (1 + (ft * 3 + i) % 6, (ft * 37 + i * 11) % 256)


def gen_ops(rng, maxn):
    """One case.  Returns (tokens, hyp) with hyp = the case satisfies the theorem's hypotheses
    (pack flags follow the pack kind, same id => same bytes)."""
    n = rng.randint(1, rng.choice([3, 8, 20, maxn]))
    pool = rng.choice([2, 4, 8])
    style = rng.random()
    bad_flags = style < 0.12
    bad_content = 0.12 <= style < 0.22
    fail_p = rng.choice([0.0, 0.15, 0.4])
    toks = [n]
    written = []
    for _ in range(n):
        r = rng.random()
        ft = rng.choice([1, 2, 3, 4, 4, 4, 0]) if rng.random() < 0.9 else rng.randint(0, 4)
        i = rng.randint(1, pool)
        if written and rng.random() < 0.6:
            ft, i = rng.choice(written)
        c = 1 if (ft == 4 and kind_of(i)) else 0
        if ft != 4 and rng.random() < 0.2: c = 1
        if bad_flags and ft == 4 and rng.random() < 0.5: c = 1 - c
        def outc():
            if rng.random() < fail_p: return rng.choice([1, 2])
            return 0
        if r < 0.4:
            ln, seed = content_of(ft, i)
            if (bad_content and rng.random() < 0.5) or ft == 0:
                ln, seed = rng.randint(0, 6), rng.randint(0, 255)
            toks += [0, ft, i, c, ln, seed, outc(), outc()]
            written.append((ft, i))
        elif r < 0.6:
            toks += [1, ft, i, c, outc(), outc()]
        elif r < 0.75:
            toks += [2, ft, i]
        elif r < 0.9:
            ln = content_of(ft, i)[0]
            off = rng.randint(0, ln)
            toks += [3, ft, i, c, off, rng.choice([0, 1, ln - off, ln - off + 1, rng.randint(0, ln)])]
        else:
            toks += [4, ft]
    return toks, not (bad_flags or bad_content)


def parse_ops(toks):
    ops, p = [], 1
    for _ in range(toks[0]):
        k = toks[p]
        ln = {0: 8, 1: 6, 2: 3, 3: 6, 4: 2}[k]
        ops.append(toks[p:p + ln]); p += ln
    return ops


def parse_dump(d):
    m = re.fullmatch(r"H\{(.*)\}C\{(.*)\}", d)
    def side(s):
        r = {}
        for e in s.split(","):
            if e:
                f, i, h = e.split(":")
                r[(int(f), int(i))] = h
        return r
    return side(m.group(1)), side(m.group(2))


def hot_type(ft, i):
    return ft in (1, 2, 3) or (ft == 4 and kind_of(i))


def oracle_ops(toks, out):
    """The property on the implementation's behaviour (cases that satisfy the hypotheses).
    Returns list of (what, signature)."""
    bad = []
    ops = parse_ops(toks)
    parts = out.split(" | ")
    if len(parts) != len(ops):
        return [("implementation output malformed: " + out[:200], None)]
    hot, cold = {}, {}
    for op, res in zip(ops, parts):
        k = op[0]
        if k in (0, 1):
            for d in res.split(";")[1:]:
                hot, cold = parse_dump(d)
                for key, h in cold.items():
                    if hot_type(*key) and hot.get(key) != h:
                        bad.append(("after an inner call the cold store holds a %s file but the hot store does not hold the same bytes" % FT[key[0]], None))
                for key in hot:
                    if key[0] == 4 and not kind_of(key[1]):
                        bad.append(("a data pack is in the hot store", None))
        elif k == 2:
            key = (op[1], op[2])
            if key in cold and key[0] != 0:
                want = "some:" + cold[key]
                if res != want:
                    if key[0] == 4 and not kind_of(key[1]):
                        bad.append(("read_full(Pack) of a data pack held by the cold store fails on a healthy hot/cold repository (a single store returns it)", SIG_READ_FULL))
                    else:
                        bad.append(("read_full(%s %d) = %s, single store gives %s" % (FT[key[0]], key[1], res, want), None))
        elif k == 3:
            key = (op[1], op[2])
            if key in cold and key[0] != 0 and (key[0] != 4 or bool(op[3]) == kind_of(key[1])):
                b = bytes.fromhex(cold[key]); off, ln = op[4], op[5]
                want = "some:" + b[off:off + ln].hex() if off + ln <= len(b) else "none"
                if res != want:
                    bad.append(("read_partial(%s %d) = %s, single store gives %s" % (FT[key[0]], key[1], res, want), None))
        else:
            want = "list:" + ",".join("%d=%d" % (i, len(h) // 2) for (f, i), h in sorted(cold.items()) if f == op[1])
            if res != want:
                bad.append(("list_with_size(%s) = %s, cold store alone gives %s" % (FT[op[1]], res, want), None))
    return bad


def run(ctx):
    rng = ctx.rng
    cov = ctx.coverage
    meta, err = vlib.regen_extracted("C16")
    r = vlib.proof_stage(ctx)
    if err:
        r["ok"] = False
        r["failures"].append("fact extraction from hotcold.rs / repair/hotcold.rs / config.rs failed: " + err)
    cov["trusted_base"] += ["props/C16/extract.py (translator of the HotColdBackend method bodies into write_plan/remove_plan/read sides, of ALL_FILE_TYPES, is_cacheable, and of the shape of repair_hotcold/correct_missing_files/get_missing_files/save_config)",
                            "harness MemBe: in-memory WriteBackend with overwrite semantics, remove of a missing file fails, optional rejection of un-warmed reads (same rule as rustic_testing InMemoryBackend::new_cold)"]
    ctx.assumptions += [
        "inner backend calls are atomic: a write_bytes/remove on one store takes effect completely or not at all (it may still report failure after taking effect); torn files inside one store are the subject of C20",
        "content addressing: the same (file type, id) is always written with the same bytes (true for key/snapshot/index/pack files whose id is the SHA-256 of the content; the config file is excluded from the hot-complete statement and is saved separately with the is_hot marker)",
        "the cacheable flag passed for a pack equals the pack's kind (tree pack = cacheable), as packer.rs/prune.rs do",
        "remove of a file that a store does not hold fails (in-memory and local backend behaviour)",
        "warm-up (restore, prune repack, repair index, repair hotcold) is observed on the real commands with a cold store that rejects un-warmed reads; no theorem covers the external commands (partial)",
        "repair theorem: the tree-pack set handed to repair_hotcold_packs (read from the index) equals the set of cacheable packs",
    ]
    try:
        model = vlib.build_model("C16")
    except RuntimeError as e:
        model = None
        if r["ok"]:
            r["ok"] = False; r["failures"].append("extracted model no longer builds: " + str(e)[-500:])
    impl = vlib.build_harness("c16")

    # ---------------- correspondence on op sequences
    ncases = 6000 if ctx.thorough() else 1200
    maxn = 200 if ctx.thorough() else 60
    cases = []
    corpus = os.path.join(ctx.pdir, "corpus.txt")
    if os.path.exists(corpus):
        for ln in open(corpus):
            ln = ln.split("#")[0].strip()
            if ln.startswith("ops "):
                t = [int(x) for x in ln.split()[1:]]
                cases.append((t, True))
    while len(cases) < ncases:
        cases.append(gen_ops(rng, maxn))
    if ctx.replay:
        rp = json.load(open(ctx.replay))
        w = rp.get("witness", {})
        if "case" in w and w.get("mode", "ops") == "ops":
            cases = [([int(x) for x in w["case"].split()], True)]
    lines = [" ".join(map(str, t)) for t, _ in cases]
    impl_out = run_lines(impl, lines, "ops", ctx.bdir)
    mism, viol, hist, nontriv, samples = [], [], {}, set(), []
    model_out = run_lines(model, lines, "ops", ctx.bdir) if model else None
    nhyp = 0
    for idx, ((t, hyp), io) in enumerate(zip(cases, impl_out)):
        ops = parse_ops(t)
        for op in ops:
            nm = ["write", "remove", "read_full", "read_partial", "list"][op[0]]
            hist[nm] = hist.get(nm, 0) + 1
            if op[0] in (0, 1):
                o = tuple(op[-2:])
                hist["outcomes_%d%d" % o] = hist.get("outcomes_%d%d" % o, 0) + 1
        interrupted = any(op[0] in (0, 1) and (op[-2] != 0 or op[-1] != 0) for op in ops)
        if io.strip() == "panic":
            viol.append(("HotColdBackend panics", lines[idx], io, None)); continue
        if model_out is not None and model_out[idx] != io:
            mism.append((lines[idx], io, model_out[idx]))
        if hyp:
            nhyp += 1
            if interrupted and ";" in io: nontriv.add(lines[idx])
            for what, sig in oracle_ops(t, io):
                viol.append((what, lines[idx], io, sig))
        if len(samples) < 3 and 2 <= len(ops) <= 5 and interrupted:
            samples.append({"case": lines[idx], "impl": io, "model": model_out[idx] if model_out else None})
    cov.update({"evaluations": len(cases), "distinct_nontrivial": len(nontriv),
                "rule": "op-sequence cases = up to %d HotColdBackend calls (write_bytes/remove/read_full/read_partial/list_with_size over all five file types, ids from a pool of 2-8 so that overwrites, double removes and reads of missing files occur, pack flag = pack kind except in 12%% of the cases, content determined by the id except in 10%% of the cases) with an outcome (ok / fails without effect / fails after effect) for each of the two inner calls; non-trivial = case satisfying the theorem's hypotheses in which at least one inner call fails and at least one inner call is executed; distinct by full case text" % maxn,
                "samples": samples, "distribution": hist, "cases_within_theorem_hypotheses": nhyp,
                "traces_validated_against_impl": len(cases), "model_impl_mismatches": len(mism)})

    # ---------------- e2e
    e2e_viol, e2e_mism = e2e_stage(ctx, impl, model, cov)
    viol_all = viol + e2e_viol
    cov["oracle_violations"] = len(viol_all)
    cov["disagreements_checked"] = len(mism) + len(e2e_mism) + len(viol_all)

    seen = set()
    for what, case, io, sig in viol_all[:200]:
        if (what, sig) in seen: continue
        seen.add((what, sig))
        ctx.violation(what, {"mode": "e2e" if isinstance(case, dict) else "ops", "case": case, "impl": io if not isinstance(io, str) else io[:3000],
                             "how_to_replay": "echo '<case>' | .cache/target*/debug/c16 - <mode>   (format: harness/src/bin/c16.rs)"}, signature=sig)
    real = [v for v in viol_all if not (v[3] and any(k["signature"] == v[3] and k.get("status", "open") == "open" for k in ctx.known))]
    if (mism or e2e_mism) and not real:
        first = mism[0] if mism else e2e_mism[0]
        ctx.violation("correspondence broken: extracted model of the hot/cold wrapper / repair disagrees with the implementation (%d op-sequence cases, %d e2e cases) although the property holds on every observed state" % (len(mism), len(e2e_mism)),
                      {"correspondence": "props/C16 Model.step_op/hc_read_*/hc_list/repair_all vs HotColdBackend / repair_hotcold*", "first": {"case": first[0], "impl": str(first[1])[:3000], "model": str(first[2])[:3000]}}, no_input=True)
    vlib.finish_broken_obligations(ctx)


def gen_e2e(rng, long):
    seed = rng.randint(1, 2 ** 31)
    rejects = 1 if rng.random() < 0.85 else 0
    shape = rng.random()
    if shape < 0.25:
        # a tree pack that prune only MARKED for deletion (index section packs_to_delete) stays in both stores
        a, b = rng.sample(range(6), 2)
        steps = [[0, a], [0, b], [1, 0], [2, 2]]
        for _ in range(rng.randint(0, 3)):
            steps.append(rng.choice([[4], [5], [0, rng.randint(0, 5)], [3, rng.choice([1, 5])]]))
    else:
        steps = [[0, rng.randint(0, 3)]]
        n = rng.randint(3, 12 if long else 8)
        for _ in range(n):
            r = rng.random()
            if r < 0.3: steps.append([0, rng.randint(0, 5)])
            elif r < 0.45: steps.append([1, rng.randint(0, 7)])
            elif r < 0.62: steps.append([2, rng.choice([0, 0, 1, 1, 2]) + 3 * rng.choice([0, 1])])
            elif r < 0.72: steps.append([3, rng.choice([0, 1, 3, 5, 9])])
            elif r < 0.8: steps.append([4])
            elif r < 0.92: steps.append([5])
            elif r < 0.97: steps.append([6])
            else: steps.append([7])
        if rng.random() < 0.7:   # make sure repacking happens: forget an old snapshot, prune, restore
            steps += [[1, 0], [2, rng.choice([0, 1, 2]) + 3 * rng.choice([0, 1, 1])], [5]]
    dmg_p = rng.choice([0, 200, 500, 1000, 1000])
    dmg_cfg = 1 if rng.random() < 0.4 else 0
    trunc = 1 if rng.random() < 0.5 else 0
    fail_at = rng.randint(4, 70) if rng.random() < 0.3 else 0
    # how the cold store is warmed up: 0 its own warm_up call, 1 by access (RepositoryOptions::warm_up),
    # 2 by command (RepositoryOptions::warm_up_command)
    wmode = rng.choice([0, 1, 1, 2]) if rejects else 0
    toks = [seed, rejects, len(steps)]
    for s in steps: toks += s
    toks += [dmg_p, dmg_cfg, trunc, fail_at, wmode]
    return " ".join(map(str, toks))


def cut_log(logline, n):
    t = logline.split()
    nt = int(t[0])
    total = int(t[1 + nt])
    n = min(n, total)
    return " ".join(t[:1 + nt] + [str(n)] + t[2 + nt:2 + nt + 7 * n])


def run_parallel(exe, lines, mode, bdir, nproc):
    """Run the cases on several processes (one case file each); results in input order."""
    import subprocess
    chunks = [lines[i::nproc] for i in range(nproc)]
    procs = []
    for ci, ch in enumerate(chunks):
        if not ch: procs.append(None); continue
        path = os.path.join(bdir, "in_%s_%d_%d.txt" % (mode, os.getpid(), ci))
        open(path, "w").write("\n".join(ch) + "\n")
        procs.append((path, subprocess.Popen([exe, path, mode], stdout=subprocess.PIPE, stderr=subprocess.DEVNULL, text=True)))
    outs = []
    for pr, ch in zip(procs, chunks):
        if pr is None: outs.append([]); continue
        path, p = pr
        try:
            o, _ = p.communicate(timeout=3000)
        except Exception:
            p.kill(); o = ""
        os.remove(path)
        res = o.splitlines()
        if len(res) != len(ch):
            raise RuntimeError("%s %s: %d of %d result lines" % (exe, mode, len(res), len(ch)))
        outs.append(res)
    res = [None] * len(lines)
    for ci, o in enumerate(outs):
        for j, x in enumerate(o):
            res[ci + j * nproc] = x
    return res


def e2e_stage(ctx, impl, model, cov):
    rng = ctx.rng
    n = 120 if ctx.thorough() else 24
    cases = []
    corpus = os.path.join(ctx.pdir, "corpus.txt")
    if os.path.exists(corpus):
        for ln in open(corpus):
            ln = ln.split("#")[0].strip()
            if ln.startswith("e2e "): cases.append(ln[4:].strip())
    while len(cases) < n:
        cases.append(gen_e2e(rng, ctx.thorough()))
    if ctx.replay:
        w = json.load(open(ctx.replay)).get("witness", {})
        if w.get("mode") == "e2e" and isinstance(w.get("case"), dict):
            cases = [w["case"]["line"]]
        elif w.get("mode") == "ops":
            cases = []
    outs = run_parallel(impl, cases, "e2e", ctx.bdir, min(8, vlib.NCPU)) if cases else []
    viol, mism = [], []
    hist = {"steps": 0, "with_fault": 0, "with_truncation": 0, "cold_rejects_unwarmed": 0, "hot_files_removed": 0,
            "cold_pack_reads": 0, "warm_up_calls": 0, "inner_calls_logged": 0, "prefixes_checked_by_inv_b": 0,
            "histories_compared_with_single_store": 0}
    step_names = ["backup", "forget", "prune", "config", "check", "restore", "repair_index", "check_read_data"]
    log_lines, rep_lines, parsed = [], [], []
    for line, o in zip(cases, outs):
        if not o.startswith("{"):
            viol.append(("e2e run panicked or produced no result", {"line": line}, o, None)); parsed.append(None); continue
        d = json.loads(o)
        parsed.append(d)
        log_lines.append(cut_log(d["log"], d["hist_len"]))
        log_lines.append(d["log"])
        rep_lines.append(d["repair_in"])
    lo = run_lines(model, log_lines, "log", ctx.bdir) if (model and log_lines) else []
    ro = run_lines(model, rep_lines, "repair", ctx.bdir) if (model and rep_lines) else []
    k = 0
    e2e_samples = []
    warm_stats, warm_lines, warm_where = {}, [], []
    for line, d in zip(cases, parsed):
        if d is None: continue
        t = [int(x) for x in line.split()]
        nst = t[2]; p = 3
        for _ in range(nst): p += 2 if t[p] <= 3 else 1
        trunc, fail_at = t[p + 2], t[p + 3]
        wmode = t[p + 4] if len(t) > p + 4 else 0
        rejects = t[1]
        hist["warm_up_mode_%d" % wmode] = hist.get("warm_up_mode_%d" % wmode, 0) + (1 if rejects else 0)
        if any(st["step"][0] == 2 and st["step"][1] % 3 == 2 for st in d["steps"]): hist["histories_with_mark_only_prune"] = hist.get("histories_with_mark_only_prune", 0) + 1
        case = {"line": line}
        faulted = fail_at and fail_at <= d["hist_len"]
        hist["with_fault"] += 1 if faulted else 0
        hist["with_truncation"] += 1 if d["truncated"] else 0
        hist["cold_rejects_unwarmed"] += rejects
        hist["hot_files_removed"] += d["removed_hot"]
        hist["cold_pack_reads"] += d["cold_pack_reads"]
        hist["warm_up_calls"] += d["warm_up_calls"]
        hist["inner_calls_logged"] += int(d["log"].split()[1 + int(d["log"].split()[0])])
        if d["init_hc"] != "ok" or d["init_single"] != "ok":
            viol.append(("init fails", case, d, None))
        # results vs. single store (until an injected fault makes the histories differ)
        diverged = False
        for si, (s, mark) in enumerate(zip(d["steps"], d["marks"])):
            nm = step_names[s["step"][0]]
            hist["steps"] += 1
            hist["step_" + nm] = hist.get("step_" + nm, 0) + 1
            if faulted and mark >= fail_at: diverged = True
            if diverged: continue
            if nm == "check_read_data":
                m = re.match(r"ok (clean|errors) data_read_full_fail=(\d+)/(\d+) tree_read_full_fail=(\d+)/(\d+)$", s["hc"])
                if s["single"] != "ok clean" or not m:
                    viol.append(("check --read-data fails on the single-store repository or gives no result", case, {"step_index": si, "step": s}, None))
                elif m.group(1) == "errors" or int(m.group(2)) or int(m.group(4)):
                    # the known defect: every data pack fails, no tree pack fails, nothing else is wrong
                    sig = SIG_READ_FULL if (m.group(2) == m.group(3) and int(m.group(3)) > 0 and int(m.group(4)) == 0) else None
                    viol.append(("check --read-data reports errors on a healthy hot/cold repository (clean on the single store): read_full(Pack) fails for %s of %s data packs and %s of %s tree packs" % (m.group(2), m.group(3), m.group(4), m.group(5)) if not sig else
                                 "read_full(Pack) of a data pack held by the cold store fails on a healthy hot/cold repository (a single store returns it)", case, {"step_index": si, "step": s}, sig))
                continue
            if s["hc"] != s["single"] or s["obs_hc"] != s["obs_single"]:
                viol.append(("%s on the hot/cold repository gives a different result than on the single-store repository" % nm,
                             case, {"step_index": si, "step": s}, None))
            elif s["hc"].startswith("err"):
                viol.append(("%s fails (on both repositories)" % nm, case, {"step_index": si, "step": s}, None))
            elif nm == "check" and s["hc"] != "ok clean":
                viol.append(("check reports errors on a healthy hot/cold repository", case, {"step_index": si, "step": s}, None))
            elif nm == "restore" and s["hc"] not in ("ok same=true", "ok none"):
                viol.append(("restore from the hot/cold repository differs from the source", case, {"step_index": si, "step": s}, None))
        if not faulted: hist["histories_compared_with_single_store"] += 1
        # wmode 1 warms up BY a rejected access, so rejected reads are the mechanism there; the oracle for it is
        # that every command succeeds (results equal to the single store, repair restores the hot store)
        if rejects and wmode != 1 and (d["unwarmed_reads_history"] or d["unwarmed_reads_repair"]):
            viol.append(("a command read a cold file without warming it up first (the cold store rejected %d reads)" % (d["unwarmed_reads_history"] + d["unwarmed_reads_repair"]), case, d["steps"], None))
        # per command: the packs warmed (W) vs. the packs read from the cold store (R), and the ordered list of
        # what reached the cold store, to be judged by the extracted disciplined_from / cold_run
        if rejects:
            cmds = [(step_names[st["step"][0]], st["cold"]) for st in d["steps"]] + [("repair_hotcold", d["repair_cold"])]
            for nm, cold in cmds:
                ev = cold["ev"]
                R = {i for (kd, ft, i, sv) in ev if kd == 1 and ft == 4}
                W = set(cold["listed"]) if wmode == 2 else {i for (kd, ft, i, sv) in ev if kd in (0, 2) and ft == 4}
                ws = warm_stats.setdefault(nm, {"commands": 0, "commands_reading_cold_packs": 0, "packs_warmed": 0, "cold_packs_read": 0, "cold_reads_of_other_files": 0})
                ws["commands"] += 1; ws["commands_reading_cold_packs"] += 1 if R else 0
                ws["packs_warmed"] += len(W); ws["cold_packs_read"] += len(R)
                ws["cold_reads_of_other_files"] += len({(ft, i) for (kd, ft, i, sv) in ev if kd == 1 and ft != 4})
                if not R <= W:
                    viol.append(("%s reads packs from the cold store that it did not warm up first (R is not a subset of W)" % nm, case,
                                 {"command": nm, "packs_read_from_cold": sorted(R), "packs_warmed": sorted(W), "not_warmed": sorted(R - W), "warm_up_mode": wmode}, None))
                if wmode != 2 and ev:
                    warm_lines.append("%d %d %s" % (wmode, len(ev), " ".join("%d %d %d %d" % tuple(e) for e in ev)))
                    warm_where.append((line, nm))
        if model:
            h, full = lo[k], lo[k + 1]; rmodel = ro[k // 2]; k += 2
            hist["prefixes_checked_by_inv_b"] += d["hist_len"]
            if not h.startswith("ok"):
                viol.append(("hot store incomplete after inner call #%s of the history (extracted inv_b false on that prefix of the op log)" % h.split()[1], case, {"log": cut_log(d["log"], d["hist_len"]), "model": h}, None))
            elif "ca=1" not in h:
                mism.append((line, "the history writes one id with two contents (outside the theorem's hypothesis)", h))
            # after an injected failure the hot store may hold files of the aborted command that the cold
            # store never got; the repair copies them to cold (documented: "copies missing files from one to
            # the other part"), so `check` may then report them - not part of the property
            chk_ok = d["repair"] == "ok clean" or (faulted and d["repair"].startswith("ok errors"))
            # packs of an aborted command that no index names cannot be recognised as tree packs by
            # repair_hotcold_packs (hypothesis tp = kind of repair_restores_hot); only possible after a fault
            # tree packs the index files name (any section), read by the harness itself from the index files
            named = sorted({i for (sec, i, tree) in d["index_entries"] if tree})
            marked = sorted({i for (sec, i, tree) in d["index_entries"] if tree and sec == 1})
            if marked: hist["repairs_with_marked_tree_packs"] = hist.get("repairs_with_marked_tree_packs", 0) + 1
            if d["index_read"] and sorted(d["tp_index"]) != named:
                viol.append(("get_tree_packs (the packs repair_hotcold_packs treats as relevant) differs from the tree packs the index files name in `packs` and `packs_to_delete`: a tree pack listed by the cold store (e.g. one that prune only marked for deletion) is not recreated in the hot store",
                             case, {"get_tree_packs": sorted(d["tp_index"]), "tree_packs_named_by_index_files": named, "of_which_marked_for_deletion": marked,
                                    **{k2: d[k2] for k2 in ("index_entries", "state_before_repair", "state_after_repair")}}, None))
            orphans = sorted(set(d["tp_flags"]) - set(named))
            if orphans: hist["faulted_cases_with_unindexed_tree_packs"] = hist.get("faulted_cases_with_unindexed_tree_packs", 0) + 1
            final_ok = "final=1" in full or (faulted and orphans)
            if not faulted and d["index_read"] and set(d["tp_flags"]) - set(named):
                mism.append((line, "tree packs (cacheable flag) held by cold %s" % d["tp_flags"], "tree packs named by the index files %s" % named))
            rep_ok = chk_ok and not d["cold_changed"] and final_ok
            if not rep_ok:
                sig = SIG_REPAIR_MISMATCH if (d["truncated"] and d["cold_changed"]) else None
                wm = ["", " [cold store rejecting un-warmed reads of every file type, warm-up by access: RepositoryOptions::warm_up(true)]",
                      " [cold store rejecting un-warmed reads of every file type, warm-up by command: RepositoryOptions::warm_up_command]"][wmode if rejects else 0]
                what = ("repair hotcold copies an incomplete hot file over the intact cold file" if sig else
                        "after removing hot files, open_only_cold + init_hot + repair hotcold (+ check) does not restore a complete hot store%s (repair: %s, cold files changed: %s, inv_b: %s)" % (wm, d["repair"][:80], d["cold_changed"], full.split()[-1]))
                viol.append((what, case, {k2: d[k2] for k2 in ("repair", "cold_changed", "state_before_repair", "state_after_repair", "truncated", "removed_hot")}, sig))
            if rmodel != d["state_after_repair"]:
                mism.append((line, d["state_after_repair"], rmodel))
        if len(e2e_samples) < 2:
            e2e_samples.append({"case": line, "steps": [(s["step"], s["hc"]) for s in d["steps"]], "repair": d["repair"], "removed_hot": d["removed_hot"], "truncated": d["truncated"]})
    # the recorded cold-store event lists against the extracted model: discipline (every read preceded by a warm-up
    # of that file, per command) and the served / rejected flag of every read as cold_run predicts it
    if model and warm_lines:
        wo = run_lines(model, warm_lines, "warm", ctx.bdir)
        for (line, nm), l, o in zip(warm_where, warm_lines, wo):
            if "disc=1" not in o:
                viol.append(("%s: a file is read from the cold store before / without a warm-up request for it (extracted disciplined_from false on the recorded event list)" % nm,
                             {"line": line}, {"command": nm, "events(mode n (kind ft id served)*)": l, "model": o}, None))
            elif "acc=1" not in o:
                mism.append((line, "%s: served/rejected flags of the cold reads: %s" % (nm, l), o))
    hist["warm_event_lists_checked"] = len(warm_lines)
    cov["warm_up_per_command"] = warm_stats
    cov["e2e"] = {"cases": len(cases), "distribution": hist, "samples": e2e_samples, "model_impl_mismatches": len(mism),
                  "rule": "e2e case = history of 4-15 commands (backup of one of 6 overlapping source variants, forget, prune instant/two-phase with max-unused 0 so that packs are repacked, config change, check, restore + comparison with the source, repair index --read-all) run on hot+cold (every inner mutating call logged, cold store rejects un-warmed reads in 85% of the cases, the warm set is cleared before every command, 30% of the cases with one injected inner failure) and on a single store; then each hot file removed with probability 0/0.2/0.5/1, hot config removed in 40%, one remaining hot file cut to half in 50%, then open_only_cold + init_hot + repair_hotcold_except_packs + repair_hotcold_packs + check"}
    cov["evaluations"] = cov.get("evaluations", 0) + len(cases)
    cov["traces_validated_against_impl"] = cov.get("traces_validated_against_impl", 0) + len(cases)
    return viol, mism
