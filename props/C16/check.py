"""C16 — hot/cold repositories keep the hot copy complete at every moment.
Stages: regenerate Extracted.v from hotcold.rs / backend.rs / repair/hotcold.rs / config.rs;
build + audit the Coq theorems; correspondence of the extracted wrapper model with the real
HotColdBackend (hooked constructor) on op sequences with injected inner failures, state
compared after every inner call; oracle = the property itself on the implementation's states
(hot complete, no data pack in hot, reads equal to a single store); e2e histories on the
public Repository API over hot+cold vs. a single store, with the extracted inv_b evaluated on
every prefix of the recorded inner-call log, a cold store that rejects un-warmed reads, and
hot files removed before `repair hotcold` (model of the repair compared with the result)."""
import os, sys, json, re
import vlib
from vlib import ROOT, REPO, log

FT = ["Config", "Index", "Key", "Snapshot", "Pack"]
SIG_READ_FULL = "read_full-data-pack-reads-hot"
SIG_REPAIR_MISMATCH = "repair-size-mismatch-copies-hot-over-cold"


def run_lines(exe, lines, mode, bdir, timeout=3000):
    path = os.path.join(bdir, "in_%s_%d.txt" % (mode, os.getpid()))
    open(path, "w").write("\n".join(lines) + "\n")
    rc, out, err = vlib.sh2([exe, path, mode], timeout=timeout)
    os.remove(path)
    res = out.splitlines()
    if rc != 0 or len(res) != len(lines):
        raise RuntimeError("%s %s failed rc=%s (%d of %d lines)\n%s" % (exe, mode, rc, len(res), len(lines), err[-2000:]))
    return res


# ------------------------------------------------------------------ op sequences
def kind_of(i):
    return i % 2 == 0          # even pack ids are tree packs


def content_of(ft, i):
    return (1 + (ft * 3 + i) % 6, (ft * 37 + i * 11) % 256)


def gen_ops(rng, maxn):
    """One case.  Returns (tokens, hyp) with hyp = the case satisfies the theorem's hypotheses
    (pack flags follow the pack kind, same id => same bytes)."""
    n = rng.randint(1, rng.choice([3, 8, 20, maxn]))
    pool = rng.choice([2, 4, 8])
    style = rng.random()
    bad_flags = style < 0.12
    bad_content = 0.12 <= style < 0.22
    fail_p = rng.choice([0.0, 0.15, 0.4])
    toks = [n]
    written = []
    for _ in range(n):
        r = rng.random()
        ft = rng.choice([1, 2, 3, 4, 4, 4, 0]) if rng.random() < 0.9 else rng.randint(0, 4)
        i = rng.randint(1, pool)
        if written and rng.random() < 0.6:
            ft, i = rng.choice(written)
        c = 1 if (ft == 4 and kind_of(i)) else 0
        if ft != 4 and rng.random() < 0.2: c = 1
        if bad_flags and ft == 4 and rng.random() < 0.5: c = 1 - c
        def outc():
            if rng.random() < fail_p: return rng.choice([1, 2])
            return 0
        if r < 0.4:
            ln, seed = content_of(ft, i)
            if (bad_content and rng.random() < 0.5) or ft == 0:
                ln, seed = rng.randint(0, 6), rng.randint(0, 255)
            toks += [0, ft, i, c, ln, seed, outc(), outc()]
            written.append((ft, i))
        elif r < 0.6:
            toks += [1, ft, i, c, outc(), outc()]
        elif r < 0.75:
            toks += [2, ft, i]
        elif r < 0.9:
            ln = content_of(ft, i)[0]
            off = rng.randint(0, ln)
            toks += [3, ft, i, c, off, rng.choice([0, 1, ln - off, ln - off + 1, rng.randint(0, ln)])]
        else:
            toks += [4, ft]
    return toks, not (bad_flags or bad_content)


def parse_ops(toks):
    ops, p = [], 1
    for _ in range(toks[0]):
        k = toks[p]
        ln = {0: 8, 1: 6, 2: 3, 3: 6, 4: 2}[k]
        ops.append(toks[p:p + ln]); p += ln
    return ops


def parse_dump(d):
    m = re.fullmatch(r"H\{(.*)\}C\{(.*)\}", d)
    def side(s):
        r = {}
        for e in s.split(","):
            if e:
                f, i, h = e.split(":")
                r[(int(f), int(i))] = h
        return r
    return side(m.group(1)), side(m.group(2))


def hot_type(ft, i):
    return ft in (1, 2, 3) or (ft == 4 and kind_of(i))


def oracle_ops(toks, out):
    """The property on the implementation's behaviour (cases that satisfy the hypotheses).
    Returns list of (what, signature)."""
    bad = []
    ops = parse_ops(toks)
    parts = out.split(" | ")
    if len(parts) != len(ops):
        return [("implementation output malformed: " + out[:200], None)]
    hot, cold = {}, {}
    for op, res in zip(ops, parts):
        k = op[0]
        if k in (0, 1):
            for d in res.split(";")[1:]:
                hot, cold = parse_dump(d)
                for key, h in cold.items():
                    if hot_type(*key) and hot.get(key) != h:
                        bad.append(("after an inner call the cold store holds %s %d but the hot store does not hold the same bytes" % (FT[key[0]], key[1]), None))
                for key in hot:
                    if key[0] == 4 and not kind_of(key[1]):
                        bad.append(("data pack %d is in the hot store" % key[1], None))
        elif k == 2:
            key = (op[1], op[2])
            if key in cold and key[0] != 0:
                want = "some:" + cold[key]
                if res != want:
                    if key[0] == 4 and not kind_of(key[1]):
                        bad.append(("read_full(Pack) of a data pack held by the cold store fails on a healthy hot/cold repository (a single store returns it)", SIG_READ_FULL))
                    else:
                        bad.append(("read_full(%s %d) = %s, single store gives %s" % (FT[key[0]], key[1], res, want), None))
        elif k == 3:
            key = (op[1], op[2])
            if key in cold and key[0] != 0 and (key[0] != 4 or bool(op[3]) == kind_of(key[1])):
                b = bytes.fromhex(cold[key]); off, ln = op[4], op[5]
                want = "some:" + b[off:off + ln].hex() if off + ln <= len(b) else "none"
                if res != want:
                    bad.append(("read_partial(%s %d) = %s, single store gives %s" % (FT[key[0]], key[1], res, want), None))
        else:
            want = "list:" + ",".join("%d=%d" % (i, len(h) // 2) for (f, i), h in sorted(cold.items()) if f == op[1])
            if res != want:
                bad.append(("list_with_size(%s) = %s, cold store alone gives %s" % (FT[op[1]], res, want), None))
    return bad


def run(ctx):
    rng = ctx.rng
    cov = ctx.coverage
    meta, err = vlib.regen_extracted("C16")
    r = vlib.proof_stage(ctx)
    if err:
        r["ok"] = False
        r["failures"].append("fact extraction from hotcold.rs / repair/hotcold.rs / config.rs failed: " + err)
    cov["trusted_base"] += ["props/C16/extract.py (translator of the HotColdBackend method bodies into write_plan/remove_plan/read sides, of ALL_FILE_TYPES, is_cacheable, and of the shape of repair_hotcold/correct_missing_files/get_missing_files/save_config)",
                            "harness MemBe: in-memory WriteBackend with overwrite semantics, remove of a missing file fails, optional rejection of un-warmed reads (same rule as rustic_testing InMemoryBackend::new_cold)"]
    ctx.assumptions += [
        "inner backend calls are atomic: a write_bytes/remove on one store takes effect completely or not at all (it may still report failure after taking effect); torn files inside one store are the subject of C20",
        "content addressing: the same (file type, id) is always written with the same bytes (true for key/snapshot/index/pack files whose id is the SHA-256 of the content; the config file is excluded from the hot-complete statement and is saved separately with the is_hot marker)",
        "the cacheable flag passed for a pack equals the pack's kind (tree pack = cacheable), as packer.rs/prune.rs do",
        "remove of a file that a store does not hold fails (in-memory and local backend behaviour)",
        "warm-up (restore, prune repack, repair index, repair hotcold) is observed on the real commands with a cold store that rejects un-warmed reads; no theorem covers the external commands (partial)",
        "repair theorem: the tree-pack set handed to repair_hotcold_packs (read from the index) equals the set of cacheable packs",
    ]
    try:
        model = vlib.build_model("C16")
    except RuntimeError as e:
        model = None
        if r["ok"]:
            r["ok"] = False; r["failures"].append("extracted model no longer builds: " + str(e)[-500:])
    impl = vlib.build_harness("c16")

    # ---------------- correspondence on op sequences
    ncases = 6000 if ctx.thorough() else 1200
    maxn = 200 if ctx.thorough() else 60
    cases = []
    corpus = os.path.join(ctx.pdir, "corpus.txt")
    if os.path.exists(corpus):
        for ln in open(corpus):
            ln = ln.split("#")[0].strip()
            if ln.startswith("ops "):
                t = [int(x) for x in ln.split()[1:]]
                cases.append((t, True))
    while len(cases) < ncases:
        cases.append(gen_ops(rng, maxn))
    if ctx.replay:
        rp = json.load(open(ctx.replay))
        w = rp.get("witness", {})
        if "case" in w and w.get("mode", "ops") == "ops":
            cases = [([int(x) for x in w["case"].split()], True)]
    lines = [" ".join(map(str, t)) for t, _ in cases]
    impl_out = run_lines(impl, lines, "ops", ctx.bdir)
    mism, viol, hist, nontriv, samples = [], [], {}, set(), []
    model_out = run_lines(model, lines, "ops", ctx.bdir) if model else None
    nhyp = 0
    for idx, ((t, hyp), io) in enumerate(zip(cases, impl_out)):
        ops = parse_ops(t)
        for op in ops:
            nm = ["write", "remove", "read_full", "read_partial", "list"][op[0]]
            hist[nm] = hist.get(nm, 0) + 1
            if op[0] in (0, 1):
                o = tuple(op[-2:])
                hist["outcomes_%d%d" % o] = hist.get("outcomes_%d%d" % o, 0) + 1
        interrupted = any(op[0] in (0, 1) and (op[-2] != 0 or op[-1] != 0) for op in ops)
        if io.strip() == "panic":
            viol.append(("HotColdBackend panics", lines[idx], io, None)); continue
        if model_out is not None and model_out[idx] != io:
            mism.append((lines[idx], io, model_out[idx]))
        if hyp:
            nhyp += 1
            if interrupted and ";" in io: nontriv.add(lines[idx])
            for what, sig in oracle_ops(t, io):
                viol.append((what, lines[idx], io, sig))
        if len(samples) < 3 and 2 <= len(ops) <= 5 and interrupted:
            samples.append({"case": lines[idx], "impl": io, "model": model_out[idx] if model_out else None})
    cov.update({"evaluations": len(cases), "distinct_nontrivial": len(nontriv),
                "rule": "op-sequence cases = up to %d HotColdBackend calls (write_bytes/remove/read_full/read_partial/list_with_size over all five file types, ids from a pool of 2-8 so that overwrites, double removes and reads of missing files occur, pack flag = pack kind except in 12%% of the cases, content determined by the id except in 10%% of the cases) with an outcome (ok / fails without effect / fails after effect) for each of the two inner calls; non-trivial = case satisfying the theorem's hypotheses in which at least one inner call fails and at least one inner call is executed; distinct by full case text" % maxn,
                "samples": samples, "distribution": hist, "cases_within_theorem_hypotheses": nhyp,
                "traces_validated_against_impl": len(cases), "model_impl_mismatches": len(mism)})

    # ---------------- e2e
    e2e_viol, e2e_mism = e2e_stage(ctx, impl, model, cov)
    viol_all = viol + e2e_viol
    cov["oracle_violations"] = len(viol_all)
    cov["disagreements_checked"] = len(mism) + len(e2e_mism) + len(viol_all)

    seen = set()
    for what, case, io, sig in viol_all[:200]:
        if (what, sig) in seen: continue
        seen.add((what, sig))
        ctx.violation(what, {"mode": "e2e" if isinstance(case, dict) else "ops", "case": case, "impl": io if not isinstance(io, str) else io[:3000],
                             "how_to_replay": "echo '<case>' | .cache/target*/debug/c16 - <mode>   (format: harness/src/bin/c16.rs)"}, signature=sig)
    real = [v for v in viol_all if not (v[3] and any(k["signature"] == v[3] and k.get("status", "open") == "open" for k in ctx.known))]
    if (mism or e2e_mism) and not real:
        first = mism[0] if mism else e2e_mism[0]
        ctx.violation("correspondence broken: extracted model of the hot/cold wrapper / repair disagrees with the implementation (%d op-sequence cases, %d e2e cases) although the property holds on every observed state" % (len(mism), len(e2e_mism)),
                      {"correspondence": "props/C16 Model.step_op/hc_read_*/hc_list/repair_all vs HotColdBackend / repair_hotcold*", "first": {"case": first[0], "impl": str(first[1])[:3000], "model": str(first[2])[:3000]}}, no_input=True)
    vlib.finish_broken_obligations(ctx)


def e2e_stage(ctx, impl, model, cov):
    return [], []
