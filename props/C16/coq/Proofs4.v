(* C16 — the executable checker inv_b (used as the oracle on recorded op logs) decides the
   property on well-formed stores; stores built by inner calls from the empty state are
   well formed. *)
From Verif.Base Require Import Tactics.
From Verif.C16 Require Import ModelBase Extracted Model Proofs.
Local Open Scope N_scope.

Definition wf (s : store) : Prop := NoDup (map fst s).

Lemma bytes_eqb_eq a b : bytes_eqb a b = true <-> a = b.
Proof.
  unfold bytes_eqb. revert b. induction a as [|x a IH]; intros [|y b]; cbn; split; intro H; try reflexivity; try discriminate.
  - apply andb_true_iff in H. destruct H as [Hl H]. apply andb_true_iff in H. destruct H as [Hx H].
    apply N.eqb_eq in Hx. subst y. f_equal. apply IH. rewrite Hl. exact H.
  - inv H. rewrite Nat.eqb_refl, N.eqb_refl. cbn.
    pose proof (proj2 (IH b) eq_refl) as H. apply andb_true_iff in H. exact (proj2 H).
Qed.

Lemma get_In k v s : get k s = Some v -> In (k, v) s.
Proof.
  induction s as [|[k' v'] r IH]; cbn; [discriminate|].
  destruct (key_eqb k k') eqn:E.
  - intro H. inv H. apply key_eqb_eq in E. subst. left. reflexivity.
  - intro H. right. apply IH. exact H.
Qed.

Lemma In_get k v s : wf s -> In (k, v) s -> get k s = Some v.
Proof.
  unfold wf. induction s as [|[k' v'] r IH]; cbn; [contradiction|].
  intros Hnd [H|H].
  - inv H. rewrite key_eqb_refl. reflexivity.
  - inv Hnd. destruct (key_eqb k k') eqn:E.
    + apply key_eqb_eq in E. subst k'. exfalso. apply H2. apply (in_map fst) in H. exact H.
    + apply IH; assumption.
Qed.

Lemma inv_b_sound kind x : inv_b kind x = true -> HotComplete kind x.
Proof.
  unfold inv_b. intro H. apply andb_true_iff in H. destruct H as [H1 H2].
  rewrite forallb_forall in H1, H2. split.
  - intros k b Hk G. apply get_In in G. specialize (H1 _ G). cbn [fst snd] in H1. rewrite Hk in H1.
    destruct (get k (hot x)) as [b'|]; [|discriminate]. apply bytes_eqb_eq in H1. subst. reflexivity.
  - intros i Hi. destruct (get (Pack, i) (hot x)) as [v|] eqn:G; [|reflexivity].
    apply get_In in G. specialize (H2 _ G). cbn in H2. congruence.
Qed.

Lemma inv_b_complete kind x : wf (cold x) -> HotComplete kind x -> inv_b kind x = true.
Proof.
  intros Hwf [H1 H2]. unfold inv_b. apply andb_true_iff. split; apply forallb_forall.
  - intros [k v] Hin. cbn [fst snd]. destruct (hot_type kind k) eqn:Hk; [|reflexivity].
    rewrite (H1 k v Hk (In_get k v _ Hwf Hin)). apply bytes_eqb_eq. reflexivity.
  - intros [[ft i] v] Hin. cbn [fst snd]. destruct ft; try reflexivity.
    destruct (kind i) eqn:Hi; [reflexivity|].
    specialize (H2 i Hi). destruct (get (Pack, i) (hot x)) eqn:G; [discriminate|].
    exfalso. clear - Hin G. induction (hot x) as [|[k' v'] r IH]; [contradiction|].
    cbn in G. destruct (key_eqb (Pack, i) k') eqn:E; [discriminate|].
    destruct Hin as [Hin|Hin]; [inv Hin; rewrite key_eqb_refl in E; discriminate | exact (IH G Hin)].
Qed.

Transparent put del.
Lemma wf_del k s : wf s -> wf (del k s).
Proof.
  unfold wf, del. induction s as [|[k' v] r IH]; cbn; [auto|].
  intro H. inv H. destruct (negb (key_eqb k k')); cbn; [|apply IH; assumption].
  constructor; [|apply IH; assumption].
  intro Hin. apply H2. apply in_map_iff in Hin. destruct Hin as [[k2 v2] [E Hin]]. cbn in E. subst k2.
  apply filter_In in Hin. destruct Hin as [Hin _]. apply (in_map fst) in Hin. exact Hin.
Qed.

Lemma wf_put k v s : wf s -> wf (put k v s).
Proof.
  intro H. unfold put, wf. cbn. constructor; [|apply wf_del; exact H].
  intro Hin. apply in_map_iff in Hin. destruct Hin as [[k2 v2] [E Hin]]. cbn in E. subst k2.
  unfold del in Hin. apply filter_In in Hin. destruct Hin as [_ Hn]. cbn in Hn. rewrite key_eqb_refl in Hn. discriminate.
Qed.
Opaque put del.

Definition wf_st (x : st) : Prop := wf (hot x) /\ wf (cold x).

Lemma wf_inner c o x : wf_st x -> wf_st (fst (inner c o x)).
Proof.
  intros [Hh Hc]. unfold wf_st. destruct c as [s k b | s k]; cbn [inner].
  - destruct o, s; cbn [fst set_side side_store hot cold]; split; auto using wf_put.
  - destruct (has k (side_store s x)); [|cbn [fst]; split; assumption].
    destruct o, s; cbn [fst set_side side_store hot cold]; split; auto using wf_del.
Qed.

(* what the log replay of the driver computes *)
Definition replay (l : list (icall * outcome)) (x : st) : st := fold_left (fun x co => fst (inner (fst co) (snd co) x)) l x.

Lemma wf_replay l : forall x, wf_st x -> wf_st (replay l x).
Proof. induction l as [|[c o] r IH]; intros x H; [exact H|]. cbn. apply IH. apply wf_inner. exact H. Qed.

Lemma inv_b_decides_on_replay_lemma kind l :
  inv_b kind (replay l empty_st) = true <-> HotComplete kind (replay l empty_st).
Proof.
  split; [apply inv_b_sound|]. apply inv_b_complete.
  apply (wf_replay l empty_st). split; constructor.
Qed.
