(* C16 — lemmas: stores, the hot-complete invariant over micro-steps, refinement. *)
From Verif.Base Require Import Tactics.
From Verif.C16 Require Import ModelBase Extracted Model.
Local Open Scope N_scope.

(* ------------------------------------------------------------ keys and stores *)
Lemma ft_eqb_eq a b : ft_eqb a b = true <-> a = b.
Proof. destruct a, b; cbn; split; intro H; try reflexivity; try discriminate. Qed.

Lemma key_eqb_eq a b : key_eqb a b = true <-> a = b.
Proof.
  destruct a as [f i], b as [g j]; unfold key_eqb; cbn [fst snd].
  rewrite andb_true_iff, ft_eqb_eq, N.eqb_eq. split.
  - intros [-> ->]; reflexivity.
  - intro H; inv H; auto.
Qed.

Lemma key_eqb_refl a : key_eqb a a = true.
Proof. apply key_eqb_eq; reflexivity. Qed.

Lemma key_eqb_neq a b : a <> b -> key_eqb a b = false.
Proof. intro H. destruct (key_eqb a b) eqn:E; [apply key_eqb_eq in E; contradiction | reflexivity]. Qed.

Lemma key_eq_dec (a b : key) : {a = b} + {a <> b}.
Proof. destruct (key_eqb a b) eqn:E; [left; apply key_eqb_eq; exact E | right; intro H; apply key_eqb_eq in H; congruence]. Qed.

Lemma get_del_eq k s : get k (del k s) = None.
Proof.
  induction s as [|[k' v] r IH]; cbn; [reflexivity|].
  destruct (key_eqb k k') eqn:E; cbn; [exact IH|]. rewrite E. exact IH.
Qed.

Lemma get_del_ne k k' s : k <> k' -> get k' (del k s) = get k' s.
Proof.
  intro H. induction s as [|[k2 v] r IH]; cbn; [reflexivity|].
  destruct (key_eqb k k2) eqn:E; cbn.
  - apply key_eqb_eq in E; subst k2. rewrite (key_eqb_neq k' k) by congruence. exact IH.
  - destruct (key_eqb k' k2); [reflexivity | exact IH].
Qed.

Lemma get_put_eq k v s : get k (put k v s) = Some v.
Proof. unfold put; cbn. rewrite key_eqb_refl. reflexivity. Qed.

Lemma get_put_ne k k' v s : k <> k' -> get k' (put k v s) = get k' s.
Proof. intro H. unfold put; cbn. rewrite (key_eqb_neq k' k) by congruence. apply get_del_ne; exact H. Qed.

Lemma get_put k k' v s : get k' (put k v s) = if key_eqb k' k then Some v else get k' s.
Proof.
  destruct (key_eqb k' k) eqn:E.
  - apply key_eqb_eq in E; subst. apply get_put_eq.
  - apply get_put_ne. intro; subst. rewrite key_eqb_refl in E; discriminate.
Qed.

Lemma get_del k k' s : get k' (del k s) = if key_eqb k' k then None else get k' s.
Proof.
  destruct (key_eqb k' k) eqn:E.
  - apply key_eqb_eq in E; subst. apply get_del_eq.
  - apply get_del_ne. intro; subst. rewrite key_eqb_refl in E; discriminate.
Qed.

Lemma has_get k s : has k s = true <-> exists b, get k s = Some b.
Proof. unfold has. destruct (get k s); split; intro H; eauto; try discriminate. destruct H; discriminate. Qed.

Lemma has_false k s : has k s = false <-> get k s = None.
Proof. unfold has. destruct (get k s); split; intro H; auto; discriminate. Qed.

Global Opaque put del.

(* ------------------------------------------------------------ the invariant *)
Section Invariant.
Variable kind : id -> bool.       (* true: the pack is a tree pack *)
Variable content : key -> bytes.  (* content addressing: the bytes that belong to an id *)

(* all copies of a hot-type file carry the bytes that belong to its id *)
Definition consistent (x : st) : Prop :=
  forall s k b, hot_type kind k = true -> get k (side_store s x) = Some b -> b = content k.
Definition hot_has_cold (x : st) : Prop :=
  forall k, hot_type kind k = true -> has k (cold x) = true -> has k (hot x) = true.
Definition no_data_in_hot (x : st) : Prop :=
  forall i, kind i = false -> get (Pack, i) (hot x) = None.
Definition I (x : st) : Prop := consistent x /\ hot_has_cold x /\ no_data_in_hot x.

(* the property as stated: everything of a hot type that cold lists is in hot with identical
   bytes, and no data pack is in hot *)
Definition HotComplete (x : st) : Prop :=
  (forall k b, hot_type kind k = true -> get k (cold x) = Some b -> get k (hot x) = Some b)
  /\ no_data_in_hot x.

Lemma I_HotComplete x : I x -> HotComplete x.
Proof.
  intros (C & H & D). split; [|exact D].
  intros k b Hk Hc.
  assert (Hh : has k (hot x) = true) by (apply H; [exact Hk | apply has_get; eauto]).
  apply has_get in Hh. destruct Hh as [b' Hb'].
  rewrite Hb'. f_equal.
  rewrite (C Hot k b' Hk Hb'). symmetry. exact (C Cold k b Hk Hc).
Qed.

(* an operation respects the pack kinds and content addressing *)
Definition op_ok (o : op) : Prop :=
  match o with
  | OpWrite ft i c b => (ft = Pack -> c = kind i) /\ (hot_type kind (ft, i) = true -> b = content (ft, i))
  | OpRemove ft i c => ft = Pack -> c = kind i
  | OpSaveConfig _ _ => True
  end.

Lemma I_write_hot x k b :
  I x -> (hot_type kind k = true -> b = content k) ->
  (forall i, k = (Pack, i) -> kind i = true) ->
  I (mkst (put k b (hot x)) (cold x)).
Proof.
  intros (C & H & D) Hb Hp. repeat split.
  - intros s k' b' Hk' G. destruct s; cbn in G.
    + rewrite get_put in G. destruct (key_eqb k' k) eqn:E.
      * apply key_eqb_eq in E; subst k'. inv G. auto.
      * exact (C Hot k' b' Hk' G).
    + exact (C Cold k' b' Hk' G).
  - intros k' Hk' Hc. cbn in *. apply has_get. rewrite get_put.
    destruct (key_eqb k' k); [eauto|]. apply has_get. apply H; assumption.
  - intros i Hi. cbn. rewrite get_put. destruct (key_eqb (Pack, i) k) eqn:E.
    + apply key_eqb_eq in E. symmetry in E. apply Hp in E. congruence.
    + apply D; exact Hi.
Qed.

Lemma I_write_cold x k b :
  I x -> (hot_type kind k = true -> get k (hot x) = Some b) ->
  I (mkst (hot x) (put k b (cold x))).
Proof.
  intros (C & H & D) Hb. repeat split.
  - intros s k' b' Hk' G. destruct s; cbn in G.
    + exact (C Hot k' b' Hk' G).
    + rewrite get_put in G. destruct (key_eqb k' k) eqn:E.
      * apply key_eqb_eq in E; subst k'. inv G. exact (C Hot k b' Hk' (Hb Hk')).
      * exact (C Cold k' b' Hk' G).
  - intros k' Hk' Hc. cbn in *. apply has_get in Hc. destruct Hc as [b' Hc]. rewrite get_put in Hc.
    destruct (key_eqb k' k) eqn:E.
    + apply key_eqb_eq in E; subst k'. apply has_get. eauto.
    + apply H; [exact Hk' | apply has_get; eauto].
  - exact D.
Qed.

Lemma I_remove_cold x k : I x -> I (mkst (hot x) (del k (cold x))).
Proof.
  intros (C & H & D). repeat split.
  - intros s k' b' Hk' G. destruct s; cbn in G.
    + exact (C Hot k' b' Hk' G).
    + rewrite get_del in G. destruct (key_eqb k' k); [discriminate|]. exact (C Cold k' b' Hk' G).
  - intros k' Hk' Hc. cbn in *. apply has_get in Hc. destruct Hc as [b' Hc]. rewrite get_del in Hc.
    destruct (key_eqb k' k); [discriminate|]. apply H; [exact Hk' | apply has_get; eauto].
  - exact D.
Qed.

Lemma I_remove_hot x k : I x -> has k (cold x) = false -> I (mkst (del k (hot x)) (cold x)).
Proof.
  intros (C & H & D) Hn. repeat split.
  - intros s k' b' Hk' G. destruct s; cbn in G.
    + rewrite get_del in G. destruct (key_eqb k' k); [discriminate|]. exact (C Hot k' b' Hk' G).
    + exact (C Cold k' b' Hk' G).
  - intros k' Hk' Hc. cbn in *. apply has_get. rewrite get_del.
    destruct (key_eqb k' k) eqn:E.
    + apply key_eqb_eq in E; subst k'. congruence.
    + apply has_get. apply H; assumption.
  - intros i Hi. cbn. rewrite get_del. destruct (key_eqb (Pack, i) k); [reflexivity|]. apply D; exact Hi.
Qed.

Lemma I_write_both x k b :
  I x -> (hot_type kind k = true -> b = content k) ->
  (forall i, k = (Pack, i) -> kind i = true) ->
  I (mkst (put k b (hot x)) (put k b (cold x))).
Proof.
  intros HI Hb Hp.
  apply (I_write_cold (mkst (put k b (hot x)) (cold x)) k b).
  - apply I_write_hot; assumption.
  - cbn. intros _. apply get_put_eq.
Qed.

Lemma I_remove_both x k : I x -> I (mkst (del k (hot x)) (del k (cold x))).
Proof.
  intro HI. apply (I_remove_hot (mkst (hot x) (del k (cold x))) k).
  - apply I_remove_cold; exact HI.
  - cbn. apply has_false. apply get_del_eq.
Qed.

Lemma st_eta x : mkst (hot x) (cold x) = x.
Proof. destruct x; reflexivity. Qed.

(* every micro-step state of one operation satisfies the invariant *)
Lemma I_step_op o os x : op_ok o -> I x -> Forall I (fst (step_op (o, os) x)).
Proof.
  intros Hok HI.
  assert (Hhd : forall l, hd OOk l = OOk \/ hd OOk l = OFail \/ hd OOk l = OFailDone)
    by (intro l; destruct (hd OOk l); auto).
  destruct o as [ft i c b | ft i c | bc bh]; unfold step_op; cbn [fst snd calls_of].
  - (* write *)
    destruct Hok as [Hc Hb].
    assert (Hhot : hot_type kind (ft, i) = true -> b = content (ft, i)) by exact Hb.
    assert (Hpk : forall j, (ft, i) = (Pack, j) -> ft = Pack /\ j = i) by (intros j E; inv E; auto).
    destruct ft; destruct c; cbn -[get has];
      destruct (Hhd os) as [-> | [-> | ->]]; cbn -[get has];
      try destruct (Hhd (tl os)) as [-> | [-> | ->]]; cbn -[get has];
      repeat (apply Forall_cons || apply Forall_nil);
      try (rewrite ?st_eta; exact HI);
      try (apply I_write_cold; [rewrite ?st_eta; try exact HI | cbn -[get]; intros; try discriminate; try apply get_put_eq]);
      try (apply I_write_hot; [exact HI | exact Hhot | intros j E; inv E; try discriminate]);
      try (apply I_write_both; [exact HI | exact Hhot | intros j E; inv E; try discriminate]);
      try (specialize (Hc eq_refl); cbn in *; congruence).
  - (* remove *)
    destruct ft; destruct c; cbn -[get has];
      destruct (has _ (cold x)) eqn:Hh; cbn -[get has];
      try (destruct (Hhd os) as [-> | [-> | ->]]; cbn -[get has]);
      repeat match goal with |- context [has ?k (del ?k ?s)] =>
        replace (has k (del k s)) with false by (symmetry; apply has_false; apply get_del_eq) end;
      repeat match goal with |- context [if has ?k ?s then _ else _] => destruct (has k s) eqn:? end;
      cbn -[get has];
      try destruct (Hhd (tl os)) as [-> | [-> | ->]]; cbn -[get has];
      repeat (apply Forall_cons || apply Forall_nil);
      try (rewrite ?st_eta; exact HI);
      try (apply I_remove_cold; exact HI);
      try (apply I_remove_both; exact HI).
  - (* save_config *)
    cbn -[get has].
    destruct (Hhd os) as [-> | [-> | ->]]; cbn -[get has];
      try destruct (Hhd (tl os)) as [-> | [-> | ->]]; cbn -[get has];
      repeat (apply Forall_cons || apply Forall_nil);
      try (rewrite ?st_eta; exact HI);
      try (apply I_write_cold; [exact HI | cbn; intros; discriminate]);
      try (apply I_write_hot; [try exact HI | cbn; intros; discriminate | intros j E; discriminate]);
      try (apply I_write_cold; [exact HI | cbn; intros; discriminate]);
      try (apply (I_write_hot (mkst (hot x) (put (Config, config_id) bc (cold x))));
           [apply I_write_cold; [exact HI | cbn; intros; discriminate] | cbn; intros; discriminate | intros j E; discriminate]).
Qed.

Lemma Forall_last {A} (P : A -> Prop) l d : P d -> Forall P l -> P (last l d).
Proof.
  intros Hd H. induction H as [|a l Ha Hl IH]; [exact Hd|].
  destruct l; [exact Ha | exact IH].
Qed.

Lemma I_run_ops l : forall x, Forall op_ok (map fst l) -> I x -> Forall I (run_ops l x).
Proof.
  induction l as [|[o os] r IH]; intros x Hok HI; cbn [run_ops]; [constructor|].
  inv Hok. pose proof (I_step_op o os x H1 HI) as Hs.
  apply Forall_app. split; [exact Hs|].
  apply IH; [assumption|]. unfold final. apply Forall_last; assumption.
Qed.

Lemma hot_complete_every_microstep_lemma l x :
  I x -> Forall op_ok (map fst l) -> Forall HotComplete (run_ops l x).
Proof.
  intros HI Hok. eapply Forall_impl; [|apply I_run_ops; eassumption].
  intros a; apply I_HotComplete.
Qed.

Lemma I_empty : I empty_st.
Proof.
  split; [|split].
  - intros s k b _ G. destruct s; cbn in G; discriminate.
  - intros k _ G. cbn in G. discriminate.
  - intros i _. reflexivity.
Qed.

End Invariant.
