(* C16 — executable model of the hot/cold backend wrapper (backend/hotcold.rs), of
   save_config (commands/config.rs) and of the hot/cold repair
   (commands/repair/hotcold.rs).  Definitions only; the routing tables
   (write_plan, remove_plan, the read and list sides, all_file_types, the repair tables) come from
   Extracted.v, which is regenerated from the source on every run. *)
From Verif.Base Require Import Tactics.
From Verif.C16 Require Import ModelBase Extracted.
Local Open Scope N_scope.

(* ---------------------------------------------------------------- state *)
Record st := mkst { hot : store; cold : store }.
Definition side_store (s : side) (x : st) : store := match s with Hot => hot x | Cold => cold x end.
Definition set_side (s : side) (v : store) (x : st) : st :=
  match s with Hot => mkst v (cold x) | Cold => mkst (hot x) v end.
Definition other (s : side) : side := match s with Hot => Cold | Cold => Hot end.
Definition empty_st : st := mkst [] [].

(* ---------------------------------------------------------------- inner calls
   One call of write_bytes / remove on one of the two inner backends.  Inner calls are
   atomic: a call takes effect completely or not at all.  It can succeed (OOk), fail
   without effect (OFail), or report failure although it took effect (OFailDone, e.g. a
   lost acknowledgement).  Removing a file that does not exist fails (as the in-memory and
   the local backend do). *)
Inductive outcome := OOk | OFail | OFailDone.
Inductive icall := IWrite (s : side) (k : key) (b : bytes) | IRemove (s : side) (k : key).

Definition inner (c : icall) (o : outcome) (x : st) : st * bool :=
  match c with
  | IWrite s k b =>
      match o with
      | OOk => (set_side s (put k b (side_store s x)) x, true)
      | OFail => (x, false)
      | OFailDone => (set_side s (put k b (side_store s x)) x, false)
      end
  | IRemove s k =>
      if has k (side_store s x) then
        match o with
        | OOk => (set_side s (del k (side_store s x)) x, true)
        | OFail => (x, false)
        | OFailDone => (set_side s (del k (side_store s x)) x, false)
        end
      else (x, false)
  end.

(* ---------------------------------------------------------------- operations *)
Definition config_id : id := 0.
Inductive op :=
| OpWrite (ft : file_type) (i : id) (cacheable : bool) (b : bytes)   (* HotColdBackend::write_bytes *)
| OpRemove (ft : file_type) (i : id) (cacheable : bool)              (* HotColdBackend::remove *)
| OpSaveConfig (bc bh : bytes).                                      (* save_config: bc to the repository backend, bh (is_hot) to the hot backend *)

(* inner calls of one operation, in source order, each with "its error is propagated" *)
Definition config_side_call (bc bh : bytes) (s : side) : list (icall * bool) :=
  match s with
  | Cold => map (fun sp => (IWrite (fst sp) (Config, config_id) bc, snd sp)) (write_plan Config false)
  | Hot => [(IWrite Hot (Config, config_id) bh, true)]
  end.

Definition calls_of (o : op) : list (icall * bool) :=
  match o with
  | OpWrite ft i c b => map (fun sp => (IWrite (fst sp) (ft, i) b, snd sp)) (write_plan ft c)
  | OpRemove ft i c => map (fun sp => (IRemove (fst sp) (ft, i), snd sp)) (remove_plan ft c)
  | OpSaveConfig bc bh => flat_map (config_side_call bc bh) save_config_order
  end.

(* run the inner calls under a list of outcomes (missing outcomes = OOk): the states after
   every executed inner call (the micro-steps) and the result reported to the caller *)
Fixpoint run_calls (cs : list (icall * bool)) (os : list outcome) (x : st) : list st * bool :=
  match cs with
  | [] => ([], true)
  | (c, prop) :: r =>
      let xo := inner c (hd OOk os) x in
      if snd xo || negb prop then
        let tr := run_calls r (tl os) (fst xo) in (fst xo :: fst tr, snd tr)
      else ([fst xo], false)
  end.

Definition step_op (oo : op * list outcome) (x : st) : list st * bool :=
  run_calls (calls_of (fst oo)) (snd oo) x.
Definition final (x : st) (tr : list st) : st := last tr x.

(* all micro-step states of a sequence of operations with injected outcomes *)
Fixpoint run_ops (l : list (op * list outcome)) (x : st) : list st :=
  match l with
  | [] => []
  | oo :: r => let tr := fst (step_op oo x) in tr ++ run_ops r (final x tr)
  end.
Definition exec_ops (l : list (op * list outcome)) (x : st) : st := final x (run_ops l x).

(* ---------------------------------------------------------------- reads *)
Definition slice (b : bytes) (off len : N) : option bytes :=
  if off + len <=? N.of_nat (length b) then Some (firstn (N.to_nat len) (skipn (N.to_nat off) b)) else None.
Definition store_read_partial (s : store) (k : key) (off len : N) : option bytes :=
  match get k s with Some b => slice b off len | None => None end.

Definition hc_read_full (x : st) (ft : file_type) (i : id) : option bytes :=
  get (ft, i) (side_store (read_full_side ft false) x).
Definition hc_read_partial (x : st) (ft : file_type) (i : id) (c : bool) (off len : N) : option bytes :=
  store_read_partial (side_store (read_partial_side ft c) x) (ft, i) off len.
Definition hc_list (x : st) (ft : file_type) : list (id * N) :=
  listing ft (side_store (list_side ft false) x).

(* ---------------------------------------------------------------- single store *)
Definition single_apply (o : op) (s : store) : store :=
  match o with
  | OpWrite ft i _ b => put (ft, i) b s
  | OpRemove ft i _ => del (ft, i) s
  | OpSaveConfig bc _ => put (Config, config_id) bc s
  end.
Definition single_ok (o : op) (s : store) : bool :=
  match o with OpRemove ft i _ => has (ft, i) s | _ => true end.

(* ---------------------------------------------------------------- the property, executable
   kind i = true : pack i is a tree pack (written with cacheable = true). *)
Definition hot_type (kind : id -> bool) (k : key) : bool :=
  match fst k with Config => false | Pack => kind (snd k) | _ => true end.

Definition bytes_eqb (a b : bytes) : bool :=
  (length a =? length b)%nat && forallb (fun p => N.eqb (fst p) (snd p)) (combine a b).

Definition inv_b (kind : id -> bool) (x : st) : bool :=
  forallb (fun e => if hot_type kind (fst e)
                    then match get (fst e) (hot x) with Some b => bytes_eqb b (snd e) | None => false end
                    else true) (cold x)
  && forallb (fun e => match fst (fst e) with Pack => kind (snd (fst e)) | _ => true end) (hot x).

(* ---------------------------------------------------------------- repair
   get_missing_files + correct_missing_files + copy for one file type. *)
Fixpoint lookup_size (i : id) (l : list (id * N)) : option N :=
  match l with [] => None | (j, n) :: r => if N.eqb i j then Some n else lookup_size i r end.
Definition mem (i : id) (l : list id) : bool := existsb (N.eqb i) l.

(* get_missing_files collects both listings into maps (id -> size) and works on ids:
   common = hot ids that the cold map holds with the same size *)
Definition size_eqb (a b : option N) : bool :=
  match a, b with Some x, Some y => N.eqb x y | _, _ => false end.
Definition common_ids (hl cl : list (id * N)) : list id :=
  filter (fun i => size_eqb (lookup_size i hl) (lookup_size i cl)) (map fst hl).
(* retain: ids of one listing that are not excluded and are relevant *)
Definition only_ids (relevant : id -> bool) (l : list (id * N)) (excl : list id) : list id :=
  filter (fun i => negb (mem i excl) && relevant i) (map fst l).

(* copy(files, file_type, from, to): read_full on `from`, write_bytes on `to` *)
Definition copy_to (dst : side) (ft : file_type) (ids : list id) (x : st) : st :=
  fold_left (fun x i => match get (ft, i) (side_store (other dst) x) with
                        | Some b => set_side dst (put (ft, i) b (side_store dst x)) x
                        | None => x end) ids x.

Definition repair_type_r (rule : hot_only_rule) (ft : file_type) (relevant : id -> bool) (x : st) : st :=
  let hl := listing ft (hot x) in
  let cl := listing ft (cold x) in
  let com := common_ids hl cl in
  let cold_only := only_ids relevant cl com in     (* "missing_hot" *)
  let hot_only := match rule with                  (* "missing_cold" *)
                  | HotOnlyNotCommon => only_ids relevant hl com
                  | HotOnlyNotInCold => only_ids relevant hl (map fst cl)
                  end in
  fold_left (fun x dst => copy_to dst ft (match dst with Cold => hot_only | Hot => cold_only end) x)
            repair_copy_order x.
Definition repair_type := repair_type_r repair_hot_only_rule.

(* Repository::repair_hotcold_except_packs *)
Definition repair_except_packs (x : st) : st :=
  fold_left (fun x ft => if repair_type_cond ft then repair_type ft (fun _ => true) x else x) all_file_types x.
(* Repository::repair_hotcold_packs; tp = ids of the tree packs named by the index *)
Definition repair_packs (tp : list id) (x : st) : st := repair_type Pack (fun i => mem i tp) x.
Definition repair_all (tp : list id) (x : st) : st := repair_packs tp (repair_except_packs x).

(* get_tree_packs: ids of the packs the index files name, in the sections the code reads, whose blobs
   are of the kept type; repair_hotcold_packs hands this set to correct_missing_files *)
Definition tree_packs_of (idx : list index_entry) : list id :=
  map ie_id (filter (fun e => existsb (sec_eqb (ie_sec e)) tree_pack_sections
                              && blob_eqb (ie_blob e) tree_pack_blob) idx).
Definition repair_all_idx (idx : list index_entry) (x : st) : st := repair_all (tree_packs_of idx) x.

(* files taken away from (or cut short in) the hot store before the repair *)
Definition remove_hot (ks : list key) (x : st) : st := mkst (fold_left (fun s k => del k s) ks (hot x)) (cold x).
Definition truncate_hot (k : key) (n : nat) (x : st) : st :=
  match get k (hot x) with Some b => mkst (put k (firstn n b) (hot x)) (cold x) | None => x end.
