(* C16 — refinement of a single store by the hot/cold wrapper; the read_full finding. *)
From Verif.Base Require Import Tactics.
From Verif.C16 Require Import ModelBase Extracted Model Proofs.
Local Open Scope N_scope.

(* results of a sequence of operations *)
Fixpoint run_results (l : list (op * list outcome)) (x : st) : list bool :=
  match l with
  | [] => []
  | oo :: r => let t := step_op oo x in snd t :: run_results r (final x (fst t))
  end.

Lemma last_cons_indep {A} (l : list A) : forall a d d', last (a :: l) d = last (a :: l) d'.
Proof. induction l as [|h t IH]; intros a d d'; [reflexivity|]. exact (IH h d d'). Qed.

Lemma last_app {A} (a b : list A) d : last (a ++ b) d = last b (last a d).
Proof.
  revert d. induction a as [|h t IH]; intro d; [reflexivity|].
  destruct t as [|h2 t2].
  - destruct b; [reflexivity | cbn [app]; apply (last_cons_indep b a d h)].
  - change (last ((h :: h2 :: t2) ++ b) d) with (last ((h2 :: t2) ++ b) d).
    rewrite IH. reflexivity.
Qed.

Section Refine.
Variable kind : id -> bool.
Variable content : key -> bytes.

(* reads and listings on a state that satisfies the invariant *)
Lemma refines_reads_lemma x :
  I kind content x ->
  (forall ft, hc_list x ft = listing ft (cold x)) /\
  (forall ft i b, hot_type kind (ft, i) = true -> get (ft, i) (cold x) = Some b ->
     hc_read_full x ft i = Some b /\
     forall c off len, (ft = Pack -> c = kind i) ->
       hc_read_partial x ft i c off len = store_read_partial (cold x) (ft, i) off len) /\
  (forall i off len, hc_read_partial x Pack i false off len = store_read_partial (cold x) (Pack, i) off len).
Proof.
  intro HI. pose proof (I_HotComplete kind content x HI) as [HC _].
  split; [|split].
  - intro ft. reflexivity.
  - intros ft i b Hk Hc. specialize (HC (ft, i) b Hk Hc). split.
    + unfold hc_read_full. cbn. exact HC.
    + intros c off len Hp. unfold hc_read_partial, store_read_partial.
      destruct ft; destruct c; cbn [read_partial_side ft_neqb ft_eqb negb orb side_store];
        try (rewrite HC, Hc; reflexivity).
      cbn in Hk. specialize (Hp eq_refl). congruence.
  - intros i off len. reflexivity.
Qed.

(* one operation changes the cold store exactly as a single store would change, or not at all *)
Lemma refines_op_lemma o os x :
  let r := step_op (o, os) x in
  (snd r = true -> cold (final x (fst r)) = single_apply o (cold x) /\ single_ok o (cold x) = true) /\
  (cold (final x (fst r)) = cold x \/ cold (final x (fst r)) = single_apply o (cold x)).
Proof.
  assert (Hhd : forall l, hd OOk l = OOk \/ hd OOk l = OFail \/ hd OOk l = OFailDone)
    by (intro l; destruct (hd OOk l); auto).
  destruct o as [ft i c b | ft i c | bc bh]; unfold step_op, final; cbn [fst snd calls_of single_apply single_ok].
  - destruct ft; destruct c; cbn -[get has];
      destruct (Hhd os) as [-> | [-> | ->]]; cbn -[get has];
      try destruct (Hhd (tl os)) as [-> | [-> | ->]]; cbn -[get has];
      split; try (intro; discriminate); auto.
  - destruct ft; destruct c; cbn -[get has];
      destruct (has _ (cold x)) eqn:Hh; cbn -[get has];
      try (destruct (Hhd os) as [-> | [-> | ->]]; cbn -[get has]);
      repeat match goal with |- context [if has ?k ?s then _ else _] => destruct (has k s) eqn:? end;
      cbn -[get has];
      try destruct (Hhd (tl os)) as [-> | [-> | ->]]; cbn -[get has];
      split; try (intro; discriminate); auto.
  - cbn -[get has].
    destruct (Hhd os) as [-> | [-> | ->]]; cbn -[get has];
      try destruct (Hhd (tl os)) as [-> | [-> | ->]]; cbn -[get has];
      split; try (intro; discriminate); auto.
Qed.

(* a sequence whose operations all report success leaves the cold store equal to the single store *)
Lemma refines_seq_lemma l : forall x,
  forallb (fun b => b) (run_results l x) = true ->
  cold (exec_ops l x) = fold_left (fun s o => single_apply o s) (map fst l) (cold x).
Proof.
  induction l as [|[o os] r IH]; intros x H; [reflexivity|].
  cbn [run_results forallb] in H. apply andb_true_iff in H. destruct H as [H1 H2].
  unfold exec_ops, final in *. cbn [run_ops map fold_left fst].
  rewrite last_app.
  pose proof (refines_op_lemma o os x) as [R _]. cbn zeta in R. specialize (R H1). destruct R as [R _].
  unfold final in R. rewrite <- R. apply IH. exact H2.
Qed.

(* the finding: read_full never reaches a data pack *)
Lemma read_full_data_pack_fails_lemma x i :
  I kind content x -> kind i = false -> hc_read_full x Pack i = None.
Proof. intros (_ & _ & D) Hk. unfold hc_read_full. cbn. apply D. exact Hk. Qed.

End Refine.

(* witness: write one data pack on an empty hot/cold repository; it is listed, readable through
   read_partial, the state is healthy, and read_full fails although a single store returns it *)
Definition wit_ops : list (op * list outcome) := [(OpWrite Pack 7 false [1; 2; 3], [])].
Definition wit_state : st := exec_ops wit_ops empty_st.

Lemma read_full_data_pack_refuted_lemma :
  exists x i b,
    x = exec_ops [(OpWrite Pack i false b, [])] empty_st /\
    inv_b (fun _ => false) x = true /\
    hc_list x Pack = [(i, N.of_nat (length b))] /\
    hc_read_partial x Pack i false 0 (N.of_nat (length b)) = Some b /\
    get (Pack, i) (single_apply (OpWrite Pack i false b) []) = Some b /\
    hc_read_full x Pack i = None.
Proof. exists wit_state, 7, [1; 2; 3]. vm_compute. repeat split; reflexivity. Qed.
