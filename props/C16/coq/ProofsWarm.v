(* C16 — warm-up: what restore, prune repacking and index repair read is a subset of what they warm up
   first, and a disciplined sequence of requests never meets a rejecting cold store. *)
From Verif.Base Require Import Tactics.
From Verif.C16 Require Import ModelBase Extracted Model Proofs Warmup.
From Verif.C14 Require Model Proofs2.
Local Open Scope N_scope.

(* ------------------------------------------------------------ the cold store *)
Lemma all_served_app a b : all_served (a ++ b) = all_served a && all_served b.
Proof. unfold all_served. apply forallb_app. Qed.

Lemma no_rejected_from m evs : forall warm seen,
  (forall k, kmem k seen = true -> kmem k warm = true) ->
  disciplined_from seen evs = true -> all_served (cold_run m warm evs) = true.
Proof.
  induction evs as [|e r IH]; intros warm seen Hs Hd; [reflexivity|].
  cbn [cold_run]. rewrite all_served_app. destruct e as [k|k]; cbn [disciplined_from cold_step fst snd] in *.
  - cbn [all_served forallb andb]. apply (IH (k :: warm) (k :: seen)); [|exact Hd].
    intros k0. cbn [kmem existsb]. fold (kmem k0 seen). fold (kmem k0 warm).
    intro H. apply orb_true_iff in H. apply orb_true_iff. destruct H; [left; assumption | right; auto].
  - apply andb_true_iff in Hd. destruct Hd as [Hk Hd]. rewrite (Hs k Hk). cbn [fst snd].
    cbn [all_served forallb andb]. apply (IH warm seen Hs Hd).
Qed.

Lemma no_rejected_read_lemma m evs :
  disciplined_from [] evs = true -> all_served (cold_run m [] evs) = true.
Proof. apply no_rejected_from. intros k H. exact H. Qed.

(* ------------------------------------------------------------ through the wrappers *)
Lemma warm_to_cold_reaches m k : warm_to_cold m k = [LWarm k].
Proof. destruct m; destruct k as [ft i]; destruct ft; reflexivity. Qed.

Lemma h_to_l_disciplined m evs : forall seen,
  h_disciplined_from seen evs = true -> disciplined_from seen (flat_map (to_cold m) evs) = true.
Proof.
  induction evs as [|e r IH]; intros seen H; [reflexivity|].
  cbn [flat_map]. destruct e as [k|k|k c|k].
  - cbn [to_cold]. rewrite warm_to_cold_reaches. cbn [app disciplined_from]. apply IH. exact H.
  - cbn [to_cold h_disciplined_from] in *. destruct (read_route (HReadFull k)) as [[[|] k']|]; cbn [app disciplined_from]; auto.
    apply andb_true_iff in H. destruct H as [H1 H2]. rewrite H1. cbn [andb]. auto.
  - cbn [to_cold h_disciplined_from] in *. destruct (read_route (HReadPartial k c)) as [[[|] k']|]; cbn [app disciplined_from]; auto.
    apply andb_true_iff in H. destruct H as [H1 H2]. rewrite H1. cbn [andb]. auto.
  - cbn [to_cold h_disciplined_from] in *. destruct (read_route (HColdRead k)) as [[[|] k']|]; cbn [app disciplined_from]; auto.
    apply andb_true_iff in H. destruct H as [H1 H2]. rewrite H1. cbn [andb]. auto.
Qed.

Lemma hotcold_no_rejected_read_lemma m evs :
  h_disciplined_from [] evs = true ->
  all_served (cold_run m [] (flat_map (to_cold m) evs)) = true.
Proof. intro H. apply no_rejected_read_lemma. apply h_to_l_disciplined. exact H. Qed.

(* ------------------------------------------------------------ warm W, then read R *)
Lemma warm_prefix W : forall seen rest,
  h_disciplined_from seen (map (fun i => HWarm (Pack, i)) W ++ rest)
  = h_disciplined_from (fold_left (fun s i => (Pack, i) :: s) W seen) rest.
Proof. induction W as [|w r IH]; intros seen rest; [reflexivity|]. cbn. apply IH. Qed.

Lemma kmem_fold W : forall seen i,
  In i W \/ kmem (Pack, i) seen = true -> kmem (Pack, i) (fold_left (fun s j => (Pack, j) :: s) W seen) = true.
Proof.
  induction W as [|w r IH]; intros seen i H; cbn [fold_left].
  - destruct H as [[]|H]; exact H.
  - apply IH. destruct H as [[->|H]|H]; [right|left; exact H|right].
    + cbn. rewrite N.eqb_refl. reflexivity.
    + cbn [kmem existsb]. fold (kmem (Pack, i) seen). rewrite H. apply orb_true_r.
Qed.

Lemma reads_ok R c : forall seen,
  (forall i, In i R -> kmem (Pack, i) seen = true) ->
  h_disciplined_from seen (map (fun i => HReadPartial (Pack, i) c) R ++ []) = true.
Proof.
  induction R as [|x r IH]; intros seen H; [reflexivity|].
  cbn [map app h_disciplined_from read_route fst].
  destruct (read_partial_side Pack c).
  - apply IH. intros i Hi. apply H. right. exact Hi.
  - rewrite (H x (or_introl eq_refl)). cbn [andb]. apply IH. intros i Hi. apply H. right. exact Hi.
Qed.

Lemma cmd_disciplined W R c :
  incl R W -> h_disciplined_from [] (cmd_events [PhWarm; PhRead] W R c) = true.
Proof.
  intro H. unfold cmd_events. cbn [flat_map]. rewrite warm_prefix. apply reads_ok.
  intros i Hi. apply kmem_fold. left. apply H. exact Hi.
Qed.

Lemma cmd_served m order W R c :
  order = [PhWarm; PhRead] -> incl R W -> all_served (cmd_cold_results m order W R c) = true.
Proof.
  intros -> H. unfold cmd_cold_results. apply hotcold_no_rejected_read_lemma. apply cmd_disciplined. exact H.
Qed.

(* ------------------------------------------------------------ restore *)
Lemma restore_warms_lemma c o droot roots s :
  let res := C14.Model.restore c o droot roots s in incl (restore_read res) (restore_warmed res).
Proof.
  cbn zeta. intros p Hp. unfold restore_read in Hp. unfold restore_warmed.
  change restore_warm_set with WsToPacks. cbn iota.
  apply C14.Proofs2.to_packs_covers_reads_lemma. exact Hp.
Qed.

Lemma restore_served_lemma m c o droot roots s :
  let res := C14.Model.restore c o droot roots s in
  all_served (cmd_cold_results m restore_phases (restore_warmed res) (restore_read res) false) = true.
Proof. cbn zeta. apply cmd_served; [reflexivity | apply restore_warms_lemma]. Qed.

(* ------------------------------------------------------------ prune repack *)
Lemma exec_reads_warmed t : exec_reads t = true -> plan_warms t = true.
Proof. destruct t; cbn; intro H; try discriminate; reflexivity. Qed.

Lemma exec_loop_from ps : forall used l pk,
  exec_loop used ps = Some l -> In pk l ->
  exists p, In p ps /\ pp_id p = fst pk /\ exec_reads (pp_todo p) = true.
Proof.
  induction ps as [|p r IH]; intros used l pk H Hin; cbn [exec_loop] in H.
  - inv H. destruct Hin.
  - assert (Hgen : (if exec_reads (pp_todo p)
                    then match exec_loop (fst (retain used (pp_blobs p))) r with
                         | Some l0 => Some ((pp_id p, snd (retain used (pp_blobs p))) :: l0) | None => None end
                    else exec_loop used r) = Some l).
    { destruct (pp_todo p); try exact H. discriminate. }
    clear H. destruct (exec_reads (pp_todo p)) eqn:E.
    + destruct (exec_loop (fst (retain used (pp_blobs p))) r) as [l0|] eqn:El; [|discriminate].
      inv Hgen. destruct Hin as [<-|Hin].
      * exists p. repeat split; [left; reflexivity | exact E].
      * destruct (IH _ _ _ El Hin) as (q & Hq & Hid & He). exists q. repeat split; auto. right. exact Hq.
    + destruct (IH _ _ _ Hgen Hin) as (q & Hq & Hid & He). exists q. repeat split; auto. right. exact Hq.
Qed.

Lemma prune_warms_lemma chunks pl used reads :
  prune_read chunks pl used = Some reads -> incl reads (prune_warmed pl).
Proof.
  unfold prune_read. destruct (exec_loop used (concat pl)) as [l|] eqn:E; [|discriminate].
  intro H. inv H. intros i Hi. apply in_flat_map in Hi. destruct Hi as (pk & Hpk & Hrep).
  apply repeat_spec in Hrep. subst i.
  destruct (exec_loop_from _ _ _ _ E Hpk) as (p & Hp & Hid & He).
  unfold prune_warmed. change prune_warm_set with WsRepackPacks. cbn iota.
  rewrite <- Hid. apply in_map. apply filter_In. split; [exact Hp | apply exec_reads_warmed; exact He].
Qed.

Lemma prune_served_lemma m chunks pl used reads c :
  prune_read chunks pl used = Some reads ->
  all_served (cmd_cold_results m prune_phases (prune_warmed pl) reads c) = true.
Proof. intro H. apply cmd_served; [reflexivity | eapply prune_warms_lemma; exact H]. Qed.

(* ------------------------------------------------------------ repair index *)
Lemma repair_read_incl nreads prh : incl (repair_read nreads prh) prh.
Proof.
  intros i Hi. unfold repair_read in Hi. apply in_flat_map in Hi. destruct Hi as (j & Hj & Hrep).
  apply repeat_spec in Hrep. subst. exact Hj.
Qed.

Lemma repair_index_warms_lemma nreads read_all listing ix :
  let prh := pack_read_header read_all listing ix in
  incl (repair_read nreads prh) (repair_warmed repair_index_warm_set prh) /\
  incl (repair_read nreads prh) (repair_warmed index_checked_warm_set prh).
Proof. cbn zeta. split; apply repair_read_incl. Qed.

Lemma repair_index_served_lemma m nreads read_all listing ix :
  let prh := pack_read_header read_all listing ix in
  all_served (cmd_cold_results m repair_index_phases (repair_warmed repair_index_warm_set prh) (repair_read nreads prh) false) = true /\
  all_served (cmd_cold_results m index_checked_phases (repair_warmed index_checked_warm_set prh) (repair_read nreads prh) false) = true.
Proof. cbn zeta. split; (apply cmd_served; [reflexivity | apply repair_read_incl]). Qed.

(* ------------------------------------------------------------ witnesses: a read that is not warmed is rejected *)
Lemma unwarmed_read_rejected_lemma :
  cold_run WExplicit [] [LRead (Pack, 3)] = [false] /\
  cold_run WAccess [] [LRead (Pack, 3); LRead (Pack, 3)] = [false; true] /\
  all_served (cmd_cold_results WExplicit [PhRead; PhWarm] [3] [3] false) = false /\
  all_served (cmd_cold_results WExplicit [PhRead] [] [3] false) = false /\
  all_served (cmd_cold_results WExplicit [PhWarm; PhRead] [4] [3] false) = false.
Proof. vm_compute. repeat split. Qed.
