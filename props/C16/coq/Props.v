(* C16 — property theorems.  Nothing but statements closed by `exact`, each followed by
   Print Assumptions.  Model.v mirrors backend/hotcold.rs, save_config and
   commands/repair/hotcold.rs; the routing tables are regenerated from the source into
   Extracted.v on every run.
   kind i = true: pack i is a tree pack.  content k: the bytes that belong to id k
   (content addressing: the same id is always written with the same bytes). *)
From Verif.Base Require Import Tactics.
From Verif.C16 Require Import ModelBase Extracted Model Proofs Proofs2 Proofs3 Proofs4.
Local Open Scope N_scope.

(* After EVERY inner call (micro-step) of EVERY sequence of write_bytes / remove / save_config
   with ANY injected inner outcomes (success, failure without effect, failure after taking
   effect; an interruption is a prefix of the micro-step list): every key, snapshot, index
   and tree-pack file that the cold store holds is in the hot store with identical bytes,
   and no data pack is in the hot store. *)
Theorem hot_complete_every_microstep : forall kind content l x,
  I kind content x -> Forall (op_ok kind content) (map fst l) ->
  Forall (HotComplete kind) (run_ops l x).
Proof. exact hot_complete_every_microstep_lemma. Qed.
Print Assumptions hot_complete_every_microstep.

(* hypotheses satisfiable: the empty repository, a write that respects kinds and content *)
Example hot_complete_hyps_sat :
  I (fun _ => true) (fun _ => [1]) empty_st /\
  Forall (op_ok (fun _ => true) (fun _ => [1])) (map fst [(OpWrite Pack 3 true [1], [OFailDone; OFail])]).
Proof. split; [apply I_empty | repeat constructor]. Qed.

(* Listings equal those of the cold store alone; every hot-type file the cold store holds is read
   (fully or partially) with the bytes a single store would return; data packs are read
   partially from the cold store. *)
Theorem hotcold_refines_single_store_reads : forall kind content x,
  I kind content x ->
  (forall ft, hc_list x ft = listing ft (cold x)) /\
  (forall ft i b, hot_type kind (ft, i) = true -> get (ft, i) (cold x) = Some b ->
     hc_read_full x ft i = Some b /\
     forall c off len, (ft = Pack -> c = kind i) ->
       hc_read_partial x ft i c off len = store_read_partial (cold x) (ft, i) off len) /\
  (forall i off len, hc_read_partial x Pack i false off len = store_read_partial (cold x) (Pack, i) off len).
Proof. exact refines_reads_lemma. Qed.
Print Assumptions hotcold_refines_single_store_reads.

(* Every operation, under any inner outcomes, changes the cold store exactly as the operation
   changes a single store, or leaves it unchanged; when it reports success the cold store is
   the single-store result and the single store would have succeeded too. *)
Theorem hotcold_refines_single_store : forall o os x,
  let r := step_op (o, os) x in
  (snd r = true -> cold (final x (fst r)) = single_apply o (cold x) /\ single_ok o (cold x) = true) /\
  (cold (final x (fst r)) = cold x \/ cold (final x (fst r)) = single_apply o (cold x)).
Proof. exact refines_op_lemma. Qed.
Print Assumptions hotcold_refines_single_store.

Theorem hotcold_refines_single_store_seq : forall l x,
  forallb (fun b => b) (run_results l x) = true ->
  cold (exec_ops l x) = fold_left (fun s o => single_apply o s) (map fst l) (cold x).
Proof. exact refines_seq_lemma. Qed.
Print Assumptions hotcold_refines_single_store_seq.

(* FINDING (DESIGN section 7 row 9).  Full strength would be: for every file the cold store
   holds, read_full returns its bytes (as a single store does).  The faithful model refutes this
   for data packs: read_full always asks the hot store, which never holds a data pack. *)
Theorem read_full_data_pack_always_fails : forall kind content x i,
  I kind content x -> kind i = false -> hc_read_full x Pack i = None.
Proof. exact read_full_data_pack_fails_lemma. Qed.
Print Assumptions read_full_data_pack_always_fails.

Theorem read_full_data_pack_refuted :
  exists x i b,
    x = exec_ops [(OpWrite Pack i false b, [])] empty_st /\
    inv_b (fun _ => false) x = true /\
    hc_list x Pack = [(i, N.of_nat (length b))] /\
    hc_read_partial x Pack i false 0 (N.of_nat (length b)) = Some b /\
    get (Pack, i) (single_apply (OpWrite Pack i false b) []) = Some b /\
    hc_read_full x Pack i = None.
Proof. exact read_full_data_pack_refuted_lemma. Qed.
Print Assumptions read_full_data_pack_refuted.

(* The repair (repair_hotcold_except_packs followed by repair_hotcold_packs, tp = the tree packs
   named by the index) on a healthy repository whose hot store was damaged by ANY sequence of
   removals and truncations of hot files: afterwards the hot store is complete again (identical
   bytes, no data pack), and every file of the cold store is still there with its bytes. *)
Theorem repair_restores_hot : forall kind content tp x ds,
  (forall i, mem i tp = kind i) ->
  I kind content x ->
  let y := repair_all tp (damage_hot ds x) in
  HotComplete kind y /\ (forall k b, get k (cold x) = Some b -> get k (cold y) = Some b).
Proof. intros kind content tp x ds. exact (repair_after_damage_lemma kind content tp x ds eq_refl). Qed.
Print Assumptions repair_restores_hot.

Example repair_hyps_sat :
  (forall i, mem i [2] = N.eqb i 2) /\ I (fun i => N.eqb i 2) (fun _ => [7; 7]) empty_st.
Proof. split; [intro i; cbn; rewrite orb_false_r; reflexivity | apply I_empty]. Qed.

(* The same for any state in which copies of equal size are identical (no reference to how the
   damage came about). *)
Theorem repair_restores_hot_general : forall kind tp x,
  (forall i, mem i tp = kind i) ->
  (forall ft, SameSizeSame kind ft x) -> no_data_in_hot kind x ->
  let y := repair_all tp x in
  HotComplete kind y /\ (forall k b, get k (cold x) = Some b -> get k (cold y) = Some b).
Proof. intros kind tp x. exact (repair_restores_lemma kind tp x eq_refl). Qed.
Print Assumptions repair_restores_hot_general.

(* FINDING (repaired in the source tree by a fix: commit).  With the rule get_missing_files had
   before the fix - every hot id that is not "common" (same size on both sides) is copied to the
   cold store - a hot file that was cut short replaces the intact cold file; with the rule of
   the tree as it is now the cold file stays and the hot file is recreated from it. *)
Theorem repair_unfixed_rule_destroys_cold :
  exists x k b,
    get k (cold x) = Some b /\
    get k (cold (repair_type_r HotOnlyNotCommon (fst k) (fun _ => true) x)) <> Some b /\
    get k (cold (repair_type_r HotOnlyNotInCold (fst k) (fun _ => true) x)) = Some b /\
    get k (hot (repair_type_r HotOnlyNotInCold (fst k) (fun _ => true) x)) = Some b.
Proof. exact repair_unfixed_rule_destroys_cold_lemma. Qed.
Print Assumptions repair_unfixed_rule_destroys_cold.

(* The executable checker that the e2e stage runs on every prefix of a recorded log of inner calls
   (replayed from the empty repository) decides the property. *)
Theorem inv_b_decides_on_replay : forall kind l,
  inv_b kind (replay l empty_st) = true <-> HotComplete kind (replay l empty_st).
Proof. exact inv_b_decides_on_replay_lemma. Qed.
Print Assumptions inv_b_decides_on_replay.

(* The same with the tree-pack set computed as the code does (get_tree_packs over the index sections
   found in the source): if the index files name every tree pack - in `packs` OR, after a prune that
   only marked it, in `packs_to_delete` - the repair makes the hot store complete again.  Breaks when
   get_tree_packs stops reading one of the two sections. *)
Theorem repair_restores_hot_from_index : forall kind content idx x ds,
  index_names kind idx ->
  I kind content x ->
  let y := repair_all_idx idx (damage_hot ds x) in
  HotComplete kind y /\ (forall k b, get k (cold x) = Some b -> get k (cold y) = Some b).
Proof. intros kind content idx x ds. exact (repair_from_index_lemma kind content idx x ds eq_refl). Qed.
Print Assumptions repair_restores_hot_from_index.

Example index_names_sat :
  index_names (fun i => N.eqb i 2) [mkie SecPacksToDelete 2 Tree; mkie SecPacks 3 Data].
Proof. intro i. cbn. destruct (N.eqb i 2) eqn:E; rewrite ?orb_false_r, ?andb_false_r; reflexivity. Qed.
