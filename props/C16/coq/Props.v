(* C16 — property theorems.  Nothing but statements closed by `exact`, each followed by
   Print Assumptions.  Model.v mirrors backend/hotcold.rs, save_config and
   commands/repair/hotcold.rs; the routing tables are regenerated from the source into
   Extracted.v on every run.
   kind i = true: pack i is a tree pack.  content k: the bytes that belong to id k
   (content addressing: the same id is always written with the same bytes). *)
From Verif.Base Require Import Tactics.
From Verif.C16 Require Import ModelBase Extracted Model Proofs Proofs2 Proofs3 Proofs4 Warmup ProofsWarm.
From Verif.C14 Require Model.
Local Open Scope N_scope.

(* After EVERY inner call (micro-step) of EVERY sequence of write_bytes / remove / save_config
   with ANY injected inner outcomes (success, failure without effect, failure after taking
   effect; an interruption is a prefix of the micro-step list): every key, snapshot, index
   and tree-pack file that the cold store holds is in the hot store with identical bytes,
   and no data pack is in the hot store. *)
Theorem hot_complete_every_microstep : forall kind content l x,
  I kind content x -> Forall (op_ok kind content) (map fst l) ->
  Forall (HotComplete kind) (run_ops l x).
Proof. exact hot_complete_every_microstep_lemma. Qed.
Print Assumptions hot_complete_every_microstep.

(* hypotheses satisfiable: the empty repository, a write that respects kinds and content *)
Example hot_complete_hyps_sat :
  I (fun _ => true) (fun _ => [1]) empty_st /\
  Forall (op_ok (fun _ => true) (fun _ => [1])) (map fst [(OpWrite Pack 3 true [1], [OFailDone; OFail])]).
Proof. split; [apply I_empty | repeat constructor]. Qed.

(* Listings equal those of the cold store alone; every hot-type file the cold store holds is read
   (fully or partially) with the bytes a single store would return; data packs are read
   partially from the cold store. *)
Theorem hotcold_refines_single_store_reads : forall kind content x,
  I kind content x ->
  (forall ft, hc_list x ft = listing ft (cold x)) /\
  (forall ft i b, hot_type kind (ft, i) = true -> get (ft, i) (cold x) = Some b ->
     hc_read_full x ft i = Some b /\
     forall c off len, (ft = Pack -> c = kind i) ->
       hc_read_partial x ft i c off len = store_read_partial (cold x) (ft, i) off len) /\
  (forall i off len, hc_read_partial x Pack i false off len = store_read_partial (cold x) (Pack, i) off len).
Proof. exact refines_reads_lemma. Qed.
Print Assumptions hotcold_refines_single_store_reads.

(* Every operation, under any inner outcomes, changes the cold store exactly as the operation
   changes a single store, or leaves it unchanged; when it reports success the cold store is
   the single-store result and the single store would have succeeded too. *)
Theorem hotcold_refines_single_store : forall o os x,
  let r := step_op (o, os) x in
  (snd r = true -> cold (final x (fst r)) = single_apply o (cold x) /\ single_ok o (cold x) = true) /\
  (cold (final x (fst r)) = cold x \/ cold (final x (fst r)) = single_apply o (cold x)).
Proof. exact refines_op_lemma. Qed.
Print Assumptions hotcold_refines_single_store.

Theorem hotcold_refines_single_store_seq : forall l x,
  forallb (fun b => b) (run_results l x) = true ->
  cold (exec_ops l x) = fold_left (fun s o => single_apply o s) (map fst l) (cold x).
Proof. exact refines_seq_lemma. Qed.
Print Assumptions hotcold_refines_single_store_seq.

(* FINDING (DESIGN section 7 row 9).  Full strength would be: for every file the cold store
   holds, read_full returns its bytes (as a single store does).  The faithful model refutes this
   for data packs: read_full always asks the hot store, which never holds a data pack. *)
Theorem read_full_data_pack_always_fails : forall kind content x i,
  I kind content x -> kind i = false -> hc_read_full x Pack i = None.
Proof. exact read_full_data_pack_fails_lemma. Qed.
Print Assumptions read_full_data_pack_always_fails.

Theorem read_full_data_pack_refuted :
  exists x i b,
    x = exec_ops [(OpWrite Pack i false b, [])] empty_st /\
    inv_b (fun _ => false) x = true /\
    hc_list x Pack = [(i, N.of_nat (length b))] /\
    hc_read_partial x Pack i false 0 (N.of_nat (length b)) = Some b /\
    get (Pack, i) (single_apply (OpWrite Pack i false b) []) = Some b /\
    hc_read_full x Pack i = None.
Proof. exact read_full_data_pack_refuted_lemma. Qed.
Print Assumptions read_full_data_pack_refuted.

(* The repair (repair_hotcold_except_packs followed by repair_hotcold_packs, tp = the tree packs
   named by the index) on a healthy repository whose hot store was damaged by ANY sequence of
   removals and truncations of hot files: afterwards the hot store is complete again (identical
   bytes, no data pack), and every file of the cold store is still there with its bytes. *)
Theorem repair_restores_hot : forall kind content tp x ds,
  (forall i, mem i tp = kind i) ->
  I kind content x ->
  let y := repair_all tp (damage_hot ds x) in
  HotComplete kind y /\ (forall k b, get k (cold x) = Some b -> get k (cold y) = Some b).
Proof. intros kind content tp x ds. exact (repair_after_damage_lemma kind content tp x ds eq_refl). Qed.
Print Assumptions repair_restores_hot.

Example repair_hyps_sat :
  (forall i, mem i [2] = N.eqb i 2) /\ I (fun i => N.eqb i 2) (fun _ => [7; 7]) empty_st.
Proof. split; [intro i; cbn; rewrite orb_false_r; reflexivity | apply I_empty]. Qed.

(* The same for any state in which copies of equal size are identical (no reference to how the
   damage came about). *)
Theorem repair_restores_hot_general : forall kind tp x,
  (forall i, mem i tp = kind i) ->
  (forall ft, SameSizeSame kind ft x) -> no_data_in_hot kind x ->
  let y := repair_all tp x in
  HotComplete kind y /\ (forall k b, get k (cold x) = Some b -> get k (cold y) = Some b).
Proof. intros kind tp x. exact (repair_restores_lemma kind tp x eq_refl). Qed.
Print Assumptions repair_restores_hot_general.

(* FINDING (repaired in the source tree by a fix: commit).  With the rule get_missing_files had
   before the fix - every hot id that is not "common" (same size on both sides) is copied to the
   cold store - a hot file that was cut short replaces the intact cold file; with the rule of
   the tree as it is now the cold file stays and the hot file is recreated from it. *)
Theorem repair_unfixed_rule_destroys_cold :
  exists x k b,
    get k (cold x) = Some b /\
    get k (cold (repair_type_r HotOnlyNotCommon (fst k) (fun _ => true) x)) <> Some b /\
    get k (cold (repair_type_r HotOnlyNotInCold (fst k) (fun _ => true) x)) = Some b /\
    get k (hot (repair_type_r HotOnlyNotInCold (fst k) (fun _ => true) x)) = Some b.
Proof. exact repair_unfixed_rule_destroys_cold_lemma. Qed.
Print Assumptions repair_unfixed_rule_destroys_cold.

(* The executable checker that the e2e stage runs on every prefix of a recorded log of inner calls
   (replayed from the empty repository) decides the property. *)
Theorem inv_b_decides_on_replay : forall kind l,
  inv_b kind (replay l empty_st) = true <-> HotComplete kind (replay l empty_st).
Proof. exact inv_b_decides_on_replay_lemma. Qed.
Print Assumptions inv_b_decides_on_replay.

(* The same with the tree-pack set computed as the code does (get_tree_packs over the index sections
   found in the source): if the index files name every tree pack - in `packs` OR, after a prune that
   only marked it, in `packs_to_delete` - the repair makes the hot store complete again.  Breaks when
   get_tree_packs stops reading one of the two sections. *)
Theorem repair_restores_hot_from_index : forall kind content idx x ds,
  index_names kind idx ->
  I kind content x ->
  let y := repair_all_idx idx (damage_hot ds x) in
  HotComplete kind y /\ (forall k b, get k (cold x) = Some b -> get k (cold y) = Some b).
Proof. intros kind content idx x ds. exact (repair_from_index_lemma kind content idx x ds eq_refl). Qed.
Print Assumptions repair_restores_hot_from_index.

Example index_names_sat :
  index_names (fun i => N.eqb i 2) [mkie SecPacksToDelete 2 Tree; mkie SecPacks 3 Data].
Proof. intro i. cbn. destruct (N.eqb i 2) eqn:E; rewrite ?orb_false_r, ?andb_false_r; reflexivity. Qed.

(* ======================================================================= warm-up
   "Restore, prune repacking and index repair request warm-up of every pack they are about to read
   from a cold store before reading it."  Each command's read part is modelled as: compute W, call
   warm_up_wait(W), then read R - in the order and with the set expression found in the source
   (restore_phases / restore_warm_set, ... in Extracted.v). *)

(* A cold store that rejects un-warmed reads never rejects a read of a sequence in which every read is
   preceded by a warm-up of the same file - whether it is warmed by its own warm_up call (WExplicit)
   or by access (WAccess, RepositoryOptions::warm_up). *)
Theorem cold_store_serves_disciplined_reads : forall m evs,
  disciplined_from [] evs = true -> all_served (cold_run m [] evs) = true.
Proof. exact no_rejected_read_lemma. Qed.
Print Assumptions cold_store_serves_disciplined_reads.

(* The same through the wrappers: requests to the repository backend (warm_up, read_full, read_partial,
   routed as HotColdBackend and - for warm-up by access - WarmUpAccessBackend route them) and reads of
   the cold backend itself.  If every read that is routed to the cold store is preceded by a warm-up
   request for that file, no read is rejected.  Needs: warm-up requests of EVERY file type reach the
   cold store (breaks when WarmUpAccessBackend is wrapped around the hot/cold backend). *)
Theorem hotcold_no_rejected_read : forall m evs,
  h_disciplined_from [] evs = true ->
  all_served (cold_run m [] (flat_map (to_cold m) evs)) = true.
Proof. exact hotcold_no_rejected_read_lemma. Qed.
Print Assumptions hotcold_no_rejected_read.

Example hotcold_disciplined_sat :
  h_disciplined_from [] [HWarm (Key, 1); HColdRead (Key, 1); HWarm (Pack, 2); HReadPartial (Pack, 2) false;
                         HReadFull (Snapshot, 9); HReadPartial (Pack, 5) true] = true.
Proof. reflexivity. Qed.

(* restore: every pack read by restore_contents (model and theorem of C14) is in RestorePlan::to_packs,
   the set handed to warm_up_wait before restore_contents; hence no read is rejected. *)
Theorem restore_warms_what_it_reads : forall c o droot roots s,
  let res := C14.Model.restore c o droot roots s in incl (restore_read res) (restore_warmed res).
Proof. exact restore_warms_lemma. Qed.
Print Assumptions restore_warms_what_it_reads.

Theorem restore_reads_never_rejected : forall m c o droot roots s,
  let res := C14.Model.restore c o droot roots s in
  all_served (cmd_cold_results m restore_phases (restore_warmed res) (restore_read res) false) = true.
Proof. exact restore_served_lemma. Qed.
Print Assumptions restore_reads_never_rejected.

(* prune: every pack the repack loop reads (decision handed to the loop, one read per chunk of kept
   blobs, any used set, any coalescing) is in PrunePlan::repack_packs, warmed before the loop. *)
Theorem prune_repack_warms_what_it_reads : forall chunks pl used reads,
  prune_read chunks pl used = Some reads -> incl reads (prune_warmed pl).
Proof. exact prune_warms_lemma. Qed.
Print Assumptions prune_repack_warms_what_it_reads.

Theorem prune_repack_reads_never_rejected : forall m chunks pl used reads c,
  prune_read chunks pl used = Some reads ->
  all_served (cmd_cold_results m prune_phases (prune_warmed pl) reads c) = true.
Proof. exact prune_served_lemma. Qed.
Print Assumptions prune_repack_reads_never_rejected.

Example prune_read_sat :
  prune_read (fun bs => length bs) [[mkpp 1 Keep [10]; mkpp 2 Repack [11; 12]]; [mkpp 3 Delete []]] [11; 12] = Some [2; 2].
Proof. reflexivity. Qed.

(* repair index (repair_index and index_checked_from_collector): the packs whose header is read
   (PackChecker::into_pack_to_read, once or twice each) are exactly the set warmed before the loop. *)
Theorem repair_index_warms_what_it_reads : forall nreads read_all listing ix,
  let prh := pack_read_header read_all listing ix in
  incl (repair_read nreads prh) (repair_warmed repair_index_warm_set prh) /\
  incl (repair_read nreads prh) (repair_warmed index_checked_warm_set prh).
Proof. exact repair_index_warms_lemma. Qed.
Print Assumptions repair_index_warms_what_it_reads.

Theorem repair_index_reads_never_rejected : forall m nreads read_all listing ix,
  let prh := pack_read_header read_all listing ix in
  all_served (cmd_cold_results m repair_index_phases (repair_warmed repair_index_warm_set prh) (repair_read nreads prh) false) = true /\
  all_served (cmd_cold_results m index_checked_phases (repair_warmed index_checked_warm_set prh) (repair_read nreads prh) false) = true.
Proof. exact repair_index_served_lemma. Qed.
Print Assumptions repair_index_reads_never_rejected.

Example pack_read_header_sat :
  pack_read_header false [(1, 100); (2, 200); (3, 300)] [(1, 100); (2, 150)] = [2; 3].
Proof. reflexivity. Qed.

(* The discipline is necessary: an un-warmed read is rejected; reading before warming, not warming at
   all, or warming a different pack makes the cold store reject the read. *)
Theorem unwarmed_read_rejected :
  cold_run WExplicit [] [LRead (Pack, 3)] = [false] /\
  cold_run WAccess [] [LRead (Pack, 3); LRead (Pack, 3)] = [false; true] /\
  all_served (cmd_cold_results WExplicit [PhRead; PhWarm] [3] [3] false) = false /\
  all_served (cmd_cold_results WExplicit [PhRead] [] [3] false) = false /\
  all_served (cmd_cold_results WExplicit [PhWarm; PhRead] [4] [3] false) = false.
Proof. exact unwarmed_read_rejected_lemma. Qed.
Print Assumptions unwarmed_read_rejected.
