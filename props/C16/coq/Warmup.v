(* C16 — warm-up: a cold store that rejects un-warmed reads, the routing of warm-up requests and reads
   through the hot/cold wrapper (and through `RepositoryOptions::warm_up`), and the read phases of
   restore, prune repacking and index repair as "warm up the set W, then read R".  Executable
   definitions only.  The order of the two phases, the set expression handed to warm_up_wait, the
   planner decisions that are warmed / read, and what WarmUpAccessBackend is wrapped around come from
   Extracted.v (regenerated from restore.rs, prune.rs, repair/index.rs, repository.rs,
   backend/warm_up.rs on every run). *)
From Verif.Base Require Import Tactics.
From Verif.C16 Require Import ModelBase Extracted.
From Verif.C14 Require Model.
Local Open Scope N_scope.

(* ---------------------------------------------------------------- the cold store *)
(* WExplicit: the store is warmed by its own warm_up call (or by an external warm-up command that has
   this effect - assumed); WAccess: `RepositoryOptions::warm_up`, the library warms a file by reading
   one byte of it (WarmUpAccessBackend), the store rejects the first access of a file and is warm
   afterwards. *)
Inductive wmode := WExplicit | WAccess.
Inductive lev := LWarm (k : key) | LRead (k : key).      (* what reaches the cold store *)

Definition kmem (k : key) (l : list key) : bool := existsb (key_eqb k) l.

(* one event: new warm set; for a read, whether it was served *)
Definition cold_step (m : wmode) (warm : list key) (e : lev) : list key * list bool :=
  match e with
  | LWarm k => (k :: warm, [])           (* WAccess: the probe read; rejected or not, the file is warm afterwards *)
  | LRead k => if kmem k warm then (warm, [true])
               else (match m with WAccess => k :: warm | WExplicit => warm end, [false])
  end.
Fixpoint cold_run (m : wmode) (warm : list key) (evs : list lev) : list bool :=
  match evs with
  | [] => []
  | e :: r => let s := cold_step m warm e in snd s ++ cold_run m (fst s) r
  end.

(* every read is preceded by a warm-up of the same file *)
Fixpoint disciplined_from (seen : list key) (evs : list lev) : bool :=
  match evs with
  | [] => true
  | LWarm k :: r => disciplined_from (k :: seen) r
  | LRead k :: r => kmem k seen && disciplined_from seen r
  end.

(* ---------------------------------------------------------------- through the wrappers *)
(* what the library asks of the repository backend (Repository::be), plus reads that go to the cold
   backend directly (Repository::be_cold: open_only_cold, repair hotcold) *)
Inductive hev :=
| HWarm (k : key)                         (* warm_up(tpe, id) *)
| HReadFull (k : key)
| HReadPartial (k : key) (c : bool)
| HColdRead (k : key).

(* a warm-up request as it arrives at the cold store *)
Definition warm_to_cold (m : wmode) (k : key) : list lev :=
  match m with
  | WExplicit => match warm_up_side (fst k) false with Cold => [LWarm k] | Hot => [] end
  | WAccess =>
      match warm_up_access_wraps with
      | WrapsCold =>      (* HotColdBackend::warm_up -> WarmUpAccessBackend over the cold backend: probe read on cold *)
          match warm_up_side (fst k) false with Cold => [LWarm k] | Hot => [] end
      | WrapsHotCold =>   (* WarmUpAccessBackend over the hot/cold backend: the probe read is routed like any read *)
          match read_partial_side (fst k) warm_access_probe_cacheable with Cold => [LWarm k] | Hot => [] end
      end
  end.

Definition read_route (e : hev) : option (side * key) :=
  match e with
  | HWarm _ => None
  | HReadFull k => Some (read_full_side (fst k) false, k)
  | HReadPartial k c => Some (read_partial_side (fst k) c, k)
  | HColdRead k => Some (Cold, k)
  end.

Definition to_cold (m : wmode) (e : hev) : list lev :=
  match e with
  | HWarm k => warm_to_cold m k
  | _ => match read_route e with Some (Cold, k) => [LRead k] | _ => [] end
  end.

(* every read that is routed to the cold store is preceded by a warm-up request for the same file *)
Fixpoint h_disciplined_from (seen : list key) (evs : list hev) : bool :=
  match evs with
  | [] => true
  | HWarm k :: r => h_disciplined_from (k :: seen) r
  | e :: r => match read_route e with
              | Some (Cold, k) => kmem k seen && h_disciplined_from seen r
              | _ => h_disciplined_from seen r
              end
  end.

(* ---------------------------------------------------------------- a command's read part *)
(* W = packs handed to warm_up_wait, R = packs read (read_partial with flag c), in the order found in
   the source *)
Definition cmd_events (order : list phase) (W R : list id) (c : bool) : list hev :=
  flat_map (fun p => match p with
                     | PhWarm => map (fun i => HWarm (Pack, i)) W
                     | PhRead => map (fun i => HReadPartial (Pack, i) c) R
                     end) order.
Definition all_served (l : list bool) : bool := forallb (fun b => b) l.
Definition cmd_cold_results (m : wmode) (order : list phase) (W R : list id) (c : bool) : list bool :=
  cold_run m [] (flat_map (to_cold m) (cmd_events order W R c)).

(* --- restore (commands/restore.rs restore_repository): model of C14 *)
Definition restore_warmed (res : C14.Model.result) : list id :=
  match restore_warm_set with WsToPacks => C14.Model.r_to_packs res | _ => [] end.
Definition restore_read (res : C14.Model.result) : list id := C14.Model.r_reads res.

(* --- prune (commands/prune.rs): PrunePlan::repack_packs and the to_do loop of prune_repository *)
Record ppack := mkpp { pp_id : id; pp_todo : todo; pp_blobs : list N }.     (* blobs by their (typed) key *)
Definition pplan := list (list ppack).                                        (* index files -> packs *)
Definition prune_warmed (pl : pplan) : list id :=
  match prune_warm_set with
  | WsRepackPacks => map pp_id (filter (fun p => plan_warms (pp_todo p)) (concat pl))
  | _ => []
  end.
Definition nmem (x : N) (l : list N) : bool := existsb (N.eqb x) l.
Fixpoint nremove (x : N) (l : list N) : list N :=
  match l with [] => [] | y :: r => if N.eqb x y then r else y :: nremove x r end.
(* pack.blobs.retain(|blob| used_ids.remove(..).is_some()) *)
Fixpoint retain (used : list N) (bs : list N) : list N * list N :=
  match bs with
  | [] => (used, [])
  | b :: r => if nmem b used then let ur := retain (nremove b used) r in (fst ur, b :: snd ur)
              else retain used r
  end.
(* the to_do loop: packs pushed to `repack_packs` with the blobs they keep; a pack without decision
   aborts the command before anything is read *)
Fixpoint exec_loop (used : list N) (ps : list ppack) : option (list (id * list N)) :=
  match ps with
  | [] => Some []
  | p :: r =>
      match pp_todo p with
      | Undecided => None
      | t => if exec_reads t
             then let ur := retain used (pp_blobs p) in
                  match exec_loop (fst ur) r with Some l => Some ((pp_id p, snd ur) :: l) | None => None end
             else exec_loop used r
      end
  end.
(* one read_partial(Pack, pack.id, ..) per coalesced chunk of the kept blobs; `chunks` = number of chunks *)
Definition prune_read (chunks : list N -> nat) (pl : pplan) (used : list N) : option (list id) :=
  match exec_loop used (concat pl) with
  | Some l => Some (flat_map (fun pk => repeat (fst pk) (chunks (snd pk))) l)
  | None => None
  end.

(* --- repair index (commands/repair/index.rs): PackChecker::check_pack / into_pack_to_read, then
   PackHeader::from_file per entry.  listing = existing packs (id, size); index packs = (id, size
   computed from the index entry) *)
Fixpoint take_pack (i : id) (l : list (id * N)) : option (N * list (id * N)) :=
  match l with
  | [] => None
  | (j, s) :: r => if N.eqb i j then Some (s, r)
                   else match take_pack i r with Some (s', r') => Some (s', (j, s) :: r') | None => None end
  end.
Fixpoint check_packs (read_all : bool) (listing : list (id * N)) (toread : list id) (ix : list (id * N))
  : list (id * N) * list id :=
  match ix with
  | [] => (listing, toread)
  | (i, isize) :: r =>
      match take_pack i listing with
      | None => check_packs read_all listing toread r
      | Some (size, listing') =>
          if negb (N.eqb isize size) || read_all then check_packs read_all listing' (toread ++ [i]) r
          else check_packs read_all listing' toread r
      end
  end.
Definition pack_read_header (read_all : bool) (listing ix : list (id * N)) : list id :=
  let lr := check_packs read_all listing [] ix in snd lr ++ map fst (fst lr).
Definition repair_warmed (ws : warm_set) (prh : list id) : list id :=
  match ws with WsPackReadHeader => prh | _ => [] end.
(* from_file reads the pack once or twice (second read when the header is longer than guessed) *)
Definition repair_read (nreads : id -> nat) (prh : list id) : list id :=
  flat_map (fun i => repeat i (nreads i)) prh.
