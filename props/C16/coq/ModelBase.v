(* C16 — data types shared by the generated Extracted.v and the model:
   file types, the two sides of a hot/cold repository, keys, stores as
   association lists. Executable definitions only. *)
From Verif.Base Require Import Tactics.
Local Open Scope N_scope.

(* backend.rs: enum FileType *)
Inductive file_type := Config | Index | Key | Snapshot | Pack.
(* blob.rs: enum BlobType *)
Inductive blob_type := Tree | Data.

Definition ft_eqb (a b : file_type) : bool :=
  match a, b with
  | Config, Config | Index, Index | Key, Key | Snapshot, Snapshot | Pack, Pack => true
  | _, _ => false
  end.
Definition ft_neqb (a b : file_type) : bool := negb (ft_eqb a b).

(* the two inner backends of HotColdBackend: `be_hot` and `be` *)
Inductive side := Hot | Cold.
Definition side_eqb (a b : side) : bool :=
  match a, b with Hot, Hot | Cold, Cold => true | _, _ => false end.

Definition id := N.
Definition bytes := list N.
Definition key := (file_type * id)%type.
Definition key_eqb (a b : key) : bool := ft_eqb (fst a) (fst b) && N.eqb (snd a) (snd b).

(* a backend's content: association list, at most one entry per key when well formed *)
Definition store := list (key * bytes).

Fixpoint get (k : key) (s : store) : option bytes :=
  match s with
  | [] => None
  | (k', v) :: r => if key_eqb k k' then Some v else get k r
  end.
Definition del (k : key) (s : store) : store := filter (fun e => negb (key_eqb k (fst e))) s.
Definition put (k : key) (v : bytes) (s : store) : store := (k, v) :: del k s.
Definition has (k : key) (s : store) : bool := match get k s with Some _ => true | None => false end.

(* list_with_size(tpe): ids with the length of their content *)
Definition listing (ft : file_type) (s : store) : list (id * N) :=
  flat_map (fun e => if ft_eqb ft (fst (fst e)) then [(snd (fst e), N.of_nat (length (snd e)))] else []) s.

(* commands/repair/hotcold.rs get_missing_files: which ids count as present on both sides, and
   which hot ids are copied to the cold store *)
Inductive common_rule := CommonEqualSize.
Inductive hot_only_rule := HotOnlyNotCommon | HotOnlyNotInCold.

(* repofile/indexfile.rs: the two sections of an index file; one entry per pack an index file names *)
Inductive index_section := SecPacks | SecPacksToDelete.
Definition sec_eqb (a b : index_section) : bool :=
  match a, b with SecPacks, SecPacks | SecPacksToDelete, SecPacksToDelete => true | _, _ => false end.
Definition blob_eqb (a b : blob_type) : bool :=
  match a, b with Tree, Tree | Data, Data => true | _, _ => false end.
Record index_entry := mkie { ie_sec : index_section; ie_id : id; ie_blob : blob_type }.

(* warm-up call sites (restore, prune repack, repair index): the two phases of a command's read part,
   which set expression is handed to warm_up_wait, what the prune planner can decide for a pack, and
   what `RepositoryOptions::warm_up` (WarmUpAccessBackend) is wrapped around *)
Inductive phase := PhWarm | PhRead.
Inductive warm_set := WsToPacks | WsRepackPacks | WsPackReadHeader | WsNone.
Inductive todo := Undecided | Keep | Repack | MarkDelete | KeepMarked | KeepMarkedAndCorrect | Recover | Delete.
Inductive wrap_target := WrapsCold | WrapsHotCold.

Definition isSome {A} (o : option A) : bool := match o with Some _ => true | None => false end.
