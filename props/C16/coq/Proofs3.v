(* C16 — the hot/cold repair restores a damaged hot store from the cold one. *)
From Verif.Base Require Import Tactics.
From Verif.C16 Require Import ModelBase Extracted Model Proofs.
Local Open Scope N_scope.

(* ------------------------------------------------------------ membership facts *)
Lemma mem_app i a b : mem i (a ++ b) = mem i a || mem i b.
Proof. unfold mem. apply existsb_app. Qed.

Lemma mem_filter p i l : mem i (filter p l) = mem i l && p i.
Proof.
  induction l as [|j r IH]; [reflexivity|]. cbn [filter].
  destruct (p j) eqn:Pj; cbn [mem existsb]; fold (mem i (filter p r)); fold (mem i r); rewrite IH.
  - destruct (N.eqb i j) eqn:E; cbn; [apply N.eqb_eq in E; subst; rewrite Pj; reflexivity | reflexivity].
  - destruct (N.eqb i j) eqn:E; cbn; [apply N.eqb_eq in E; subst; rewrite Pj, andb_false_r; reflexivity | reflexivity].
Qed.

Lemma key_eqb_pair ft i f j : key_eqb (ft, i) (f, j) = ft_eqb ft f && N.eqb i j.
Proof. reflexivity. Qed.

Lemma mem_listing ft i s : mem i (map fst (listing ft s)) = has (ft, i) s.
Proof.
  unfold has. induction s as [|[[f j] v] r IH]; [reflexivity|].
  unfold listing in *. cbn [flat_map fst snd]. rewrite map_app, mem_app, IH.
  cbn [get]. rewrite key_eqb_pair.
  destruct (ft_eqb ft f); cbn; [|reflexivity].
  destruct (N.eqb i j); reflexivity.
Qed.

Definition osize (o : option bytes) : option N :=
  match o with Some b => Some (N.of_nat (length b)) | None => None end.

Lemma lookup_app i a b :
  lookup_size i (a ++ b) = match lookup_size i a with Some n => Some n | None => lookup_size i b end.
Proof.
  induction a as [|[j n] r IH]; [reflexivity|]. cbn. destruct (N.eqb i j); [reflexivity | exact IH].
Qed.

Lemma lookup_listing ft i s : lookup_size i (listing ft s) = osize (get (ft, i) s).
Proof.
  induction s as [|[[f j] v] r IH]; [reflexivity|].
  unfold listing in *. cbn [flat_map fst snd]. rewrite lookup_app, IH.
  cbn [get]. rewrite key_eqb_pair.
  destruct (ft_eqb ft f); cbn; [|reflexivity].
  destruct (N.eqb i j); reflexivity.
Qed.

Lemma mem_common ft i h c :
  mem i (common_ids (listing ft h) (listing ft c))
  = has (ft, i) h && size_eqb (osize (get (ft, i) h)) (osize (get (ft, i) c)).
Proof. unfold common_ids. rewrite mem_filter, mem_listing, !lookup_listing. reflexivity. Qed.

Lemma mem_only rel i ft s excl :
  mem i (only_ids rel (listing ft s) excl) = has (ft, i) s && (negb (mem i excl) && rel i).
Proof. unfold only_ids. rewrite mem_filter, mem_listing. reflexivity. Qed.

(* ------------------------------------------------------------ copy *)
Lemma side_set_same d v x : side_store d (set_side d v x) = v.
Proof. destruct d; reflexivity. Qed.
Lemma side_set_other d v x : side_store (other d) (set_side d v x) = side_store (other d) x.
Proof. destruct d; reflexivity. Qed.

Lemma copy_to_src dst ft ids : forall x, side_store (other dst) (copy_to dst ft ids x) = side_store (other dst) x.
Proof.
  induction ids as [|i r IH]; intro x; [reflexivity|].
  unfold copy_to in *. cbn [fold_left]. rewrite IH.
  destruct (get (ft, i) (side_store (other dst) x)); [apply side_set_other | reflexivity].
Qed.

Lemma copy_to_get dst ft ids : forall x k,
  get k (side_store dst (copy_to dst ft ids x))
  = if ft_eqb ft (fst k) && mem (snd k) ids && has k (side_store (other dst) x)
    then get k (side_store (other dst) x) else get k (side_store dst x).
Proof.
  induction ids as [|i r IH]; intros x k.
  - cbn. rewrite andb_false_r. reflexivity.
  - unfold copy_to in *. cbn [fold_left]. rewrite IH. clear IH.
    destruct k as [f j]. cbn [fst snd mem existsb]. fold (mem j r).
    destruct (get (ft, i) (side_store (other dst) x)) as [b|] eqn:G.
    + rewrite side_set_other, side_set_same, get_put, key_eqb_pair.
      destruct (ft_eqb ft f) eqn:Ef; cbn [andb].
      * apply ft_eqb_eq in Ef; subst f.
        replace (ft_eqb ft ft) with true by (symmetry; apply ft_eqb_eq; reflexivity). cbn [andb].
        destruct (N.eqb j i) eqn:Ej; cbn [orb andb].
        -- apply N.eqb_eq in Ej; subst j. unfold has. rewrite G.
           destruct (mem i r); reflexivity.
        -- reflexivity.
      * replace (ft_eqb f ft) with false; [reflexivity|].
        destruct (ft_eqb f ft) eqn:E2; [|reflexivity]. apply ft_eqb_eq in E2; subst.
        assert (ft_eqb ft ft = true) by (apply ft_eqb_eq; reflexivity). congruence.
    + destruct (ft_eqb ft f) eqn:Ef; cbn [andb]; [|reflexivity].
      apply ft_eqb_eq in Ef; subst f.
      destruct (N.eqb j i) eqn:Ej; cbn [orb andb]; [|reflexivity].
      apply N.eqb_eq in Ej; subst j. unfold has. rewrite G.
      rewrite andb_false_r. reflexivity.
Qed.

(* ------------------------------------------------------------ one file type, get-level *)
Definition same_size (a b : option bytes) : bool := size_eqb (osize a) (osize b).

(* with the rule of the tree as it is now (hot ids are copied to cold only when cold lacks them) *)
Lemma repair_type_fixed_spec ft rel x k :
  let y := repair_type_r HotOnlyNotInCold ft rel x in
  get k (cold y) = (if ft_eqb ft (fst k) && rel (snd k) && has k (hot x) && negb (has k (cold x))
                    then get k (hot x) else get k (cold x)) /\
  get k (hot y) = (if ft_eqb ft (fst k) && rel (snd k) && has k (cold x)
                      && negb (has k (hot x) && same_size (get k (hot x)) (get k (cold x)))
                   then get k (cold x) else get k (hot x)).
Proof.
  cbn zeta. unfold repair_type_r.
  change repair_copy_order with [Cold; Hot]. cbn [fold_left].
  set (hl := listing ft (hot x)). set (cl := listing ft (cold x)).
  set (com := common_ids hl cl).
  set (x1 := copy_to Cold ft (only_ids rel hl (map fst cl)) x).
  assert (Hc1 : forall k, get k (cold x1) = if ft_eqb ft (fst k) && rel (snd k) && has k (hot x) && negb (has k (cold x))
                    then get k (hot x) else get k (cold x)).
  { intro k0. pose proof (copy_to_get Cold ft (only_ids rel hl (map fst cl)) x k0) as H.
    cbn [side_store other] in H. fold x1 in H. rewrite H.
    destruct k0 as [f j]. cbn [fst snd].
    destruct (ft_eqb ft f) eqn:Ef; cbn [andb]; [|reflexivity].
    apply ft_eqb_eq in Ef; subst f.
    unfold hl, cl. rewrite mem_only, mem_listing.
    destruct (has (ft, j) (hot x)), (has (ft, j) (cold x)), (rel j); reflexivity. }
  assert (Hh1 : hot x1 = hot x) by (exact (copy_to_src Cold ft _ x)).
  split.
  - pose proof (copy_to_src Hot ft (only_ids rel cl com) x1) as H. cbn [side_store other] in H.
    rewrite H. apply Hc1.
  - pose proof (copy_to_get Hot ft (only_ids rel cl com) x1 k) as H. cbn [side_store other] in H.
    rewrite H, Hh1. clear H.
    destruct k as [f j]. cbn [fst snd].
    destruct (ft_eqb ft f) eqn:Ef; cbn [andb]; [|reflexivity].
    apply ft_eqb_eq in Ef; subst f.
    unfold com; unfold cl, hl. rewrite mem_only, mem_common.
    unfold has at 3. rewrite (Hc1 (ft, j)). cbn [fst snd].
    replace (ft_eqb ft ft) with true by (symmetry; apply ft_eqb_eq; reflexivity). cbn [andb].
    unfold same_size.
    destruct (has (ft, j) (cold x)) eqn:Hc; cbn [andb negb].
    + rewrite !andb_false_r, andb_true_r.
      set (c := has (ft, j) (hot x) && size_eqb (osize (get (ft, j) (hot x))) (osize (get (ft, j) (cold x)))).
      unfold has in Hc. destruct (get (ft, j) (cold x)) eqn:Gc; [|discriminate].
      destruct (rel j), c; reflexivity.
    + rewrite andb_false_r. reflexivity.
Qed.

(* ------------------------------------------------------------ the repair theorem *)
Section Repair.
Variable kind : id -> bool.

(* per file type: what cold holds of a hot type is in hot with identical bytes *)
Definition Q (ft : file_type) (x : st) : Prop :=
  forall i b, hot_type kind (ft, i) = true -> get (ft, i) (cold x) = Some b -> get (ft, i) (hot x) = Some b.
(* damage changes sizes: two copies of a hot-type file that have the same size are identical *)
Definition SameSizeSame (ft : file_type) (x : st) : Prop :=
  forall i bh bc, hot_type kind (ft, i) = true ->
    get (ft, i) (hot x) = Some bh -> get (ft, i) (cold x) = Some bc -> length bh = length bc -> bh = bc.

Lemma ft_eqb_refl ft : ft_eqb ft ft = true.
Proof. apply ft_eqb_eq; reflexivity. Qed.
Lemma ft_eqb_neq a b : a <> b -> ft_eqb a b = false.
Proof. intro H. destruct (ft_eqb a b) eqn:E; [apply ft_eqb_eq in E; contradiction | reflexivity]. Qed.

Lemma same_size_true a b : same_size a b = true -> exists x y, a = Some x /\ b = Some y /\ length x = length y.
Proof.
  unfold same_size, size_eqb, osize. destruct a as [x|], b as [y|]; try discriminate.
  intro H. apply N.eqb_eq in H. exists x, y. repeat split. lia.
Qed.

Lemma repair_establishes ft rel x :
  (forall i, rel i = hot_type kind (ft, i)) -> SameSizeSame ft x ->
  Q ft (repair_type_r HotOnlyNotInCold ft rel x).
Proof.
  intros Hrel Hss i b Hk Hc.
  destruct (repair_type_fixed_spec ft rel x (ft, i)) as [Sc Sh]. cbn zeta in Sc, Sh.
  rewrite Sc in Hc. rewrite Sh. clear Sc Sh. cbn [fst snd] in *.
  rewrite ft_eqb_refl, Hrel, Hk in *. cbn [andb] in *.
  destruct (has (ft, i) (cold x)) eqn:Hcx; cbn [andb negb] in *.
  - rewrite andb_false_r in Hc.
    destruct (has (ft, i) (hot x) && same_size (get (ft, i) (hot x)) (get (ft, i) (cold x))) eqn:E; cbn [negb].
    + apply andb_true_iff in E. destruct E as [_ E]. apply same_size_true in E.
      destruct E as (bh & bc & Eh & Ec & El). rewrite Eh. f_equal.
      rewrite Ec in Hc. inv Hc. eapply Hss; eassumption.
    + exact Hc.
  - rewrite andb_true_r in Hc. destruct (has (ft, i) (hot x)) eqn:Hhx; cbn [andb] in *.
    + exact Hc.
    + apply has_false in Hcx. congruence.
Qed.

Lemma repair_other_type ft ft' rel x i :
  ft' <> ft ->
  get (ft', i) (cold (repair_type_r HotOnlyNotInCold ft rel x)) = get (ft', i) (cold x) /\
  get (ft', i) (hot (repair_type_r HotOnlyNotInCold ft rel x)) = get (ft', i) (hot x).
Proof.
  intro Hne. destruct (repair_type_fixed_spec ft rel x (ft', i)) as [Sc Sh]. cbn zeta in Sc, Sh.
  cbn [fst snd] in *. rewrite (ft_eqb_neq ft ft') in * by congruence. cbn [andb] in *. auto.
Qed.

Lemma repair_keeps_Q ft ft' rel x : ft' <> ft -> Q ft' x -> Q ft' (repair_type_r HotOnlyNotInCold ft rel x).
Proof.
  intros Hne HQ i b Hk Hc. destruct (repair_other_type ft ft' rel x i Hne) as [Ec Eh].
  rewrite Eh. rewrite Ec in Hc. apply HQ; assumption.
Qed.

Lemma repair_keeps_SSS ft ft' rel x :
  ft' <> ft -> SameSizeSame ft' x -> SameSizeSame ft' (repair_type_r HotOnlyNotInCold ft rel x).
Proof.
  intros Hne H i bh bc Hk Gh Gc. destruct (repair_other_type ft ft' rel x i Hne) as [Ec Eh].
  rewrite Eh in Gh. rewrite Ec in Gc. eapply H; eassumption.
Qed.

Lemma repair_keeps_cold ft rel x k b :
  get k (cold x) = Some b -> get k (cold (repair_type_r HotOnlyNotInCold ft rel x)) = Some b.
Proof.
  intro G. destruct (repair_type_fixed_spec ft rel x k) as [Sc _]. cbn zeta in Sc. rewrite Sc.
  replace (has k (cold x)) with true by (symmetry; apply has_get; eauto).
  cbn [negb]. rewrite andb_false_r. exact G.
Qed.

Lemma repair_keeps_no_data ft rel x :
  (forall i, rel i = hot_type kind (ft, i)) ->
  no_data_in_hot kind x -> no_data_in_hot kind (repair_type_r HotOnlyNotInCold ft rel x).
Proof.
  intros Hrel D i Hi. destruct (repair_type_fixed_spec ft rel x (Pack, i)) as [_ Sh]. cbn zeta in Sh.
  rewrite Sh. cbn [fst snd].
  destruct (ft_eqb ft Pack) eqn:E; cbn [andb]; [|apply D; exact Hi].
  apply ft_eqb_eq in E; subst ft. rewrite Hrel. cbn. rewrite Hi. cbn [andb]. apply D; exact Hi.
Qed.

Lemma repair_except_packs_unfold x :
  repair_hot_only_rule = HotOnlyNotInCold ->
  repair_except_packs x =
  repair_type_r HotOnlyNotInCold Index (fun _ => true)
    (repair_type_r HotOnlyNotInCold Snapshot (fun _ => true)
      (repair_type_r HotOnlyNotInCold Key (fun _ => true) x)).
Proof. intro H. unfold repair_except_packs, repair_type. rewrite H. reflexivity. Qed.

Lemma repair_restores_lemma tp x :
  repair_hot_only_rule = HotOnlyNotInCold ->
  (forall i, mem i tp = kind i) ->
  (forall ft, SameSizeSame ft x) -> no_data_in_hot kind x ->
  let y := repair_all tp x in
  HotComplete kind y /\ (forall k b, get k (cold x) = Some b -> get k (cold y) = Some b).
Proof.
  intros Hrule Htp Hss Hnd. cbn zeta. unfold repair_all, repair_packs, repair_type.
  rewrite (repair_except_packs_unfold x Hrule). rewrite Hrule.
  set (x1 := repair_type_r HotOnlyNotInCold Key (fun _ => true) x).
  set (x2 := repair_type_r HotOnlyNotInCold Snapshot (fun _ => true) x1).
  set (x3 := repair_type_r HotOnlyNotInCold Index (fun _ => true) x2).
  set (x4 := repair_type_r HotOnlyNotInCold Pack (fun i => mem i tp) x3).
  assert (Rk : forall i, (fun _ : id => true) i = hot_type kind (Key, i)) by reflexivity.
  assert (Rs : forall i, (fun _ : id => true) i = hot_type kind (Snapshot, i)) by reflexivity.
  assert (Ri : forall i, (fun _ : id => true) i = hot_type kind (Index, i)) by reflexivity.
  assert (Rp : forall i, (fun i => mem i tp) i = hot_type kind (Pack, i)) by (intro i; cbn; apply Htp).
  assert (Q1 : Q Key x1) by (apply repair_establishes; [exact Rk | apply Hss]).
  assert (Q2 : Q Snapshot x2).
  { apply repair_establishes; [exact Rs|]. apply repair_keeps_SSS; [discriminate | apply Hss]. }
  assert (Q3 : Q Index x3).
  { apply repair_establishes; [exact Ri|]. apply repair_keeps_SSS; [discriminate|]. apply repair_keeps_SSS; [discriminate | apply Hss]. }
  assert (Q4 : Q Pack x4).
  { apply repair_establishes; [exact Rp|]. apply repair_keeps_SSS; [discriminate|].
    apply repair_keeps_SSS; [discriminate|]. apply repair_keeps_SSS; [discriminate | apply Hss]. }
  assert (Q1' : Q Key x4) by (apply repair_keeps_Q; [discriminate|]; apply repair_keeps_Q; [discriminate|]; apply repair_keeps_Q; [discriminate | exact Q1]).
  assert (Q2' : Q Snapshot x4) by (apply repair_keeps_Q; [discriminate|]; apply repair_keeps_Q; [discriminate | exact Q2]).
  assert (Q3' : Q Index x4) by (apply repair_keeps_Q; [discriminate | exact Q3]).
  split; [split|].
  - intros [ft i] b Hk Hc. destruct ft.
    + cbn in Hk. discriminate.
    + apply Q3'; assumption.
    + apply Q1'; assumption.
    + apply Q2'; assumption.
    + apply Q4; assumption.
  - apply repair_keeps_no_data; [exact Rp|]. apply repair_keeps_no_data; [exact Ri|].
    apply repair_keeps_no_data; [exact Rs|]. apply repair_keeps_no_data; [exact Rk | exact Hnd].
  - intros k b G. do 4 apply repair_keeps_cold. exact G.
Qed.

(* ------------------------------------------------------------ damage *)
Variable content : key -> bytes.

(* files removed from, or cut short in, the hot store *)
Inductive damage := DRemove (k : key) | DTruncate (k : key) (n : nat).
Definition apply_damage (x : st) (d : damage) : st :=
  match d with DRemove k => remove_hot [k] x | DTruncate k n => truncate_hot k n x end.
Definition damage_hot (ds : list damage) (x : st) : st := fold_left apply_damage ds x.

(* what damage preserves: cold untouched; every hot file is a prefix of the content of its id *)
Definition Damaged (x0 x : st) : Prop :=
  cold x = cold x0 /\
  forall k b, hot_type kind k = true -> get k (hot x) = Some b -> exists n, b = firstn n (content k).

Lemma damage_keeps x0 ds : forall x,
  Damaged x0 x -> no_data_in_hot kind x ->
  Damaged x0 (damage_hot ds x) /\ no_data_in_hot kind (damage_hot ds x).
Proof.
  induction ds as [|d r IH]; intros x HD Hnd; [split; assumption|].
  unfold damage_hot in *. cbn [fold_left]. apply IH.
  - destruct HD as [Hc Hp]. destruct d as [k|k n]; cbn [apply_damage].
    + unfold remove_hot. cbn [fold_left hot cold]. split; [exact Hc|].
      intros k' b Hk G. cbn in G. rewrite get_del in G. destruct (key_eqb k' k); [discriminate|]. eapply Hp; eassumption.
    + unfold truncate_hot. destruct (get k (hot x)) as [bk|] eqn:Gk; [|split; assumption].
      cbn [hot cold]. split; [exact Hc|].
      intros k' b Hk G. cbn [hot] in G. rewrite get_put in G. destruct (key_eqb k' k) eqn:E.
      * apply key_eqb_eq in E; subst k'. inv G. destruct (Hp k bk Hk Gk) as [m ->].
        exists (Nat.min n m). rewrite firstn_firstn. reflexivity.
      * eapply Hp; eassumption.
  - destruct d as [k|k n]; cbn [apply_damage].
    + unfold remove_hot. cbn [fold_left]. intros i Hi. cbn. rewrite get_del.
      destruct (key_eqb (Pack, i) k); [reflexivity | apply Hnd; exact Hi].
    + unfold truncate_hot. destruct (get k (hot x)) as [bk|] eqn:Gk; [|exact Hnd].
      intros i Hi. cbn. rewrite get_put. destruct (key_eqb (Pack, i) k) eqn:E; [|apply Hnd; exact Hi].
      apply key_eqb_eq in E; subst k. rewrite (Hnd i Hi) in Gk. discriminate.
Qed.

Lemma firstn_same_length {A} n (l : list A) : length (firstn n l) = length l -> firstn n l = l.
Proof.
  intro H. rewrite firstn_length in H.
  rewrite <- (firstn_all l) at 2. destruct (Nat.le_gt_cases (length l) n) as [Hle|Hgt].
  - apply firstn_all2 in Hle. rewrite Hle. symmetry. apply firstn_all.
  - lia.
Qed.

Lemma repair_after_damage_lemma tp x ds :
  repair_hot_only_rule = HotOnlyNotInCold ->
  (forall i, mem i tp = kind i) ->
  I kind content x ->
  let y := repair_all tp (damage_hot ds x) in
  HotComplete kind y /\ (forall k b, get k (cold x) = Some b -> get k (cold y) = Some b).
Proof.
  intros Hrule Htp (C & H & D). cbn zeta.
  assert (HD0 : Damaged x x).
  { split; [reflexivity|]. intros k b Hk G. exists (length (content k)).
    rewrite firstn_all. exact (C Hot k b Hk G). }
  destruct (damage_keeps x ds x HD0 D) as [[Hc Hp] Hnd].
  pose proof (repair_restores_lemma tp (damage_hot ds x) Hrule Htp) as R. cbn zeta in R.
  rewrite Hc in R. apply R; [|exact Hnd].
  intros ft i bh bc Hk Gh Gc Hl.
  destruct (Hp (ft, i) bh Hk Gh) as [n ->].
  rewrite Hc in Gc.
  assert (bc = content (ft, i)) by (exact (C Cold (ft, i) bc Hk Gc)).
  subst bc. apply firstn_same_length. exact Hl.
Qed.

End Repair.

(* ------------------------------------------------------------ the rule before the fix
   (hot ids that are not common are copied to cold): a hot file that was cut short
   replaces the intact cold file. *)
Definition wit_x : st :=
  mkst [((Snapshot, 5), [1; 2])] [((Snapshot, 5), [1; 2; 3; 4])].

Lemma repair_unfixed_rule_destroys_cold_lemma :
  exists x k b,
    get k (cold x) = Some b /\
    get k (cold (repair_type_r HotOnlyNotCommon (fst k) (fun _ => true) x)) <> Some b /\
    get k (cold (repair_type_r HotOnlyNotInCold (fst k) (fun _ => true) x)) = Some b /\
    get k (hot (repair_type_r HotOnlyNotInCold (fst k) (fun _ => true) x)) = Some b.
Proof.
  exists wit_x, (Snapshot, 5), [1; 2; 3; 4]. vm_compute. repeat split; try reflexivity. discriminate.
Qed.

(* ------------------------------------------------------------ the tree packs come from the index
   (every section: packs and packs_to_delete - a pack that prune only marked is still in both stores) *)
Definition index_names (kind : id -> bool) (idx : list index_entry) : Prop :=
  forall i, kind i = existsb (fun e => N.eqb i (ie_id e) && blob_eqb (ie_blob e) Tree) idx.

Lemma mem_map_filter (p : index_entry -> bool) i idx :
  mem i (map ie_id (filter p idx)) = existsb (fun e => N.eqb i (ie_id e) && p e) idx.
Proof.
  induction idx as [|e r IH]; [reflexivity|]. cbn [filter existsb].
  destruct (p e) eqn:Pe; cbn [map mem existsb]; fold (mem i (map ie_id (filter p r))); rewrite IH.
  - rewrite andb_true_r. reflexivity.
  - rewrite andb_false_r. reflexivity.
Qed.

Lemma tree_packs_of_kind kind idx : index_names kind idx -> forall i, mem i (tree_packs_of idx) = kind i.
Proof.
  intros H i. rewrite (H i). unfold tree_packs_of. rewrite mem_map_filter.
  apply existsb_ext_local. intros e _.
  assert (Hs : forall s, existsb (sec_eqb s) tree_pack_sections = true) by (intro s; destruct s; reflexivity).
  rewrite Hs. assert (Hb : tree_pack_blob = Tree) by reflexivity. rewrite Hb. reflexivity.
Qed.

Lemma repair_from_index_lemma kind content idx x ds :
  repair_hot_only_rule = HotOnlyNotInCold ->
  index_names kind idx ->
  I kind content x ->
  let y := repair_all_idx idx (damage_hot ds x) in
  HotComplete kind y /\ (forall k b, get k (cold x) = Some b -> get k (cold y) = Some b).
Proof.
  intros Hr Hi HI. unfold repair_all_idx.
  apply (repair_after_damage_lemma kind content (tree_packs_of idx) x ds Hr (tree_packs_of_kind kind idx Hi) HI).
Qed.

(* with only the `packs` section a tree pack that is marked for deletion is not recognised *)
Lemma marked_tree_pack_needs_both_sections_lemma :
  exists e, ie_blob e = Tree /\
    existsb (sec_eqb (ie_sec e)) [SecPacks] = false /\
    existsb (sec_eqb (ie_sec e)) [SecPacks; SecPacksToDelete] = true.
Proof. exists (mkie SecPacksToDelete 1 Tree). repeat split. Qed.
