(* C16 — extraction of the executable model and oracle (ExtrOcamlBasic only). *)
Require Extraction.
Require Import ExtrOcamlBasic.
From Coq Require Import ZArith.
From Verif.C16 Require Import ModelBase Extracted Model Warmup.
Extraction "model_ml.ml" step_op final hc_read_full hc_read_partial hc_list inv_b empty_st
  inner repair_all repair_all_idx tree_packs_of repair_except_packs repair_packs remove_hot truncate_hot mem exec_ops
  cold_run disciplined_from all_served cmd_cold_results Z.of_N.  (* Z.of_N only so that the shared zn prelude finds the type Z *)
