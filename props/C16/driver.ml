(* prelude: zn *)
(* C16 driver: same case lines as harness/src/bin/c16.rs.
   mode "ops": op sequences over the hot/cold wrapper, state dump after every inner call.
   mode "log": replay a log of inner calls (from the e2e runs), evaluate the extracted inv_b
               after every call and check content addressing.
   mode "repair": model of the hot/cold repair on a dumped state. *)
let fts = [| Config; Index; Key; Snapshot; Pack |]
let ftn = function Config -> 0 | Index -> 1 | Key -> 2 | Snapshot -> 3 | Pack -> 4

let hex_of (b : n list) = String.concat "" (List.map (fun x -> Printf.sprintf "%02x" (int_of_n x)) b)
let pattern len seed = List.init len (fun i -> n_of_int ((seed + i * 7) mod 256))

let dump_side s =
  let l = List.map (fun ((ft, i), b) -> (ftn ft, int_of_n i, b)) s in
  let l = List.sort compare l in
  String.concat "," (List.map (fun (f, i, b) -> Printf.sprintf "%d:%d:%s" f i (hex_of b)) l)
let dump x = Printf.sprintf "H{%s}C{%s}" (dump_side x.hot) (dump_side x.cold)

let outc = function 0 -> OOk | 1 -> OFail | _ -> OFailDone

let ops_case line =
  let t = toks line in
  let n = ni t in
  let x = ref empty_st in
  let out = ref [] in
  for _ = 1 to n do
    let kind = ni t in
    let res =
      match kind with
      | 0 | 1 ->
        let ft = fts.(ni t) in
        let i = n_of_int (ni t) in
        let c = ni t = 1 in
        let o = if kind = 0 then (let len = ni t in let seed = ni t in OpWrite (ft, i, c, pattern len seed)) else OpRemove (ft, i, c) in
        let o1 = ni t in let o2 = ni t in
        let (tr, ok) = step_op (o, [outc o1; outc o2]) !x in
        x := final !x tr;
        String.concat ";" ((if ok then "ok" else "err") :: List.map dump tr)
      | 2 ->
        let ft = fts.(ni t) in
        let i = n_of_int (ni t) in
        (match hc_read_full !x ft i with Some b -> "some:" ^ hex_of b | None -> "none")
      | 3 ->
        let ft = fts.(ni t) in
        let i = n_of_int (ni t) in
        let c = ni t = 1 in
        let off = ni t in let len = ni t in
        (match hc_read_partial !x ft i c (n_of_int off) (n_of_int len) with Some b -> "some:" ^ hex_of b | None -> "none")
      | _ ->
        let ft = fts.(ni t) in
        let l = List.sort compare (List.map (fun (i, s) -> (int_of_n i, int_of_n s)) (hc_list !x ft)) in
        "list:" ^ String.concat "," (List.map (fun (i, s) -> Printf.sprintf "%d=%d" i s) l)
    in
    out := res :: !out
  done;
  String.concat " | " (List.rev !out)

(* log mode: `ntree tree_id*  n  (side write ft id len hash effect)*`
   side 0 hot 1 cold; write 1/0; effect 1/0; content abstracted to [len; hash].
   Output: `ok <n>` or `viol <index of the first call after which inv_b is false>`,
   then ` ca=<1|0>` (content addressing holds for hot-type files in the log) and ` final=<1|0>`
   (inv_b on the last state). *)
let log_case line =
  let t = toks line in
  let nt = ni t in
  let trees = ntimes nt (fun () -> ni t) in
  let kind i = List.mem (int_of_n i) trees in
  let n = ni t in
  let x = ref empty_st in
  let bad = ref (-1) in
  let seen = Hashtbl.create 64 in
  let ca = ref true in
  for idx = 0 to n - 1 do
    let side = if ni t = 0 then Hot else Cold in
    let wr = ni t = 1 in
    let ft = fts.(ni t) in
    let i = ni t in
    let len = ni t in let h = ni t in
    let eff = ni t = 1 in
    let k = (ft, n_of_int i) in
    let c = if wr then IWrite (side, k, [n_of_int len; n_of_int h]) else IRemove (side, k) in
    if wr && ft <> Config then begin
      (match Hashtbl.find_opt seen (ftn ft, i) with
       | Some v -> if v <> (len, h) then ca := false
       | None -> Hashtbl.replace seen (ftn ft, i) (len, h))
    end;
    let (x', _) = inner c (if eff then OOk else OFail) !x in
    x := x';
    if !bad < 0 && not (inv_b kind !x) then bad := idx
  done;
  (if !bad < 0 then Printf.sprintf "ok %d" n else Printf.sprintf "viol %d" !bad)
  ^ (if !ca then " ca=1" else " ca=0") ^ (if inv_b kind !x then " final=1" else " final=0")

(* repair mode: `nidx (section id is_tree)*  nh (ft id len hash)*  nc (ft id len hash)*`
   index entries as read from the index files (section 0 = packs, 1 = packs_to_delete);
   content abstracted to a list of `len` elements all equal to hash (so that size = len).
   Output: dump of repair_all_idx (tree packs = get_tree_packs of the model) on that state. *)
let repair_case line =
  let t = toks line in
  let nidx = ni t in
  let idx = ntimes nidx (fun () ->
    let sec = if ni t = 0 then SecPacks else SecPacksToDelete in
    let i = ni t in
    let bt = if ni t = 1 then Tree else Data in
    { ie_sec = sec; ie_id = n_of_int i; ie_blob = bt }) in
  let rd () =
    let n = ni t in
    ntimes n (fun () ->
      let ft = fts.(ni t) in let i = ni t in let len = ni t in let h = ni t in
      ((ft, n_of_int i), List.init len (fun _ -> n_of_int h))) in
  let h = rd () in
  let c = rd () in
  let y = repair_all_idx idx { hot = h; cold = c } in
  let side s =
    let l = List.sort compare (List.map (fun ((ft, i), b) -> (ftn ft, int_of_n i, List.length b, (match b with [] -> 0 | v :: _ -> int_of_n v))) s) in
    String.concat "," (List.map (fun (f, i, l, v) -> Printf.sprintf "%d:%d:%d:%d" f i l v) l) in
  Printf.sprintf "H{%s}C{%s}" (side y.hot) (side y.cold)

(* warm mode: `m n (kind ft id served)*`  - what reached the cold store during one command, in order
   (m: 0 = the store's own warm_up call, 1 = warm-up by access; kind 0 = warm_up call, 1 = read, 2 = one-byte probe
   read of WarmUpAccessBackend, 3 = the store cooled down: a new command starts).  Per segment the events are
   turned into LWarm / LRead; output `disc=<1|0>` (extracted disciplined_from on every segment) and `acc=<1|0>`
   (the extracted cold_run predicts exactly the observed served / rejected flags of the reads). *)
let warm_case line =
  let t = toks line in
  let m = if ni t = 1 then WAccess else WExplicit in
  let n = ni t in
  let segs = ref [] and cur = ref [] in
  for _ = 1 to n do
    let kind = ni t in let ft = fts.(ni t) in let i = ni t in let served = ni t = 1 in
    if kind = 3 then (segs := List.rev !cur :: !segs; cur := [])
    else cur := (kind, (ft, n_of_int i), served) :: !cur
  done;
  segs := List.rev !cur :: !segs;
  let disc = ref true and acc = ref true in
  List.iter (fun seg ->
    let evs = List.map (fun (kind, k, _) -> if kind = 1 then LRead k else LWarm k) seg in
    let obs = List.filter_map (fun (kind, _, served) -> if kind = 1 then Some served else None) seg in
    if not (disciplined_from [] evs) then disc := false;
    if cold_run m [] evs <> obs then acc := false) !segs;
  Printf.sprintf "disc=%d acc=%d" (if !disc then 1 else 0) (if !acc then 1 else 0)

let () =
  let mode = if Array.length Sys.argv > 2 then Sys.argv.(2) else "ops" in
  main_loop (match mode with "log" -> log_case | "repair" -> repair_case | "warm" -> warm_case | _ -> ops_case)
