"""C16 fact extractor: regenerates props/C16/coq/Extracted.v from the source.

From crates/core/src/backend/hotcold.rs (impl of HotColdBackend): for `write_bytes` and
`remove` the inner calls in source order, each with its guard and whether its error is
propagated; for `read_full`, `read_partial`, `list_with_size` the side that is asked (with
the guard of an if/else).  From backend.rs: ALL_FILE_TYPES, FileType::is_cacheable.  From
blob.rs: BlobType::is_cacheable.  From commands/repair/hotcold.rs: the file types handled by
`repair_hotcold`, the order of the two copies in `correct_missing_files`, the shape of
`get_missing_files` (what counts as common, what is returned in which position).  From
commands/config.rs: the order cold/hot of `save_config`.
Fails loudly (ExtractError) when an item no longer has the expected shape."""
import re, sys, os
sys.path.insert(0, os.path.join(os.path.dirname(__file__), "..", "..", "lib"))
from rustscan import *

FT = ["Config", "Index", "Key", "Snapshot", "Pack"]
SIDE = {"self.be_hot": "Hot", "self.be": "Cold"}


def tr_cond(c, var="tpe"):
    """Rust boolean expression over `tpe`, `cacheable`, FileType::X -> Coq bool expression."""
    e = " ".join(c.split())
    e = re.sub(r"\b%s\s*!=\s*FileType::(\w+)" % var, lambda m: "(ft_neqb tpe %s)" % ft(m.group(1)), e)
    e = re.sub(r"\b%s\s*==\s*FileType::(\w+)" % var, lambda m: "(ft_eqb tpe %s)" % ft(m.group(1)), e)
    e = re.sub(r"!\s*cacheable\b", "(negb cacheable)", e)
    e = re.sub(r"!\s*\(", "negb (", e)
    chk = re.sub(r"\(ft_n?eqb tpe \w+\)|\bnegb\b|\bcacheable\b|\btrue\b|\bfalse\b|&&|\|\||[()\s]", "", e)
    if chk:
        raise ExtractError("condition has an unrecognised shape: %r (left: %r)" % (c, chk))
    return e


def ft(name):
    if name not in FT:
        raise ExtractError("unknown FileType::" + name)
    return name


def split_stmts(body):
    """Top-level statements of a block: list of ('if', cond, then_block, else_block|None) or ('stmt', text, has_semicolon)."""
    out, i, n = [], 0, len(body)
    while i < n:
        while i < n and body[i].isspace():
            i += 1
        if i >= n:
            break
        m = re.match(r"if\b", body[i:])
        if m:
            b = body.find("{", i)
            if b < 0:
                raise ExtractError("if without block")
            cond = body[i + 2:b].strip()
            e = match_brace(body, b)
            then = body[b + 1:e]
            j = e + 1
            els = None
            m2 = re.match(r"\s*else\s*\{", body[j:])
            if m2:
                b2 = j + m2.end() - 1
                e2 = match_brace(body, b2)
                els = body[b2 + 1:e2]
                j = e2 + 1
            out.append(("if", cond, then, els))
            i = j
        else:
            depth, j = 0, i
            while j < n:
                c = body[j]
                if c in "({[":
                    depth += 1
                elif c in ")}]":
                    depth -= 1
                elif c == ";" and depth == 0:
                    break
                j += 1
            out.append(("stmt", " ".join(body[i:j].split()), j < n))
            i = j + 1
    return out


def plan_of(body, method, cond="true"):
    """Inner calls of `method` in source order: [(cond, side, propagates)]."""
    res = []
    for st in split_stmts(body):
        if st[0] == "if":
            _, c, then, els = st
            cc = tr_cond(c)
            res += plan_of(then, method, cc if cond == "true" else "(%s && %s)" % (cond, cc))
            if els is not None:
                nc = "(negb %s)" % cc
                res += plan_of(els, method, nc if cond == "true" else "(%s && %s)" % (cond, nc))
        else:
            _, text, semi = st
            if text in ("Ok(())", ""):
                continue
            m = re.fullmatch(r"(self\s*\.\s*be(?:_hot)?)\s*\.\s*(\w+)\s*\((.*)\)\s*(\?)?", text)
            if not m or m.group(2) != method:
                raise ExtractError("statement in HotColdBackend::%s not recognised: %r" % (method, text))
            side = SIDE[re.sub(r"\s", "", m.group(1))]
            propagates = bool(m.group(4)) or not semi
            res.append((cond, side, propagates))
    return res


def impl_fn(src, name):
    """Body of fn `name` inside the impl blocks of HotColdBackend."""
    bodies = []
    for m in re.finditer(r"impl\s+(?:\w+\s+for\s+)?HotColdBackend\s*\{", src):
        b = src.find("{", m.start())
        blk = src[b + 1:match_brace(src, b)]
        try:
            bodies.append(fn_body(blk, name))
        except ExtractError:
            pass
    if len(bodies) != 1:
        raise ExtractError("fn %s: expected exactly one definition in impl HotColdBackend, found %d" % (name, len(bodies)))
    return bodies[0]


def plan_def(name, plan):
    parts = ["(if %s then [(%s, %s)] else [])" % (c, s, "true" if p else "false") for (c, s, p) in plan]
    return "Definition %s (tpe : file_type) (cacheable : bool) : list (side * bool) :=\n  %s." % (
        name, "\n  ++ ".join(parts) if parts else "[]")


def side_def(name, plan):
    """A read method asks exactly one side under every condition."""
    if len(plan) == 1 and plan[0][0] == "true":
        body = plan[0][1]
    elif len(plan) == 2 and plan[1][0] == "(negb %s)" % plan[0][0]:
        body = "if %s then %s else %s" % (plan[0][0], plan[0][1], plan[1][1])
    else:
        raise ExtractError("%s: expected one inner call or an if/else of two, found %r" % (name, plan))
    return "Definition %s (tpe : file_type) (cacheable : bool) : side :=\n  %s." % (name, body)


def match_table(body, enum, values):
    """`match self { Self::A | Self::B => false, ... }` -> {variant: bool}"""
    t = {}
    for arm in re.finditer(r"((?:Self::\w+\s*\|?\s*)+)=>\s*(true|false)", body):
        for v in re.findall(r"Self::(\w+)", arm.group(1)):
            if v in t:
                raise ExtractError("%s::is_cacheable lists %s twice" % (enum, v))
            t[v] = arm.group(2)
    if sorted(t) != sorted(values):
        raise ExtractError("%s::is_cacheable: arms %r do not cover %r" % (enum, sorted(t), sorted(values)))
    return t


def gen(repo):
    hc = read(repo, "crates/core/src/backend/hotcold.rs")
    out = ["(* GENERATED by props/C16/extract.py from crates/core/src/backend/hotcold.rs, backend.rs, blob.rs,",
           "   commands/repair/hotcold.rs, commands/config.rs - do not edit *)",
           "From Verif.Base Require Import Tactics.",
           "From Verif.C16 Require Import ModelBase.", ""]
    meta = {}
    wp = plan_of(impl_fn(hc, "write_bytes"), "write_bytes")
    rp = plan_of(impl_fn(hc, "remove"), "remove")
    out.append("(* HotColdBackend::write_bytes / remove: inner calls in source order (side, error propagated) *)")
    out.append(plan_def("write_plan", wp))
    out.append(plan_def("remove_plan", rp))
    out.append("(* HotColdBackend reads: the side that is asked *)")
    out.append(side_def("read_full_side", plan_of(impl_fn(hc, "read_full"), "read_full")))
    out.append(side_def("read_partial_side", plan_of(impl_fn(hc, "read_partial"), "read_partial")))
    out.append(side_def("list_side", plan_of(impl_fn(hc, "list_with_size"), "list_with_size")))
    out.append(side_def("warm_up_side", plan_of(impl_fn(hc, "warm_up"), "warm_up")))
    meta["write_plan"] = wp
    meta["remove_plan"] = rp
    # backend.rs
    be = read(repo, "crates/core/src/backend.rs")
    m = re.search(r"const\s+ALL_FILE_TYPES\s*:\s*\[\s*FileType\s*;\s*(\d+)\s*\]\s*=\s*\[([^\]]*)\]", be)
    if not m:
        raise ExtractError("ALL_FILE_TYPES not found")
    aft = re.findall(r"FileType::(\w+)", m.group(2))
    if len(aft) != int(m.group(1)):
        raise ExtractError("ALL_FILE_TYPES length mismatch")
    out.append("")
    out.append("Definition all_file_types : list file_type := [%s]." % "; ".join(ft(x) for x in aft))
    i = be.find("impl FileType")
    if i < 0:
        raise ExtractError("impl FileType not found")
    blk = be[be.find("{", i) + 1:match_brace(be, be.find("{", i))]
    t = match_table(fn_body(blk, "is_cacheable"), "FileType", FT)
    out.append("Definition ft_is_cacheable (tpe : file_type) : bool :=\n  match tpe with %s end." %
               " ".join("| %s => %s" % (v, t[v]) for v in FT))
    bl = read(repo, "crates/core/src/blob.rs")
    i = bl.find("impl BlobType")
    if i < 0:
        raise ExtractError("impl BlobType not found")
    blk = bl[bl.find("{", i) + 1:match_brace(bl, bl.find("{", i))]
    t = match_table(fn_body(blk, "is_cacheable"), "BlobType", ["Tree", "Data"])
    out.append("Definition blob_is_cacheable (b : blob_type) : bool :=\n  match b with | Tree => %s | Data => %s end." % (t["Tree"], t["Data"]))
    # repair/hotcold.rs
    rh = read(repo, "crates/core/src/commands/repair/hotcold.rs")
    b = fn_body(rh, "repair_hotcold")
    m = re.search(r"for\s+file_type\s+in\s+ALL_FILE_TYPES\s*\{\s*if\s+(.*?)\s*\{\s*correct_missing_files\s*\(\s*repo\s*,\s*file_type\s*,\s*\|_\|\s*true\s*,\s*dry_run\s*\)\s*\?\s*;\s*\}\s*\}", b, re.S)
    if not m:
        raise ExtractError("repair_hotcold: loop over ALL_FILE_TYPES not recognised")
    out.append("")
    out.append("(* repair_hotcold: file types handled (all ids relevant) *)")
    out.append("Definition repair_type_cond (tpe : file_type) : bool := %s." % tr_cond(m.group(1), var="file_type"))
    b = fn_body(rh, "repair_hotcold_packs")
    if not re.search(r"correct_missing_files\s*\(\s*repo\s*,\s*FileType::Pack\s*,\s*\|id\|\s*tree_packs\.contains\(&PackId::from\(\*id\)\)\s*,\s*dry_run\s*,?\s*\)", b):
        raise ExtractError("repair_hotcold_packs: call of correct_missing_files not recognised")
    # get_tree_packs: which index sections are read, which blob type is kept
    g = " ".join(fn_body(rh, "get_tree_packs").split())
    m = re.search(r"for (\(pack, _\)|pack) in index\.(all_packs\(\)|packs|packs_to_delete) \{ let blob_type = pack\.blob_type\(\); if blob_type == BlobType::(\w+) \{ _ = tree_packs\.insert\(pack\.id\); \} \}", g)
    if not m or "repo.dbe().stream_all::<IndexFile>(&p)?" not in g:
        raise ExtractError("get_tree_packs: loop over the index packs not recognised")
    if m.group(2) == "all_packs()":
        ix = read(repo, "crates/core/src/repofile/indexfile.rs")
        ap = " ".join(fn_body(ix, "all_packs").split())
        secs = list(dict.fromkeys(re.findall(r"self\s*\.\s*(packs_to_delete|packs)\b", ap)))
        if not secs:
            raise ExtractError("IndexFile::all_packs: sections not recognised")
    else:
        secs = [m.group(2)]
    secname = {"packs": "SecPacks", "packs_to_delete": "SecPacksToDelete"}
    out.append("(* get_tree_packs: index sections it reads, blob type it keeps *)")
    out.append("Definition tree_pack_sections : list index_section := [%s]." % "; ".join(secname[x] for x in secs))
    if m.group(3) not in ("Tree", "Data"):
        raise ExtractError("get_tree_packs: unknown blob type " + m.group(3))
    out.append("Definition tree_pack_blob : blob_type := %s." % m.group(3))
    meta["tree_pack_sections"] = secs
    b = fn_body(rh, "correct_missing_files")
    if not re.search(r"let\s*\(\s*missing_hot\s*,\s*missing_hot_size\s*,\s*missing_cold\s*,\s*missing_cold_size\s*\)\s*=\s*get_missing_files\s*\(\s*repo\s*,\s*file_type\s*,\s*is_relevant\s*\)\s*\?", b):
        raise ExtractError("correct_missing_files: destructuring of get_missing_files not recognised")
    c1 = re.search(r"copy\s*\(\s*missing_cold\s*,\s*file_type\s*,\s*repo_hot\s*,\s*&repo\.be_cold\s*,", b)
    c2 = re.search(r"copy\s*\(\s*missing_hot\s*,\s*file_type\s*,\s*&repo\.be_cold\s*,\s*repo_hot\s*,", b)
    w = re.search(r"warm_up_wait\s*\(\s*repo\s*,\s*file_type\s*,\s*missing_hot\.iter\(\)\.copied\(\)\s*\)\s*\?", b)
    if not c1 or not c2:
        raise ExtractError("correct_missing_files: the two copy calls not recognised")
    order = ["Cold", "Hot"] if c1.start() < c2.start() else ["Hot", "Cold"]
    out.append("(* correct_missing_files: destination of the first and of the second copy *)")
    out.append("Definition repair_copy_order : list side := [%s]." % "; ".join(order))
    meta["repair_warm_up_before_cold_read"] = bool(w and w.start() < c2.start())
    out.append("Definition repair_warms_up_before_reading_cold : bool := %s." % ("true" if meta["repair_warm_up_before_cold_read"] else "false"))
    b = fn_body(rh, "copy")
    if not re.search(r"from\.read_full\(file_type,\s*&id\)\?", b) or not re.search(r"to\.write_bytes\(file_type,\s*&id,\s*false,\s*file\.into\(\)\)\?", b):
        raise ExtractError("copy: read_full/write_bytes not recognised")
    g = " ".join(fn_body(rh, "get_missing_files").split())
    # what counts as common: "eq_size" = present on both sides with equal size (unchanged tree)
    if re.search(r"match cold_files\.get\(id\) \{ Some\(size_cold\) if size_cold == size_hot => Some\(\*id\), Some\(size_cold\) => \{ warn!\(.*?\); None \} None => None, \}", g):
        common = "CommonEqualSize"
    else:
        raise ExtractError("get_missing_files: definition of `common` not recognised")
    old_shape = (re.search(r"\.filter\(\|\(id, _\)\| !common\.contains\(id\) && is_relevant\(id\)\)", g)
                 and re.search(r"let \(cold_only, cold_only_size\) = retain\(cold_files\); let \(hot_only, hot_only_size\) = retain\(hot_files\); Ok\(\(cold_only, cold_only_size, hot_only, hot_only_size\)\)", g))
    new_shape = (re.search(r"let cold_ids: BTreeSet<_> = cold_files\.keys\(\)\.copied\(\)\.collect\(\);", g)
                 and re.search(r"let retain = \|files: BTreeMap<_, _>, exclude: &BTreeSet<Id>\|", g)
                 and re.search(r"\.filter\(\|\(id, _\)\| !exclude\.contains\(id\) && is_relevant\(id\)\)", g)
                 and re.search(r"let \(cold_only, cold_only_size\) = retain\(cold_files, &common\); let \(hot_only, hot_only_size\) = retain\(hot_files, &cold_ids\); Ok\(\(cold_only, cold_only_size, hot_only, hot_only_size\)\)", g))
    if old_shape and not new_shape:
        rule = "HotOnlyNotCommon"
    elif new_shape and not old_shape:
        rule = "HotOnlyNotInCold"
    else:
        raise ExtractError("get_missing_files: retain filter / result tuple not recognised")
    out.append("(* get_missing_files: ids on both sides count as common iff the sizes are equal; relevant cold ids")
    out.append("   that are not common are copied to hot; relevant hot ids are copied to cold when they are")
    out.append("   not common (HotOnlyNotCommon, the tree before the fix) / not in cold at all (HotOnlyNotInCold) *)")
    out.append("Definition repair_common_rule : common_rule := %s." % common)
    out.append("Definition repair_hot_only_rule : hot_only_rule := %s." % rule)
    meta["hot_only_rule"] = rule
    # config.rs
    cf = read(repo, "crates/core/src/commands/config.rs")
    b = fn_body(cf, "save_config")
    a1 = re.search(r"DecryptBackend::new\(repo\.be\.clone\(\),\s*key\)", b)
    a2 = re.search(r"dbe\.save_file_uncompressed\(&new_config\)\?", b)
    a3 = re.search(r"save_config_hot\(repo,\s*new_config,\s*key\)", b)
    if not (a1 and a2 and a3 and a1.start() < a2.start() < a3.start()):
        raise ExtractError("save_config: cold save followed by save_config_hot not recognised")
    bh = fn_body(cf, "save_config_hot")
    if not re.search(r"DecryptBackend::new\(hot_be\.clone\(\),\s*key\)", bh) or "new_config.is_hot = Some(true)" not in bh:
        raise ExtractError("save_config_hot: shape not recognised")
    out.append("(* save_config: the config goes through the hot/cold backend (cold only), then to the hot backend with is_hot *)")
    out.append("Definition save_config_order : list side := [Cold; Hot].")
    # ------------------------------------------------------------------ warm-up call sites
    TODO = ["Undecided", "Keep", "Repack", "MarkDelete", "KeepMarked", "KeepMarkedAndCorrect", "Recover", "Delete"]

    def phases(fn, body, warm_re, sets, read_res):
        """Order of the warm_up_wait call and the first read in a command body; which set expression is warmed."""
        t = " ".join(body.split())
        ws = [(m.start(), m.group(1)) for m in re.finditer(r"\bwarm_up_wait\s*\((.*?)\)\s*\?\s*;", t)]
        rd = [m.start() for rr in read_res for m in re.finditer(rr, t)]
        if not rd:
            raise ExtractError("%s: the read of the packs is not recognised" % fn)
        ev = [(p, "PhWarm", a) for p, a in ws] + [(min(rd), "PhRead", None)]
        ev.sort()
        wset = "WsNone"
        for p, k, a in ev:
            if k == "PhWarm":
                a = re.sub(r"\s", "", a)
                hit = [v for (k2, v) in sets if re.sub(r"\s", "", k2) == a]
                if not hit:
                    raise ExtractError("%s: warm_up_wait is called with an unrecognised set: %s" % (fn, a))
                wset = hit[0]
        return [k for _, k, _ in ev], wset

    out.append("")
    out.append("(* warm-up call sites: order of warm_up_wait and the pack reads, set handed to warm_up_wait *)")
    rs = read(repo, "crates/core/src/commands/restore.rs")
    ph, ws = phases("restore_repository", fn_body(rs, "restore_repository"), None,
                    [("file_infos.to_packs().into_iter()", "WsToPacks")], [r"\brestore_contents\s*\("])
    out.append("Definition restore_phases : list phase := [%s]." % "; ".join(ph))
    out.append("Definition restore_warm_set : warm_set := %s." % ws)
    meta["restore_phases"] = ph
    rc = " ".join(fn_body(rs, "restore_contents").split())
    if not re.search(r"be\.read_partial\(FileType::Pack, &pack_id, false, offset, length\)", rc):
        raise ExtractError("restore_contents: read_partial(FileType::Pack, &pack_id, false, ..) not recognised")
    pr = read(repo, "crates/core/src/commands/prune.rs")
    pb = fn_body(pr, "prune_repository")
    ph, ws = phases("prune_repository", pb, None, [("prune_plan.repack_packs().into_iter()", "WsRepackPacks")],
                    [r"\brepacker\.copy_fast\s*\(", r"\brepacker\.copy\s*\("])
    out.append("Definition prune_phases : list phase := [%s]." % "; ".join(ph))
    out.append("Definition prune_warm_set : warm_set := %s." % ws)
    meta["prune_phases"] = ph
    t = " ".join(pb.split())
    if not re.search(r"repack_packs \.into_par_iter\(\) \.try_for_each\(\|pack\|", t) or not re.search(r"CopyPackBlobs \{ pack_id: pack\.id, locations, \}", t):
        raise ExtractError("prune_repository: the repack loop over `repack_packs` building CopyPackBlobs { pack_id: pack.id, .. } is not recognised")
    # arms of the to_do match that hand the pack to the repack loop
    push = set()
    arms = [(m.start(), re.findall(r"PackToDo::(\w+)", m.group(1))) for m in re.finditer(r"((?:PackToDo::\w+\s*\|?\s*)+)=>", t)]
    for m in re.finditer(r"\brepack_packs\.push\(", t):
        prev = [a for a in arms if a[0] < m.start()]
        if not prev:
            raise ExtractError("prune_repository: repack_packs.push outside a PackToDo arm")
        push.update(prev[-1][1])
    if not push or not set(x for _, ns in arms for x in ns) <= set(TODO):
        raise ExtractError("prune_repository: PackToDo arms not recognised")
    out.append("(* prune_repository: decisions whose packs are handed to the repack loop (and read) *)")
    out.append("Definition exec_reads (t : todo) : bool :=\n  match t with %s end." % " ".join("| %s => %s" % (x, "true" if x in push else "false") for x in TODO))
    rp = " ".join(fn_body(pr, "repack_packs").split())
    m = re.search(r"self\.index_files \.iter\(\) \.flat_map\(\|index\| &index\.packs\) \.filter\(\|pack\| pack\.to_do == PackToDo::(\w+)\) \.map\(\|pack\| pack\.id\) \.collect\(\)", rp)
    if not m or m.group(1) not in TODO:
        raise ExtractError("PrunePlan::repack_packs: filter not recognised")
    out.append("(* PrunePlan::repack_packs: decisions whose packs are warmed up *)")
    out.append("Definition plan_warms (t : todo) : bool :=\n  match t with %s end." % " ".join("| %s => %s" % (x, "true" if x == m.group(1) else "false") for x in TODO))
    pk = read(repo, "crates/core/src/blob/packer.rs")
    for fn in ("copy_fast", "copy"):
        cb = " ".join(fn_body(pk, fn).split())
        if not re.search(r"self\.be_src\.read_partial\( FileType::Pack, &pack_blobs\.pack_id, self\.blob_type\.is_cacheable\(\),", cb):
            raise ExtractError("BlobCopier::%s: read_partial(FileType::Pack, &pack_blobs.pack_id, ..) not recognised" % fn)
    ri = read(repo, "crates/core/src/commands/repair/index.rs")
    for nm, fn in (("repair_index", "repair_index"), ("index_checked", "index_checked_from_collector")):
        b = fn_body(ri, fn)
        ph, ws = phases(fn, b, None, [("pack_read_header.iter().map(|(id, _, _)| *id)", "WsPackReadHeader")],
                        [r"PackHeader::from_file\s*\(\s*be\s*,\s*id\s*,\s*size_hint\s*,\s*packsize\s*\)"])
        t = " ".join(b.split())
        if not re.search(r"let pack_read_header = checker\.into_pack_to_read\(\);", t) or not (
                re.search(r"for \(id, size_hint, packsize\) in pack_read_header \{", t)
                or re.search(r"pack_read_header \.into_iter\(\) \.map\(\|\(id, size_hint, packsize\)\|", t)):
            raise ExtractError("%s: the header-reading loop over pack_read_header is not recognised" % fn)
        out.append("Definition %s_phases : list phase := [%s]." % (nm, "; ".join(ph)))
        out.append("Definition %s_warm_set : warm_set := %s." % (nm, ws))
        meta[nm + "_phases"] = ph
    pf = read(repo, "crates/core/src/repofile/packfile.rs")
    ff = " ".join(fn_body(pf, "from_file").split())
    rd = re.findall(r"be\.read_partial\(FileType::Pack, &id, (\w+),", ff)
    if not rd or set(rd) != {"false"} or len(re.findall(r"\bread_partial\(", ff)) != len(rd) or re.search(r"\bread_full\(", ff):
        raise ExtractError("PackHeader::from_file: reads other than be.read_partial(FileType::Pack, &id, false, ..)")
    ipr = " ".join(fn_body(ri, "into_pack_to_read").split())
    if not re.search(r"self\.packs_to_read \.extend\(self\.packs\.into_iter\(\)\.map\(\|\(id, size\)\| \(id, None, size\)\)\); self\.packs_to_read", ipr):
        raise ExtractError("PackChecker::into_pack_to_read not recognised")
    # repository.rs: what warm-up by access is wrapped around; backend/warm_up.rs: how it warms up
    rr = " ".join(fn_body(read(repo, "crates/core/src/repository.rs"), "new_with_progress").split())
    a = re.search(r"if opts\.warm_up \{ be = WarmUpAccessBackend::new_warm_up\(be\); \}", rr)
    h = re.search(r"be = Arc::new\(HotColdBackend::new\(be, be_hot\.clone\(\)\)\);", rr)
    c = re.search(r"let be_cold = be\.clone\(\);", rr)
    if not (a and h and c and c.start() < min(a.start(), h.start())):
        raise ExtractError("Repository::new_with_progress: WarmUpAccessBackend / HotColdBackend wrapping not recognised")
    out.append("(* Repository::new_with_progress: RepositoryOptions::warm_up wraps the cold backend / the hot-cold backend *)")
    out.append("Definition warm_up_access_wraps : wrap_target := %s." % ("WrapsCold" if a.start() < h.start() else "WrapsHotCold"))
    wa = read(repo, "crates/core/src/backend/warm_up.rs")
    i = wa.find("impl ReadBackend for WarmUpAccessBackend")
    if i < 0:
        raise ExtractError("impl ReadBackend for WarmUpAccessBackend not found")
    blk = wa[wa.find("{", i) + 1:match_brace(wa, wa.find("{", i))]
    wb = " ".join(fn_body(blk, "warm_up").split())
    m = re.fullmatch(r"_ = self\.be\.read_partial\(tpe, id, (true|false), 0, 1\); Ok\(\(\)\)", wb)
    if not m:
        raise ExtractError("WarmUpAccessBackend::warm_up: probe read not recognised")
    out.append("(* WarmUpAccessBackend::warm_up: read_partial(tpe, id, <flag>, 0, 1), result ignored *)")
    out.append("Definition warm_access_probe_cacheable : bool := %s." % m.group(1))
    return "\n".join(out) + "\n", meta


if __name__ == "__main__":
    repo = sys.argv[1] if len(sys.argv) > 1 else "/repo"
    txt, meta = gen(repo)
    sys.stdout.write(txt)
