(* prelude: nat *)
(* C10 driver.  A case line = the event tokens printed by harness/src/bin/c10.rs (the middle
   segment of its result line): the real backend operations of all commands of one case in real
   order, decoded (which packs an index file lists / marks, which blobs a pack holds and a snapshot
   needs) and numbered densely.  The driver turns them into events of the extracted transition
   system (Model.v), runs them, evaluates the model's observables on every state reached
   (all_stored, held_present, timely) and prints the model's final abstract state under the real
   names, in the format of the harness' FINAL segment.  Fresh pack / index / snapshot ids of the
   model are matched with the real names in order of creation.
   Mode "witness": runs Model.slow_prune_run (sanity of the extracted code). *)

let ni_ i = nat_of_int i
let in_ n = int_of_nat n

type tok =
  | TT of int
  | TKD of int
  | TKindB of int * int list
  | TKindP of int * int
  | TKindF of int
  | TLI of int | TLS of int | TLP of int
  | TRI of int * int
  | TWP of int * int * int list
  | TWI of int * int * (int * int list) list * (int * int * int list) list
  | TWS of int * int * int list
  | TXI of int * int | TXP of int * int | TXS of int * int
  | TEND of int * int

let parse line =
  let t = toks line in
  let blobs () = let n = ni t in ntimes n (fun () -> ni t) in
  let res = ref [] in
  while more t do
    let k = next t in
    let x = match k with
      | "T" -> TT (ni t)
      | "KD" -> TKD (ni t)
      | "KIND" -> let a = ni t in
          (match next t with
           | "B" -> TKindB (a, blobs ())
           | "P" -> TKindP (a, ni t)
           | _ -> TKindF a)
      | "LI" -> TLI (ni t) | "LS" -> TLS (ni t) | "LP" -> TLP (ni t)
      | "RI" -> let a = ni t in TRI (a, ni t)
      | "WP" -> let a = ni t in let p = ni t in TWP (a, p, blobs ())
      | "WI" -> let a = ni t in let i = ni t in
          let nu = ni t in
          let u = ntimes nu (fun () -> let p = ni t in (p, blobs ())) in
          let nm = ni t in
          let m = ntimes nm (fun () -> let p = ni t in let tm = ni t in (p, tm, blobs ())) in
          TWI (a, i, u, m)
      | "WS" -> let a = ni t in let s = ni t in TWS (a, s, blobs ())
      | "XI" -> let a = ni t in TXI (a, ni t)
      | "XP" -> let a = ni t in TXP (a, ni t)
      | "XS" -> let a = ni t in TXS (a, ni t)
      | "END" -> let a = ni t in TEND (a, ni t)
      | s -> failwith ("unknown token " ^ s) in
    res := x :: !res
  done;
  Array.of_list (List.rev !res)

let kd_cap = 30000

let sort_ints l = List.sort_uniq compare l
let join_ints l = String.concat "," (List.map string_of_int (sort_ints l))

let final_string (s : st) pinv =
  let rp p = try Hashtbl.find pinv (in_ p) with Not_found -> 100000 + in_ p in
  let packs = List.sort compare (List.map (fun (p, bl) -> (rp p, join_ints (List.map in_ bl))) s.packs) in
  let unm = List.sort_uniq compare (List.concat_map (fun (_, f) -> List.map (fun (p, bl) -> (rp p, join_ints (List.map in_ bl))) f.unm) s.idxs) in
  let mk = List.sort_uniq compare (List.concat_map (fun (_, f) -> List.map (fun ((p, bl), tm) -> (rp p, in_ tm, join_ints (List.map in_ bl))) f.mk) s.idxs) in
  let sn = List.sort compare (List.map (fun (_, bl) -> String.concat "," (List.map string_of_int (List.sort compare (List.map in_ bl)))) s.snaps) in
  "FINAL packs" ^ String.concat "" (List.map (fun (p, b) -> Printf.sprintf " %d:%s" p b) packs)
  ^ " ; unm" ^ String.concat "" (List.map (fun (p, b) -> Printf.sprintf " %d:%s" p b) unm)
  ^ " ; mk" ^ String.concat "" (List.map (fun (p, tm, b) -> Printf.sprintf " %d@%d:%s" p tm b) mk)
  ^ " ; snaps" ^ String.concat "" (List.map (fun b -> " " ^ b) sn)

let replay line =
  let tk = parse line in
  let n = Array.length tk in
  let s = ref init in
  let pmap = Hashtbl.create 16 and pinv = Hashtbl.create 16 in
  let imap = Hashtbl.create 16 and smap = Hashtbl.create 16 in
  let kind = Hashtbl.create 8 in        (* actor -> `B c | `P kd | `F *)
  (* the further prune = the last prune actor; the case's keep_delete = that of the other prunes *)
  let last_p = ref (-1) in
  Array.iter (function TKindP (a, _) -> last_p := a | _ -> ()) tk;
  let case_kd = ref 0 in
  Array.iter (function TKD kd -> case_kd := min kd kd_cap | _ -> ()) tk;
  let in_further = ref false in
  let rej = ref "" in
  let timely_bad = ref (-1) in
  let prem_bad = ref (-1) in
  let stored_always = ref true and held_always = ref true in
  let first_unstored = ref (-1) in
  let nsteps = ref 0 in
  let hist = Hashtbl.create 16 in
  let bump k = Hashtbl.replace hist k (1 + try Hashtbl.find hist k with Not_found -> 0) in
  let observe idx =
    if not !in_further && !timely_bad < 0 && not (timely (ni_ !case_kd) !s) then timely_bad := idx;
    if not !in_further && !prem_bad < 0 && not (premise (ni_ !case_kd) !s) then prem_bad := idx;
    if not (all_stored !s) then (stored_always := false; if !first_unstored < 0 then first_unstored := idx);
    if not (held_present !s) then held_always := false in
  let apply idx kd name e =
    if !rej = "" then begin
      match step (ni_ kd) !s e with
      | Some s' -> s := s'; incr nsteps; bump name; observe idx
      | None -> rej := Printf.sprintf "%s@%d" name idx
    end in
  let bk a = match Hashtbl.find kind a with `B c -> c | _ -> failwith "not a backup" in
  let pkd a = match Hashtbl.find kind a with `P kd -> kd | _ -> 0 in
  let phase_of c = (List.nth !s.bks c).bph in
  let later a idx f = for q = idx + 1 to n - 1 do f tk.(q) done; ignore a in
  let i = ref 0 in
  while !i < n && !rej = "" do
    let idx = !i in
    (match tk.(idx) with
     | TT t -> while in_ !s.clock < t && !rej = "" do apply idx 0 "Tick" Tick done
     | TKindB (a, want) ->
         Hashtbl.replace kind a (`B (List.length !s.bks));
         apply idx 0 "BStart" (BStart (List.map ni_ want))
     | TKindP (a, kd) -> Hashtbl.replace kind a (`P (min kd kd_cap));
         (* a further prune with its own (long) keep_delete is outside the case's `timely` regime *)
         if a = !last_p && min kd kd_cap <> !case_kd then in_further := true
     | TKindF a -> Hashtbl.replace kind a `F
     | TKD _ -> ()
     | TLI a ->
         (match Hashtbl.find kind a with
          | `B c -> if phase_of c = BNew then apply idx 0 "BList" (BList (ni_ c))
          | `P _ -> apply idx 0 "PStart" PStart
          | `F -> ())
     | TRI (a, ri) ->
         (match Hashtbl.find kind a with
          | `B c -> (match Hashtbl.find_opt imap ri with
                     | Some mi -> apply idx 0 "BRead" (BRead (ni_ c, ni_ mi))
                     | None -> rej := Printf.sprintf "BRead-unknown-index@%d" idx)
          | _ -> ())
     | TLS a ->
         (match !s.prn with
          | Some q when q.pph = PLoaded ->
              (match step (ni_ (pkd a)) !s PScan with
               | Some _ -> apply idx (pkd a) "PScan" PScan
               | None -> apply idx (pkd a) "PAbort(scan: used blob not in view)" PAbort)
          | _ -> ())
     | TLP a ->
         (match !s.prn with
          | Some q when q.pph = PScanned ->
              let wi_u = Hashtbl.create 8 and wi_m = Hashtbl.create 8 and xp = Hashtbl.create 8 in
              let xi = ref [] and wrote = ref [] and any_wi = ref false in
              later a idx (function
                | TWI (a', _, u, m) when a' = a -> any_wi := true;
                    List.iter (fun (p, _) -> Hashtbl.replace wi_u p ()) u;
                    List.iter (fun (p, _, _) -> Hashtbl.replace wi_m p ()) m
                | TXI (a', ri) when a' = a -> xi := ri :: !xi
                | TXP (a', p) when a' = a -> Hashtbl.replace xp p ()
                | TWP (a', _, bl) when a' = a -> wrote := bl @ !wrote
                | _ -> ());
              let rw = List.filter_map (fun ri -> Hashtbl.find_opt imap ri) !xi in
              ignore !any_wi;
              let rp p = try Hashtbl.find pinv (in_ p) with Not_found -> -1 in
              let du = dunm q.pview and dm = dmk q.pview in
              let asg_u = List.map (fun (fi, (p, bl)) ->
                  let t =
                    if not (List.mem (in_ fi) rw) then Keep
                    else if Hashtbl.mem wi_u (rp p) then Keep
                    else if List.exists (fun b -> List.mem (in_ b) !wrote) bl then Repack
                    else MarkDelete in
                  (p, t)) du in
              let asg_m = List.map (fun (fi, ((p, _), _)) ->
                  let t =
                    if not (List.mem (in_ fi) rw) then KeepMarked
                    else if Hashtbl.mem xp (rp p) then Delete
                    else if Hashtbl.mem wi_u (rp p) then Recover
                    else KeepMarked in
                  (p, t)) dm in
              List.iter (fun (_, t) -> bump (match t with Keep -> "todo:Keep" | Repack -> "todo:Repack" | MarkDelete -> "todo:MarkDelete"
                                                        | KeepMarked -> "todo:KeepMarked" | Recover -> "todo:Recover" | Delete -> "todo:Delete")) (asg_u @ asg_m);
              apply idx (pkd a) "PPlan" (PPlan (asg_u @ asg_m, List.map ni_ rw))
          | _ -> ())
     | TWP (a, rp, bl) ->
         let mp = in_ !s.nextp in
         Hashtbl.replace pmap rp mp; Hashtbl.replace pinv mp rp;
         (match Hashtbl.find kind a with
          | `B c -> apply idx 0 "BPack" (BPack (ni_ c, List.map ni_ bl))
          | `P kd -> apply idx kd "PPack" (PPack (List.map ni_ bl))
          | `F -> ())
     | TWI (a, ri, _, _) ->
         Hashtbl.replace imap ri (in_ !s.nexti);
         (match Hashtbl.find kind a with
          | `B c -> apply idx 0 "BIndex" (BIndex (ni_ c))
          | `P kd -> apply idx kd "PWriteIndex" PWriteIndex
          | `F -> ())
     | TWS (a, rs, _) ->
         let c = bk a in
         if phase_of c = BListed then apply idx 0 "BIndex(empty)" (BIndex (ni_ c));
         Hashtbl.replace smap rs (in_ !s.nexts);
         apply idx 0 "BSnap" (BSnap (ni_ c))
     | (TXI (a, _) | TXP (a, _)) when (match !s.prn with Some q -> q.pph = PPlanned | None -> false) ->
         (* the real prune removes files without having written an index file: Indexer::save writes
            nothing when the rebuilt index has neither packs nor marks.  The model always writes the
            new index: it must be empty, otherwise the real code dropped index entries. *)
         apply idx (pkd a) "PWriteIndex(empty, not written)" PWriteIndex;
         (if !rej = "" then
            match List.rev !s.idxs with
            | (_, f) :: _ when f.unm = [] && f.mk = [] -> ()
            | _ -> rej := Printf.sprintf "index-file-not-written-but-model-index-nonempty@%d" idx);
         decr i
     | TXI (a, ri) ->
         (match Hashtbl.find_opt imap ri with
          | Some mi -> apply idx (pkd a) "PRmIndex" (PRmIndex (ni_ mi))
          | None -> rej := Printf.sprintf "PRmIndex-unknown@%d" idx)
     | TXP (a, rp) ->
         (match Hashtbl.find_opt pmap rp with
          | Some mp -> apply idx (pkd a) "PRmPack" (PRmPack (ni_ mp))
          | None -> rej := Printf.sprintf "PRmPack-unknown@%d" idx)
     | TXS (_, rs) ->
         (match Hashtbl.find_opt smap rs with
          | Some ms -> apply idx 0 "Forget" (Forget (ni_ ms))
          | None -> rej := Printf.sprintf "Forget-unknown@%d" idx)
     | TEND (a, _) ->
         (match Hashtbl.find kind a with
          | `B c -> if phase_of c <> BDone then apply idx 0 "BAbort" (BAbort (ni_ c))
          | `P kd ->
              (match !s.prn with
               | Some _ -> (match step (ni_ kd) !s PDone with
                            | Some _ -> apply idx kd "PDone" PDone
                            | None -> apply idx kd "PAbort" PAbort)
               | None -> ())
          | `F -> ()));
    incr i
  done;
  let hs = String.concat "," (List.sort compare (Hashtbl.fold (fun k v acc -> Printf.sprintf "%s=%d" (String.map (fun c -> if c = ' ' then '_' else c) k) v :: acc) hist [])) in
  Printf.sprintf "run=%s steps=%d kd=%d timely=%s premise=%s stored_always=%b first_unstored=%d held_always=%b closed_final=%b stored_final=%b short=%b hist=%s | %s"
    (if !rej = "" then "ok" else "rejected:" ^ !rej) !nsteps !case_kd
    (if !timely_bad < 0 then "true" else Printf.sprintf "false@%d" !timely_bad)
    (if !prem_bad < 0 then "true" else Printf.sprintf "false@%d" !prem_bad)
    !stored_always !first_unstored !held_always (all_closed !s) (all_stored !s)
    (short_backups (ni_ !case_kd) !s) hs (final_string !s pinv)

let witness _ =
  match run slow_prune_kd init slow_prune_run with
  | Some s -> Printf.sprintf "witness run=ok all_stored=%b short=%b" (all_stored s) (short_backups slow_prune_kd s)
  | None -> "witness run=rejected"

let () =
  let mode = if Array.length Sys.argv > 2 then Sys.argv.(2) else "replay" in
  main_loop (if mode = "witness" then witness else replay)
