"""C10 — backups running concurrently with prune or each other stay intact.
Stages: Coq theorems about the protocol as a transition system over backend operations (all
interleavings); gated real runs (command A parked before its k-th mutating backend operation
while command B runs fully or up to its j-th operation, for backup||prune, prune||backup,
backup||backup), then a further prune, check(read_data) and restore of every snapshot (oracle =
the property); the recorded, decoded operation log of every case is replayed through the
extracted transition function and the model's final abstract state compared with the real
store; the model's `timely` / `short_backups` predicates classify whether a schedule is inside
the property's premise; the former `slow_prune_refuted` schedule is replayed on the real code (scenario 3: must be safe since fix 8ab7696)."""
import os, re, sys
import vlib
from vlib import sh2, log


def run_lines(exe, lines, tag, mode=None, timeout=1500):
    path = os.path.join(vlib.BUILD, "C10", "in_%s_%d.txt" % (tag, os.getpid()))
    open(path, "w").write("\n".join(lines) + "\n")
    rc, out, err = sh2([exe, path] + ([mode] if mode else []), timeout=timeout,
                       env={"OCAMLRUNPARAM": "l=4000M"})
    os.remove(path)
    res = out.splitlines()
    if rc != 0 or len(res) != len(lines):
        raise RuntimeError("%s failed rc=%s (%d of %d lines)\n%s" % (exe, rc, len(res), len(lines), err[-2000:]))
    return res


def run_parallel(exe, lines, tag, nproc=4, timeout=2400):
    """the same as run_lines, the cases spread round-robin over nproc harness processes"""
    import concurrent.futures
    chunks = [lines[i::nproc] for i in range(nproc)]
    res = [None] * len(lines)
    with concurrent.futures.ThreadPoolExecutor(max_workers=nproc) as ex:
        futs = {ex.submit(run_lines, exe, ch, "%s%d" % (tag, i), None, timeout): i for i, ch in enumerate(chunks) if ch}
        for f in concurrent.futures.as_completed(futs):
            i = futs[f]
            for n, o in enumerate(f.result()):
                res[i + n * nproc] = o
    return res


def kv(head):
    return dict(t.split("=", 1) for t in head.split() if "=" in t)


def final_equal(a, b):
    """FINAL segments of model and real store: compared EXACTLY.  Mark times need no tolerance: the harness
    reports a mark by the tick of the logged index write it was stamped for (decided by the ORDER of the
    prune's logged operations, see c10.rs), which is the clock at which the model stamps it."""
    return a == b


SIG = "prune-marks-carry-plan-time"
SIG2 = "prune-mark-stamp-precedes-index-upload"


def run(ctx):
    rng, cov = ctx.rng, ctx.coverage
    meta, err = vlib.regen_extracted("C10")
    r = vlib.proof_stage(ctx)
    if err:
        r["ok"] = False; r["failures"].append("fact extraction failed: " + err)
    cov["trusted_base"] += ["props/C10/extract.py (reads from prune.rs: prune_time = prune_plan.time.timestamp(), PrunePlan::new's Zoned::now() and its position after the scan, the time/section of every executor arm, the unreferenced-pack marking, the keep-delete expiry guard and its operator)"]
    cov["source_facts"] = meta
    ctx.level = "proof"
    ctx.assumptions += [
        "PARTIAL: the theorems are about the protocol model (Model.v): steps = backend operations of backup and non-instant prune; real thread timing inside one command is not modelled (operations of one command are totally ordered as recorded)",
        "non-atomic index loading by a backup is over-approximated: the dedup view is the union of the index files the backup managed to read, a file removed meanwhile is simply not seen",
        "at most one prune is active at a time (prune||prune is outside the property); therefore the index files a prune listed stay present and immutable until that prune removes them, and loading them is modelled as one step",
        "the per-pack decision of a prune is supplied by the event and constrained by plan_ok (what decide_packs/check_existing_packs guarantee: admissible to-dos per mark state, Delete only if mark_time + keep_delete <= plan time, every used blob owned by a kept/recovered/repacked existing pack); the exact accounting of duplicates is property C02",
        "next_prune_recovers: the further prune runs alone to completion (PStart .. PDone, no abort, no concurrent event); no timing hypothesis",
        "hypothesis of no_referenced_pack_deleted (`timely`): (a) while a backup runs, no pack it saw unmarked or wrote itself carries a mark whose keep-delete time has expired; (b) a prune deletes only packs whose keep-delete time had expired when that prune started. With the repaired source (fix 8ab7696: marks stamped at the index write, plan time taken before the scan) (b) holds by construction (timely_b_by_construction) and (a) follows from the premise `a running backup started before the marks on its packs were published and is younger than keep_delete` (started_before_publication_safe); residual window: a backup that lists the index after the new index was written but reads an old index file before the prune removed it",
        "blob identity is untyped in the model (typed/untyped collisions are C02/C13); forget is a plain snapshot removal",
        "real clock: keep_delete of 0.3-2 s with sleeps; ticks of 10 ms in the replay"]
    try:
        model = vlib.build_model("C10")
    except RuntimeError as e:
        model = None
        if r["ok"]:
            r["ok"] = False; r["failures"].append("extracted model no longer builds: " + str(e)[-400:])
    impl = vlib.build_harness("c10")

    thorough = ctx.thorough()
    big = 80000000
    lines = []
    nseeds = 2 if thorough else 1
    kmax = 12 if thorough else 9
    for _ in range(nseeds):
        for scen in (0, 1, 2):
            for k in range(kmax):
                for variant in ((0, 1, 2, 3) if thorough else (rng.choice([0, 1]), rng.choice([2, 3]))):
                    js = [0] + ([1, 2, 4] if thorough else [rng.randrange(1, 6)])
                    for j in js:
                        lines.append("%d %d %d %d %d %d" % (rng.randrange(1, 2 ** 40), scen, k, j, big, variant))
    # marks that expire: an earlier prune marked packs, keep_delete passes, then the concurrent phase
    for _ in range(24 if thorough else 8):
        scen = rng.choice([0, 1])
        lines.append("%d %d %d %d %d %d" % (rng.randrange(1, 2 ** 40), scen, rng.randrange(0, 7), rng.choice([0, 0, 1, 2]),
                                            rng.choice([300, 400]), 5 + rng.choice([0, 2])))
    # keep_delete 0: outside the premise on purpose (classification only)
    for _ in range(12 if thorough else 4):
        lines.append("%d %d %d %d %d %d" % (rng.randrange(1, 2 ** 40), rng.choice([0, 1]), rng.randrange(0, 7), 0, 0, rng.choice([1, 3])))
    # the recovering prune runs AFTER the marks expired (short keep_delete + sleep): a backup reused blobs of
    # packs a concurrent prune marked; finishing before expiry (inside the premise) and after it (bit 4)
    kds = 800
    rec = [(4, 0, 8), (4, 0, 8 | 32), (0, 0, 8), (1, 1, 8), (4, 0, 8 | 16), (4, 1, 8 | 2)]
    if thorough:
        rec += [(4, k, v) for k in (0, 1, 2) for v in (8, 8 | 2, 8 | 32, 8 | 16 | 32)] + [(0, k, 8) for k in (1, 2, 3)] + [(1, k, 8) for k in (0, 2, 3)]
    for scen, k, v in rec:
        lines.append("%d %d %d 0 %d %d" % (rng.randrange(1, 2 ** 40), scen, k, kds, v))
    # the prune finds EVERY pack unused (the only snapshot is forgotten while a backup that loaded the index is parked)
    allun = [(5, k, j, v) for k in (0, 1) for j in (0, 1) for v in (0, 2)] + [(5, 2, 0, 0), (5, 3, 0, 2)]
    if thorough:
        allun += [(5, k, j, v) for k in (2, 3, 4) for j in (0, 2, 3) for v in (0, 2)]
    for scen, k, j, v in allun:
        lines.append("%d %d %d %d %d %d" % (rng.randrange(1, 2 ** 40), scen, k, j, big, v))
    lines.append("%d 5 0 0 %d 8" % (rng.randrange(1, 2 ** 40), kds))
    # marked packs whose keep_delete has EXPIRED, then backup reads the index || prune deletes them
    exp = [(4, 0, 1 | 4 | 32), (4, 0, 1 | 4), (4, 0, 1 | 4 | 32 | 8), (4, 1, 1 | 4 | 8), (0, 0, 1 | 4 | 32)]
    if thorough:
        exp += [(4, k, v) for k in (0, 1, 2) for v in (37, 5, 45, 13, 39)] + [(0, k, 37) for k in (1, 2)]
    for scen, k, v in exp:
        lines.append("%d %d %d 0 %d %d" % (rng.randrange(1, 2 ** 40), scen, k, kds, v))
    # hazard (b) of the former finding: a backup finishes between the deleting prune's snapshot scan and its
    # pack listing, the marks expire in between (prune parked before list_with_size(Pack))
    for v in ([0, 32, 0, 32] if thorough else [0, 32]):
        lines.append("%d 6 0 0 1000 %d" % (rng.randrange(1, 2 ** 40), v))
    # the slow-prune schedule: prune 1 parked during repacking (variant 2) / inside its index write (variant 0)
    for v in ([2, 2, 2, 2, 2, 2, 0, 0] if thorough else [2, 2, 2, 0]):
        lines.append("%d 3 0 0 %d %d" % (rng.randrange(1, 2 ** 40), 1500, v))

    outs = run_parallel(impl, lines, "impl")
    parsed, mlines = [], []
    harness_errors = []
    for ln, o in zip(lines, outs):
        if not o.startswith("ok "):
            harness_errors.append((ln, o[:300])); parsed.append(None); continue
        segs = o.split(" | ")
        h = kv(segs[0])
        parsed.append((h, segs[1], segs[2]))
        mlines.append("KD %s %s" % (h["kd"], segs[1]))
    mouts = run_lines(model, mlines, "model") if model else []
    if model:
        wit = run_lines(model, ["x"], "wit", mode="witness")[0]
        repaired = bool(meta and meta.get("marks_stamped_at_write") and not meta.get("plan_time_after_scan"))
        cov["source_repaired"] = repaired
        want_wit = "witness run=rejected" if repaired else "witness run=ok all_stored=false short=true"
        if wit != want_wit and r["ok"]:
            r["ok"] = False; r["failures"].append("extracted model on the slow_prune schedule: %s, expected %s" % (wit, want_wit))

    hist, todo_hist = {}, {}
    stats = {"cases": len(lines), "A_parked": 0, "B_parked": 0, "A_failed": 0, "B_failed": 0, "premise_violated": 0,
             "outside_literal_premise": 0, "witness_reproduced": 0, "witness_runs": 0, "timing_ambiguous": 0, "stamp_precedes_upload": 0, "slow_prune_safe_runs": 0, "lost_inside_premise": 0, "recover_after_expiry": 0,
             "by_scenario": {}}
    nontriv = 0
    mism, viol, samples = [], [], []
    mi = 0
    for ln, p in zip(lines, parsed):
        if p is None:
            continue
        h, evs, fin = p
        m = mouts[mi] if model else None
        mi += 1
        scen = int(h["scen"])
        stats["by_scenario"][scen] = stats["by_scenario"].get(scen, 0) + 1
        stats["A_parked"] += int(h["parkedA"]); stats["B_parked"] += int(h["parkedB"])
        stats["A_failed"] += h["A"][1] == "0"; stats["B_failed"] += h["B"][1] == "0"
        lost = not (h["clean"] == "1" and h["badrestore"] == "0" and h["further"] == "1")
        mh = kv(m.split(" | ")[0]) if m else {}
        mfin = m.split(" | ")[1] if m else None
        if h["parkedA"] == "1" and h["B"][1] == "1":
            nontriv += 1
        for t in (mh.get("hist", "") or "").split(","):
            if "=" in t:
                k_, v_ = t.rsplit("=", 1)
                (todo_hist if k_.startswith("todo:") else hist)[k_] = (todo_hist if k_.startswith("todo:") else hist).get(k_, 0) + int(v_)
        replay_ok = mh.get("run") == "ok"
        # the model's `timely` is only meaningful when the whole log is a path of the model
        timely = mh.get("timely", "true") == "true" if replay_ok else True
        # the literal premise, measured on the real run: every backup was shorter than keep_delete
        short = int(h["maxbk"]) < int(h["kdms"])
        if "todo:Recover" in (mh.get("hist") or "") and int(h["variant"]) & 8 and replay_ok:
            stats["recover_after_expiry"] += 1
        if len(samples) < 3 and h["parkedA"] == "1":
            samples.append({"case": ln, "result": segs_short(h), "model": {k_: mh.get(k_) for k_ in ("run", "steps", "timely", "stored_always", "held_always", "closed_final")},
                            "events_head": evs[:400]})
        if scen == 3:
            # the former slow_prune_refuted schedule.  Prune 1 parked at a repack pack write: the marks are
            # stamped after the park (fix), the backup must be safe.  Parked inside the index write: the marks
            # were stamped before the upload of the index file completed - the residual, inherent window.
            stats["witness_runs"] += 1
            inside_literal = int(h["durB"]) < int(h["kd"]) * 10
            if lost and not inside_literal:
                stats["outside_literal_premise"] += 1
            elif lost and h.get("firstA") == "index":
                stats["stamp_precedes_upload"] += 1
                ctx.violation("a backup shorter than keep_delete (%s ms < %s ms) that loads the index WHILE the index file carrying the delete marks is being uploaded (prune parked inside that write for 0.6 keep_delete) loses data when a second prune deletes the packs: the marks are stamped before the upload completes"
                              % (h["durB"], int(h["kd"]) * 10),
                              {"case": ln, "how_to_replay": "echo '<case>' | <harness>/debug/c10 -", "result": segs_short(h)},
                              signature=SIG2)
            elif lost:
                stats["witness_reproduced"] += 1
                ctx.violation("a backup shorter than keep_delete (%s ms < %s ms) loses data when a slow prune (parked during repacking) publishes its marks and a second prune deletes the packs (slow-prune schedule on the real code: check clean=%s, snapshots failing restore=%s, further prune ok=%s)"
                              % (h["durB"], int(h["kd"]) * 10, h["clean"], h["badrestore"], h["further"]),
                              {"case": ln, "how_to_replay": "echo '<case>' | <harness>/debug/c10 -", "result": segs_short(h),
                               "model_timely": mh.get("timely"), "model_premise": mh.get("premise")},
                              signature=SIG)
            elif h.get("firstA") == "pack":
                stats["slow_prune_safe_runs"] += 1
            continue
        if lost:
            if not short:
                stats["outside_literal_premise"] += 1
            elif not timely:
                stats["premise_violated"] += 1
                ctx.violation("data lost although every backup was shorter than keep_delete (the schedule violates the proof's hypothesis `timely`, not the literal premise)",
                              {"case": ln, "result": segs_short(h), "model": m[:400] if m else None}, signature=SIG)
            else:
                stats["lost_inside_premise"] += 1
                viol.append((ln, h, m))
        if m and h.get("ambig") == "1":
            stats["timing_ambiguous"] += 1
        elif m:
            if mh.get("run") != "ok":
                mism.append((ln, "real operation log is not a path of the model: " + mh.get("run", "?"), m[:300]))
            elif not final_equal(mfin, fin):
                mism.append((ln, "final abstract state differs", "model: %s\nreal:  %s" % (mfin[:1500], fin[:1500])))
            elif (mh.get("closed_final") == "true") != (not lost) and int(h["kd"]) > 0:
                mism.append((ln, "model says closed_final=%s, real oracle lost=%s" % (mh.get("closed_final"), lost), m[:300]))

    cov.update({
        "evaluations": len(lines), "distinct_nontrivial": nontriv,
        "rule": "case = seeded repository (two backups of 5-8 one-blob files each + shared files, first snapshot forgotten; optional earlier prune), then command A parked before its k-th mutating backend operation (k = 0..%d, beyond the last operation = sequential) while B runs fully (j=0) or up to its j-th operation, for backup||prune, prune||backup, backup||backup; prune variants keep / repack; keep_delete 22 h, 0.3-0.4 s with marks expiring before the concurrent phase, and 0; plus: the recovering prune run only after the marks expired (keep_delete 0.8 s + sleep; backup finishing before / after expiry), the only snapshot forgotten while a backup is parked (the prune marks EVERY pack), marked packs already expired when the backup loads the index and the prune deletes them; then a further prune, check(read_data), restore of every snapshot compared with its source. non-trivial = A really parked and B completed" % (kmax - 1),
        "samples": samples, "distribution": {"model_events": hist, "prune_decisions": todo_hist, **stats},
        "traces_validated_against_impl": len(mouts), "disagreements_checked": len(mism) + len(viol) + len(harness_errors),
        "model_impl_mismatches": len(mism), "oracle_violations": len(viol), "harness_errors": len(harness_errors)})
    if stats["recover_after_expiry"] == 0:
        ctx.violation("no run in which the prune after the expiry of the marks RECOVERED a pack a late backup reused (the schedule class the property names is not exercised, or recovery no longer happens)",
                      {"cases": [l for l in lines if int(l.split()[5]) & 8][:6]}, no_input=not viol)
    for ln, h, m in viol[:10]:
        ctx.violation("data lost inside the property's premise: after overlapping commands and a further prune, check / restore fails",
                      {"case": ln, "result": segs_short(h), "model": m[:600] if m else None,
                       "how_to_replay": "echo '<case>' | <harness>/debug/c10 -"})
    for ln, o in harness_errors[:5]:
        ctx.violation("harness case did not complete", {"case": ln, "output": o}, no_input=True)
    if mism and not viol:
        ctx.violation("correspondence broken: %s (%d cases)" % (mism[0][1], len(mism)),
                      {"first": {"case": mism[0][0], "what": mism[0][1], "detail": mism[0][2]}}, no_input=True)
    vlib.finish_broken_obligations(ctx)


def segs_short(h):
    return {k: h[k] for k in ("scen", "A", "B", "parkedA", "parkedB", "durA", "durB", "kd", "further", "clean", "badrestore", "nsnaps", "errA", "errB") if k in h}
