(* C10 — computed witnesses and non-vacuity examples around the slow-prune schedule. *)
From Verif.Base Require Import Tactics.
From Verif.C10 Require Import Extracted Model.
Local Open Scope nat_scope.

(* timely_b along a run (the prune-side half of the hypothesis) *)
Fixpoint run_tb (kd : time) (s : st) (es : list ev) : bool :=
  timely_b kd s &&
  match es with
  | [] => true
  | e :: es' => match step kd s e with Some s' => run_tb kd s' es' | None => false end
  end.

(* The slow-prune schedule (Model.slow_prune_run): prune 1 plans at t = 0 and is slow; a backup loads the
   index at t = 5; prune 1 publishes its marks at t = 6; prune 2 starts at t = 10 = 0 + keep_delete and
   deletes; the backup (7 < 10 long) finishes at t = 12.  With marks dated by the plan time this was a path
   of the model that lost a blob (the former `slow_prune_refuted`).  With the facts of the repaired source
   (marks stamped at the index write, expiry tested against the prune's start) it is no longer a path: *)
Definition slow_prune_prefix : list ev := firstn 26 slow_prune_run.   (* up to prune 2's scan *)

Lemma slow_prune_rejected_lemma :
  run slow_prune_kd init slow_prune_run = None /\
  exists s, run slow_prune_kd init slow_prune_prefix = Some s /\ clock s = 10 /\
            marks_of s = [((0, [1]), 6)] /\                                      (* the mark carries the publication time *)
            step slow_prune_kd s (PPlan [(0, Delete)] [1]) = None /\             (* 6 + 10 > 10: not expired *)
            exists s', step slow_prune_kd s (PPlan [(0, KeepMarked)] []) = Some s'.
Proof.
  split; [vm_compute; reflexivity|]. eexists. split; [vm_compute; reflexivity|].
  split; [vm_compute; reflexivity|]. split; [vm_compute; reflexivity|]. split; [vm_compute; reflexivity|].
  eexists. vm_compute. reflexivity.
Qed.

(* what the repaired code does on that schedule: prune 2 keeps the marked pack, the backup finishes inside the
   premise (started at 5 <= 6 = publication, 12 < 5 + 10), nothing is lost, and the next prune recovers *)
Definition slow_prune_fixed_run : list ev :=
  slow_prune_prefix ++
  [ PPlan [(0, KeepMarked)] []; PDone;                            (* t = 10: nothing to do *)
    Tick; Tick; BIndex 1; BSnap 1 ].                              (* t = 12: the backup references blob 1 *)
Definition slow_prune_recover : list ev :=
  [ PStart; PScan; PPlan [(0, Recover)] [1]; PWriteIndex; PRmIndex 1; PDone ].

Lemma slow_prune_fixed_example_lemma :
  exists s s', run_prem slow_prune_kd init slow_prune_fixed_run = Some s /\
               short_backups slow_prune_kd s = true /\ all_stored s = true /\ all_closed s = false /\
               run_prem slow_prune_kd s slow_prune_recover = Some s' /\ all_closed s' = true.
Proof.
  eexists. eexists. split; [vm_compute; reflexivity|]. repeat split; vm_compute; reflexivity.
Qed.
