(* C10 — computed witnesses and non-vacuity examples. *)
From Verif.Base Require Import Tactics.
From Verif.C10 Require Import Model.
Local Open Scope nat_scope.

(* timely_b along a run (the prune-side half of the hypothesis) *)
Fixpoint run_tb (kd : time) (s : st) (es : list ev) : bool :=
  timely_b kd s &&
  match es with
  | [] => true
  | e :: es' => match step kd s e with Some s' => run_tb kd s' es' | None => false end
  end.

(* The literal premise ("keep-delete exceeds the backup's duration") does not protect a backup:
   every backup of the run is shorter than keep_delete, every deletion concerns a pack whose
   keep-delete time had expired when the deleting prune started, yet the last snapshot needs a
   blob that is stored nowhere. *)
Lemma slow_prune_refuted_lemma :
  exists s, run slow_prune_kd init slow_prune_run = Some s /\
            short_backups slow_prune_kd s = true /\
            run_tb slow_prune_kd init slow_prune_run = true /\
            all_stored s = false /\
            run_timely slow_prune_kd init slow_prune_run = None.
Proof.
  eexists. split; [vm_compute; reflexivity|]. repeat split; vm_compute; reflexivity.
Qed.
