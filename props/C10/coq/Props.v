(* C10 — property theorems about backups and non-instant prunes running concurrently, for
   EVERY interleaving of their backend operations (Model.v). *)
From Verif.Base Require Import Tactics.
From Verif.C10 Require Import Extracted Model ProofsBase ProofsBB ProofsWitness ProofsView ProofsFresh ProofsSafe ProofsTruth ProofsMain ProofsSnap ProofsFull ProofsRecover ProofsFacts ProofsFixed.
Local Open Scope nat_scope.

(* Overlapping backups need no hypothesis: from any repository whose index is exact and whose
   snapshots are closed, every interleaving of the operations of any number of backups leaves
   every snapshot closed (each needed blob listed unmarked by a present index file in a present
   pack that holds it). *)
Theorem backup_backup_safe : forall kd s0 es s,
  (forall f e, In f (idxs s0) -> In e (unm (snd f)) -> In e (packs s0)) ->
  (forall b, In b (bks s0) -> running b = false) ->
  all_closed s0 = true ->
  forallb is_backup_ev es = true -> run kd s0 es = Some s -> all_closed s = true.
Proof. exact backup_backup_safe_lemma. Qed.
Print Assumptions backup_backup_safe.

Theorem backup_backup_safe_from_empty : forall kd es s,
  forallb is_backup_ev es = true -> run kd init es = Some s -> all_closed s = true.
Proof. exact backup_backup_safe_init_lemma. Qed.
Print Assumptions backup_backup_safe_from_empty.

(* On every path all of whose states satisfy the hypothesis `timely` ((a) no pack a running backup relies
   on carries an expired mark, (b) a prune deletes only packs expired when it started), for every
   interleaving of any number of backups with non-overlapping non-instant prunes: every blob of every
   PRESENT snapshot lies in an existing pack, and every pack a running backup saw unmarked or wrote still
   exists.  Invariants: ProofsFresh.PL (fresh pack ids), ProofsSafe.SAFE (two-phase deletion),
   ProofsTruth.TR (index entries are truthful), ProofsSnap.SNAP (snapshots written since the prune started
   lie in undeletable packs; scanned snapshots are used; used blobs have an undeleted present owner). *)
Theorem no_referenced_pack_deleted : forall kd es s,
  run_timely kd init es = Some s -> all_stored s = true /\ held_present s = true.
Proof. exact no_referenced_pack_deleted_lemma. Qed.
Print Assumptions no_referenced_pack_deleted.

(* the half about running backups alone (kept under its earlier name) *)
Theorem no_referenced_pack_deleted_partial : forall kd es s,
  run_timely kd init es = Some s -> held_present s = true.
Proof. exact no_held_pack_deleted_lemma. Qed.
Print Assumptions no_referenced_pack_deleted_partial.

(* a snapshot written while a prune is active lies in packs that prune cannot delete *)
Theorem snapshot_blobs_protected : forall kd es s q sn b,
  run_timely kd init es = Some s -> prn s = Some q -> In sn (snaps s) -> psidmark q <= fst sn -> In b (snd sn) ->
  exists pk, In pk (packs s) /\ In b (snd pk) /\ ~ Del kd q (fst pk).
Proof. exact snapshot_blobs_protected_lemma. Qed.
Print Assumptions snapshot_blobs_protected.

(* The mechanism: on such paths a pack on a prune's delete list is relied on by no running backup
   and is listed unmarked by no present index file. *)
Theorem delete_only_unreferenced : forall kd es s q p,
  run_timely kd init es = Some s -> prn s = Some q -> (pph q = PPlanned \/ pph q = PIndexed) ->
  In p (delete_list q) ->
  (forall c, In c (bks s) -> running c = true -> forall e, In e (held c) -> fst e <> p) /\
  (forall f, In f (idxs s) -> forall e, In e (unm (snd f)) -> fst e <> p).
Proof. exact delete_only_unreferenced_lemma. Qed.
Print Assumptions delete_only_unreferenced.

(* After ONE further complete prune that runs alone (PStart, then any scan / plan / repack / index write /
   removals the model admits, then PDone; no concurrent command, no abort), started in ANY reachable state
   in which no prune is active, every present snapshot is closed: each needed blob is listed UNMARKED by a
   present index file in a present pack that holds it.  No timing hypothesis: it follows from `plan_ok`
   (every used blob has an existing Keep / Recover / Repack owner), the executor steps, truthfulness of
   index entries and freshness of pack and index ids.  prune||prune is excluded by the model (PStart needs
   `prn = None`). *)
Theorem next_prune_recovers : forall kd es0 s es s',
  run kd init es0 = Some s -> prn s = None ->
  forallb is_solo_prune_ev es = true ->
  run kd s (PStart :: es ++ [PDone]) = Some s' -> all_closed s' = true.
Proof. exact next_prune_recovers_lemma. Qed.
Print Assumptions next_prune_recovers.

(* Example: the hypotheses are satisfiable on a state that is NOT closed (a backup reused a marked pack). *)
Theorem next_prune_recovers_instance :
  exists s s', run recover_kd init recover_run = Some s /\ prn s = None /\ all_closed s = false /\
               forallb is_solo_prune_ev recover_prune_mid = true /\
               run recover_kd s (PStart :: recover_prune_mid ++ [PDone]) = Some s' /\ all_closed s' = true.
Proof. exact next_prune_recovers_instance_lemma. Qed.
Print Assumptions next_prune_recovers_instance.

(* the plan facts it rests on *)
Theorem next_prune_recovers_partial_owns : forall kd T v used existing asg rw b,
  plan_ok kd T v used existing asg rw = true -> In b used ->
  (exists x, In x (dunm v) /\ In b (snd (snd x)) /\ owns (todo_of asg (fst (snd x))) = true) \/
  (exists x, In x (dmk v) /\ In b (snd (fst (snd x))) /\ owns (todo_of asg (fst (fst (snd x)))) = true).
Proof. exact plan_owns_used_lemma. Qed.
Print Assumptions next_prune_recovers_partial_owns.

(* a MARKED pack that owns a used blob is recovered: its index file is rebuilt, the pack exists,
   and the new index lists it unmarked *)
Theorem next_prune_recovers_partial_marked : forall kd T q used existing x,
  plan_ok kd T (pview q) used existing (pasg q) (prw q) = true -> In x (dmk (pview q)) ->
  owns (todo_of (pasg q) (fst (fst (snd x)))) = true ->
  In (fst (fst (snd x))) existing /\ In (fst (snd x)) (unm (new_index q)).
Proof.
  intros kd T q used existing x H Hx Ho.
  destruct (plan_marked_needed_lemma _ _ _ _ _ _ _ _ H Hx Ho) as (A & B & C).
  split; [exact C|]. apply recover_relists_lemma; assumption.
Qed.
Print Assumptions next_prune_recovers_partial_marked.

Theorem delete_only_expired : forall kd T v used existing asg rw x,
  plan_ok kd T v used existing asg rw = true -> In x (dmk v) ->
  todo_of asg (fst (fst (snd x))) = Some Delete -> snd (snd x) + kd <= T.
Proof. exact plan_delete_expired_lemma. Qed.
Print Assumptions delete_only_expired.

(* Example (non-vacuity): a backup reuses a blob from a pack that a concurrent prune marks; the
   path satisfies `timely`; afterwards the snapshot is stored but not closed; the next prune
   recovers the pack and the snapshot is closed. *)
Theorem next_prune_recovers_example :
  exists s s', run_timely recover_kd init recover_run = Some s /\
               all_stored s = true /\ all_closed s = false /\
               run_timely recover_kd s recover_prune = Some s' /\ all_closed s' = true.
Proof. exact next_prune_recovers_example_lemma. Qed.
Print Assumptions next_prune_recovers_example.

(* Example (non-vacuity of `timely` with a real deletion). *)
Theorem timely_delete_example :
  exists s, run_timely 3 init timely_delete_run = Some s /\ all_stored s = true /\ all_closed s = true /\
            held_present s = true /\ length (packs s) = 1.
Proof. exact timely_delete_example_lemma. Qed.
Print Assumptions timely_delete_example.

(* ---- statements that depend on the facts regenerated from prune.rs (Extracted.v) *)
(* the executor table of prune_repository (which decision goes to which index section) is the model's *)
Theorem source_exec_table_matches_model : forall t, source_section t = model_section t.
Proof. exact source_exec_table_lemma. Qed.
Print Assumptions source_exec_table_matches_model.

(* the delete marks are stamped when the index file holding them is written (add_delete_marks, Timestamp::now()
   right before indexer.finalize()); the plan time is taken BEFORE the repository is read; expiry is
   `plan_time - keep_delete >= mark_time`; kept marks keep their time *)
Theorem source_time_facts :
  marks_stamped_at_write = true /\ plan_time_after_scan = false /\ expiry_nonstrict = true /\
  ts_MarkDelete = Stamp /\ ts_Repack = Stamp /\ ts_Unreferenced = Stamp /\ ts_KeepMarked = KeepOld.
Proof. exact source_time_facts_lemma. Qed.
Print Assumptions source_time_facts.

(* every mark in the index a prune writes carries the stamp time of the (re-stamped) plan, or is a mark of its
   view with its old time *)
Theorem fresh_marks_carry_plan_time : forall q m, In m (mk (new_index q)) ->
  snd m = ptime q \/ exists x, In x (dmk (pview q)) /\ m = snd x.
Proof. exact fresh_marks_lemma. Qed.
Print Assumptions fresh_marks_carry_plan_time.

(* ... and that stamp is the clock at the index write: marks carry their PUBLICATION time *)
Theorem published_marks_carry_write_time : forall kd s s', step kd s PWriteIndex = Some s' ->
  exists q f, prn s = Some q /\ idxs s' = idxs s ++ [(nexti s, f)] /\
    forall m, In m (mk f) -> snd m = clock s \/ exists x, In x (dmk (pview q)) /\ m = snd x.
Proof. exact published_marks_lemma. Qed.
Print Assumptions published_marks_carry_write_time.

(* the time expiry is tested against is the clock when the prune STARTED (before index load and scan) *)
Theorem plan_time_is_start_time : forall kd s asg rw s', step kd s (PPlan asg rw) = Some s' ->
  exists q q', prn s = Some q /\ prn s' = Some q' /\ ptime q' = plstart q.
Proof. exact plan_time_source_lemma. Qed.
Print Assumptions plan_time_is_start_time.

(* hence hypothesis (b) of `timely` holds in every reachable state: it is a property of the code now *)
Theorem timely_b_by_construction : forall kd es s, run kd init es = Some s -> timely_b kd s = true.
Proof. exact (timely_b_by_construction_lemma eq_refl). Qed.
Print Assumptions timely_b_by_construction.

(* REPAIRED (fix 8ab7696, formerly the open finding prune-marks-carry-plan-time / `slow_prune_refuted`):
   for every interleaving of any number of backups with non-overlapping prunes in which every running backup
   started before the marks on the packs it relies on were stamped — i.e. published — and is younger than
   keep_delete (`premise`), no data of any snapshot is lost and no pack a running backup deduplicated against
   is deleted. *)
Theorem started_before_publication_safe : forall kd es s,
  run_prem kd init es = Some s -> all_stored s = true /\ held_present s = true.
Proof. exact (fixed_prune_safe_lemma eq_refl). Qed.
Print Assumptions started_before_publication_safe.

(* the slow-prune schedule is no longer a path: the mark carries the publication time 6, prune 2 (started at
   10 = plan time of prune 1 + keep_delete) must keep the pack *)
Theorem slow_prune_rejected :
  run slow_prune_kd init slow_prune_run = None /\
  exists s, run slow_prune_kd init slow_prune_prefix = Some s /\ clock s = 10 /\
            marks_of s = [((0, [1]), 6)] /\
            step slow_prune_kd s (PPlan [(0, Delete)] [1]) = None /\
            exists s', step slow_prune_kd s (PPlan [(0, KeepMarked)] []) = Some s'.
Proof. exact slow_prune_rejected_lemma. Qed.
Print Assumptions slow_prune_rejected.

(* Example (non-vacuity of `premise`): what the repaired code does on that schedule *)
Theorem slow_prune_fixed_example :
  exists s s', run_prem slow_prune_kd init slow_prune_fixed_run = Some s /\
               short_backups slow_prune_kd s = true /\ all_stored s = true /\ all_closed s = false /\
               run_prem slow_prune_kd s slow_prune_recover = Some s' /\ all_closed s' = true.
Proof. exact slow_prune_fixed_example_lemma. Qed.
Print Assumptions slow_prune_fixed_example.
