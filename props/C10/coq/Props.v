(* C10 — property theorems about backups and non-instant prunes running concurrently, for
   EVERY interleaving of their backend operations (Model.v). *)
From Verif.Base Require Import Tactics.
From Verif.C10 Require Import Model ProofsBase ProofsBB ProofsWitness.
Local Open Scope nat_scope.

(* Overlapping backups need no hypothesis: from any repository whose index is exact and whose
   snapshots are closed, every interleaving of the operations of any number of backups leaves
   every snapshot closed (each needed blob listed unmarked by a present index file in a present
   pack that holds it). *)
Theorem backup_backup_safe : forall kd s0 es s,
  (forall f e, In f (idxs s0) -> In e (unm (snd f)) -> In e (packs s0)) ->
  (forall b, In b (bks s0) -> running b = false) ->
  all_closed s0 = true ->
  forallb is_backup_ev es = true -> run kd s0 es = Some s -> all_closed s = true.
Proof. exact backup_backup_safe_lemma. Qed.
Print Assumptions backup_backup_safe.

Theorem backup_backup_safe_from_empty : forall kd es s,
  forallb is_backup_ev es = true -> run kd init es = Some s -> all_closed s = true.
Proof. exact backup_backup_safe_init_lemma. Qed.
Print Assumptions backup_backup_safe_from_empty.

(* The literal premise of the property (keep-delete exceeds every backup's duration) is not
   enough, because marks carry the PLAN time of the prune (`prune_plan.time`), not the time the
   new index becomes visible. *)
Theorem slow_prune_refuted :
  exists s, run slow_prune_kd init slow_prune_run = Some s /\
            short_backups slow_prune_kd s = true /\
            run_tb slow_prune_kd init slow_prune_run = true /\
            all_stored s = false /\
            run_timely slow_prune_kd init slow_prune_run = None.
Proof. exact slow_prune_refuted_lemma. Qed.
Print Assumptions slow_prune_refuted.
