(* C10 — shared lemmas: list helpers, reflection of the boolean observables, step inversion. *)
From Verif.Base Require Import Tactics.
From Verif.C10 Require Import Model.
Local Open Scope nat_scope.

Lemma memb_In x l : memb x l = true <-> In x l.
Proof.
  unfold memb. rewrite existsb_exists. split.
  - intros (y & Hy & E). apply Nat.eqb_eq in E. subst. assumption.
  - intro H. exists x. split; [assumption|apply Nat.eqb_refl].
Qed.

Lemma memb_false x l : memb x l = false <-> ~ In x l.
Proof. rewrite <- memb_In. destruct (memb x l); split; congruence. Qed.

Lemma In_replace_at {A} (y : A) l : forall n x, In x (replace_at n y l) -> x = y \/ In x l.
Proof.
  induction l as [|a l IH]; intros [|n] x H; simpl in *; try tauto.
  - destruct H; auto.
  - destruct H; auto. apply IH in H. tauto.
Qed.

Lemma In_replace_at_old {A} (y : A) l : forall n x b, nth_error l n = Some b -> In x l -> x = b \/ In x (replace_at n y l).
Proof.
  induction l as [|a l IH]; intros [|n] x b Hn H; simpl in *; try discriminate.
  - inv Hn. destruct H; auto.
  - destruct H; auto. eapply IH in H; eauto. tauto.
Qed.

Lemma In_replace_at_new {A} (y : A) l : forall n b, nth_error l n = Some b -> In y (replace_at n y l).
Proof.
  induction l as [|a l IH]; intros [|n] b Hn; simpl in *; try discriminate; auto.
  right. eapply IH; eauto.
Qed.

Lemma lookup_In {A} x (l : list (nat * A)) v : lookup x l = Some v -> In (x, v) l.
Proof.
  unfold lookup. destruct (find _ l) as [y|] eqn:F; [|discriminate].
  intro H. inv H. apply find_some in F. destruct F as [Hin E]. apply Nat.eqb_eq in E.
  destruct y; simpl in *; subst; assumption.
Qed.

Lemma In_remove_key {A} x (l : list (nat * A)) y : In y (remove_key x l) <-> In y l /\ fst y <> x.
Proof.
  unfold remove_key. rewrite filter_In. rewrite negb_true_iff, Nat.eqb_neq. intuition.
Qed.

Lemma In_remove_nat x l y : In y (remove_nat x l) <-> In y l /\ y <> x.
Proof.
  unfold remove_nat. rewrite filter_In. rewrite negb_true_iff, Nat.eqb_neq. intuition.
Qed.

Lemma In_blobs_of b es : In b (blobs_of es) <-> exists e, In e es /\ In b (snd e).
Proof. unfold blobs_of. rewrite in_flat_map. tauto. Qed.

(* ---- Prop versions of the observables *)
Definition StoredP (s : st) (b : blob) : Prop := exists pk, In pk (packs s) /\ In b (snd pk).
Definition ListedP (s : st) (b : blob) : Prop :=
  exists f e pk, In f (idxs s) /\ In e (unm (snd f)) /\ In b (snd e) /\
                 In pk (packs s) /\ fst pk = fst e /\ In b (snd pk).

Lemma stored_iff s b : stored s b = true <-> StoredP s b.
Proof.
  unfold stored, StoredP. rewrite existsb_exists. split; intros (pk & H1 & H2); exists pk;
    (split; [assumption|apply memb_In; assumption]).
Qed.

Lemma listed_iff s b : listed s b = true <-> ListedP s b.
Proof.
  unfold listed, ListedP. rewrite existsb_exists. split.
  - intros (f & Hf & H). apply existsb_exists in H. destruct H as (e & He & H).
    apply andb_true_iff in H. destruct H as [Hb H]. apply existsb_exists in H.
    destruct H as (pk & Hpk & H). apply andb_true_iff in H. destruct H as [E Hb2].
    apply Nat.eqb_eq in E. apply memb_In in Hb. apply memb_In in Hb2. exists f, e, pk. tauto.
  - intros (f & e & pk & Hf & He & Hb & Hpk & E & Hb2). exists f. split; [assumption|].
    apply existsb_exists. exists e. split; [assumption|]. apply andb_true_iff. split; [apply memb_In; assumption|].
    apply existsb_exists. exists pk. split; [assumption|]. apply andb_true_iff. split; [apply Nat.eqb_eq; assumption|apply memb_In; assumption].
Qed.

Lemma all_closed_iff s : all_closed s = true <-> forall sn b, In sn (snaps s) -> In b (snd sn) -> ListedP s b.
Proof.
  unfold all_closed, snap_closed. rewrite forallb_forall. split.
  - intros H sn b Hsn Hb. apply listed_iff. specialize (H sn Hsn). rewrite forallb_forall in H. auto.
  - intros H sn Hsn. apply forallb_forall. intros b Hb. apply listed_iff. eauto.
Qed.

Lemma all_stored_iff s : all_stored s = true <-> forall sn b, In sn (snaps s) -> In b (snd sn) -> StoredP s b.
Proof.
  unfold all_stored, snap_stored. rewrite forallb_forall. split.
  - intros H sn b Hsn Hb. apply stored_iff. specialize (H sn Hsn). rewrite forallb_forall in H. auto.
  - intros H sn Hsn. apply forallb_forall. intros b Hb. apply stored_iff. eauto.
Qed.

Lemma ListedP_mono s s' b :
  incl (idxs s) (idxs s') -> incl (packs s) (packs s') -> ListedP s b -> ListedP s' b.
Proof.
  intros Hi Hp (f & e & pk & H1 & H2 & H3 & H4 & H5 & H6). exists f, e, pk. intuition.
Qed.

(* ---- step inversion: split `step kd s e = Some s'` into its enabled cases *)
Ltac step_cases H :=
  unfold step in H;
  repeat match type of H with
         | context [match ?x with _ => _ end] =>
             match x with
             | context [match _ with _ => _ end] => fail 1
             | _ => destruct x eqn:?; try discriminate H
             end
         | context [if ?x then _ else _] => destruct x eqn:?; try discriminate H
         end;
  try (injection H as H); try discriminate.

Lemma run_app kd : forall es1 es2 s, run kd s (es1 ++ es2) =
  match run kd s es1 with Some s' => run kd s' es2 | None => None end.
Proof.
  induction es1 as [|e es1 IH]; intros; simpl; [reflexivity|].
  destruct (step kd s e); [apply IH|reflexivity].
Qed.

(* generic invariant principle *)
Lemma run_invariant kd (P : st -> Prop) (ok : ev -> bool) :
  (forall s e s', P s -> ok e = true -> step kd s e = Some s' -> P s') ->
  forall es s s', P s -> forallb ok es = true -> run kd s es = Some s' -> P s'.
Proof.
  intros Hstep. induction es as [|e es IH]; intros s s' HP Hok Hr; simpl in *.
  - inv Hr. assumption.
  - apply andb_true_iff in Hok. destruct Hok as [H1 H2].
    destruct (step kd s e) as [s1|] eqn:E; [|discriminate].
    apply (IH s1 s'); [eapply Hstep; eauto|assumption|assumption].
Qed.
