(* C10 — freshness invariant: every pack id that occurs anywhere is below the next fresh id. *)
From Verif.Base Require Import Tactics.
From Verif.C10 Require Import Model ProofsBase ProofsView.
Local Open Scope nat_scope.

Definition IFlt (n : nat) (f : ifile) : Prop :=
  (forall e, In e (unm f) -> fst e < n) /\ (forall m, In m (mk f) -> fst (fst m) < n).

Definition PL (s : st) : Prop :=
  (forall pk, In pk (packs s) -> fst pk < nextp s) /\
  (forall f, In f (idxs s) -> IFlt (nextp s) (snd f)) /\
  (forall c, In c (bks s) -> forall e, In e (held c) -> fst e < nextp s) /\
  (forall q, prn s = Some q ->
     (forall f, In f (pview q) -> IFlt (nextp s) (snd f)) /\
     (forall e, In e (pnew q) -> fst e < nextp s) /\
     (forall p, In p (punref q) -> p < nextp s)).

Lemma IFlt_mono n n' f : n <= n' -> IFlt n f -> IFlt n' f.
Proof. intros L [A B]. split; intros x Hx; [apply A in Hx|apply B in Hx]; lia. Qed.

Lemma view_pids_lt n v : (forall f, In f v -> IFlt n (snd f)) -> forall p, In p (view_pids v) -> p < n.
Proof.
  intros H p Hp. unfold view_pids in Hp. apply in_app_iff in Hp. destruct Hp as [Hp|Hp].
  - apply In_unm_pids in Hp. destruct Hp as (i & e & Hin & <-). apply In_all_unm in Hin.
    destruct Hin as (f & Hf & He). apply (H (i, f)) in Hf. destruct Hf as [A _]. apply A. exact He.
  - apply in_map_iff in Hp. destruct Hp as ([i m] & <- & Hin). apply In_all_mk in Hin.
    destruct Hin as (f & Hf & He). apply (H (i, f)) in Hf. destruct Hf as [_ B]. simpl. apply B. exact He.
Qed.

Lemma new_index_lt n q :
  (forall f, In f (pview q) -> IFlt n (snd f)) -> (forall e, In e (pnew q) -> fst e < n) ->
  (forall p, In p (punref q) -> p < n) -> IFlt n (new_index q).
Proof.
  intros V N U.
  assert (DU : forall x, In x (dunm (pview q)) -> fst (snd x) < n).
  { intros [i e] Hx. apply dunm_In in Hx. apply In_all_unm in Hx. destruct Hx as (f & Hf & He).
    apply (V (i, f)) in Hf. destruct Hf as [A _]. simpl. auto. }
  assert (DM : forall x, In x (dmk (pview q)) -> fst (fst (snd x)) < n).
  { intros [i m] Hx. apply dmk_In in Hx. destruct Hx as [Hx _]. apply In_all_mk in Hx. destruct Hx as (f & Hf & He).
    apply (V (i, f)) in Hf. destruct Hf as [_ B]. simpl. auto. }
  split; unfold new_index; simpl.
  - intros e He. apply in_app_iff in He. destruct He as [He|He]; [|apply in_app_iff in He; destruct He as [He|He]].
    + apply in_flat_map in He. destruct He as (x & Hx & He). destr_if; [|destruct He]. destruct He as [<-|[]]. auto.
    + apply in_flat_map in He. destruct He as (x & Hx & He). destr_if; [|destruct He]. destruct He as [<-|[]]. auto.
    + auto.
  - intros m Hm. apply in_app_iff in Hm. destruct Hm as [Hm|Hm]; [|apply in_app_iff in Hm; destruct Hm as [Hm|Hm]].
    + apply in_flat_map in Hm. destruct Hm as (x & Hx & Hm). destr_if; [|destruct Hm].
      destruct (todo_of (pasg q) (fst (snd x))) as [[]|]; simpl in Hm; try tauto; destruct Hm as [<-|[]]; simpl; auto.
    + apply in_flat_map in Hm. destruct Hm as (x & Hx & Hm). destr_if; [|destruct Hm].
      destruct (todo_of (pasg q) (fst (fst (snd x)))) as [[]|]; simpl in Hm; try tauto; destruct Hm as [<-|[]]; simpl; auto.
    + apply in_map_iff in Hm. destruct Hm as (p & <- & Hp). simpl. auto.
Qed.

Ltac pl_bk Hb c0 Hc :=
  intros c0 Hc; apply In_replace_at in Hc; destruct Hc as [->|Hc]; [|eauto].

Ltac get_p4 P4 V N U :=
  first [destruct (P4 _ eq_refl) as (V & N & U)
        | match goal with Hq : prn _ = Some ?q |- _ => destruct (P4 q Hq) as (V & N & U) end].
Ltac pl_split := split; [|split; [|split]].
Ltac p4_same P4 := let q0 := fresh "q0" in let Hq0 := fresh "Hq0" in intros q0 Hq0; exact (P4 q0 Hq0).

Lemma PL_step kd s evt s' : PL s -> step kd s evt = Some s' -> PL s'.
Proof.
  intros (P1 & P2 & P3 & P4) H.
  destruct evt; step_cases H; subst s'; unfold set_bk, set_prn; unfold PL; simpl;
    try (match goal with Hn : nth_error (bks s) _ = Some ?b |- _ => assert (Hin := nth_error_In _ _ Hn); pose proof (P3 b Hin) as P3b end).
  - (* Tick *) auto.
  - (* BStart *) pl_split; auto.
    intros c0 Hc e0 He. apply in_app_iff in Hc. destruct Hc as [Hc|[<-|[]]]; [eauto|destruct He].
  - (* BList *) pl_split; auto. pl_bk P3 c0 Hc. intros e0 [].
  - (* BRead some *) pl_split; auto. pl_bk P3 c0 Hc.
    unfold held; simpl. intros e0 He. rewrite <- app_assoc in He. apply in_app_iff in He. destruct He as [He|He].
    + apply P3b. unfold held. apply in_app_iff. auto.
    + apply in_app_iff in He. destruct He as [He|He].
      * match goal with L : lookup _ _ = Some _ |- _ => apply lookup_In in L; apply P2 in L; destruct L as [A _]; auto end.
      * apply P3b. unfold held. apply in_app_iff. auto.
  - (* BRead none *) pl_split; auto. pl_bk P3 c0 Hc.
    unfold held; simpl. intros e0 He. rewrite app_nil_r in He. apply P3b. exact He.
  - (* BPack *)
    pl_split.
    + intros pk Hpk. apply in_app_iff in Hpk. destruct Hpk as [Hpk|[<-|[]]]; [apply P1 in Hpk; lia|simpl; lia].
    + intros f Hf. eapply IFlt_mono; [|apply P2; exact Hf]. lia.
    + pl_bk P3 c0 Hc.
      * unfold held; simpl. intros e0 He. rewrite app_assoc in He. apply in_app_iff in He. destruct He as [He|[<-|[]]]; [apply P3b in He; lia|simpl; lia].
      * intros e0 He. apply (P3 _ Hc) in He. lia.
    + intros q0 Hq0. destruct (P4 q0 Hq0) as (Vw & Nw & Uw). split; [|split].
      * intros f Hf. eapply IFlt_mono; [|apply Vw; exact Hf]. lia.
      * intros e0 He. apply Nw in He. lia.
      * intros p1 Hp. apply Uw in Hp. lia.
  - (* BIndex empty *) pl_split; auto. pl_bk P3 c0 Hc.
    unfold held; simpl. intros e0 He. apply P3b. unfold held. match goal with W : bwritten _ = [] |- _ => rewrite W end. exact He.
  - (* BIndex write *) pl_split; auto.
    + intros f Hf. apply in_app_iff in Hf. destruct Hf as [Hf|[<-|[]]]; [auto|].
      split; simpl; [|intros m []]. intros e0 He. apply P3b. unfold held. apply in_app_iff. right.
      match goal with W : bwritten _ = _ |- _ => rewrite W end. exact He.
    + pl_bk P3 c0 Hc. unfold held; simpl. intros e0 He. apply P3b. unfold held.
      match goal with W : bwritten _ = _ |- _ => rewrite W end. exact He.
  - (* BSnap *) pl_split; auto. pl_bk P3 c0 Hc. exact P3b.
  - (* BAbort *) pl_split; auto. pl_bk P3 c0 Hc. exact P3b.
  - (* PStart *) pl_split; auto. intros q0 Hq0. inv Hq0. simpl. split; [|split]; auto; intros ? [].
  - (* PScan *) pl_split; auto. intros q0 Hq0. inv Hq0. simpl.
    get_p4 P4 Vw Nw Uw. split; [|split]; auto; intros ? [].
  - (* PPlan *) pl_split; auto. intros q0 Hq0. inv Hq0. simpl.
    get_p4 P4 Vw Nw Uw. split; [|split]; auto.
    + intros ? [].
    + intros p1 Hp. apply filter_In in Hp. destruct Hp as [Hp _]. apply in_map_iff in Hp. destruct Hp as (pk & <- & Hp). auto.
  - (* PPack *)
    get_p4 P4 Vw Nw Uw.
    pl_split.
    + intros pk Hpk. apply in_app_iff in Hpk. destruct Hpk as [Hpk|[<-|[]]]; [apply P1 in Hpk; lia|simpl; lia].
    + intros f Hf. eapply IFlt_mono; [|apply P2; exact Hf]. lia.
    + intros c0 Hc e0 He. apply (P3 _ Hc) in He. lia.
    + intros q0 Hq0. inv Hq0. simpl. split; [|split].
      * intros f Hf. eapply IFlt_mono; [|apply Vw; exact Hf]. lia.
      * intros e0 He. apply in_app_iff in He. destruct He as [He|[<-|[]]]; [apply Nw in He; lia|simpl; lia].
      * intros p1 Hp. apply Uw in Hp. lia.
  - (* PWriteIndex *)
    get_p4 P4 Vw Nw Uw.
    pl_split; auto.
    + intros f Hf. apply in_app_iff in Hf. destruct Hf as [Hf|[<-|[]]]; [auto|]. simpl. apply new_index_lt; auto.
    + intros q0 Hq0. inv Hq0. simpl. auto.
  - (* PRmIndex *)
    get_p4 P4 Vw Nw Uw.
    pl_split; auto.
    + intros f Hf. apply In_remove_key in Hf. apply P2. tauto.
    + intros q0 Hq0. inv Hq0. simpl. auto.
  - (* PRmPack *)
    get_p4 P4 Vw Nw Uw.
    pl_split; auto.
    + intros pk Hpk. apply In_remove_key in Hpk. apply P1. tauto.
    + intros q0 Hq0. inv Hq0. simpl. auto.
  - (* PDone *) pl_split; auto. intros; discriminate.
  - pl_split; auto. intros; discriminate.
  - (* PAbort *) pl_split; auto. intros; discriminate.
  - (* Forget *) pl_split; auto.
Qed.

Lemma PL_init : PL init.
Proof. unfold PL. simpl. split; [|split; [|split]]; try (intros; tauto). intros q0 Hq0. discriminate Hq0. Qed.
