(* C10 — extraction of the transition system (ExtrOcamlBasic only). *)
Require Extraction.
Require Import ExtrOcamlBasic.
From Verif.C10 Require Import Model.
Extraction "model_ml.ml" init step run timely timely_a timely_b all_stored all_closed held_present
  short_backups premise dunm dmk view_pids plan_ok slow_prune_run slow_prune_kd.
