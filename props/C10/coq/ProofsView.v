(* C10 — lemmas about the prune's de-duplicated view and reflection of `timely`. *)
From Verif.Base Require Import Tactics.
From Verif.C10 Require Import Model ProofsBase.
Local Open Scope nat_scope.

Lemma first_occ_In {A} (key : A -> nat) : forall l seen x, In x (first_occ key seen l) -> In x l.
Proof.
  induction l as [|a l IH]; intros seen x H; simpl in *; [assumption|].
  destruct (memb (key a) seen); [right; eauto|]. destruct H; [left; assumption|right; eauto].
Qed.

Lemma In_all_unm v i e : In (i, e) (all_unm v) <-> exists f, In (i, f) v /\ In e (unm f).
Proof.
  unfold all_unm. rewrite in_flat_map. split.
  - intros ([i' f] & Hf & H). simpl in H. apply in_map_iff in H. destruct H as (e' & E & He). inv E. eauto.
  - intros (f & Hf & He). exists (i, f). split; [assumption|]. simpl. apply in_map_iff. eauto.
Qed.

Lemma In_all_mk v i m : In (i, m) (all_mk v) <-> exists f, In (i, f) v /\ In m (mk f).
Proof.
  unfold all_mk. rewrite in_flat_map. split.
  - intros ([i' f] & Hf & H). simpl in H. apply in_map_iff in H. destruct H as (e' & E & He). inv E. eauto.
  - intros (f & Hf & He). exists (i, f). split; [assumption|]. simpl. apply in_map_iff. eauto.
Qed.

Lemma dunm_In v x : In x (dunm v) -> In x (all_unm v).
Proof. apply first_occ_In. Qed.

Lemma dmk_In v x : In x (dmk v) -> In x (all_mk v) /\ ~ In (fst (fst (snd x))) (unm_pids v).
Proof.
  unfold dmk. intro H. apply first_occ_In in H. apply filter_In in H. destruct H as [H1 H2].
  split; [assumption|]. apply negb_true_iff in H2. apply memb_false in H2. exact H2.
Qed.

Lemma In_unm_pids v p : In p (unm_pids v) <-> exists i e, In (i, e) (all_unm v) /\ fst e = p.
Proof.
  unfold unm_pids. rewrite in_map_iff. split.
  - intros ([i e] & E & H). exists i, e. auto.
  - intros (i & e & H & E). exists (i, e). auto.
Qed.

Lemma delete_list_In q p : In p (delete_list q) ->
  exists x, In x (dmk (pview q)) /\ fst (fst (snd x)) = p /\ is_delete (todo_of (pasg q) p) = true.
Proof.
  unfold delete_list. rewrite in_flat_map. intros (x & Hx & H).
  destruct (is_delete (todo_of (pasg q) (fst (fst (snd x))))) eqn:E; [|destruct H].
  destruct H as [<-|[]]. eauto.
Qed.

(* ---- reflection of the hypothesis *)
Lemma timely_a_spec kd s : timely_a kd s = true ->
  forall c, In c (bks s) -> running c = true -> forall e, In e (held c) ->
  forall f m, In f (idxs s) -> In m (mk (snd f)) -> fst (fst m) = fst e -> clock s < snd m + kd.
Proof.
  unfold timely_a. intros H c Hc Hr e He f m Hf Hm E.
  rewrite forallb_forall in H. specialize (H c Hc). rewrite Hr in H. simpl in H.
  rewrite forallb_forall in H. specialize (H e He). rewrite forallb_forall in H.
  assert (Hin : In m (marks_of s)). { unfold marks_of. apply in_flat_map. eauto. }
  specialize (H m Hin). apply orb_true_iff in H. destruct H as [H|H].
  - apply negb_true_iff in H. apply Nat.eqb_neq in H. contradiction.
  - apply Nat.ltb_lt in H. exact H.
Qed.

Lemma timely_b_spec kd s q : timely_b kd s = true -> prn s = Some q ->
  (pph q = PPlanned \/ pph q = PIndexed) ->
  forall x, In x (dmk (pview q)) -> is_delete (todo_of (pasg q) (fst (fst (snd x)))) = true ->
  snd (snd x) + kd <= plstart q.
Proof.
  unfold timely_b. intros H Hq Hp x Hx Hd. rewrite Hq in H.
  assert (H' : forallb (fun x => negb (is_delete (todo_of (pasg q) (fst (fst (snd x))))) || (snd (snd x) + kd <=? plstart q)) (dmk (pview q)) = true).
  { destruct Hp as [Hp|Hp]; rewrite Hp in H; exact H. }
  rewrite forallb_forall in H'. specialize (H' x Hx). apply orb_true_iff in H'. destruct H' as [H'|H'].
  - apply negb_true_iff in H'. pose proof (eq_trans (eq_sym H') Hd) as X. discriminate X.
  - apply Nat.leb_le in H'. exact H'.
Qed.

Lemma timely_split kd s : timely kd s = true -> timely_a kd s = true /\ timely_b kd s = true.
Proof. unfold timely. apply andb_true_iff. Qed.

Lemma run_timely_timely kd : forall es s s', run_timely kd s es = Some s' -> timely kd s' = true.
Proof.
  induction es as [|e es IH]; intros s s' H; simpl in H; destruct (timely kd s) eqn:T; try discriminate.
  - inv H. assumption.
  - destruct (step kd s e) as [s1|]; [eauto|discriminate].
Qed.

Lemma run_timely_invariant kd (P : st -> Prop) :
  (forall s e s', P s -> timely kd s = true -> timely kd s' = true -> step kd s e = Some s' -> P s') ->
  forall es s s', P s -> run_timely kd s es = Some s' -> P s'.
Proof.
  intros Hstep. induction es as [|e es IH]; intros s s' HP Hr; simpl in Hr; destruct (timely kd s) eqn:T; try discriminate.
  - inv Hr. assumption.
  - destruct (step kd s e) as [s1|] eqn:E; [|discriminate].
    assert (T1 : timely kd s1 = true).
    { destruct es; simpl in Hr; destruct (timely kd s1); congruence. }
    apply (IH s1 s'); [eapply Hstep; eauto|assumption].
Qed.
