(* C10 — main safety theorem (held packs) and the recover step of the next prune. *)
From Verif.Base Require Import Tactics.
From Verif.C10 Require Import Extracted Model ProofsBase ProofsView ProofsFresh ProofsSafe.
Local Open Scope nat_scope.

Lemma SAFE_init kd : SAFE kd init.
Proof. constructor; simpl; intros; try tauto; discriminate. Qed.

Lemma held_present_of_SAFE kd s : SAFE kd s -> held_present s = true.
Proof.
  intros [_ J _ _ _ _ _]. unfold held_present. apply forallb_forall. intros c Hc.
  destruct (running c) eqn:R; [|reflexivity]. simpl. apply forallb_forall. intros e He.
  specialize (J c Hc R e He). unfold Present in J. apply in_map_iff in J. destruct J as (pk & E & Hpk).
  apply existsb_exists. exists pk. split; [assumption|]. apply Nat.eqb_eq. assumption.
Qed.

Lemma no_held_pack_deleted_lemma : forall kd es s,
  run_timely kd init es = Some s -> held_present s = true.
Proof.
  intros kd es s H.
  assert (X : PL s /\ SAFE kd s).
  { apply (run_timely_invariant kd (fun s => PL s /\ SAFE kd s)) with (es := es) (s := init); [|split; [apply PL_init|apply SAFE_init]|exact H].
    intros s0 e s1 [A B] T0 T1 Hs. split; [eapply PL_step; eauto|eapply SAFE_step; eauto]. }
  destruct X as [_ X]. eapply held_present_of_SAFE; eauto.
Qed.

(* a pack that a prune is about to delete is relied on by no running backup and listed unmarked nowhere *)
Lemma delete_only_unreferenced_lemma : forall kd es s q p,
  run_timely kd init es = Some s -> prn s = Some q -> (pph q = PPlanned \/ pph q = PIndexed) ->
  In p (delete_list q) ->
  (forall c, In c (bks s) -> running c = true -> forall e, In e (held c) -> fst e <> p) /\
  (forall f, In f (idxs s) -> forall e, In e (unm (snd f)) -> fst e <> p).
Proof.
  intros kd es s q p H Hq Hp Hd.
  assert (X : PL s /\ SAFE kd s).
  { apply (run_timely_invariant kd (fun s => PL s /\ SAFE kd s)) with (es := es) (s := init); [|split; [apply PL_init|apply SAFE_init]|exact H].
    intros s0 e s1 [A B] T0 T1 Hs. split; [eapply PL_step; eauto|eapply SAFE_step; eauto]. }
  destruct X as [_ [K _ _ _ _ _ _]]. apply (K q p Hq). unfold Del. destruct Hp as [-> | ->]; exact Hd.
Qed.

(* the expiry test of the source (>= or >) implies expiry in the sense of the model *)
Lemma expired_le kd T tm : expired kd T tm = true -> tm + kd <= T.
Proof. unfold expired. destruct expiry_nonstrict; intro H; [apply Nat.leb_le in H|apply Nat.ltb_lt in H]; lia. Qed.

(* ---- the next prune: what a valid plan guarantees *)
Lemma plan_owns_used_lemma kd T v used existing asg rw b :
  plan_ok kd T v used existing asg rw = true -> In b used ->
  (exists x, In x (dunm v) /\ In b (snd (snd x)) /\ owns (todo_of asg (fst (snd x))) = true) \/
  (exists x, In x (dmk v) /\ In b (snd (fst (snd x))) /\ owns (todo_of asg (fst (fst (snd x)))) = true).
Proof.
  unfold plan_ok. intros H Hb.
  apply andb_true_iff in H. destruct H as [H _]. apply andb_true_iff in H. destruct H as [_ H].
  rewrite forallb_forall in H. specialize (H b Hb). apply orb_true_iff in H. destruct H as [H|H];
    apply existsb_exists in H; destruct H as (x & Hx & H); apply andb_true_iff in H; destruct H as [H1 H2];
    apply memb_In in H1; [left|right]; exists x; auto.
Qed.

Lemma plan_delete_expired_lemma kd T v used existing asg rw x :
  plan_ok kd T v used existing asg rw = true -> In x (dmk v) ->
  todo_of asg (fst (fst (snd x))) = Some Delete -> snd (snd x) + kd <= T.
Proof.
  unfold plan_ok. intros H Hx Hs.
  apply andb_true_iff in H. destruct H as [H _]. apply andb_true_iff in H. destruct H as [H _].
  apply andb_true_iff in H. destruct H as [_ H]. rewrite forallb_forall in H. specialize (H x Hx). cbv beta zeta in H.
  destruct x as [i [[p bl] tm]]. simpl in *. rewrite Hs in H.
  apply andb_true_iff in H. destruct H as [H _]. apply expired_le in H. exact H.
Qed.

Lemma plan_marked_needed_lemma kd T v used existing asg rw x :
  plan_ok kd T v used existing asg rw = true -> In x (dmk v) ->
  owns (todo_of asg (fst (fst (snd x)))) = true ->
  todo_of asg (fst (fst (snd x))) = Some Recover /\ In (fst x) rw /\ In (fst (fst (snd x))) existing.
Proof.
  unfold plan_ok. intros H Hx Hs.
  apply andb_true_iff in H. destruct H as [H _]. apply andb_true_iff in H. destruct H as [H _].
  apply andb_true_iff in H. destruct H as [_ H]. rewrite forallb_forall in H. specialize (H x Hx). cbv beta zeta in H.
  destruct x as [i [[p bl] tm]]. simpl in *.
  destruct (todo_of asg p) as [[]|]; simpl in Hs; try discriminate.
  apply andb_true_iff in H. destruct H as [H1 H2]. apply memb_In in H1. apply memb_In in H2. auto.
Qed.

Lemma recover_relists_lemma q x :
  In x (dmk (pview q)) -> todo_of (pasg q) (fst (fst (snd x))) = Some Recover -> In (fst x) (prw q) ->
  In (fst (snd x)) (unm (new_index q)).
Proof.
  intros Hx Ht Hr. unfold new_index. simpl. apply in_app_iff. right. apply in_app_iff. left.
  apply in_flat_map. exists x. split; [assumption|].
  apply memb_In in Hr. destruct x as [i [[p bl] tm]]. simpl in *. rewrite Hr. rewrite Ht. simpl. left. reflexivity.
Qed.

(* a marked pack that holds a blob a late backup reused is recovered by the next prune *)
Definition recover_kd : time := 10.
Definition recover_run : list ev :=
  [ BStart [1]; BList 0; BPack 0 [1]; BIndex 0; BAbort 0;          (* pack 0 = {1}, no snapshot needs it *)
    PStart; PScan; PPlan [(0, MarkDelete)] [0]; Tick;
    BStart [1]; BList 1; BRead 1 0;                                 (* a backup loads the index: pack 0 unmarked *)
    PWriteIndex; PRmIndex 0; PDone;                                 (* the prune publishes the mark *)
    Tick; BIndex 1; BSnap 1 ].                                      (* the backup (short) finishes: needs blob 1 *)
Definition recover_prune : list ev :=
  [ PStart; PScan; PPlan [(0, Recover)] [1]; PWriteIndex; PRmIndex 1; PDone ].

Lemma next_prune_recovers_example_lemma :
  exists s s', run_timely recover_kd init recover_run = Some s /\
               all_stored s = true /\ all_closed s = false /\
               run_timely recover_kd s recover_prune = Some s' /\ all_closed s' = true.
Proof.
  eexists. eexists. split; [vm_compute; reflexivity|]. split; [vm_compute; reflexivity|].
  split; [vm_compute; reflexivity|]. split; vm_compute; reflexivity.
Qed.

(* the hypothesis is satisfiable together with an actual deletion: a prune deletes an expired pack
   while a backup (that never saw it unmarked) runs *)
Definition timely_delete_run : list ev :=
  [ BStart [1]; BList 0; BPack 0 [1]; BIndex 0; BAbort 0;
    PStart; PScan; PPlan [(0, MarkDelete)] [0]; PWriteIndex; PRmIndex 0; PDone;
    Tick; Tick; Tick;
    BStart [1]; BList 1; BRead 1 1;                                 (* sees only the marked pack: not in the view *)
    PStart; PScan; PPlan [(0, Delete)] [1]; BPack 1 [1]; PWriteIndex; PRmIndex 1; PRmPack 0; PDone;
    BIndex 1; BSnap 1 ].

Lemma timely_delete_example_lemma :
  exists s, run_timely 3 init timely_delete_run = Some s /\ all_stored s = true /\ all_closed s = true /\
            held_present s = true /\ length (packs s) = 1.
Proof. eexists. split; [vm_compute; reflexivity|]. repeat split; vm_compute; reflexivity. Qed.
