(* C10 — the two-phase deletion protocol against concurrent backups: under `timely`, no pack a
   running backup relies on (saw unmarked, or wrote) is ever removed, in any interleaving. *)
From Verif.Base Require Import Tactics.
From Verif.C10 Require Import Model ProofsBase ProofsView ProofsFresh.
Local Open Scope nat_scope.

Definition Present (s : st) (p : pid) : Prop := In p (map fst (packs s)).

Definition Expired (kd : time) (q : pst) (p : pid) : Prop :=
  exists x, In x (dmk (pview q)) /\ fst (fst (snd x)) = p /\ snd (snd x) + kd <= plstart q.

Definition Del (kd : time) (q : pst) (p : pid) : Prop :=
  match pph q with
  | PLoaded | PScanned => Expired kd q p
  | _ => In p (delete_list q)
  end.

Record SAFE (kd : time) (s : st) : Prop := {
  sK : forall q p, prn s = Some q -> Del kd q p ->
        (forall c, In c (bks s) -> running c = true -> forall e, In e (held c) -> fst e <> p) /\
        (forall f, In f (idxs s) -> forall e, In e (unm (snd f)) -> fst e <> p);
  sJ : forall c, In c (bks s) -> running c = true -> forall e, In e (held c) -> Present s (fst e);
  sIX : forall f, In f (idxs s) -> forall e, In e (unm (snd f)) -> Present s (fst e);
  sVU : forall q, prn s = Some q -> forall x, In x (all_unm (pview q)) -> Present s (fst (snd x));
  sPN : forall q, prn s = Some q -> forall e, In e (pnew q) -> Present s (fst e) /\ ~ In (fst e) (view_pids (pview q));
  sRC : forall q, prn s = Some q -> pph q = PPlanned -> forall x, In x (dmk (pview q)) ->
        stays_listed (todo_of (pasg q) (fst (fst (snd x)))) = true -> Present s (fst (fst (snd x)));
  sPD : forall q, prn s = Some q -> pph q = PIndexed -> forall p, In p (pdel q) -> In p (delete_list q)
}.

Lemma Del_in_view kd q p : Del kd q p ->
  exists x, In x (dmk (pview q)) /\ fst (fst (snd x)) = p.
Proof.
  unfold Del. destruct (pph q); intro H.
  1,2: destruct H as (x & H1 & H2 & _); eauto.
  1,2: apply delete_list_In in H; destruct H as (x & H1 & H2 & _); eauto.
Qed.

Lemma Del_not_unm kd q p : Del kd q p -> ~ In p (unm_pids (pview q)).
Proof. intro H. apply Del_in_view in H. destruct H as (x & Hx & <-). apply dmk_In in Hx. tauto. Qed.

Lemma Del_view_pid kd q p : Del kd q p -> In p (view_pids (pview q)).
Proof.
  intro H. apply Del_in_view in H. destruct H as ([i m] & Hx & <-). apply dmk_In in Hx. destruct Hx as [Hx _].
  unfold view_pids. apply in_app_iff. right. apply in_map_iff. exists (i, m). auto.
Qed.

Lemma Present_remove s p p0 : Present s p -> p <> p0 -> In p (map fst (remove_key p0 (packs s))).
Proof.
  unfold Present. intros H N. apply in_map_iff in H. destruct H as (pk & <- & H).
  apply in_map_iff. exists pk. split; [reflexivity|]. apply In_remove_key. auto.
Qed.

Lemma plan_ok_recover kd T v used existing asg rw x :
  plan_ok kd T v used existing asg rw = true -> In x (dmk v) ->
  stays_listed (todo_of asg (fst (fst (snd x)))) = true -> In (fst (fst (snd x))) existing.
Proof.
  unfold plan_ok. intros H Hx Hs.
  apply andb_true_iff in H. destruct H as [H _]. apply andb_true_iff in H. destruct H as [H _].
  apply andb_true_iff in H. destruct H as [_ H]. rewrite forallb_forall in H. specialize (H x Hx). cbv beta zeta in H.
  destruct x as [i [[p bl] tm]]. simpl in *.
  destruct (todo_of asg p) as [[]|]; simpl in Hs; try discriminate.
  apply andb_true_iff in H. destruct H as [H _]. apply memb_In in H. exact H.
Qed.

Ltac sf_bk c0 Hc := apply In_replace_at in Hc; destruct Hc as [->|Hc].
Ltac the_bk :=
  match goal with Hn : nth_error (bks ?s) _ = Some ?b |- _ => assert (Hin := nth_error_In _ _ Hn) end.

Lemma SAFE_step kd s evt s' :
  PL s -> SAFE kd s -> timely kd s' = true -> step kd s evt = Some s' -> SAFE kd s'.
Proof.
  intros HPL [K J IX VU PN RC PD] HT H.
  destruct evt; step_cases H; subst s'; unfold set_bk, set_prn in *; try the_bk.
  - (* Tick *) constructor; simpl; auto.
  - (* BStart *)
    constructor; simpl; auto.
    + intros q p Hq Hd. destruct (K q p Hq Hd) as [K1 K2]. split; auto.
      intros c0 Hc Hr e0 He. apply in_app_iff in Hc. destruct Hc as [Hc|[<-|[]]]; [eauto|destruct He].
    + intros c0 Hc Hr e0 He. apply in_app_iff in Hc. destruct Hc as [Hc|[<-|[]]]; [eapply J; eauto|destruct He].
  - (* BList *)
    constructor; simpl; auto.
    + intros q p Hq Hd. destruct (K q p Hq Hd) as [K1 K2]. split; auto.
      intros c0 Hc Hr e0 He. sf_bk c0 Hc; [destruct He|eauto].
    + intros c0 Hc Hr e0 He. sf_bk c0 Hc; [destruct He|eapply J; eauto].
  - (* BRead some *)
    match goal with L : lookup _ _ = Some _ |- _ => apply lookup_In in L; rename L into Lk end.
    assert (Hheld : forall e0, In e0 (bview b ++ unm i0 ++ bwritten b) -> In e0 (held b) \/ In e0 (unm i0)).
    { intros e0 He. unfold held. rewrite !in_app_iff in *. tauto. }
    constructor; simpl; auto.
    + intros q p Hq Hd. destruct (K q p Hq Hd) as [K1 K2]. split; auto.
      intros c0 Hc Hr e0 He. sf_bk c0 Hc; [|eauto].
      unfold held in He; simpl in He. rewrite <- app_assoc in He. apply Hheld in He. destruct He as [He|He].
      * eapply K1; eauto. unfold running. match goal with P : bph b = _ |- _ => rewrite P end. reflexivity.
      * eapply (K2 _ Lk); eauto.
    + intros c0 Hc Hr e0 He. sf_bk c0 Hc; [|eapply J; eauto].
      unfold held in He; simpl in He. rewrite <- app_assoc in He. apply Hheld in He. destruct He as [He|He].
      * eapply J; eauto. unfold running. match goal with P : bph b = _ |- _ => rewrite P end. reflexivity.
      * eapply (IX _ Lk); eauto.
  - (* BRead none *)
    constructor; simpl; auto.
    + intros q p Hq Hd. destruct (K q p Hq Hd) as [K1 K2]. split; auto.
      intros c0 Hc Hr e0 He. sf_bk c0 Hc; [|eauto].
      unfold held in He; simpl in He. rewrite app_nil_r in He.
      eapply K1; eauto. unfold running. match goal with P : bph b = _ |- _ => rewrite P end. reflexivity.
    + intros c0 Hc Hr e0 He. sf_bk c0 Hc; [|eapply J; eauto].
      unfold held in He; simpl in He. rewrite app_nil_r in He.
      eapply J; eauto. unfold running. match goal with P : bph b = _ |- _ => rewrite P end. reflexivity.
  - (* BPack *)
    assert (Hrb : running b = true) by (unfold running; match goal with P : bph b = _ |- _ => rewrite P end; reflexivity).
    assert (Mono : forall p, Present s p -> In p (map fst (packs s ++ [(nextp s, bl)]))).
    { intros p Hp. rewrite map_app. apply in_app_iff. auto. }
    destruct HPL as (P1 & P2 & P3 & P4).
    constructor; simpl.
    + intros q p Hq Hd. destruct (K q p Hq Hd) as [K1 K2]. split; auto.
      intros c0 Hc Hr e0 He. sf_bk c0 Hc; [|eauto].
      unfold held in He; simpl in He. rewrite app_assoc in He. apply in_app_iff in He. destruct He as [He|[<-|[]]].
      * eapply K1; eauto.
      * simpl. apply Del_view_pid in Hd. destruct (P4 q Hq) as (V & _ & _). apply (view_pids_lt _ _ V) in Hd. lia.
    + intros c0 Hc Hr e0 He. unfold Present; simpl. sf_bk c0 Hc; [|apply Mono; eapply J; eauto].
      unfold held in He; simpl in He. rewrite app_assoc in He. apply in_app_iff in He. destruct He as [He|[<-|[]]].
      * apply Mono. eapply J; eauto.
      * rewrite map_app. apply in_app_iff. right. simpl. auto.
    + intros f Hf e0 He. apply Mono. eapply IX; eauto.
    + intros q Hq x Hx. apply Mono. eapply VU; eauto.
    + intros q Hq e0 He. destruct (PN q Hq e0 He). split; auto. apply Mono. auto.
    + intros q Hq Hp x Hx Hs. apply Mono. eapply RC; eauto.
    + auto.
  - (* BIndex empty *)
    constructor; simpl; auto.
    + intros q p Hq Hd. destruct (K q p Hq Hd) as [K1 K2]. split; auto.
      intros c0 Hc Hr e0 He. sf_bk c0 Hc; [|eauto].
      eapply K1; eauto. { unfold running. match goal with P : bph b = _ |- _ => rewrite P end. reflexivity. }
      unfold held in *; simpl in He. match goal with W : bwritten _ = [] |- _ => rewrite W end. exact He.
    + intros c0 Hc Hr e0 He. sf_bk c0 Hc; [|eapply J; eauto].
      eapply J; eauto. { unfold running. match goal with P : bph b = _ |- _ => rewrite P end. reflexivity. }
      unfold held in *; simpl in He. match goal with W : bwritten _ = [] |- _ => rewrite W end. exact He.
  - (* BIndex write *)
    assert (Hrb : running b = true) by (unfold running; match goal with P : bph b = _ |- _ => rewrite P end; reflexivity).
    assert (Hw : forall e1, In e1 (e :: l) -> In e1 (held b)).
    { intros e1 He1. unfold held. apply in_app_iff. right. match goal with W : bwritten _ = _ |- _ => rewrite W end. exact He1. }
    assert (Hh : forall e1, In e1 (bview b ++ e :: l) -> In e1 (held b)).
    { intros e1 He1. unfold held. match goal with W : bwritten _ = _ |- _ => rewrite W end. exact He1. }
    constructor; simpl; auto.
    + intros q p Hq Hd. destruct (K q p Hq Hd) as [K1 K2]. split.
      * intros c0 Hc Hr e0 He. sf_bk c0 Hc; [|eauto]. eapply K1; eauto.
      * intros f Hf e0 He. apply in_app_iff in Hf. destruct Hf as [Hf|[<-|[]]]; [eauto|].
        simpl in He. eapply K1; eauto.
    + intros c0 Hc Hr e0 He. sf_bk c0 Hc; [|eapply J; eauto]. eapply J; eauto.
    + intros f Hf e0 He. apply in_app_iff in Hf. destruct Hf as [Hf|[<-|[]]]; [eapply IX; eauto|].
      simpl in He. eapply J; eauto.
  - (* BSnap *)
    constructor; simpl; auto.
    + intros q p Hq Hd. destruct (K q p Hq Hd) as [K1 K2]. split; auto.
      intros c0 Hc Hr e0 He. sf_bk c0 Hc; [discriminate Hr|eauto].
    + intros c0 Hc Hr e0 He. sf_bk c0 Hc; [discriminate Hr|eapply J; eauto].
  - (* BAbort *)
    constructor; simpl; auto.
    + intros q p Hq Hd. destruct (K q p Hq Hd) as [K1 K2]. split; auto.
      intros c0 Hc Hr e0 He. sf_bk c0 Hc; [discriminate Hr|eauto].
    + intros c0 Hc Hr e0 He. sf_bk c0 Hc; [discriminate Hr|eapply J; eauto].
  - (* PStart *)
    apply timely_split in HT. destruct HT as [TA _].
    constructor; simpl; auto.
    + intros q p Hq Hd. inv Hq. unfold Del in Hd. simpl in Hd. destruct Hd as (x & Hx & Hp & Hexp). simpl in *.
      apply dmk_In in Hx. destruct Hx as [Hx Hnu]. destruct x as [i m]. apply In_all_mk in Hx. destruct Hx as (f & Hf & Hm).
      split.
      * intros c0 Hc Hr e0 He E.
        pose proof (timely_a_spec _ _ TA c0 Hc Hr e0 He (i, f) m Hf Hm) as X. simpl in X.
        simpl in Hp, Hexp. assert (E2 : fst (fst m) = fst e0) by congruence. apply X in E2. lia.
      * intros f0 Hf0 e0 He E. apply Hnu. apply In_unm_pids. destruct f0 as [i0 f0]. exists i0, e0. split; [|congruence].
        apply In_all_unm. exists f0. auto.
    + intros q Hq x Hx. inv Hq. simpl in Hx. destruct x as [i e0]. apply In_all_unm in Hx. destruct Hx as (f & Hf & He).
      eapply (IX _ Hf); eauto.
    + intros q Hq. inv Hq. simpl. intros e0 [].
    + intros q Hq. inv Hq. simpl. discriminate.
    + intros q Hq. inv Hq. simpl. discriminate.
  - (* PScan *)
    constructor; simpl; auto.
    + intros q p0 Hq Hd. inv Hq. eapply K; eauto.
      unfold Del in *. simpl in *. match goal with P : pph p = _ |- _ => rewrite P end. exact Hd.
    + intros q Hq. inv Hq. simpl. eapply VU; eauto.
    + intros q Hq. inv Hq. simpl. intros e0 [].
    + intros q Hq. inv Hq. simpl. discriminate.
    + intros q Hq. inv Hq. simpl. discriminate.
  - (* PPlan *)
    apply timely_split in HT. destruct HT as [_ TB].
    constructor; simpl; auto.
    + intros q p0 Hq Hd. inv Hq. eapply K; eauto.
      unfold Del in *. simpl in *. match goal with P : pph p = _ |- _ => rewrite P end.
      apply delete_list_In in Hd. simpl in Hd. destruct Hd as (x & Hx & Hp & Hdel).
      exists x. split; [exact Hx|split; [exact Hp|]].
      eapply (timely_b_spec kd _ _ TB eq_refl) ; simpl; eauto. rewrite Hp. exact Hdel.
    + intros q Hq. inv Hq. simpl. eapply VU; eauto.
    + intros q Hq. inv Hq. simpl. intros e0 [].
    + intros q Hq _ x Hx Hs. inv Hq. simpl in *.
      eapply plan_ok_recover in Hs; eauto.
    + intros q Hq. inv Hq. simpl. discriminate.
  - (* PPack *)
    assert (Mono : forall p0, Present s p0 -> In p0 (map fst (packs s ++ [(nextp s, bl)]))).
    { intros p0 Hp. rewrite map_app. apply in_app_iff. auto. }
    destruct HPL as (P1 & P2 & P3 & P4).
    constructor; simpl.
    + intros q p0 Hq Hd. inv Hq. eapply K; eauto.
      unfold Del in *. simpl in *. match goal with P : pph p = _ |- _ => rewrite P end. exact Hd.
    + intros c0 Hc Hr e0 He. apply Mono. eapply J; eauto.
    + intros f Hf e0 He. apply Mono. eapply IX; eauto.
    + intros q Hq x Hx. inv Hq. simpl in *. apply Mono. eapply VU; eauto.
    + intros q Hq e0 He. inv Hq. simpl in *. apply in_app_iff in He. destruct He as [He|[<-|[]]].
      * destruct (PN _ eq_refl e0 He). split; auto. apply Mono. auto.
      * split; simpl.
        -- unfold Present; simpl. rewrite map_app. apply in_app_iff. right. simpl. auto.
        -- intro Hin. match goal with Hq : prn s = Some _ |- _ => destruct (P4 _ Hq) as (V & _ & _) end. apply (view_pids_lt _ _ V) in Hin. lia.
    + intros q Hq Hp x Hx Hs. inv Hq. simpl in *. apply Mono. eapply RC; eauto.
    + intros q Hq Hp. inv Hq. simpl in Hp. discriminate.
  - (* PWriteIndex *)
    constructor; simpl; auto.
    + intros q p0 Hq Hd. inv Hq. unfold Del in Hd. simpl in Hd.
      assert (Hd0 : Del kd p p0). { unfold Del. match goal with P : pph p = _ |- _ => rewrite P end. exact Hd. }
      destruct (K _ _ eq_refl Hd0) as [K1 K2]. split; auto.
      intros f Hf e0 He. apply in_app_iff in Hf. destruct Hf as [Hf|[<-|[]]]; [eauto|].
      simpl in He. apply in_app_iff in He. destruct He as [He|He]; [|apply in_app_iff in He; destruct He as [He|He]].
      * apply in_flat_map in He. destruct He as (x & Hx & He). destr_if; [|destruct He]. destruct He as [<-|[]].
        intro E. apply (Del_not_unm _ _ _ Hd0). apply In_unm_pids. destruct x as [i1 e1]. exists i1, e1. split; [apply dunm_In; exact Hx|exact E].
      * apply in_flat_map in He. destruct He as (x & Hx & He). destr_if; [|destruct He]. destruct He as [<-|[]].
        intro E. apply delete_list_In in Hd. destruct Hd as (_ & _ & _ & Hdel). simpl in Hdel.
        match goal with X : _ && _ = true |- _ => apply andb_true_iff in X; destruct X as [_ X] end.
        rewrite E in *. destruct (todo_of (pasg p) p0) as [[]|]; simpl in *; congruence.
      * intro E. destruct (PN _ eq_refl e0 He) as [_ Hn]. apply Hn. rewrite E. eapply Del_view_pid; eauto.
    + intros f Hf e0 He. apply in_app_iff in Hf. destruct Hf as [Hf|[<-|[]]]; [eapply IX; eauto|].
      simpl in He. apply in_app_iff in He. destruct He as [He|He]; [|apply in_app_iff in He; destruct He as [He|He]].
      * apply in_flat_map in He. destruct He as (x & Hx & He). destr_if; [|destruct He]. destruct He as [<-|[]].
        eapply VU; eauto. apply dunm_In. exact Hx.
      * apply in_flat_map in He. destruct He as (x & Hx & He). destr_if; [|destruct He]. destruct He as [<-|[]].
        match goal with X : _ && _ = true |- _ => apply andb_true_iff in X; destruct X as [_ X] end.
        eapply RC; eauto.
      * eapply PN; eauto.
    + intros q Hq. inv Hq. simpl. eapply VU; eauto.
    + intros q Hq. inv Hq. simpl. eapply PN; eauto.
    + intros q Hq Hp. inv Hq. simpl in Hp. discriminate.
    + intros q Hq _ p0 Hp. inv Hq. simpl in *. exact Hp.
  - (* PRmIndex *)
    constructor; simpl; auto.
    + intros q p0 Hq Hd. inv Hq.
      assert (Hd0 : Del kd p p0). { unfold Del in *. simpl in *. match goal with P : pph p = _ |- _ => rewrite P end. exact Hd. }
      destruct (K _ _ eq_refl Hd0) as [K1 K2]. split; auto.
      intros f Hf. apply In_remove_key in Hf. destruct Hf. eauto.
    + intros f Hf. apply In_remove_key in Hf. destruct Hf. eauto.
    + intros q Hq. inv Hq. simpl. eapply VU; eauto.
    + intros q Hq. inv Hq. simpl. eapply PN; eauto.
    + intros q Hq Hp. inv Hq. simpl in Hp. discriminate.
    + intros q Hq _ p0 Hp. inv Hq. simpl in Hp.
      match goal with P : pph p = PIndexed |- _ => exact (PD p eq_refl P p0 Hp) end.
  - (* PRmPack *)
    match goal with M : memb _ (pdel _) = true |- _ => apply memb_In in M; rename M into Hpd end.
    match goal with P : pph p0 = PIndexed |- _ => rename P into Hph end.
    assert (Hdl : In p (delete_list p0)) by (exact (PD p0 eq_refl Hph p Hpd)).
    assert (Hd0 : Del kd p0 p). { unfold Del. rewrite Hph. exact Hdl. }
    destruct (K _ _ eq_refl Hd0) as [K1 K2].
    constructor; simpl; auto.
    + intros q p1 Hq Hd. inv Hq.
      assert (Hd1 : Del kd p0 p1). { unfold Del in *. simpl in *. rewrite Hph. exact Hd. }
      eapply K; eauto.
    + intros c0 Hc Hr e0 He. apply Present_remove; [eapply J; eauto|eapply K1; eauto].
    + intros f Hf e0 He. apply Present_remove; [eapply IX; eauto|eapply K2; eauto].
    + intros q Hq x Hx. inv Hq. simpl in *. apply Present_remove; [eapply VU; eauto|].
      intro E. apply (Del_not_unm _ _ _ Hd0). apply In_unm_pids. destruct x as [i1 e1]. exists i1, e1. auto.
    + intros q Hq e0 He. inv Hq. simpl in *. destruct (PN _ eq_refl e0 He) as [A B]. split; auto.
      apply Present_remove; auto. intro E. apply B. rewrite E. eapply Del_view_pid; eauto.
    + intros q Hq Hp. inv Hq. simpl in Hp. discriminate.
    + intros q Hq _ p1 Hp. inv Hq. simpl in Hp. apply In_remove_nat in Hp. destruct Hp as [Hp _].
      exact (PD p0 eq_refl Hph p1 Hp).
  - (* PDone *) constructor; simpl; auto; intros; discriminate.
  - constructor; simpl; auto; intros; discriminate.
  - (* PAbort *) constructor; simpl; auto; intros; discriminate.
  - (* Forget *) constructor; simpl; auto.
Qed.
