(* C10 — overlapping backups (no prune event): every snapshot ever written is closed. *)
From Verif.Base Require Import Tactics.
From Verif.C10 Require Import Model ProofsBase.
Local Open Scope nat_scope.

Definition idx_exact (s : st) : Prop := forall f e, In f (idxs s) -> In e (unm (snd f)) -> In e (packs s).
Definition InIdx (s : st) (e : entry) : Prop := exists f, In f (idxs s) /\ In e (unm (snd f)).

Definition BK (s : st) (c : bst) : Prop :=
  running c = true ->
  (forall e, In e (bview c) -> InIdx s e) /\
  (forall e, In e (bwritten c) -> In e (packs s)) /\
  (bph c = BIndexed -> (forall e, In e (bwritten c) -> InIdx s e) /\
                       (forall b, In b (bwant c) -> In b (blobs_of (held c)))).

Definition BB (s : st) : Prop :=
  idx_exact s /\
  (forall sn b, In sn (snaps s) -> In b (snd sn) -> ListedP s b) /\
  (forall c, In c (bks s) -> BK s c).

Lemma InIdx_mono s s' e : incl (idxs s) (idxs s') -> InIdx s e -> InIdx s' e.
Proof. intros Hi (f & H1 & H2). exists f. auto. Qed.

Lemma BK_mono s s' c : incl (idxs s) (idxs s') -> incl (packs s) (packs s') -> BK s c -> BK s' c.
Proof.
  intros Hi Hp H Hr. destruct (H Hr) as (A & B & C). repeat split.
  - intros e He. eapply InIdx_mono; eauto.
  - intros e He. auto.
  - intros e He. destruct (C H0) as [C1 _]. eapply InIdx_mono; eauto.
  - destruct (C H0) as [_ C2]. auto.
Qed.

Lemma InIdx_listed s e b : idx_exact s -> InIdx s e -> In b (snd e) -> ListedP s b.
Proof.
  intros Hx (f & Hf & He) Hb. exists f, e, e. repeat split; auto. eapply Hx; eauto.
Qed.

Ltac bb_frame :=
  match goal with
  | |- incl ?l ?l => apply incl_refl
  | |- incl ?l (?l ++ _) => apply incl_appl, incl_refl
  end.

Ltac get_bk Hb A B C :=
  match goal with
  | Hn : nth_error (bks ?s) ?c = Some ?b, Hp : bph ?b = _ |- _ =>
      let Hin := fresh "Hin" in let Hk := fresh "Hk" in
      assert (Hin := nth_error_In _ _ Hn); pose proof (Hb b Hin) as Hk;
      unfold BK, running in Hk; rewrite Hp in Hk; destruct (Hk eq_refl) as (A & B & C); clear Hk
  end.

(* the backup at position c is replaced, all others are framed *)
Ltac bk_cases Hb c0 Hc :=
  intros c0 Hc; apply In_replace_at in Hc; destruct Hc as [->|Hc];
  [|eapply BK_mono; [| |apply Hb; exact Hc]; simpl; bb_frame].

Ltac bb_split := split; [|split].
Ltac want_tac :=
  intros;
  match goal with
  | F : forallb _ (bwant _) = true, Hb1 : In _ (bwant _) |- _ =>
      rewrite forallb_forall in F; apply memb_In; apply F in Hb1; unfold held in *; simpl in *;
      try match goal with W : bwritten _ = _ |- _ => rewrite W in Hb1 end; exact Hb1
  end.

Lemma BB_step kd s e s' : BB s -> is_backup_ev e = true -> step kd s e = Some s' -> BB s'.
Proof.
  intros (Hx & Hs & Hb) Hev H.
  destruct e; try discriminate Hev; step_cases H; subst s'; unfold set_bk.
  - (* Tick *) bb_split; simpl; auto.
  - (* BStart *)
    bb_split; simpl; auto.
    intros c1 Hc. apply in_app_iff in Hc. destruct Hc as [Hc|[Hc|[]]].
    + eapply BK_mono; [| |apply Hb; exact Hc]; simpl; bb_frame.
    + subst c1. intro. simpl. repeat split; simpl; try tauto; discriminate.
  - (* BList *)
    bb_split; simpl; auto. bk_cases Hb c0 Hc.
    intro. simpl. repeat split; simpl; try tauto; discriminate.
  - (* BRead, file present *)
    get_bk Hb A B C.
    bb_split; simpl; auto. bk_cases Hb c0 Hc.
    intro Hr. simpl. repeat split; simpl; try discriminate; auto.
    intros e He. apply in_app_iff in He. destruct He as [He|He]; [apply A; exact He|].
    match goal with L : lookup _ _ = Some _ |- _ => apply lookup_In in L; eexists; split; [exact L|exact He] end.
  - (* BRead, file gone *)
    get_bk Hb A B C.
    bb_split; simpl; auto. bk_cases Hb c0 Hc.
    intro Hr. simpl. repeat split; simpl; try discriminate; auto.
    intros e He. apply in_app_iff in He. destruct He as [He|[]]. apply A; exact He.
  - (* BPack *)
    get_bk Hb A B C.
    bb_split; simpl.
    + intros f e Hf He. apply in_app_iff. left. eapply Hx; eauto.
    + intros sn b0 Hsn Hb0. eapply ListedP_mono; [| |eapply Hs; eauto]; simpl; bb_frame.
    + bk_cases Hb c0 Hc.
      intro Hr. simpl. repeat split; simpl; try discriminate.
      * intros e He. destruct (A e He) as (f & H1 & H2). exists f. auto.
      * intros e He. apply in_app_iff in He. apply in_app_iff. destruct He as [He|[<-|[]]]; auto. right; left; reflexivity.
  - (* BIndex, nothing written *)
    get_bk Hb A B C.
    bb_split; simpl; auto. bk_cases Hb c0 Hc.
    intro Hr. simpl. split; [|split]; simpl; auto; try (intros; contradiction).
    intros _. split; [intros; contradiction|want_tac].
  - (* BIndex, own index file written *)
    get_bk Hb A B C.
    bb_split; simpl.
    + intros f e0 Hf He. apply in_app_iff in Hf. destruct Hf as [Hf|[<-|[]]]; [eapply Hx; eauto|].
      simpl in He. apply B. match goal with W : bwritten _ = _ |- _ => rewrite W end. exact He.
    + intros sn b0 Hsn Hb0. eapply ListedP_mono; [| |eapply Hs; eauto]; simpl; bb_frame.
    + bk_cases Hb c0 Hc.
      intro Hr. simpl. split; [|split]; simpl.
      * intros e0 He. destruct (A e0 He) as (f & H1 & H2). exists f. split; [apply in_app_iff; auto|auto].
      * intros e0 He. apply B. match goal with W : bwritten _ = _ |- _ => rewrite W end. exact He.
      * intros _. split; [|want_tac].
        intros e0 He. eexists. split; [apply in_app_iff; right; left; reflexivity|]. simpl. exact He.
  - (* BSnap *)
    get_bk Hb A B C. destruct (C eq_refl) as [C1 C2].
    bb_split; simpl; auto.
    + intros sn b0 Hsn Hb0.
      assert (L : ListedP s b0).
      { apply in_app_iff in Hsn. destruct Hsn as [Hsn|[<-|[]]]; [eapply Hs; eauto|].
        simpl in Hb0. apply C2 in Hb0. apply In_blobs_of in Hb0. destruct Hb0 as (e0 & He & Hb0).
        unfold held in He. apply in_app_iff in He. destruct He as [He|He]; eapply InIdx_listed; eauto. }
      eapply ListedP_mono; [| |exact L]; simpl; bb_frame.
    + bk_cases Hb c0 Hc. intro Hr; discriminate Hr.
  - (* BAbort *)
    bb_split; simpl; auto. bk_cases Hb c0 Hc. intro Hr; discriminate Hr.
Qed.

Lemma backup_backup_safe_lemma : forall kd s0 es s,
  (forall f e, In f (idxs s0) -> In e (unm (snd f)) -> In e (packs s0)) ->
  (forall b, In b (bks s0) -> running b = false) ->
  all_closed s0 = true ->
  forallb is_backup_ev es = true -> run kd s0 es = Some s -> all_closed s = true.
Proof.
  intros kd s0 es s Hx Hnr Hc Hev Hr.
  assert (HB : BB s0).
  { split; [exact Hx|split].
    - apply all_closed_iff. exact Hc.
    - intros c1 Hin Hr'. rewrite (Hnr c1 Hin) in Hr'. discriminate. }
  pose proof (run_invariant kd BB is_backup_ev (BB_step kd) es s0 s HB Hev Hr) as (_ & H & _).
  apply all_closed_iff. exact H.
Qed.

Lemma backup_backup_safe_init_lemma : forall kd es s,
  forallb is_backup_ev es = true -> run kd init es = Some s -> all_closed s = true.
Proof.
  intros. eapply backup_backup_safe_lemma; eauto; simpl; intros; tauto.
Qed.
