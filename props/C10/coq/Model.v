(* C10 — `Concurrent`: backups and non-instant prunes on one repository as a labelled
   transition system whose steps are the BACKEND OPERATIONS of each command
   (commands/prune.rs: PrunePlan::from_prune_options / PrunePlan::new / decide_packs /
   prune_repository; index.rs: GlobalIndex::new_from_collector uses `.packs` only;
   archiver.rs: packs -> index -> snapshot; repofile/indexfile.rs: packs / packs_to_delete).

   Abstract repository: present packs (id, blob ids), present index files (unmarked
   entries, marked entries with their mark time), present snapshots (needed blob set).
   Clock: monotone, advanced by `Tick`.

   backup  = BStart (want) ; BList (list index files) ; BRead i (read one listed file: the
             dedup VIEW is the union of the `.packs` sections of the files it managed to
             read — a file removed meanwhile is simply not seen: any mixture of old and new
             index files) ; BPack (write a pack, fresh id) ; BIndex (write own index file;
             enabled when every wanted blob is in the view or in an own pack) ; BSnap.
   prune   = PStart (list + read the index files.  Only one prune is active at a time, so
             the listed files are immutable and stay present until this prune removes them
             itself: reading them one by one equals reading them at once) ;
             PScan (read all snapshots: used blobs; all must be found in the view) ;
             PPlan asg rw (list packs; PLAN TIME T := clock — `PrunePlan::new` takes
             `Zoned::now()` after the scan —; the decision per pack is supplied by the
             event and validated by `plan_ok`, which states what decide_packs /
             check_existing_packs guarantee: the admissible to-dos per mark state,
             Delete only with `mark_time + keep_delete <= T`, every used blob owned by a
             pack that is kept / recovered / repacked and exists) ;
             PPack (repack output, fresh id) ; PWriteIndex (new index file: kept and
             recovered packs + new packs unmarked; repacked and unused packs marked with
             time T = `prune_plan.time`; still-young marked packs with their old time;
             existing packs no index file lists marked with time T and no blobs) ;
             PRmIndex i ; PRmPack p ; PDone.   BAbort / PAbort: the command stops.
   Any interleaving of any number of backups with (non-overlapping) prunes is a path. *)
From Verif.Base Require Import Tactics.
From Verif.C10 Require Import Extracted.
Local Open Scope nat_scope.

Definition pid := nat.
Definition blob := nat.
Definition iid := nat.
Definition sid := nat.
Definition time := nat.
Definition entry := (pid * list blob)%type.

Record ifile := { unm : list entry; mk : list (entry * time) }.

Definition memb (x : nat) (l : list nat) : bool := existsb (Nat.eqb x) l.
Definition blobs_of (es : list entry) : list blob := flat_map snd es.

Inductive bphase := BNew | BListed | BIndexed | BDone.
Record bst := { bph : bphase; bt0 : time; bt1 : time; btodo : list iid;
                bview : list entry; bwritten : list entry; bwant : list blob }.

Inductive todo := Keep | Repack | MarkDelete | KeepMarked | Recover | Delete.
Inductive pphase := PLoaded | PScanned | PPlanned | PIndexed.

Record pst := {
  pph : pphase;
  plstart : time;                     (* clock when the prune listed the index files *)
  psidmark : sid;                     (* ghost: next snapshot id at that moment *)
  pview : list (iid * ifile);
  pused : list blob;
  pscanmark : sid;                    (* ghost: next snapshot id at the scan *)
  ptime : time;                       (* prune_plan.time *)
  pasg : list (pid * todo);
  prw : list iid;                     (* index files that are rebuilt (PrunePlan.index_files after filter_index_files) *)
  punref : list pid;                  (* existing packs no listed index file mentions *)
  pnew : list entry;                  (* repack output *)
  pirm : list iid;                    (* old index files still to remove *)
  pdel : list pid                     (* packs still to remove *)
}.

Record st := {
  clock : time;
  packs : list entry;
  idxs : list (iid * ifile);
  snaps : list (sid * list blob);
  bks : list bst;
  prn : option pst;
  nextp : pid; nexti : iid; nexts : sid
}.

Definition init : st :=
  {| clock := 0; packs := []; idxs := []; snaps := []; bks := []; prn := None;
     nextp := 0; nexti := 0; nexts := 0 |}.

Inductive ev :=
| Tick
| BStart (want : list blob)
| BList (c : nat)
| BRead (c : nat) (i : iid)
| BPack (c : nat) (bl : list blob)
| BIndex (c : nat)
| BSnap (c : nat)
| BAbort (c : nat)
| PStart
| PScan
| PPlan (asg : list (pid * todo)) (rw : list iid)
| PPack (bl : list blob)
| PWriteIndex
| PRmIndex (i : iid)
| PRmPack (p : pid)
| PDone
| PAbort
| Forget (n : sid).          (* a snapshot file is removed (forget) *)

(* ---- small list helpers *)
Fixpoint replace_at {A} (n : nat) (y : A) (l : list A) : list A :=
  match n, l with
  | _, [] => []
  | O, _ :: l' => y :: l'
  | S n', x :: l' => x :: replace_at n' y l'
  end.

Definition remove_nat (x : nat) (l : list nat) : list nat := filter (fun y => negb (Nat.eqb x y)) l.
Definition remove_key {A} (x : nat) (l : list (nat * A)) : list (nat * A) :=
  filter (fun y => negb (Nat.eqb x (fst y))) l.
Definition lookup {A} (x : nat) (l : list (nat * A)) : option A :=
  match find (fun y => Nat.eqb x (fst y)) l with Some y => Some (snd y) | None => None end.

Definition running (b : bst) : bool := match bph b with BDone => false | _ => true end.
Definition held (b : bst) : list entry := bview b ++ bwritten b.

(* ---- the prune's de-duplicated view (PrunePlan::new) *)
Definition all_unm (v : list (iid * ifile)) : list (iid * entry) :=
  flat_map (fun f => map (fun e => (fst f, e)) (unm (snd f))) v.
Definition all_mk (v : list (iid * ifile)) : list (iid * (entry * time)) :=
  flat_map (fun f => map (fun e => (fst f, e)) (mk (snd f))) v.

(* keep the first occurrence of every key *)
Fixpoint first_occ {A} (key : A -> nat) (seen : list nat) (l : list A) : list A :=
  match l with
  | [] => []
  | x :: r => if memb (key x) seen then first_occ key seen r
              else x :: first_occ key (key x :: seen) r
  end.

Definition dunm (v : list (iid * ifile)) : list (iid * entry) :=
  first_occ (fun x => fst (snd x)) [] (all_unm v).
Definition unm_pids (v : list (iid * ifile)) : list pid := map (fun x => fst (snd x)) (all_unm v).
Definition dmk (v : list (iid * ifile)) : list (iid * (entry * time)) :=
  first_occ (fun x => fst (fst (snd x))) []
    (filter (fun x => negb (memb (fst (fst (snd x))) (unm_pids v))) (all_mk v)).
Definition view_pids (v : list (iid * ifile)) : list pid :=
  unm_pids v ++ map (fun x => fst (fst (snd x))) (all_mk v).

Definition todo_of (asg : list (pid * todo)) (p : pid) : option todo := lookup p asg.

Definition owns (t : option todo) : bool :=
  match t with Some Keep | Some Recover | Some Repack => true | _ => false end.
Definition stays_listed (t : option todo) : bool :=
  match t with Some Keep | Some Recover => true | _ => false end.
Definition is_delete (t : option todo) : bool := match t with Some Delete => true | _ => false end.

(* ---- source facts (Extracted.v, regenerated from prune.rs on every run) enter here *)
(* the time an index entry gets: `into_index_pack_with_time(prune_time)` stamps, `into_index_pack(prune_time)`
   keeps the old time (`old`; an unmarked pack has no mark time: 0 = expired long ago) *)
Definition mark_time (src : tsrc) (stamp old : time) : time :=
  match src with Stamp => stamp | KeepOld => old end.
(* decide_packs (true, 0, _): `plan_time - keep_delete >= mark_time` (or `>`), in natural numbers *)
Definition expired (kd T tm : time) : bool :=
  if expiry_nonstrict then tm + kd <=? T else tm + kd <? T.
(* PrunePlan::new takes the plan time after the index load, the snapshot scan and the pack listing *)
Definition plan_time (start now : time) : time := if plan_time_after_scan then now else start.
(* model's reading of the executor table; `source_exec_table_matches_model` (Props.v) pins it to the source *)
Definition model_section (t : todo) : option isec :=
  match t with
  | Keep | Recover => Some Unmarked
  | Repack | MarkDelete | KeepMarked => Some Marked
  | Delete => None
  end.
Definition source_section (t : todo) : option isec :=
  match t with
  | Keep => Some sec_Keep | Recover => Some sec_Recover | Repack => Some sec_Repack
  | MarkDelete => Some sec_MarkDelete | KeepMarked => Some sec_KeepMarked | Delete => None
  end.

(* what decide_packs + check_existing_packs + filter_index_files guarantee about a plan *)
Definition plan_ok (kd T : time) (v : list (iid * ifile)) (used : list blob) (existing : list pid)
           (asg : list (pid * todo)) (rw : list iid) : bool :=
  forallb (fun x => let i := fst x in let p := fst (snd x) in
             match todo_of asg p with
             | Some Keep => memb p existing
             | Some Repack => memb p existing && memb i rw
             | Some MarkDelete => memb i rw
             | _ => false
             end) (dunm v)
  && forallb (fun x => let i := fst x in let p := fst (fst (snd x)) in let tm := snd (snd x) in
             match todo_of asg p with
             | Some KeepMarked => true
             | Some Recover => memb p existing && memb i rw
             | Some Delete => expired kd T tm && memb i rw
             | _ => false
             end) (dmk v)
  && forallb (fun b =>
        existsb (fun x => memb b (snd (snd x)) && owns (todo_of asg (fst (snd x)))) (dunm v)
        || existsb (fun x => memb b (snd (fst (snd x))) && owns (todo_of asg (fst (fst (snd x))))) (dmk v)) used
  && forallb (fun i => memb i (map fst v)) rw.

(* blobs that only a repacked pack owns must be in the repack output before the new index is written *)
Definition kept_blobs (q : pst) : list blob :=
  flat_map (fun x => if stays_listed (todo_of (pasg q) (fst (snd x))) then snd (snd x) else []) (dunm (pview q))
  ++ flat_map (fun x => if stays_listed (todo_of (pasg q) (fst (fst (snd x)))) then snd (fst (snd x)) else []) (dmk (pview q)).

Definition new_index (q : pst) : ifile :=
  let T := ptime q in
  {| unm :=
       flat_map (fun x => if memb (fst x) (prw q) && stays_listed (todo_of (pasg q) (fst (snd x))) then [snd x] else []) (dunm (pview q))
       ++ flat_map (fun x => if memb (fst x) (prw q) && stays_listed (todo_of (pasg q) (fst (fst (snd x)))) then [fst (snd x)] else []) (dmk (pview q))
       ++ pnew q;
     mk :=
       flat_map (fun x => if memb (fst x) (prw q) then
                            match todo_of (pasg q) (fst (snd x)) with
                            | Some Repack => [(snd x, mark_time ts_Repack T 0)]
                            | Some MarkDelete => [(snd x, mark_time ts_MarkDelete T 0)]
                            | _ => [] end else []) (dunm (pview q))
       ++ flat_map (fun x => if memb (fst x) (prw q) then
                            match todo_of (pasg q) (fst (fst (snd x))) with
                            | Some KeepMarked => [(fst (snd x), mark_time ts_KeepMarked T (snd (snd x)))]
                            | _ => [] end else []) (dmk (pview q))
       ++ map (fun p => ((p, []), mark_time ts_Unreferenced T 0)) (punref q) |}.

(* the stamp of the delete marks: the plan time, or (marks_stamped_at_write) the clock when the index file
   holding them is written — `add_delete_marks` runs right before `indexer.finalize()` *)
Definition restamp (now : time) (q : pst) : pst :=
  {| pph := pph q; plstart := plstart q; psidmark := psidmark q; pview := pview q; pused := pused q;
     pscanmark := pscanmark q; ptime := if marks_stamped_at_write then now else ptime q; pasg := pasg q;
     prw := prw q; punref := punref q; pnew := pnew q; pirm := pirm q; pdel := pdel q |}.

Definition delete_list (q : pst) : list pid :=
  flat_map (fun x => if is_delete (todo_of (pasg q) (fst (fst (snd x)))) then [fst (fst (snd x))] else []) (dmk (pview q)).

Definition set_bk (s : st) (c : nat) (b : bst) : st :=
  {| clock := clock s; packs := packs s; idxs := idxs s; snaps := snaps s;
     bks := replace_at c b (bks s); prn := prn s; nextp := nextp s; nexti := nexti s; nexts := nexts s |}.
Definition set_prn (s : st) (q : option pst) : st :=
  {| clock := clock s; packs := packs s; idxs := idxs s; snaps := snaps s;
     bks := bks s; prn := q; nextp := nextp s; nexti := nexti s; nexts := nexts s |}.

Definition with_phase (q : pst) (ph : pphase) : pst :=
  {| pph := ph; plstart := plstart q; psidmark := psidmark q; pview := pview q; pused := pused q;
     pscanmark := pscanmark q; ptime := ptime q; pasg := pasg q; prw := prw q; punref := punref q;
     pnew := pnew q; pirm := pirm q; pdel := pdel q |}.

(* None = the event is not enabled in this state.  `kd` = the prune's keep_delete. *)
Definition step (kd : time) (s : st) (e : ev) : option st :=
  match e with
  | Tick => Some {| clock := S (clock s); packs := packs s; idxs := idxs s; snaps := snaps s;
                    bks := bks s; prn := prn s; nextp := nextp s; nexti := nexti s; nexts := nexts s |}
  | BStart want =>
      Some {| clock := clock s; packs := packs s; idxs := idxs s; snaps := snaps s;
              bks := bks s ++ [{| bph := BNew; bt0 := clock s; bt1 := 0; btodo := []; bview := [];
                                  bwritten := []; bwant := want |}];
              prn := prn s; nextp := nextp s; nexti := nexti s; nexts := nexts s |}
  | BList c =>
      match nth_error (bks s) c with
      | Some b => match bph b with
                  | BNew => Some (set_bk s c {| bph := BListed; bt0 := bt0 b; bt1 := 0; btodo := map fst (idxs s);
                                                bview := []; bwritten := []; bwant := bwant b |})
                  | _ => None end
      | None => None
      end
  | BRead c i =>
      match nth_error (bks s) c with
      | Some b => match bph b with
                  | BListed =>
                      if memb i (btodo b) then
                        let got := match lookup i (idxs s) with Some f => unm f | None => [] end in
                        Some (set_bk s c {| bph := BListed; bt0 := bt0 b; bt1 := 0; btodo := remove_nat i (btodo b);
                                            bview := bview b ++ got; bwritten := bwritten b; bwant := bwant b |})
                      else None
                  | _ => None end
      | None => None
      end
  | BPack c bl =>
      match nth_error (bks s) c with
      | Some b => match bph b with
                  | BListed =>
                      let s' := set_bk s c {| bph := BListed; bt0 := bt0 b; bt1 := 0; btodo := btodo b; bview := bview b;
                                              bwritten := bwritten b ++ [(nextp s, bl)]; bwant := bwant b |} in
                      Some {| clock := clock s'; packs := packs s' ++ [(nextp s, bl)]; idxs := idxs s'; snaps := snaps s';
                              bks := bks s'; prn := prn s'; nextp := S (nextp s); nexti := nexti s'; nexts := nexts s' |}
                  | _ => None end
      | None => None
      end
  | BIndex c =>
      match nth_error (bks s) c with
      | Some b => match bph b with
                  | BListed =>
                      if forallb (fun x => memb x (blobs_of (held b))) (bwant b) then
                        let s' := set_bk s c {| bph := BIndexed; bt0 := bt0 b; bt1 := 0; btodo := btodo b; bview := bview b;
                                                bwritten := bwritten b; bwant := bwant b |} in
                        match bwritten b with
                        | [] => Some s'
                        | _ => Some {| clock := clock s'; packs := packs s';
                                       idxs := idxs s' ++ [(nexti s, {| unm := bwritten b; mk := [] |})];
                                       snaps := snaps s'; bks := bks s'; prn := prn s';
                                       nextp := nextp s'; nexti := S (nexti s); nexts := nexts s' |}
                        end
                      else None
                  | _ => None end
      | None => None
      end
  | BSnap c =>
      match nth_error (bks s) c with
      | Some b => match bph b with
                  | BIndexed =>
                      let s' := set_bk s c {| bph := BDone; bt0 := bt0 b; bt1 := clock s; btodo := btodo b; bview := bview b;
                                              bwritten := bwritten b; bwant := bwant b |} in
                      Some {| clock := clock s'; packs := packs s'; idxs := idxs s';
                              snaps := snaps s' ++ [(nexts s, bwant b)]; bks := bks s'; prn := prn s';
                              nextp := nextp s'; nexti := nexti s'; nexts := S (nexts s) |}
                  | _ => None end
      | None => None
      end
  | BAbort c =>
      match nth_error (bks s) c with
      | Some b => if running b then
                    Some (set_bk s c {| bph := BDone; bt0 := bt0 b; bt1 := clock s; btodo := btodo b; bview := bview b;
                                        bwritten := bwritten b; bwant := bwant b |})
                  else None
      | None => None
      end
  | PStart =>
      match prn s with
      | None => Some (set_prn s (Some {| pph := PLoaded; plstart := clock s; psidmark := nexts s; pview := idxs s;
                                         pused := []; pscanmark := 0; ptime := 0; pasg := []; prw := []; punref := [];
                                         pnew := []; pirm := []; pdel := [] |}))
      | Some _ => None
      end
  | PScan =>
      match prn s with
      | Some q => match pph q with
                  | PLoaded =>
                      let used := flat_map snd (snaps s) in
                      let known := blobs_of (map snd (all_unm (pview q))) ++ blobs_of (map (fun x => fst (snd x)) (all_mk (pview q))) in
                      if forallb (fun b => memb b known) used then
                        Some (set_prn s (Some {| pph := PScanned; plstart := plstart q; psidmark := psidmark q; pview := pview q;
                                                 pused := used; pscanmark := nexts s; ptime := 0; pasg := []; prw := [];
                                                 punref := []; pnew := []; pirm := []; pdel := [] |}))
                      else None
                  | _ => None end
      | None => None
      end
  | PPlan asg rw =>
      match prn s with
      | Some q => match pph q with
                  | PScanned =>
                      let existing := map fst (packs s) in
                      if plan_ok kd (plan_time (plstart q) (clock s)) (pview q) (pused q) existing asg rw then
                        Some (set_prn s (Some {| pph := PPlanned; plstart := plstart q; psidmark := psidmark q; pview := pview q;
                                                 pused := pused q; pscanmark := pscanmark q; ptime := plan_time (plstart q) (clock s); pasg := asg; prw := rw;
                                                 punref := filter (fun p => negb (memb p (view_pids (pview q)))) existing;
                                                 pnew := []; pirm := []; pdel := [] |}))
                      else None
                  | _ => None end
      | None => None
      end
  | PPack bl =>
      match prn s with
      | Some q => match pph q with
                  | PPlanned =>
                      let q' := {| pph := PPlanned; plstart := plstart q; psidmark := psidmark q; pview := pview q;
                                   pused := pused q; pscanmark := pscanmark q; ptime := ptime q; pasg := pasg q; prw := prw q;
                                   punref := punref q; pnew := pnew q ++ [(nextp s, bl)]; pirm := []; pdel := [] |} in
                      Some {| clock := clock s; packs := packs s ++ [(nextp s, bl)]; idxs := idxs s; snaps := snaps s;
                              bks := bks s; prn := Some q'; nextp := S (nextp s); nexti := nexti s; nexts := nexts s |}
                  | _ => None end
      | None => None
      end
  | PWriteIndex =>
      match prn s with
      | Some q => match pph q, prw q with
                  | PPlanned, _ :: _ =>
                      if forallb (fun b => memb b (kept_blobs q) || memb b (blobs_of (pnew q))) (pused q) then
                        let q' := {| pph := PIndexed; plstart := plstart q; psidmark := psidmark q; pview := pview q;
                                     pused := pused q; pscanmark := pscanmark q; ptime := ptime q; pasg := pasg q; prw := prw q;
                                     punref := punref q; pnew := pnew q; pirm := prw q; pdel := delete_list q |} in
                        Some {| clock := clock s; packs := packs s; idxs := idxs s ++ [(nexti s, new_index (restamp (clock s) q))]; snaps := snaps s;
                                bks := bks s; prn := Some q'; nextp := nextp s; nexti := S (nexti s); nexts := nexts s |}
                      else None
                  | _, _ => None end
      | None => None
      end
  | PRmIndex i =>
      match prn s with
      | Some q => match pph q with
                  | PIndexed =>
                      if memb i (pirm q) then
                        let q' := {| pph := PIndexed; plstart := plstart q; psidmark := psidmark q; pview := pview q;
                                     pused := pused q; pscanmark := pscanmark q; ptime := ptime q; pasg := pasg q; prw := prw q;
                                     punref := punref q; pnew := pnew q; pirm := remove_nat i (pirm q); pdel := pdel q |} in
                        Some {| clock := clock s; packs := packs s; idxs := remove_key i (idxs s); snaps := snaps s;
                                bks := bks s; prn := Some q'; nextp := nextp s; nexti := nexti s; nexts := nexts s |}
                      else None
                  | _ => None end
      | None => None
      end
  | PRmPack p =>
      match prn s with
      | Some q => match pph q, pirm q with
                  | PIndexed, [] =>
                      if memb p (pdel q) then
                        let q' := {| pph := PIndexed; plstart := plstart q; psidmark := psidmark q; pview := pview q;
                                     pused := pused q; pscanmark := pscanmark q; ptime := ptime q; pasg := pasg q; prw := prw q;
                                     punref := punref q; pnew := pnew q; pirm := []; pdel := remove_nat p (pdel q) |} in
                        Some {| clock := clock s; packs := remove_key p (packs s); idxs := idxs s; snaps := snaps s;
                                bks := bks s; prn := Some q'; nextp := nextp s; nexti := nexti s; nexts := nexts s |}
                      else None
                  | _, _ => None end
      | None => None
      end
  | PDone =>
      match prn s with
      | Some q => match pph q, prw q, pirm q, pdel q with
                  | PPlanned, [], _, _ => Some (set_prn s None)       (* "nothing to do" *)
                  | PIndexed, _, [], [] => Some (set_prn s None)
                  | _, _, _, _ => None end
      | None => None
      end
  | PAbort =>
      match prn s with
      | Some _ => Some (set_prn s None)
      | None => None
      end
  | Forget n =>
      Some {| clock := clock s; packs := packs s; idxs := idxs s; snaps := remove_key n (snaps s);
              bks := bks s; prn := prn s; nextp := nextp s; nexti := nexti s; nexts := nexts s |}
  end.

Fixpoint run (kd : time) (s : st) (es : list ev) : option st :=
  match es with
  | [] => Some s
  | e :: es' => match step kd s e with Some s' => run kd s' es' | None => None end
  end.

(* ---- observables (all executable) *)

(* the blob is stored in a present pack *)
Definition stored (s : st) (b : blob) : bool := existsb (fun e => memb b (snd e)) (packs s).
(* the blob is listed UNMARKED by a present index file in a present pack that holds it *)
Definition listed (s : st) (b : blob) : bool :=
  existsb (fun f => existsb (fun e => memb b (snd e) &&
                                      existsb (fun pk => Nat.eqb (fst pk) (fst e) && memb b (snd pk)) (packs s))
                            (unm (snd f))) (idxs s).
Definition snap_stored (s : st) (sn : sid * list blob) : bool := forallb (stored s) (snd sn).
Definition snap_closed (s : st) (sn : sid * list blob) : bool := forallb (listed s) (snd sn).
Definition all_stored (s : st) : bool := forallb (snap_stored s) (snaps s).
Definition all_closed (s : st) : bool := forallb (snap_closed s) (snaps s).
(* every pack a running backup relies on (saw unmarked, or wrote) still exists *)
Definition held_present (s : st) : bool :=
  forallb (fun b => negb (running b) ||
                    forallb (fun e => existsb (fun pk => Nat.eqb (fst pk) (fst e)) (packs s)) (held b)) (bks s).

Definition is_backup_ev (e : ev) : bool :=
  match e with
  | Tick | BStart _ | BList _ | BRead _ _ | BPack _ _ | BIndex _ | BSnap _ | BAbort _ => true
  | _ => false
  end.
Definition is_solo_prune_ev (e : ev) : bool :=
  match e with
  | Tick | PScan | PPlan _ _ | PPack _ | PWriteIndex | PRmIndex _ | PRmPack _ => true
  | _ => false
  end.

(* ---- the hypothesis the safety proof needs, as an executable state predicate:
   (a) while a backup runs, no pack it relies on carries a mark whose keep-delete time has expired;
   (b) a prune deletes only packs whose keep-delete time had expired when the prune STARTED
       (the code compares with the plan time, which is later). *)
Definition marks_of (s : st) : list (entry * time) := flat_map (fun f => mk (snd f)) (idxs s).
Definition timely_a (kd : time) (s : st) : bool :=
  forallb (fun b => negb (running b) ||
     forallb (fun e => forallb (fun m => negb (Nat.eqb (fst (fst m)) (fst e)) || (clock s <? snd m + kd))
                               (marks_of s)) (held b)) (bks s).
Definition timely_b (kd : time) (s : st) : bool :=
  match prn s with
  | Some q => match pph q with
              | PPlanned | PIndexed =>
                  forallb (fun x => negb (is_delete (todo_of (pasg q) (fst (fst (snd x)))))
                                    || (snd (snd x) + kd <=? plstart q)) (dmk (pview q))
              | _ => true end
  | None => true
  end.
Definition timely (kd : time) (s : st) : bool := timely_a kd s && timely_b kd s.

(* run that also demands `timely` of every state reached *)
Fixpoint run_timely (kd : time) (s : st) (es : list ev) : option st :=
  if timely kd s then
    match es with
    | [] => Some s
    | e :: es' => match step kd s e with Some s' => run_timely kd s' es' | None => None end
    end
  else None.

(* the premise in the form the repaired code supports: a running backup started before the marks on the packs
   it relies on were stamped (= published, when marks are stamped at the index write) and is younger than
   keep_delete *)
Definition premise (kd : time) (s : st) : bool :=
  forallb (fun b => negb (running b) ||
     forallb (fun e => forallb (fun m => negb (Nat.eqb (fst (fst m)) (fst e)) ||
                                         ((bt0 b <=? snd m) && (clock s <? bt0 b + kd)))
                               (marks_of s)) (held b)) (bks s).
Fixpoint run_prem (kd : time) (s : st) (es : list ev) : option st :=
  if premise kd s then
    match es with
    | [] => Some s
    | e :: es' => match step kd s e with Some s' => run_prem kd s' es' | None => None end
    end
  else None.

(* the literal premise of the property: every finished backup was shorter than keep_delete *)
Definition short_backups (kd : time) (s : st) : bool :=
  forallb (fun b => match bph b with BDone => bt1 b - bt0 b <? kd | _ => false end) (bks s).

(* ---- the witness against the literal premise (marks carry the PLAN time) *)
Definition slow_prune_kd : time := 10.
Definition slow_prune_run : list ev :=
  [ BStart [1]; BList 0; BPack 0 [1]; BIndex 0; BAbort 0;        (* pack 0 holds blob 1, indexed, no snapshot needs it *)
    PStart; PScan; PPlan [(0, MarkDelete)] [0];                   (* prune plans at T = 0: pack 0 is unused *)
    Tick; Tick; Tick; Tick; Tick;                                (* ... and is slow (repacking elsewhere) *)
    BStart [1]; BList 1; BRead 1 0;                               (* t = 5: a backup loads the index: pack 0 unmarked *)
    Tick; PWriteIndex; PRmIndex 0; PDone;                         (* t = 6: marks dated T = 0 become visible *)
    Tick; Tick; Tick; Tick;
    PStart; PScan; PPlan [(0, Delete)] [1];                       (* t = 10: 0 + 10 <= 10: delete *)
    PWriteIndex; PRmIndex 1; Tick; PRmPack 0; PDone;              (* t = 11: pack 0 removed *)
    Tick; BIndex 1; BSnap 1 ].                                    (* t = 12: the backup (7 < 10 long) references blob 1 *)
