(* C10 — the next prune, run alone to completion, closes every present snapshot: every needed blob is then
   listed UNMARKED by a present index file in a present pack that holds it. *)
From Verif.Base Require Import Tactics.
From Verif.C10 Require Import Extracted Model ProofsBase ProofsView ProofsFresh ProofsSafe ProofsTruth ProofsMain ProofsSnap.
Local Open Scope nat_scope.

(* ---- freshness of index file ids *)
Definition IL (s : st) : Prop :=
  (forall f, In f (idxs s) -> fst f < nexti s) /\
  (forall q, prn s = Some q -> forall f, In f (pview q) -> fst f < nexti s).

Lemma IL_init : IL init.
Proof. split; simpl; intros; [tauto|discriminate]. Qed.

Lemma IL_step kd s evt s' : IL s -> step kd s evt = Some s' -> IL s'.
Proof.
  intros [A B] H.
  destruct evt; step_cases H; subst s'; unfold set_bk, set_prn in *; unfold IL; simpl in *;
    try (split; [solve [auto]|solve [auto | intros q0 Hq0; inv Hq0; simpl; eauto | intros; discriminate]]).
  - (* BIndex write *) split.
    + intros f Hf. apply in_app_iff in Hf. destruct Hf as [Hf|[<-|[]]]; [apply A in Hf; lia|simpl; lia].
    + intros q0 Hq0 f Hf. eapply B in Hf; eauto.
  - (* PWriteIndex *) split.
    + intros f Hf. apply in_app_iff in Hf. destruct Hf as [Hf|[<-|[]]]; [apply A in Hf; lia|simpl; lia].
    + intros q0 Hq0 f Hf. inv Hq0. simpl in Hf. eapply B in Hf; eauto.
  - (* PRmIndex *) split.
    + intros f Hf. apply In_remove_key in Hf. apply A. tauto.
    + intros q0 Hq0 f Hf. inv Hq0. simpl in Hf. eauto.
Qed.

Lemma forallb_const_true {A} (l : list A) : forallb (fun _ => true) l = true.
Proof. induction l; simpl; auto. Qed.

Lemma reachable_wf kd es s : run kd init es = Some s -> PL s /\ TR s /\ IL s.
Proof.
  intro H. apply (run_invariant kd (fun s => PL s /\ TR s /\ IL s) (fun _ => true)) with (es := es) (s := init); auto.
  - intros s0 e s1 (A & B & C) _ Hs. split; [eapply PL_step; eauto|split; [eapply TR_step; eauto|eapply IL_step; eauto]].
  - split; [apply PL_init|split; [apply TR_init|apply IL_init]].
  - apply forallb_const_true.
Qed.

(* ---- the invariant of a prune that runs alone *)
Definition Good (s : st) (q : pst) (b : blob) : Prop :=
  exists f e pk, In f (idxs s) /\ ~ In (fst f) (prw q) /\ In e (unm (snd f)) /\ In b (snd e) /\
                 In pk (packs s) /\ fst pk = fst e /\ In b (snd pk) /\ ~ In (fst pk) (delete_list q).

Record SOLO (kd : time) (SN : list (sid * list blob)) (s : st) : Prop := {
  oPL : PL s; oTR : TR s; oIL : IL s;
  oSN : snaps s = SN;
  oQ : exists q, prn s = Some q /\
    (pph q <> PLoaded -> forall sn b, In sn SN -> In b (snd sn) -> In b (pused q)) /\
    (pph q <> PIndexed -> idxs s = pview q) /\
    (pph q = PPlanned ->
       (exists ex, plan_ok kd (ptime q) (pview q) (pused q) ex (pasg q) (prw q) = true /\ (forall p, In p ex -> Present s p)) /\
       (forall e, In e (pnew q) -> In e (packs s) /\ ~ In (fst e) (view_pids (pview q)))) /\
    (pph q = PIndexed ->
       (forall b, In b (pused q) -> Good s q b) /\ incl (pirm q) (prw q) /\ incl (pdel q) (delete_list q))
}.

Lemma Good_listed s q b : Good s q b -> ListedP s b.
Proof. intros (f & e & pk & A & _ & B & C & D & E & F & _). exists f, e, pk. repeat split; assumption. Qed.

Lemma plan_ok_rw_view kd T v used ex asg rw i : plan_ok kd T v used ex asg rw = true -> In i rw -> In i (map fst v).
Proof.
  unfold plan_ok. intros H Hi. apply andb_true_iff in H. destruct H as [_ H]. rewrite forallb_forall in H.
  apply H in Hi. apply memb_In in Hi. exact Hi.
Qed.

(* an unmarked view entry that stays listed is a Keep entry of an existing pack *)
Lemma plan_ok_unm_stays kd T v used ex asg rw x :
  plan_ok kd T v used ex asg rw = true -> In x (dunm v) -> stays_listed (todo_of asg (fst (snd x))) = true ->
  In (fst (snd x)) ex.
Proof.
  intros H Hx Hs. eapply plan_ok_unm_owner; eauto.
  destruct (todo_of asg (fst (snd x))) as [[]|]; simpl in *; auto; discriminate.
Qed.

Lemma plan_ok_mk_stays kd T v used ex asg rw x :
  plan_ok kd T v used ex asg rw = true -> In x (dmk v) -> stays_listed (todo_of asg (fst (fst (snd x)))) = true ->
  todo_of asg (fst (fst (snd x))) = Some Recover /\ In (fst x) rw /\ In (fst (fst (snd x))) ex.
Proof.
  intros H Hx Hs. eapply plan_marked_needed_lemma; eauto.
  destruct (todo_of asg (fst (fst (snd x)))) as [[]|]; simpl in *; auto; discriminate.
Qed.

Lemma not_deleted_unm q x : In x (dunm (pview q)) -> ~ In (fst (snd x)) (delete_list q).
Proof.
  intros Hx D. apply delete_list_In in D. destruct D as (y & Hy & Ey & _). apply dmk_In in Hy. destruct Hy as [_ Hy].
  apply Hy. rewrite Ey. apply In_unm_pids. destruct x as [i e]. exists i, e. split; [apply dunm_In; exact Hx|reflexivity].
Qed.

Lemma not_deleted_recover q p : todo_of (pasg q) p = Some Recover -> ~ In p (delete_list q).
Proof. intros R D. apply delete_list_In in D. destruct D as (_ & _ & _ & Hd). rewrite R in Hd. discriminate Hd. Qed.

Lemma view_pid_of_delete q p : In p (delete_list q) -> In p (view_pids (pview q)).
Proof.
  intro D. apply delete_list_In in D. destruct D as ([i m] & Hy & <- & _). apply dmk_In in Hy. destruct Hy as [Hy _].
  unfold view_pids. apply in_app_iff. right. apply in_map_iff. exists (i, m). auto.
Qed.

(* the step that writes the new index makes every used blob Good *)
Lemma write_index_good kd s q ex b :
  PL s -> TR s -> IL s -> prn s = Some q -> idxs s = pview q ->
  plan_ok kd (ptime q) (pview q) (pused q) ex (pasg q) (prw q) = true -> (forall p, In p ex -> Present s p) ->
  (forall e, In e (pnew q) -> In e (packs s) /\ ~ In (fst e) (view_pids (pview q))) ->
  (In b (kept_blobs q) \/ In b (blobs_of (pnew q))) ->
  forall s' q', packs s' = packs s -> idxs s' = idxs s ++ [(nexti s, new_index (restamp (clock s) q))] ->
    prw q' = prw q -> delete_list q' = delete_list q -> Good s' q' b.
Proof.
  intros HPL (_ & _ & A3) (_ & IL2) Hq Hve Hpo Hex Hnew Hb s' q' Ep Ei Er Ed.
  destruct (A3 q Hq) as [Vw Nw].
  assert (Hn : ~ In (nexti s) (prw q)).
  { intro X. eapply plan_ok_rw_view in X; eauto. apply in_map_iff in X. destruct X as (f & E & Hf). apply (IL2 q Hq) in Hf. lia. }
  unfold Good. rewrite Ep, Ei, Er, Ed.
  destruct Hb as [Hb|Hb].
  - unfold kept_blobs in Hb. apply in_app_iff in Hb. destruct Hb as [Hb|Hb]; apply in_flat_map in Hb; destruct Hb as (x & Hx & Hb).
    + destruct (stays_listed (todo_of (pasg q) (fst (snd x)))) eqn:St; [|destruct Hb].
      pose proof (plan_ok_unm_stays _ _ _ _ _ _ _ x Hpo Hx St) as Hin. apply Hex in Hin. unfold Present in Hin.
      apply in_map_iff in Hin. destruct Hin as (pk & E & Hpk).
      destruct x as [i e]. pose proof (dunm_In _ _ Hx) as Hu. apply In_all_unm in Hu. destruct Hu as (f0 & Hf0 & He).
      destruct (Vw _ Hf0) as [U _]. simpl in U. destruct (U e He) as [_ Wb]. simpl in *.
      assert (Hbp : In b (snd pk)) by (apply (Wb pk Hpk E); exact Hb).
      pose proof (not_deleted_unm q (i, e) Hx) as Hnd. simpl in Hnd.
      destruct (memb i (prw q)) eqn:Mi.
      * exists (nexti s, new_index (restamp (clock s) q)), e, pk. repeat split; auto.
        -- apply in_app_iff. right. left. reflexivity.
        -- simpl. apply in_app_iff. left. apply in_flat_map. exists (i, e). split; [exact Hx|]. simpl. rewrite Mi, St. left. reflexivity.
        -- rewrite E. exact Hnd.
      * exists (i, f0), e, pk. repeat split; auto.
        -- apply in_app_iff. left. rewrite Hve. exact Hf0.
        -- simpl. apply memb_false. exact Mi.
        -- rewrite E. exact Hnd.
    + destruct (stays_listed (todo_of (pasg q) (fst (fst (snd x))))) eqn:St; [|destruct Hb].
      destruct (plan_ok_mk_stays _ _ _ _ _ _ _ x Hpo Hx St) as (Hrec & Hrw & Hin). apply Hex in Hin. unfold Present in Hin.
      apply in_map_iff in Hin. destruct Hin as (pk & E & Hpk).
      pose proof (recover_relists_lemma (restamp (clock s) q) x Hx Hrec Hrw) as Hun.
      destruct x as [i m]. pose proof (dmk_In _ _ Hx) as [Hu _]. apply In_all_mk in Hu. destruct Hu as (f0 & Hf0 & He).
      destruct (Vw _ Hf0) as [_ U]. simpl in U. destruct (U m He) as [_ Wb]. simpl in *.
      exists (nexti s, new_index (restamp (clock s) q)), (fst m), pk. repeat split; auto.
      * apply in_app_iff. right. left. reflexivity.
      * apply (Wb pk Hpk E). exact Hb.
      * rewrite E. apply not_deleted_recover. exact Hrec.
  - apply In_blobs_of in Hb. destruct Hb as (e & He & Hb). destruct (Hnew e He) as [Hpk Hnv].
    exists (nexti s, new_index (restamp (clock s) q)), e, e. repeat split; auto.
    + apply in_app_iff. right. left. reflexivity.
    + simpl. apply in_app_iff. right. apply in_app_iff. right. exact He.
    + intro D. apply Hnv. apply view_pid_of_delete. exact D.
Qed.

Lemma SOLO_step kd SN s evt s' : SOLO kd SN s -> is_solo_prune_ev evt = true -> step kd s evt = Some s' -> SOLO kd SN s'.
Proof.
  intros [HPL HTR HIL HSN (q & Hq & U & VE & PK & CL)] Hev H.
  assert (HPL' : PL s') by (eapply (PL_step kd s evt s'); eauto).
  assert (HTR' : TR s') by (eapply (TR_step kd s evt s'); eauto).
  assert (HIL' : IL s') by (eapply (IL_step kd s evt s'); eauto).
  destruct evt; try discriminate Hev; step_cases H; subst s'; unfold set_prn in *;
    try (match goal with Hp : Some ?p0 = Some q |- _ => assert (p0 = q) by congruence; subst p0; clear Hp end);
    assert (Hq1 : prn s = Some q) by assumption.
  - (* Tick *) constructor; auto. exists q. simpl. split; [assumption|]. split; [exact U|split; [exact VE|split; [exact PK|exact CL]]].
  - (* PScan *)
    constructor; auto. eexists. split; [reflexivity|]. simpl. split; [|split; [|split]]; try (intros X; discriminate X).
    + intros _ sn b Hsn Hb. apply in_flat_map. exists sn. rewrite HSN. auto.
    + intros _. apply VE. match goal with P : pph q = _ |- _ => rewrite P end; discriminate.
  - (* PPlan *)
    assert (Hns : pph q <> PLoaded) by (match goal with P : pph q = _ |- _ => rewrite P end; discriminate).
    assert (Hni : pph q <> PIndexed) by (match goal with P : pph q = _ |- _ => rewrite P end; discriminate).
    constructor; auto. eexists. split; [reflexivity|]. simpl. split; [|split; [|split]]; try (intros X; discriminate X).
    + intros _. exact (U Hns).
    + intros _. exact (VE Hni).
    + intros _. split.
      * eexists. split; [eassumption|]. intros p0 Hp0. exact Hp0.
      * intros e0 [].
  - (* PPack *)
    match goal with P : pph q = PPlanned |- _ => rename P into Hph end.
    destruct (PK Hph) as ((ex & Hpo & Hex) & Hnew).
    constructor; auto. eexists. split; [reflexivity|]. simpl. split; [|split; [|split]]; try (intros X; discriminate X).
    + intros _. apply U. rewrite Hph; discriminate.
    + intros _. apply VE. rewrite Hph; discriminate.
    + intros _. split.
      * exists ex. split; [exact Hpo|]. intros p0 Hp0. apply Hex in Hp0. unfold Present in *. simpl. rewrite map_app. apply in_app_iff. auto.
      * intros e0 He. apply in_app_iff in He. destruct He as [He|[<-|[]]].
        -- apply Hnew in He. split; [apply in_app_iff; tauto|tauto].
        -- split; [apply in_app_iff; right; left; reflexivity|].
           simpl. intro X. destruct HPL as (_ & _ & _ & P4). destruct (P4 q Hq1) as (V & _ & _). apply (view_pids_lt _ _ V) in X. lia.
  - (* PWriteIndex *)
    match goal with P : pph q = PPlanned |- _ => rename P into Hph end.
    destruct (PK Hph) as ((ex & Hpo & Hex) & Hnew).
    assert (Hve : idxs s = pview q) by (apply VE; rewrite Hph; discriminate).
    constructor; auto. eexists. split; [reflexivity|]. simpl. split; [|split; [|split]]; try (intros X; discriminate X).
    + intros _. apply U. rewrite Hph; discriminate.
    + intros X. exfalso. apply X. reflexivity.
    + intros _. split; [|split; apply incl_refl].
      intros b Hb.
      match goal with F : forallb _ (pused q) = true |- _ => rewrite forallb_forall in F; pose proof (F b Hb) as Hk end.
      apply orb_true_iff in Hk. rewrite !memb_In in Hk.
      eapply (write_index_good kd s q ex b); eauto.
  - (* PRmIndex *)
    match goal with P : pph q = PIndexed |- _ => rename P into Hph end.
    destruct (CL Hph) as (G & I1 & I2).
    match goal with Mb : memb _ (pirm q) = true |- _ => apply memb_In in Mb; rename Mb into Hi end.
    constructor; auto. eexists. split; [reflexivity|]. simpl. split; [|split; [|split]]; try (intros X; discriminate X).
    + intros _. apply U. rewrite Hph; discriminate.
    + intros X. exfalso. apply X. reflexivity.
    + intros _. split; [|split].
      * intros b Hb. destruct (G b Hb) as (f & e & pk & A1 & A2 & A3 & A4 & A5 & A6 & A7 & A8).
        exists f, e, pk. repeat split; auto. apply In_remove_key. split; [exact A1|]. intro E. apply A2. subst i. apply I1. exact Hi.
      * intros x Hx. apply In_remove_nat in Hx. apply I1. tauto.
      * exact I2.
  - (* PRmPack *)
    match goal with P : pph q = PIndexed |- _ => rename P into Hph end.
    destruct (CL Hph) as (G & I1 & I2).
    match goal with Mb : memb _ (pdel q) = true |- _ => apply memb_In in Mb; rename Mb into Hi end.
    constructor; auto. eexists. split; [reflexivity|]. simpl. split; [|split; [|split]]; try (intros X; discriminate X).
    + intros _. apply U. rewrite Hph; discriminate.
    + intros X. exfalso. apply X. reflexivity.
    + intros _. split; [|split].
      * intros b Hb. destruct (G b Hb) as (f & e & pk & A1 & A2 & A3 & A4 & A5 & A6 & A7 & A8).
        exists f, e, pk. repeat split; auto. apply In_remove_key. split; [exact A5|]. intro E. apply A8. subst p. apply I2. exact Hi.
      * intros x [].
      * intros x Hx. apply In_remove_nat in Hx. apply I2. tauto.
Qed.

Lemma run_cons kd s e es : run kd s (e :: es) = match step kd s e with Some s1 => run kd s1 es | None => None end.
Proof. reflexivity. Qed.

Lemma next_prune_recovers_lemma : forall kd es0 s es s',
  run kd init es0 = Some s -> prn s = None ->
  forallb is_solo_prune_ev es = true ->
  run kd s (PStart :: es ++ [PDone]) = Some s' -> all_closed s' = true.
Proof.
  intros kd es0 s es s' Hreach Hnone Hev Hrun.
  destruct (reachable_wf _ _ _ Hreach) as (HPL & HTR & HIL).
  rewrite run_cons in Hrun. destruct (step kd s PStart) as [s1|] eqn:E1; [|discriminate Hrun].
  rewrite run_app in Hrun. destruct (run kd s1 es) as [s2|] eqn:E2; [|discriminate Hrun].
  rewrite run_cons in Hrun. destruct (step kd s2 PDone) as [s3|] eqn:E3; [|discriminate Hrun].
  change (run kd s3 []) with (Some s3) in Hrun. inv Hrun.
  assert (S1 : SOLO kd (snaps s) s1).
  { assert (A : PL s1) by (eapply (PL_step kd s PStart s1); eauto). assert (B : TR s1) by (eapply (TR_step kd s PStart s1); eauto).
    assert (C : IL s1) by (eapply (IL_step kd s PStart s1); eauto).
    unfold step in E1. rewrite Hnone in E1. inv E1. unfold set_prn in *. constructor; auto.
    eexists. split; [reflexivity|]. simpl. split; [|split; [|split]]; try (intros X; discriminate X); auto;
      try (intros X; exfalso; apply X; reflexivity). }
  pose proof (run_invariant kd (SOLO kd (snaps s)) is_solo_prune_ev (SOLO_step kd (snaps s)) es s1 s2 S1 Hev E2) as S2.
  destruct S2 as [HPL2 HTR2 HIL2 HSN2 (q & Hq & U & VE & PK & CL)].
  apply all_closed_iff. intros sn b Hsn Hb.
  unfold step in E3. rewrite Hq in E3.
  destruct (pph q) eqn:Hph; try discriminate E3.
  - (* nothing to do: no index file is rebuilt *)
    destruct (prw q) eqn:Hrw; [|discriminate E3]. inv E3. unfold set_prn in *. simpl in *.
    assert (Hns : PPlanned <> PLoaded) by discriminate. assert (Hni : PPlanned <> PIndexed) by discriminate.
    rewrite HSN2 in Hsn. pose proof (U Hns sn b Hsn Hb) as Hu.
    destruct (PK eq_refl) as ((ex & Hpo & Hex) & _). try rewrite Hrw in Hpo.
    destruct HTR2 as (_ & _ & A3). destruct (A3 q Hq) as [Vw _].
    destruct (plan_owns_used_lemma _ _ _ _ _ _ _ b Hpo Hu) as [(x & Hx & Hbx & Ho)|(x & Hx & Hbx & Ho)].
    + pose proof (plan_ok_unm_owner _ _ _ _ _ _ _ x Hpo Hx Ho) as Hin. apply Hex in Hin. unfold Present in Hin.
      apply in_map_iff in Hin. destruct Hin as (pk & E & Hpk).
      destruct x as [i e]. pose proof (dunm_In _ _ Hx) as Hu2. apply In_all_unm in Hu2. destruct Hu2 as (f0 & Hf0 & He).
      destruct (Vw _ Hf0) as [Uu _]. simpl in Uu. destruct (Uu e He) as [_ Wb]. simpl in *.
      exists (i, f0), e, pk. repeat split; auto.
      * rewrite (VE Hni). exact Hf0.
      * apply (Wb pk Hpk E). exact Hbx.
    + destruct (plan_marked_needed_lemma _ _ _ _ _ _ _ x Hpo Hx Ho) as (_ & Hrwx & _). destruct Hrwx.
  - (* complete run *)
    destruct (pirm q) eqn:Hir; [|destruct (prw q); discriminate E3].
    destruct (pdel q) eqn:Hdl; [|destruct (prw q); discriminate E3].
    assert (s' = set_prn s2 None) by (destruct (prw q); inv E3; reflexivity). subst s'. unfold set_prn in *. simpl in *.
    assert (Hns : PIndexed <> PLoaded) by discriminate.
    rewrite HSN2 in Hsn. pose proof (U Hns sn b Hsn Hb) as Hu.
    destruct (CL eq_refl) as (G & _ & _). destruct (Good_listed _ _ _ (G b Hu)) as (f & e & pk & A). exists f, e, pk. exact A.
Qed.
