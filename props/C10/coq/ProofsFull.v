(* C10 — the full safety statement. *)
From Verif.Base Require Import Tactics.
From Verif.C10 Require Import Extracted Model ProofsBase ProofsView ProofsFresh ProofsSafe ProofsTruth ProofsMain ProofsSnap.
Local Open Scope nat_scope.

Definition FULL (kd : time) (s : st) : Prop := PL s /\ SAFE kd s /\ TR s /\ SNAP kd s.

Lemma FULL_init kd : FULL kd init.
Proof. split; [apply PL_init|split; [apply SAFE_init|split; [apply TR_init|apply SNAP_init]]]. Qed.

Lemma FULL_step kd s e s' : FULL kd s -> timely kd s = true -> timely kd s' = true -> step kd s e = Some s' -> FULL kd s'.
Proof.
  intros (A & B & C & D) _ T1 H. split; [eapply PL_step; eauto|split; [eapply SAFE_step; eauto|split; [eapply TR_step; eauto|eapply SNAP_step; eauto]]].
Qed.

Lemma FULL_reachable kd es s : run_timely kd init es = Some s -> FULL kd s.
Proof.
  intro H. apply (run_timely_invariant kd (FULL kd)) with (es := es) (s := init); [apply FULL_step|apply FULL_init|exact H].
Qed.

Lemma no_referenced_pack_deleted_lemma : forall kd es s,
  run_timely kd init es = Some s -> all_stored s = true /\ held_present s = true.
Proof.
  intros kd es s H. destruct (FULL_reachable _ _ _ H) as (_ & B & _ & D). split.
  - apply all_stored_iff. intros sn b Hsn Hb. eapply nS; eauto.
  - eapply held_present_of_SAFE; eauto.
Qed.

(* what holds at the moment a backup writes its snapshot, on a timely path: every wanted blob is in a
   present pack that the active prune (if any) cannot delete *)
Lemma snapshot_blobs_protected_lemma : forall kd es s q sn b,
  run_timely kd init es = Some s -> prn s = Some q -> In sn (snaps s) -> psidmark q <= fst sn -> In b (snd sn) ->
  exists pk, In pk (packs s) /\ In b (snd pk) /\ ~ Del kd q (fst pk).
Proof.
  intros kd es s q sn b H Hq Hsn L Hb. destruct (FULL_reachable _ _ _ H) as (_ & _ & _ & D). eapply nM; eauto.
Qed.
