(* C10 — statements that depend on the facts regenerated from prune.rs (Extracted.v). *)
From Verif.Base Require Import Tactics.
From Verif.C10 Require Import Extracted Model ProofsBase ProofsView ProofsMain.
Local Open Scope nat_scope.

Lemma source_exec_table_lemma : forall t, source_section t = model_section t.
Proof. destruct t; reflexivity. Qed.

Lemma source_time_facts_lemma :
  marks_stamped_at_write = true /\ plan_time_after_scan = false /\ expiry_nonstrict = true /\
  ts_MarkDelete = Stamp /\ ts_Repack = Stamp /\ ts_Unreferenced = Stamp /\ ts_KeepMarked = KeepOld.
Proof. repeat split; reflexivity. Qed.

(* every mark of the index a prune writes is either stamped with the PLAN time or is a mark of the
   prune's view carried over with its old time *)
Lemma fresh_marks_lemma : forall q m, In m (mk (new_index q)) ->
  snd m = ptime q \/ exists x, In x (dmk (pview q)) /\ m = snd x.
Proof.
  intros q m Hm. unfold new_index in Hm. simpl in Hm.
  apply in_app_iff in Hm. destruct Hm as [Hm|Hm]; [|apply in_app_iff in Hm; destruct Hm as [Hm|Hm]].
  - apply in_flat_map in Hm. destruct Hm as (x & Hx & Hm). destr_if; [|destruct Hm].
    destruct (todo_of (pasg q) (fst (snd x))) as [[]|]; simpl in Hm; try tauto; destruct Hm as [<-|[]]; left; reflexivity.
  - apply in_flat_map in Hm. destruct Hm as (x & Hx & Hm). destr_if; [|destruct Hm].
    destruct (todo_of (pasg q) (fst (fst (snd x)))) as [[]|]; simpl in Hm; try tauto; destruct Hm as [<-|[]].
    right. exists x. split; [exact Hx|]. destruct x as [i [e tm]]. reflexivity.
  - apply in_map_iff in Hm. destruct Hm as (p & <- & Hp). left. reflexivity.
Qed.

(* the plan time (against which expiry is tested) is the clock when the prune started, i.e. before the index
   load and the snapshot scan — or, in the unrepaired code, the clock at the pack listing after them *)
Lemma plan_time_source_lemma : forall kd s asg rw s', step kd s (PPlan asg rw) = Some s' ->
  exists q q', prn s = Some q /\ prn s' = Some q' /\
               ptime q' = (if plan_time_after_scan then clock s else plstart q).
Proof.
  intros kd s asg rw s' H. step_cases H. subst s'. unfold set_prn. simpl. eexists. eexists.
  split; [reflexivity|]. split; [reflexivity|]. reflexivity.
Qed.

(* computed instance of the hypotheses of next_prune_recovers *)
Definition recover_prune_mid : list ev := [ PScan; PPlan [(0, Recover)] [1]; PWriteIndex; PRmIndex 1 ].
Lemma next_prune_recovers_instance_lemma :
  exists s s', run recover_kd init recover_run = Some s /\ prn s = None /\ all_closed s = false /\
               forallb is_solo_prune_ev recover_prune_mid = true /\
               run recover_kd s (PStart :: recover_prune_mid ++ [PDone]) = Some s' /\ all_closed s' = true.
Proof.
  eexists. eexists. split; [vm_compute; reflexivity|]. repeat split; vm_compute; reflexivity.
Qed.
