(* C10 — the snapshot half: under `timely`, every blob of every present snapshot stays in a present pack. *)
From Verif.Base Require Import Tactics.
From Verif.C10 Require Import Extracted Model ProofsBase ProofsView ProofsFresh ProofsSafe ProofsTruth ProofsMain.
Local Open Scope nat_scope.

Record SNAP (kd : time) (s : st) : Prop := {
  (* a backup that wrote its index found every wanted blob in its view or in an own pack *)
  nW : forall c, In c (bks s) -> bph c = BIndexed -> forall b, In b (bwant c) -> exists e, In e (held c) /\ In b (snd e);
  nS : forall sn b, In sn (snaps s) -> In b (snd sn) -> StoredP s b;
  (* snapshots written since the active prune started lie in packs that prune cannot delete *)
  nM : forall q, prn s = Some q -> forall sn, In sn (snaps s) -> psidmark q <= fst sn -> forall b, In b (snd sn) ->
       exists pk, In pk (packs s) /\ In b (snd pk) /\ ~ Del kd q (fst pk);
  (* snapshots present at the scan are accounted as used *)
  nN1 : forall q, prn s = Some q -> pph q <> PLoaded -> forall sn, In sn (snaps s) -> fst sn < pscanmark q ->
        forall b, In b (snd sn) -> In b (pused q);
  (* every used blob has a present owner that is not on the delete list *)
  nN2 : forall q, prn s = Some q -> (pph q = PPlanned \/ pph q = PIndexed) -> forall b, In b (pused q) ->
        exists pk, In pk (packs s) /\ In b (snd pk) /\ ~ In (fst pk) (delete_list q);
  nID : (forall sn, In sn (snaps s) -> fst sn < nexts s) /\
        (forall q, prn s = Some q -> psidmark q <= nexts s /\
                   (pph q <> PLoaded -> psidmark q <= pscanmark q /\ pscanmark q <= nexts s))
}.

Lemma SNAP_init kd : SNAP kd init.
Proof. constructor; simpl; try (intros; tauto); try (intros; discriminate). split; intros; [tauto|discriminate]. Qed.

(* a pack a running backup holds is present and really contains the entry's blobs *)
Lemma held_stored kd s c e b : SAFE kd s -> TR s -> In c (bks s) -> running c = true -> In e (held c) -> In b (snd e) ->
  exists pk, In pk (packs s) /\ fst pk = fst e /\ In b (snd pk).
Proof.
  intros HS (A1 & _) Hc Hr He Hb. pose proof (sJ _ _ HS c Hc Hr e He) as P. unfold Present in P.
  apply in_map_iff in P. destruct P as (pk & E & Hpk). exists pk. split; [assumption|split; [assumption|]].
  destruct (A1 c Hc e He) as [_ W]. apply (W pk Hpk E). exact Hb.
Qed.

Lemma SNAP_frame kd s s' : SNAP kd s -> prn s' = prn s -> incl (snaps s') (snaps s) -> incl (packs s) (packs s') ->
  nexts s' = nexts s ->
  (forall c, In c (bks s') -> bph c = BIndexed -> forall b, In b (bwant c) -> exists e, In e (held c) /\ In b (snd e)) ->
  SNAP kd s'.
Proof.
  intros [W S M N1 N2 [I1 I2]] Ep Is Ik En W'. constructor; auto.
  - intros sn b Hsn Hb. destruct (S sn b (Is _ Hsn) Hb) as (pk & H1 & H2). exists pk. auto.
  - intros q Hq sn Hsn L b Hb. rewrite Ep in Hq. destruct (M q Hq sn (Is _ Hsn) L b Hb) as (pk & H1 & H2 & H3). exists pk. auto.
  - intros q Hq Hp sn Hsn L b Hb. rewrite Ep in Hq. eapply N1; eauto.
  - intros q Hq Hp b Hb. rewrite Ep in Hq. destruct (N2 q Hq Hp b Hb) as (pk & H1 & H2 & H3). exists pk. auto.
  - rewrite En. split; [intros sn Hsn; apply I1; auto|]. intros q Hq. rewrite Ep in Hq. auto.
Qed.

Lemma plan_ok_unm_owner kd T v used existing asg rw x :
  plan_ok kd T v used existing asg rw = true -> In x (dunm v) ->
  owns (todo_of asg (fst (snd x))) = true -> In (fst (snd x)) existing.
Proof.
  unfold plan_ok. intros H Hx Hs.
  apply andb_true_iff in H. destruct H as [H _]. apply andb_true_iff in H. destruct H as [H _].
  apply andb_true_iff in H. destruct H as [H _]. rewrite forallb_forall in H. specialize (H x Hx). cbv beta zeta in H.
  destruct x as [i [p bl]]. simpl in *.
  destruct (todo_of asg p) as [[]|]; simpl in Hs; try discriminate.
  - apply memb_In in H. exact H.
  - apply andb_true_iff in H. destruct H as [H _]. apply memb_In in H. exact H.
Qed.

Ltac nw_bk W c0 Hc := apply In_replace_at in Hc; destruct Hc as [->|Hc]; [|eapply W; eauto].

Lemma SNAP_step kd s evt s' :
  PL s -> SAFE kd s -> TR s -> SNAP kd s -> timely kd s' = true -> step kd s evt = Some s' -> SNAP kd s'.
Proof.
  intros HPL HS HTR HN HT H.
  pose proof HN as [W S M N1 N2 [I1 I2]].
  destruct evt; step_cases H; subst s'; unfold set_bk, set_prn in *.
  - (* Tick *) apply (SNAP_frame kd s); simpl; auto using incl_refl.
  - (* BStart *) apply (SNAP_frame kd s); simpl; auto using incl_refl.
    intros c0 Hc Hp. apply in_app_iff in Hc. destruct Hc as [Hc|[<-|[]]]; [eapply W; eauto|discriminate Hp].
  - (* BList *) apply (SNAP_frame kd s); simpl; auto using incl_refl.
    intros c0 Hc Hp. nw_bk W c0 Hc. discriminate Hp.
  - (* BRead some *) apply (SNAP_frame kd s); simpl; auto using incl_refl.
    intros c0 Hc Hp. nw_bk W c0 Hc. discriminate Hp.
  - (* BRead none *) apply (SNAP_frame kd s); simpl; auto using incl_refl.
    intros c0 Hc Hp. nw_bk W c0 Hc. discriminate Hp.
  - (* BPack *) apply (SNAP_frame kd s); simpl; auto using incl_refl, incl_appl.
    intros c0 Hc Hp. nw_bk W c0 Hc. discriminate Hp.
  - (* BIndex empty *) apply (SNAP_frame kd s); simpl; auto using incl_refl.
    intros c0 Hc Hp. nw_bk W c0 Hc. simpl. intros b1 Hb1.
    match goal with F : forallb _ (bwant _) = true |- _ => rewrite forallb_forall in F; apply F in Hb1 end.
    apply memb_In in Hb1. apply In_blobs_of in Hb1. destruct Hb1 as (e0 & He & Hb1). exists e0. split; [|exact Hb1].
    unfold held in *; simpl. match goal with X : bwritten _ = [] |- _ => rewrite X in He end. exact He.
  - (* BIndex write *) apply (SNAP_frame kd s); simpl; auto using incl_refl.
    intros c0 Hc Hp. nw_bk W c0 Hc. simpl. intros b1 Hb1.
    match goal with F : forallb _ (bwant _) = true |- _ => rewrite forallb_forall in F; apply F in Hb1 end.
    apply memb_In in Hb1. apply In_blobs_of in Hb1. destruct Hb1 as (e0 & He & Hb1). exists e0. split; [|exact Hb1].
    unfold held in *; simpl. match goal with X : bwritten _ = _ |- _ => rewrite X in He end. exact He.
  - (* BSnap *)
    match goal with Hn : nth_error (bks s) _ = Some ?b |- _ => assert (Hin := nth_error_In _ _ Hn) end.
    assert (Hrb : running b = true) by (unfold running; match goal with P : bph b = _ |- _ => rewrite P end; reflexivity).
    assert (Own : forall b0, In b0 (bwant b) -> exists e pk, In e (held b) /\ In pk (packs s) /\ fst pk = fst e /\ In b0 (snd pk)).
    { intros b0 Hb0. match goal with P : bph b = BIndexed |- _ => destruct (W b Hin P b0 Hb0) as (e0 & He & Hbe) end.
      destruct (held_stored kd s b e0 b0 HS HTR Hin Hrb He Hbe) as (pk & A & B & C). eauto 6. }
    constructor; simpl.
    + intros c0 Hc Hp. nw_bk W c0 Hc. discriminate Hp.
    + intros sn b0 Hsn Hb0. apply in_app_iff in Hsn. destruct Hsn as [Hsn|[<-|[]]].
      * destruct (S sn b0 Hsn Hb0) as (pk & A & B). exists pk. auto.
      * simpl in Hb0. destruct (Own b0 Hb0) as (e0 & pk & _ & A & _ & B). exists pk. auto.
    + intros q Hq sn Hsn L b0 Hb0. apply in_app_iff in Hsn. destruct Hsn as [Hsn|[<-|[]]].
      * destruct (M q Hq sn Hsn L b0 Hb0) as (pk & A & B & C). exists pk. auto.
      * simpl in Hb0. destruct (Own b0 Hb0) as (e0 & pk & He & A & E & B). exists pk. split; [exact A|split; [exact B|]].
        intro D. destruct (sK _ _ HS q (fst pk) Hq D) as [K1 _]. apply (K1 b Hin Hrb e0 He). symmetry. exact E.
    + intros q Hq Hp sn Hsn L b0 Hb0. apply in_app_iff in Hsn. destruct Hsn as [Hsn|[<-|[]]]; [eapply N1; eauto|].
      simpl in L. destruct (I2 q Hq) as [_ X]. destruct (X Hp). lia.
    + intros q Hq Hp b0 Hb0. destruct (N2 q Hq Hp b0 Hb0) as (pk & A & B & C). exists pk. auto.
    + split.
      * intros sn Hsn. apply in_app_iff in Hsn. destruct Hsn as [Hsn|[<-|[]]]; [apply I1 in Hsn; lia|simpl; lia].
      * intros q Hq. destruct (I2 q Hq) as [X Y]. split; [lia|]. intro Hp. destruct (Y Hp). lia.
  - (* BAbort *) apply (SNAP_frame kd s); simpl; auto using incl_refl.
    intros c0 Hc Hp. nw_bk W c0 Hc. discriminate Hp.
  - (* PStart *)
    constructor; simpl; auto.
    + intros q Hq sn Hsn L. inv Hq. simpl in L. apply I1 in Hsn. lia.
    + intros q Hq Hp. inv Hq. simpl in Hp. congruence.
    + intros q Hq [Hp|Hp]; inv Hq; simpl in Hp; discriminate.
    + split; [exact I1|]. intros q Hq. inv Hq. simpl. split; [lia|]. intro X. congruence.
  - (* PScan *)
    destruct (I2 _ eq_refl) as [X _].
    constructor; simpl; auto.
    + intros q Hq sn Hsn L b0 Hb0. inv Hq. simpl in L.
      destruct (M _ eq_refl sn Hsn L b0 Hb0) as (pk & A & B & C). exists pk. split; [exact A|split; [exact B|]].
      intro D. apply C. unfold Del in *. simpl in *. match goal with P : pph p = _ |- _ => rewrite P end. exact D.
    + intros q Hq _ sn Hsn _ b0 Hb0. inv Hq. simpl. apply in_flat_map. exists sn. auto.
    + intros q Hq [Hp|Hp]; inv Hq; simpl in Hp; discriminate.
    + split; [exact I1|]. intros q Hq. inv Hq. simpl. split; [exact X|]. intros _. split; [exact X|lia].
  - (* PPlan *)
    apply timely_split in HT. destruct HT as [_ TB].
    destruct (I2 _ eq_refl) as [X Y].
    assert (Hns : pph p <> PLoaded) by (match goal with P : pph p = _ |- _ => rewrite P end; discriminate).
    constructor; simpl; auto.
    + intros q Hq sn Hsn L b0 Hb0. inv Hq. simpl in L.
      destruct (M _ eq_refl sn Hsn L b0 Hb0) as (pk & A & B & C). exists pk. split; [exact A|split; [exact B|]].
      intro D. apply C. unfold Del in *. simpl in *. match goal with P : pph p = _ |- _ => rewrite P end.
      apply delete_list_In in D. simpl in D. destruct D as (x & Hx & Hp & Hdel).
      exists x. split; [exact Hx|split; [exact Hp|]].
      eapply (timely_b_spec kd _ _ TB eq_refl); simpl; eauto. rewrite Hp. exact Hdel.
    + intros q Hq _ sn Hsn L b0 Hb0. inv Hq. simpl in *. eapply N1; eauto.
    + intros q Hq _ b0 Hb0. inv Hq. simpl in Hb0.
      match goal with PO : plan_ok _ _ _ _ _ _ _ = true |- _ => rename PO into Hpo end.
      destruct HTR as (_ & _ & A3). match goal with Hq : prn s = Some _ |- _ => destruct (A3 _ Hq) as [Vw _] end.
      destruct (plan_owns_used_lemma _ _ _ _ _ _ _ b0 Hpo Hb0) as [(x & Hx & Hbx & Ho)|(x & Hx & Hbx & Ho)].
      * pose proof (plan_ok_unm_owner _ _ _ _ _ _ _ x Hpo Hx Ho) as Hex.
        apply in_map_iff in Hex. destruct Hex as (pk & E & Hpk). exists pk. split; [exact Hpk|split].
        -- destruct x as [i1 e1]. pose proof (dunm_In _ _ Hx) as Hu. apply In_all_unm in Hu. destruct Hu as (f & Hf & He).
           destruct (Vw _ Hf) as [U _]. simpl in U. destruct (U e1 He) as [_ Wb]. apply (Wb pk Hpk E). exact Hbx.
        -- intro D. apply delete_list_In in D. simpl in D. destruct D as (y & Hy & Ey & _). apply dmk_In in Hy. destruct Hy as [_ Hy].
           apply Hy. rewrite Ey, E. apply In_unm_pids. destruct x as [i1 e1]. exists i1, e1. split; [apply dunm_In; exact Hx|reflexivity].
      * destruct (plan_marked_needed_lemma _ _ _ _ _ _ _ x Hpo Hx Ho) as (Hrec & _ & Hex).
        apply in_map_iff in Hex. destruct Hex as (pk & E & Hpk). exists pk. split; [exact Hpk|split].
        -- destruct x as [i1 m1]. pose proof (dmk_In _ _ Hx) as [Hu _]. apply In_all_mk in Hu. destruct Hu as (f & Hf & He).
           destruct (Vw _ Hf) as [_ U]. simpl in U. destruct (U m1 He) as [_ Wb]. apply (Wb pk Hpk E). exact Hbx.
        -- intro D. apply delete_list_In in D. simpl in D. destruct D as (_ & _ & _ & Hdel). rewrite E in Hdel. rewrite Hrec in Hdel. discriminate Hdel.
    + split; [exact I1|]. intros q Hq. inv Hq. simpl. split; [exact X|]. intros _. exact (Y Hns).
  - (* PPack *)
    assert (Mono : incl (packs s) (packs s ++ [(nextp s, bl)])) by (apply incl_appl, incl_refl).
    destruct (I2 _ eq_refl) as [X Y].
    constructor; simpl; auto.
    + intros sn b0 Hsn Hb0. destruct (S sn b0 Hsn Hb0) as (pk & A & B). exists pk. auto.
    + intros q Hq sn Hsn L b0 Hb0. inv Hq. simpl in L.
      destruct (M _ eq_refl sn Hsn L b0 Hb0) as (pk & A & B & C). exists pk. split; [auto|split; [exact B|]].
      intro D. apply C. unfold Del in *. simpl in *. match goal with P : pph p = _ |- _ => rewrite P end. exact D.
    + intros q Hq _ sn Hsn L b0 Hb0. inv Hq. simpl in *. eapply N1; eauto. match goal with P : pph p = _ |- _ => rewrite P end; discriminate.
    + intros q Hq _ b0 Hb0. inv Hq. simpl in Hb0.
      match goal with P : pph p = PPlanned |- _ => destruct (N2 p eq_refl (or_introl P) b0 Hb0) as (pk & A & B & C) end. exists pk. auto.
    + split; [exact I1|]. intros q Hq. inv Hq. simpl. split; [exact X|]. intros _. apply Y. match goal with P : pph p = _ |- _ => rewrite P end; discriminate.
  - (* PWriteIndex *)
    destruct (I2 _ eq_refl) as [X Y].
    assert (Hns : pph p <> PLoaded) by (match goal with P : pph p = _ |- _ => rewrite P end; discriminate).
    constructor; simpl; auto.
    + intros q Hq sn Hsn L b0 Hb0. inv Hq. simpl in L.
      destruct (M _ eq_refl sn Hsn L b0 Hb0) as (pk & A & B & C). exists pk. split; [auto|split; [exact B|]].
      intro D. apply C. unfold Del in *. simpl in *. match goal with P : pph p = _ |- _ => rewrite P end. exact D.
    + intros q Hq _ sn Hsn L b0 Hb0. inv Hq. simpl in *. eapply N1; eauto.
    + intros q Hq _ b0 Hb0. inv Hq. simpl in Hb0.
      match goal with P : pph p = PPlanned |- _ => destruct (N2 p eq_refl (or_introl P) b0 Hb0) as (pk & A & B & C) end. exists pk. auto.
    + split; [exact I1|]. intros q Hq. inv Hq. simpl. split; [exact X|]. intros _. exact (Y Hns).
  - (* PRmIndex *)
    destruct (I2 _ eq_refl) as [X Y].
    assert (Hns : pph p <> PLoaded) by (match goal with P : pph p = _ |- _ => rewrite P end; discriminate).
    constructor; simpl; auto.
    + intros q Hq sn Hsn L b0 Hb0. inv Hq. simpl in L.
      destruct (M _ eq_refl sn Hsn L b0 Hb0) as (pk & A & B & C). exists pk. split; [auto|split; [exact B|]].
      intro D. apply C. unfold Del in *. simpl in *. match goal with P : pph p = _ |- _ => rewrite P end. exact D.
    + intros q Hq _ sn Hsn L b0 Hb0. inv Hq. simpl in *. eapply N1; eauto.
    + intros q Hq _ b0 Hb0. inv Hq. simpl in Hb0.
      match goal with P : pph p = PIndexed |- _ => destruct (N2 p eq_refl (or_intror P) b0 Hb0) as (pk & A & B & C) end. exists pk. auto.
    + split; [exact I1|]. intros q Hq. inv Hq. simpl. split; [exact X|]. intros _. exact (Y Hns).
  - (* PRmPack *)
    destruct (I2 _ eq_refl) as [X Y].
    match goal with P : pph p0 = PIndexed |- _ => rename P into Hph end.
    assert (Hns : pph p0 <> PLoaded) by (rewrite Hph; discriminate).
    match goal with Mb : memb _ (pdel _) = true |- _ => apply memb_In in Mb; rename Mb into Hpd end.
    assert (Hdl : In p (delete_list p0)) by (match goal with Hq : prn s = Some p0 |- _ => exact (sPD _ _ HS p0 Hq Hph p Hpd) end).
    assert (Hd0 : Del kd p0 p). { unfold Del. rewrite Hph. exact Hdl. }
    assert (Keep1 : forall pk, In pk (packs s) -> ~ Del kd p0 (fst pk) -> In pk (remove_key p (packs s))).
    { intros pk A C. apply In_remove_key. split; [exact A|]. intro E. apply C. subst p. exact Hd0. }
    assert (Keep2 : forall pk, In pk (packs s) -> ~ In (fst pk) (delete_list p0) -> In pk (remove_key p (packs s))).
    { intros pk A C. apply In_remove_key. split; [exact A|]. intro E. apply C. subst p. exact Hdl. }
    assert (N2' : forall b0, In b0 (pused p0) -> exists pk, In pk (remove_key p (packs s)) /\ In b0 (snd pk) /\ ~ In (fst pk) (delete_list p0)).
    { intros b0 Hb0. destruct (N2 _ eq_refl (or_intror Hph) b0 Hb0) as (pk & A & B & C). exists pk. auto. }
    assert (M' : forall sn, In sn (snaps s) -> psidmark p0 <= fst sn -> forall b0, In b0 (snd sn) ->
                 exists pk, In pk (remove_key p (packs s)) /\ In b0 (snd pk) /\ ~ Del kd p0 (fst pk)).
    { intros sn Hsn L b0 Hb0. destruct (M _ eq_refl sn Hsn L b0 Hb0) as (pk & A & B & C). exists pk. auto. }
    constructor; simpl; auto.
    + intros sn b0 Hsn Hb0. destruct (Y Hns) as [Y1 Y2].
      destruct (Nat.lt_ge_cases (fst sn) (pscanmark p0)) as [Lt|Ge].
      * pose proof (N1 _ eq_refl Hns sn Hsn Lt b0 Hb0) as Hu. destruct (N2' b0 Hu) as (pk & A & B & _). exists pk. auto.
      * assert (L : psidmark p0 <= fst sn) by lia. destruct (M' sn Hsn L b0 Hb0) as (pk & A & B & _). exists pk. auto.
    + intros q Hq sn Hsn L b0 Hb0. inv Hq. simpl in L.
      destruct (M' sn Hsn L b0 Hb0) as (pk & A & B & C). exists pk. split; [auto|split; [exact B|]].
      intro D. apply C. unfold Del in *. simpl in *. rewrite Hph. exact D.
    + intros q Hq _ sn Hsn L b0 Hb0. inv Hq. simpl in *. eapply N1; eauto.
    + intros q Hq _ b0 Hb0. inv Hq. simpl in Hb0. destruct (N2' b0 Hb0) as (pk & A & B & C). exists pk. auto.
    + split; [exact I1|]. intros q Hq. inv Hq. simpl. split; [exact X|]. intros _. exact (Y Hns).
  - (* PDone *) constructor; simpl; auto; try (intros; discriminate). split; [exact I1|intros; discriminate].
  - constructor; simpl; auto; try (intros; discriminate). split; [exact I1|intros; discriminate].
  - (* PAbort *) constructor; simpl; auto; try (intros; discriminate). split; [exact I1|intros; discriminate].
  - (* Forget *) apply (SNAP_frame kd s); simpl; auto using incl_refl.
    intros sn Hsn. apply In_remove_key in Hsn. tauto.
Qed.
