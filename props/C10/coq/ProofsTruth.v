(* C10 — truthfulness of index entries: every entry that occurs anywhere (in the view or the own packs
   of a backup, in a present index file, in the view or the repack output of the active prune) names a
   pack id below the next fresh one, and if a pack with that id is present it holds the entry's blobs. *)
From Verif.Base Require Import Tactics.
From Verif.C10 Require Import Extracted Model ProofsBase ProofsView ProofsFresh.
Local Open Scope nat_scope.

Definition IFQ (Q : entry -> Prop) (f : ifile) : Prop :=
  (forall e, In e (unm f) -> Q e) /\ (forall m, In m (mk f) -> Q (fst m)).

Definition ALL (Q : entry -> Prop) (s : st) : Prop :=
  (forall c, In c (bks s) -> forall e, In e (held c) -> Q e) /\
  (forall f, In f (idxs s) -> IFQ Q (snd f)) /\
  (forall q, prn s = Some q ->
     (forall f, In f (pview q) -> IFQ Q (snd f)) /\ (forall e, In e (pnew q) -> Q e)).

Lemma IFQ_mono (Q Q' : entry -> Prop) f : (forall e, Q e -> Q' e) -> IFQ Q f -> IFQ Q' f.
Proof. intros M [A B]. split; intros x Hx; apply M; auto. Qed.

Lemma ALL_mono (Q Q' : entry -> Prop) s : (forall e, Q e -> Q' e) -> ALL Q s -> ALL Q' s.
Proof.
  intros M (A1 & A2 & A3). split; [|split].
  - intros c Hc e He. apply M. eauto.
  - intros f Hf. eapply IFQ_mono; eauto.
  - intros q Hq. destruct (A3 q Hq) as [V Nw]. split.
    + intros f Hf. eapply IFQ_mono; eauto.
    + intros e He. apply M. auto.
Qed.

Lemma new_index_Q (Q : entry -> Prop) q :
  (forall f, In f (pview q) -> IFQ Q (snd f)) -> (forall e, In e (pnew q) -> Q e) ->
  (forall p, In p (punref q) -> Q (p, [])) -> IFQ Q (new_index q).
Proof.
  intros V Nw U.
  assert (DU : forall x, In x (dunm (pview q)) -> Q (snd x)).
  { intros [i e] Hx. apply dunm_In in Hx. apply In_all_unm in Hx. destruct Hx as (f & Hf & He).
    apply (V (i, f)) in Hf. destruct Hf as [A _]. simpl. auto. }
  assert (DM : forall x, In x (dmk (pview q)) -> Q (fst (snd x))).
  { intros [i m] Hx. apply dmk_In in Hx. destruct Hx as [Hx _]. apply In_all_mk in Hx. destruct Hx as (f & Hf & He).
    apply (V (i, f)) in Hf. destruct Hf as [_ B]. simpl. auto. }
  split; unfold new_index; simpl.
  - intros e He. apply in_app_iff in He. destruct He as [He|He]; [|apply in_app_iff in He; destruct He as [He|He]].
    + apply in_flat_map in He. destruct He as (x & Hx & He). destr_if; [|destruct He]. destruct He as [<-|[]]. auto.
    + apply in_flat_map in He. destruct He as (x & Hx & He). destr_if; [|destruct He]. destruct He as [<-|[]]. auto.
    + auto.
  - intros m Hm. apply in_app_iff in Hm. destruct Hm as [Hm|Hm]; [|apply in_app_iff in Hm; destruct Hm as [Hm|Hm]].
    + apply in_flat_map in Hm. destruct Hm as (x & Hx & Hm). destr_if; [|destruct Hm].
      destruct (todo_of (pasg q) (fst (snd x))) as [[]|]; simpl in Hm; try tauto; destruct Hm as [<-|[]]; simpl; auto.
    + apply in_flat_map in Hm. destruct Hm as (x & Hx & Hm). destr_if; [|destruct Hm].
      destruct (todo_of (pasg q) (fst (fst (snd x)))) as [[]|]; simpl in Hm; try tauto; destruct Hm as [<-|[]]; simpl; auto.
    + apply in_map_iff in Hm. destruct Hm as (p & <- & Hp). simpl. auto.
Qed.

Ltac al_bk A1 c0 Hc :=
  intros c0 Hc; apply In_replace_at in Hc; destruct Hc as [->|Hc]; [|eauto].
Ltac al_split := split; [|split].
Ltac get_a3 A3 Vw Nw :=
  first [destruct (A3 _ eq_refl) as (Vw & Nw)
        | match goal with Hq : prn _ = Some ?q |- _ => destruct (A3 q Hq) as (Vw & Nw) end].

(* one predicate Q for all entries: a step keeps it, provided the entry of a freshly written pack and
   the blob-less entries of unreferenced packs satisfy it *)
Lemma ALL_step kd s evt s' (Q : entry -> Prop) :
  ALL Q s ->
  (forall bl, In (nextp s, bl) (packs s') -> Q (nextp s, bl)) ->
  (forall q p, prn s = Some q -> In p (punref q) -> Q (p, [])) ->
  step kd s evt = Some s' -> ALL Q s'.
Proof.
  intros (A1 & A2 & A3) HN HU H.
  destruct evt; step_cases H; subst s'; unfold set_bk, set_prn in *; unfold ALL; simpl in *;
    try (match goal with Hn : nth_error (bks s) _ = Some ?b |- _ => assert (Hin := nth_error_In _ _ Hn); pose proof (A1 b Hin) as A1b end).
  - (* Tick *) auto.
  - (* BStart *) al_split; auto.
    intros c0 Hc e0 He. apply in_app_iff in Hc. destruct Hc as [Hc|[<-|[]]]; [eauto|destruct He].
  - (* BList *) al_split; auto. al_bk A1 c0 Hc. intros e0 [].
  - (* BRead some *) al_split; auto. al_bk A1 c0 Hc.
    unfold held; simpl. intros e0 He. rewrite <- app_assoc in He. apply in_app_iff in He. destruct He as [He|He].
    + apply A1b. unfold held. apply in_app_iff. auto.
    + apply in_app_iff in He. destruct He as [He|He].
      * match goal with L : lookup _ _ = Some _ |- _ => apply lookup_In in L; apply A2 in L; destruct L as [A _]; auto end.
      * apply A1b. unfold held. apply in_app_iff. auto.
  - (* BRead none *) al_split; auto. al_bk A1 c0 Hc.
    unfold held; simpl. intros e0 He. rewrite app_nil_r in He. apply A1b. exact He.
  - (* BPack *)
    al_split; auto. al_bk A1 c0 Hc.
    unfold held; simpl. intros e0 He. rewrite app_assoc in He. apply in_app_iff in He. destruct He as [He|[<-|[]]]; [apply A1b; exact He|].
    apply HN. apply in_app_iff. right. left. reflexivity.
  - (* BIndex empty *) al_split; auto. al_bk A1 c0 Hc.
    unfold held; simpl. intros e0 He. apply A1b. unfold held. match goal with W : bwritten _ = [] |- _ => rewrite W end. exact He.
  - (* BIndex write *) al_split; auto.
    + al_bk A1 c0 Hc. unfold held; simpl. intros e0 He. apply A1b. unfold held.
      match goal with W : bwritten _ = _ |- _ => rewrite W end. exact He.
    + intros f Hf. apply in_app_iff in Hf. destruct Hf as [Hf|[<-|[]]]; [auto|].
      split; simpl; [|intros m []]. intros e0 He. apply A1b. unfold held. apply in_app_iff. right.
      match goal with W : bwritten _ = _ |- _ => rewrite W end. exact He.
  - (* BSnap *) al_split; auto. al_bk A1 c0 Hc. exact A1b.
  - (* BAbort *) al_split; auto. al_bk A1 c0 Hc. exact A1b.
  - (* PStart *) al_split; auto. intros q0 Hq0. inv Hq0. simpl. split; auto; intros ? [].
  - (* PScan *) al_split; auto. intros q0 Hq0. inv Hq0. simpl. get_a3 A3 Vw Nw. split; auto; intros ? [].
  - (* PPlan *) al_split; auto. intros q0 Hq0. inv Hq0. simpl. get_a3 A3 Vw Nw. split; auto; intros ? [].
  - (* PPack *)
    get_a3 A3 Vw Nw. al_split; auto.
    intros q0 Hq0. inv Hq0. simpl. split; auto.
    intros e0 He. apply in_app_iff in He. destruct He as [He|[<-|[]]]; [auto|].
    apply HN. apply in_app_iff. right. left. reflexivity.
  - (* PWriteIndex *)
    get_a3 A3 Vw Nw. al_split; auto.
    + intros f Hf. apply in_app_iff in Hf. destruct Hf as [Hf|[<-|[]]]; [auto|]. simpl.
      apply new_index_Q; auto. intros p1 Hp. eapply HU; eauto.
    + intros q0 Hq0. inv Hq0. simpl. auto.
  - (* PRmIndex *)
    get_a3 A3 Vw Nw. al_split; auto.
    + intros f Hf. apply In_remove_key in Hf. apply A2. tauto.
    + intros q0 Hq0. inv Hq0. simpl. auto.
  - (* PRmPack *)
    get_a3 A3 Vw Nw. al_split; auto. intros q0 Hq0. inv Hq0. simpl. auto.
  - (* PDone *) al_split; auto. intros; discriminate.
  - al_split; auto. intros; discriminate.
  - (* PAbort *) al_split; auto. intros; discriminate.
  - (* Forget *) al_split; auto.
Qed.

(* ---- how a step changes the pack store *)
Lemma step_packs kd s evt s' : step kd s evt = Some s' ->
  (packs s' = packs s /\ nextp s' = nextp s) \/
  (exists bl, packs s' = packs s ++ [(nextp s, bl)] /\ nextp s' = S (nextp s)) \/
  (exists p, packs s' = remove_key p (packs s) /\ nextp s' = nextp s).
Proof.
  intro H. destruct evt; step_cases H; subst s'; unfold set_bk, set_prn; simpl; eauto.
Qed.

Definition WBacked (s : st) (e : entry) : Prop :=
  forall pk, In pk (packs s) -> fst pk = fst e -> incl (snd e) (snd pk).
Definition TRQ (s : st) (e : entry) : Prop := fst e < nextp s /\ WBacked s e.
Definition TR (s : st) : Prop := ALL (TRQ s) s.

Lemma TRQ_step kd s evt s' e : PL s -> step kd s evt = Some s' -> TRQ s e -> TRQ s' e.
Proof.
  intros (P1 & _) H [L W]. destruct (step_packs _ _ _ _ H) as [[E1 E2]|[(bl & E1 & E2)|(p & E1 & E2)]]; unfold TRQ, WBacked; rewrite E1, E2.
  - auto.
  - split; [lia|]. intros pk Hpk E. apply in_app_iff in Hpk. destruct Hpk as [Hpk|[<-|[]]]; [auto|]. simpl in E. lia.
  - split; [lia|]. intros pk Hpk E. apply In_remove_key in Hpk. destruct Hpk. auto.
Qed.

Lemma TR_step kd s evt s' : PL s -> TR s -> step kd s evt = Some s' -> TR s'.
Proof.
  intros HPL HT H. unfold TR.
  apply (ALL_step kd s evt s' (TRQ s')); [| | |exact H].
  - eapply ALL_mono; [|exact HT]. intros e He. eapply TRQ_step; eauto.
  - intros bl Hin. destruct HPL as (P1 & _).
    destruct (step_packs _ _ _ _ H) as [[E1 E2]|[(bl' & E1 & E2)|(p & E1 & E2)]]; unfold TRQ, WBacked; rewrite E1 in *; rewrite E2.
    + apply P1 in Hin. simpl in Hin. lia.
    + split; [simpl; lia|]. apply in_app_iff in Hin. destruct Hin as [Hin|[Hin|[]]]; [apply P1 in Hin; simpl in Hin; lia|]. inv Hin.
      intros pk Hpk E. apply in_app_iff in Hpk. destruct Hpk as [Hpk|[<-|[]]]; [apply P1 in Hpk; simpl in E; lia|]. simpl. apply incl_refl.
    + apply In_remove_key in Hin. destruct Hin as [Hin _]. apply P1 in Hin. simpl in Hin. lia.
  - intros q p Hq Hp. destruct HPL as (_ & _ & _ & P4). destruct (P4 q Hq) as (_ & _ & U). apply U in Hp.
    split; simpl.
    + destruct (step_packs _ _ _ _ H) as [[E1 E2]|[(bl' & E1 & E2)|(p' & E1 & E2)]]; rewrite E2; lia.
    + intros pk _ _. intros x [].
Qed.

Lemma TR_init : TR init.
Proof. unfold TR, ALL. simpl. split; [|split]; try (intros; tauto). intros q0 Hq0. discriminate Hq0. Qed.
