(* C10 — what the repaired prune gives: when the plan time is taken BEFORE the repository is read
   (plan_time_after_scan = false), hypothesis (b) of `timely` holds by construction, and safety follows from
   the premise alone: a running backup started before the marks on the packs it relies on were stamped and
   is younger than keep_delete.  With marks stamped at the index write (marks_stamped_at_write) the stamp is
   the publication time. *)
From Verif.Base Require Import Tactics.
From Verif.C10 Require Import Extracted Model ProofsBase ProofsView ProofsFresh ProofsSafe ProofsTruth ProofsMain ProofsSnap ProofsFull ProofsFacts.
Local Open Scope nat_scope.

Lemma is_delete_todo t : is_delete t = true -> t = Some Delete.
Proof. destruct t as [[]|]; simpl; intro H; try discriminate; reflexivity. Qed.

Lemma TB_step kd s evt s' : plan_time_after_scan = false ->
  timely_b kd s = true -> step kd s evt = Some s' -> timely_b kd s' = true.
Proof.
  intros Hf HT H. unfold timely_b in HT.
  destruct evt; step_cases H; subst s'; unfold timely_b, set_bk, set_prn in *; simpl in *;
    try assumption; try reflexivity;
    try (match goal with P : pph _ = _ |- _ => rewrite P in HT end; assumption).
  (* PPlan *)
  apply forallb_forall. intros x Hx.
  destruct (is_delete (todo_of asg (fst (fst (snd x))))) eqn:D; [|reflexivity]. simpl.
  apply is_delete_todo in D. apply Nat.leb_le.
  match goal with PO : plan_ok _ _ _ _ _ _ _ = true |- _ => pose proof (plan_delete_expired_lemma _ _ _ _ _ _ _ x PO Hx D) as L end.
  unfold plan_time in L. rewrite Hf in L. exact L.
Qed.

Lemma premise_timely_a kd s : premise kd s = true -> timely_a kd s = true.
Proof.
  unfold premise, timely_a. intro H. rewrite forallb_forall in *. intros c Hc. specialize (H c Hc).
  apply orb_true_iff in H. apply orb_true_iff. destruct H as [H|H]; [left; exact H|right].
  rewrite forallb_forall in *. intros e He. specialize (H e He). rewrite forallb_forall in *. intros m Hm. specialize (H m Hm).
  apply orb_true_iff in H. apply orb_true_iff. destruct H as [H|H]; [left; exact H|right].
  apply andb_true_iff in H. destruct H as [A B]. apply Nat.leb_le in A. apply Nat.ltb_lt in B. apply Nat.ltb_lt. lia.
Qed.

Lemma run_prem_timely kd : plan_time_after_scan = false ->
  forall es s s', timely_b kd s = true -> run_prem kd s es = Some s' -> run_timely kd s es = Some s'.
Proof.
  intros Hf. induction es as [|e es IH]; intros s s' TB H; simpl in *; destruct (premise kd s) eqn:P; try discriminate;
    unfold timely; rewrite (premise_timely_a _ _ P), TB; simpl.
  - exact H.
  - destruct (step kd s e) as [s1|] eqn:E; [|discriminate]. apply IH; [eapply TB_step; eauto|exact H].
Qed.

Lemma fixed_prune_safe_lemma : plan_time_after_scan = false -> forall kd es s,
  run_prem kd init es = Some s -> all_stored s = true /\ held_present s = true.
Proof.
  intros Hf kd es s H. apply (no_referenced_pack_deleted_lemma kd es). apply run_prem_timely; auto.
Qed.

(* every reachable state of the repaired code satisfies hypothesis (b) *)
Lemma timely_b_by_construction_lemma : plan_time_after_scan = false -> forall kd es s,
  run kd init es = Some s -> timely_b kd s = true.
Proof.
  intros Hf kd es s H.
  apply (run_invariant kd (fun s => timely_b kd s = true) (fun _ => true)) with (es := es) (s := init); auto.
  - intros s0 e s1 A _ Hs. eapply TB_step; eauto.
  - clear. induction es; simpl; auto.
Qed.

(* the marks of the index file a prune writes: stamped at the write (or with the plan time), or old marks *)
Lemma published_marks_lemma : forall kd s s', step kd s PWriteIndex = Some s' ->
  exists q f, prn s = Some q /\ idxs s' = idxs s ++ [(nexti s, f)] /\
    forall m, In m (mk f) ->
      snd m = (if marks_stamped_at_write then clock s else ptime q) \/ exists x, In x (dmk (pview q)) /\ m = snd x.
Proof.
  intros kd s s' H. step_cases H. subst s'. simpl. eexists. eexists. split; [reflexivity|]. split; [reflexivity|].
  intros m Hm. apply fresh_marks_lemma in Hm. exact Hm.
Qed.
