"""C10 fact extractor: regenerates props/C10/coq/Extracted.v from crates/core/src/commands/prune.rs:

  * where the time of a mark comes from: `let prune_time = prune_plan.time.timestamp();` in
    prune_repository, `time: Zoned::now()` in PrunePlan::new, and that `Self::new(..)` is called in
    from_prune_options AFTER the index files were streamed, the snapshots scanned (find_used_blobs)
    and the packs listed (plan time is taken after the scan);
  * per decision of the non-instant branch of prune_repository: which conversion is applied
    (`into_index_pack_with_time(prune_time)` = stamped, `into_index_pack(prune_time)` = the old time is
    kept when set) and into which index section the pack goes (`add` / `add_remove`);
    the bodies of the two conversions are pinned;
  * packs no index file lists: marked with `time: Some(prune_time)` and `blobs: Vec::new()`;
  * the keep-delete expiry test of decide_packs: in the arm `(true, 0, _)` a pack is deleted iff
    `self.time.saturating_sub(keep_delete).timestamp() >= mark_time` (operator extracted), otherwise
    KeepMarked; `(true, 1.., _)` is Recover.

Fails loudly (ExtractError) when an item no longer has the expected shape."""
import re, sys, os
sys.path.insert(0, os.path.join(os.path.dirname(__file__), "..", "..", "lib"))
from rustscan import *

PR = "crates/core/src/commands/prune.rs"


def norm(s):
    return " ".join(s.split())


def arm_of(body, pat):
    """text of the match arm that starts with the literal pattern `pat =>` (brace body)"""
    i = body.find(pat)
    if i < 0:
        raise ExtractError("match arm %r not found" % pat)
    j = body.find("=>", i)
    k = j + 2
    while body[k] in " \n\t":
        k += 1
    if body[k] != "{":
        e = body.find(",", k)
        return body[k:e]
    e = match_brace(body, k)
    return body[k + 1:e]


def noninstant(arm):
    """the else-branch of `if opts.instant_delete { .. } else { .. }`, or the whole arm"""
    m = re.search(r"if\s+opts\s*\.\s*instant_delete\s*\{", arm)
    if not m:
        return arm
    e = match_brace(arm, m.end() - 1)
    m2 = re.match(r"\s*else\s*\{", arm[e + 1:])
    if not m2:
        raise ExtractError("instant_delete branch without else")
    b = e + 1 + m2.end() - 1
    return arm[b + 1:match_brace(arm, b)]


def conv_of(txt, what):
    t = norm(txt)
    m = re.search(r"into_index_pack(_with_time)?\(\s*(\w+)\s*\)", t)
    if not m:
        raise ExtractError("no into_index_pack* call in the %s arm" % what)
    if m.group(2) != "prune_time":
        raise ExtractError("%s arm converts with %r, expected prune_time" % (what, m.group(2)))
    m2 = re.search(r"indexer\s*\.\s*(add_remove|add)\(\s*pack\s*\)", t)
    if not m2:
        raise ExtractError("no indexer.add/add_remove in the %s arm" % what)
    return ("Stamp" if m.group(1) else "KeepOld"), ("Marked" if m2.group(1) == "add_remove" else "Unmarked")


def gen(repo):
    src = read(repo, PR)
    meta = {}
    # --- conversions
    b = norm(fn_body(src, "into_index_pack"))
    if "time: self.time.or(Some(time))" not in b:
        raise ExtractError("into_index_pack no longer keeps an already set time: " + b[:200])
    b = norm(fn_body(src, "into_index_pack_with_time"))
    if "time: Some(time)" not in b:
        raise ExtractError("into_index_pack_with_time no longer stamps the given time: " + b[:200])
    # --- prune_repository
    pr = fn_body(src, "prune_repository")
    m = re.search(r"let\s+prune_time\s*=\s*([^;]+);", pr)
    if not m:
        raise ExtractError("`let prune_time = ..;` not found in prune_repository")
    pt = norm(m.group(1)).replace(" ", "")
    if pt != "prune_plan.time.timestamp()":
        raise ExtractError("prune_time is no longer the plan time (prune_plan.time.timestamp()) but %r: the model of C10 "
                           "(marks carry the plan time) must be revisited" % pt)
    meta["prune_time"] = pt
    mm = re.search(r"match\s+pack\s*\.\s*to_do\s*\{", pr)
    if not mm:
        raise ExtractError("`match pack.to_do` not found in prune_repository")
    mb = pr[mm.end():match_brace(pr, mm.end() - 1)]
    table = {}
    for name, pat in (("Keep", "PackToDo::Keep =>"), ("Repack", "PackToDo::Repack =>"), ("MarkDelete", "PackToDo::MarkDelete =>"),
                      ("KeepMarked", "PackToDo::KeepMarked | PackToDo::KeepMarkedAndCorrect =>"), ("Recover", "PackToDo::Recover =>")):
        arm = noninstant(arm_of(mb, pat))
        if name == "Repack":
            # only the marking statement (before the blobs are filtered for the repacker)
            arm = arm
        table[name] = conv_of(arm, name)
    darm = norm(arm_of(mb, "PackToDo::Delete =>"))
    if not darm.startswith("delete_pack(&pack)"):
        raise ExtractError("Delete arm of prune_repository is no longer `delete_pack(&pack)`: " + darm[:80])
    meta["exec"] = table
    # --- unreferenced packs
    m = re.search(r"for\s*\(\s*id\s*,\s*size\s*\)\s*in\s+prune_plan\s*\.\s*existing_packs\s*\{", pr)
    if not m:
        raise ExtractError("loop over prune_plan.existing_packs (unreferenced packs) not found")
    ub = norm(pr[m.end():match_brace(pr, m.end() - 1)])
    if "time: Some(prune_time)" not in ub or "blobs: Vec::new()" not in ub or not re.search(r"indexer\s*\.\s*add_remove\(\s*pack\s*\)", ub):
        raise ExtractError("unreferenced packs are no longer marked with Some(prune_time) and no blobs: " + ub[:200])
    # --- when do the delete marks get their time: when the entry is made (prune_time = plan time), or are they
    #     held back by the indexer and re-stamped with Timestamp::now() right before the index is finalized
    prn = norm(pr)
    hold = [x.start() for x in re.finditer(r"indexer\s*\.\s*hold_removals\(\)\s*;", prn)]
    rel = [x.start() for x in re.finditer(r"indexer\s*\.\s*release_removals\(\s*prune_time\s*,\s*Timestamp::now\(\)\s*\)\?\s*;", prn)]
    fins = [x.start() for x in re.finditer(r"indexer(\s*\.\s*write\(\)\s*\.\s*unwrap\(\))?\s*\.\s*finalize\(\)\?\s*;", prn)]
    if not hold and not rel:
        at_write = False
    else:
        new_ix = prn.find("Indexer::new_unindexed(")
        first_mark = prn.find("prune_plan.existing_packs")
        if len(hold) != 1 or not (0 <= new_ix < hold[0] < first_mark):
            raise ExtractError("indexer.hold_removals() is not called once, right after the indexer of prune_repository is created")
        if len(rel) != len(fins) or any(not (c < f and f - c < 80) for c, f in zip(rel, fins)):
            raise ExtractError("release_removals(prune_time, Timestamp::now()) is not called right before every indexer.finalize() of prune_repository")
        ix = read(repo, "crates/core/src/index/indexer.rs")
        ar = norm(fn_body(ix, "add_remove"))
        if not re.search(r"if let Some\(held\) = &mut self\.held_removals \{ held\.push\(pack\); return Ok\(\(\)\); \} self\.add_with\(pack, true\)", ar):
            raise ExtractError("Indexer::add_remove no longer holds removals back: " + ar[:200])
        rr = norm(fn_body(ix, "release_removals"))
        if not ("self.held_removals.take()" in rr and re.search(r"if pack\.time == Some\(stamped\) \{ pack\.time = Some\(now\); \}", rr)
                and "self.add_with(pack, true)?" in rr):
            raise ExtractError("Indexer::release_removals no longer re-stamps the planned marks: " + rr[:200])
        hr = norm(fn_body(ix, "hold_removals"))
        if "self.held_removals = Some(Vec::new());" not in hr:
            raise ExtractError("Indexer::hold_removals changed: " + hr[:120])
        at_write = True
    meta["marks_stamped_at_write"] = at_write
    # --- plan time
    nb = norm(fn_body(src, "new"))
    if "time: Zoned::now()" not in nb:
        raise ExtractError("PrunePlan::new no longer sets `time: Zoned::now()`")
    fo = fn_body(src, "from_prune_options", 1) if len(re.findall(r"\bfn\s+from_prune_options\b", src)) > 1 else fn_body(src, "from_prune_options")
    if "Self::new(" not in fo:
        fo = fn_body(src, "from_prune_options", 0)
    pos = {k: fo.find(k) for k in ("stream_all::<IndexFile>", "find_used_blobs(", "list_with_size(FileType::Pack)", "Self::new(")}
    if min(pos.values()) < 0:
        raise ExtractError("from_prune_options: expected calls not found: %r" % pos)
    # the plan time: Zoned::now() inside Self::new(..), unless overwritten by `pruner.time = <v>;` with
    # `let <v> = Zoned::now();` earlier in from_prune_options
    tpos = pos["Self::new("]
    mo = re.search(r"pruner\s*\.\s*time\s*=\s*(\w+)\s*;", fo)
    if mo:
        ml = re.search(r"let\s+%s\s*=\s*Zoned::now\(\)\s*;" % mo.group(1), fo)
        if not ml or mo.start() < pos["Self::new("]:
            raise ExtractError("`pruner.time = %s;` without `let %s = Zoned::now();`" % (mo.group(1), mo.group(1)))
        tpos = ml.start()
    scan = [pos["stream_all::<IndexFile>"], pos["find_used_blobs("], pos["list_with_size(FileType::Pack)"]]
    after_scan = tpos > max(scan)
    if not after_scan and not tpos < min(scan):
        raise ExtractError("the plan time is taken in the middle of the repository scan")
    meta["plan_time_after_scan"] = after_scan
    if not (pos["stream_all::<IndexFile>"] < pos["find_used_blobs("] < pos["list_with_size(FileType::Pack)"]):
        raise ExtractError("from_prune_options no longer loads index, then snapshots, then lists packs: %r" % pos)
    # --- expiry test
    dp = fn_body(src, "decide_packs")
    arm0 = arm_of(dp, "(true, 0, _) =>")
    a0 = norm(arm0)
    m = re.search(r"Some\(\s*(\w+)\s*\)\s*if\s+self\s*\.\s*time\s*\.\s*saturating_sub\(\s*keep_delete\s*\)\s*\.\s*timestamp\(\)\s*(>=|>)\s*(\w+)\s*=>\s*\{(.*?)\}", a0)
    if not m or m.group(1) != m.group(3):
        raise ExtractError("keep-delete expiry guard of decide_packs (true, 0, _) not recognised: " + a0[:300])
    if "PackToDo::Delete" not in m.group(4):
        raise ExtractError("expired marked pack is no longer planned as Delete")
    rest = a0[m.end():]
    if not re.search(r"Some\(_\)\s*=>\s*pack\s*\.\s*set_todo\(\s*PackToDo::KeepMarked", rest):
        raise ExtractError("unexpired marked pack is no longer KeepMarked")
    nonstrict = m.group(2) == ">="
    meta["expiry_op"] = m.group(2)
    arm1 = norm(arm_of(dp, "(true, 1.., _) =>"))
    if "PackToDo::Recover" not in arm1 or "PackToDo::Delete" in arm1:
        raise ExtractError("marked pack with used blobs is no longer planned as Recover")
    out = ["(* GENERATED by props/C10/extract.py from crates/core/src/commands/prune.rs - do not edit *)",
           "Inductive tsrc := Stamp | KeepOld.      (* into_index_pack_with_time(prune_time) | into_index_pack(prune_time) *)",
           "Inductive isec := Unmarked | Marked.    (* indexer.add | indexer.add_remove *)",
           "(* prune_time = %s ; PrunePlan::new: time: Zoned::now() *)" % pt,
           "(* delete marks: stamped with prune_time when the entry is made (false) / held back by the indexer and",
           "   re-stamped with Timestamp::now() right before the index file is finalized (true) *)",
           "Definition marks_stamped_at_write : bool := %s." % ("true" if at_write else "false"),
           "(* is the plan time (Zoned::now()) taken after stream_all::<IndexFile>, find_used_blobs and list_with_size(Pack), or before them *)",
           "Definition plan_time_after_scan : bool := %s." % ("true" if after_scan else "false"),
           "(* decide_packs (true, 0, _): Delete iff plan_time - keep_delete %s mark_time *)" % m.group(2),
           "Definition expiry_nonstrict : bool := %s." % ("true" if nonstrict else "false")]
    for name in ("Keep", "Repack", "MarkDelete", "KeepMarked", "Recover"):
        out.append("Definition ts_%s : tsrc := %s.  Definition sec_%s : isec := %s." % (name, table[name][0], name, table[name][1]))
    out += ["(* packs no index file lists: time: Some(prune_time), blobs: Vec::new(), add_remove *)",
            "Definition ts_Unreferenced : tsrc := Stamp.", ""]
    return "\n".join(out), meta


if __name__ == "__main__":
    t, m = gen(sys.argv[1] if len(sys.argv) > 1 else "/repo")
    print(t); print(m, file=sys.stderr)
