"""C08 — pack files, their headers and the index always agree; index is rebuildable.
Stages: regenerate Extracted.v from packfile.rs/packer.rs; build + audit the Coq theorems;
correspondence of the extracted model with the real code on (a) the header codec, (b)
PackHeader::from_file on generated packs (well-formed and damaged, every kind of size hint),
(c) the BasicPacker state machine; (e) the repacker: hooked CopyPackBlobs/BlobLocations coalescing and
real BlobCopier runs (copy_fast / copy) against the extracted `repack`; (d) end to end: real backups/prune/copy on the in-memory
backend, every pack parsed by the EXTRACTED from_file and compared with the index files,
its name with SHA-256, its size with the listing; then index files are deleted,
repair_index is run and check(read_data) + snapshot contents are compared.
Oracle = the property itself, evaluated on the implementation's files."""
import os, sys, json, hashlib
import vlib
from vlib import ROOT, REPO, sh, log

U32 = 1 << 32
LENS = [0, 1, 2, 31, 32, 33, 36, 37, 41, 255, 256, 257, 65535, 65536, 1 << 24, (1 << 31) - 1, 1 << 31, U32 - 2, U32 - 1]


def rid(rng):
    r = rng.random()
    if r < 0.04: return "00" * 32
    if r < 0.08: return "ff" * 32
    if r < 0.12: return "00" * 31 + "%02x" % rng.randint(0, 255)
    return "%064x" % rng.getrandbits(256)


def hx(b):
    return b.hex() if b else "-"


def run_lines(exe, lines, mode, tag="x", timeout=3000):
    path = os.path.join(vlib.BUILD, "C08", "in_%s_%d.txt" % (tag, os.getpid()))
    open(path, "w").write("\n".join(lines) + "\n")
    rc, out, err = vlib.sh2("ulimit -s unlimited 2>/dev/null; exec '%s' '%s' %s" % (exe, path, mode), timeout=timeout)
    os.remove(path)
    res = out.splitlines()
    if rc != 0 or len(res) != len(lines):
        raise RuntimeError("%s %s failed rc=%s (%d of %d lines)\n%s" % (exe, mode, rc, len(res), len(lines), err[-2000:]))
    return res


# ----------------------------------------------------------------------------- generators
def gen_blob(rng, off):
    tpe = rng.randint(0, 1)
    r = rng.random()
    ln = rng.choice(LENS) if r < 0.3 else rng.randint(0, 400) if r < 0.8 else rng.randint(0, U32 - 1)
    r = rng.random()
    ul = -1 if r < 0.45 else rng.choice([0, 1, 2, U32 - 1]) if r < 0.6 else rng.randint(1, U32 - 1)
    r = rng.random()
    o = off if r < 0.7 else rng.randint(0, U32 - 1)
    return [tpe, rid(rng), o % U32, ln, ul]


def entry_bytes(tpe, idh, ln, ul):
    m = (2 if ul > 0 else 0) + (1 if tpe == 0 else 0)
    b = bytes([m]) + ln.to_bytes(4, "little")
    if ul > 0: b += ul.to_bytes(4, "little")
    return b + bytes.fromhex(idh)


def gen_codec(rng, maxn):
    n = rng.choice([0, 1, 1, 2, 3, 5, 8, maxn])
    n = rng.randint(0, n)
    small = rng.random() < 0.6      # keep the sum below 2^32 most of the time
    bl, off = [], 0
    for _ in range(n):
        b = gen_blob(rng, off)
        if small and b[3] > 100000: b[3] = rng.choice([0, 1, 37, 41, 65536, rng.randint(0, 5000)])
        bl.append(b); off += b[3]
    r = rng.random()
    if r < 0.55: tr = b""
    elif r < 0.65: tr = bytes([rng.randint(0, 3)]) + bytes(rng.getrandbits(8) for _ in range(rng.choice([0, 1, 3, 4, 35, 36, 39])))   # partial (or exactly full for 36/40)
    elif r < 0.75: tr = bytes([rng.choice([4, 5, 7, 128, 255])]) + bytes(rng.getrandbits(8) for _ in range(rng.choice([0, 36, 40])))  # unknown magic
    elif r < 0.9:
        e = gen_blob(rng, 0); tr = entry_bytes(e[0], e[1], e[3] if not small else e[3] % 1000, e[4])                                  # one more full entry
    else:
        tr = bytes([2 + rng.randint(0, 1)]) + rng.randint(0, 1000).to_bytes(4, "little") + (0).to_bytes(4, "little") + bytes.fromhex(rid(rng))  # compressed entry with raw length 0
    toks = [str(n)]
    for b in bl: toks += [str(x) for x in b]
    toks.append(hx(tr))
    return " ".join(toks)


def gen_frombin(rng):
    r = rng.random()
    if r < 0.3:
        return hx(bytes(rng.getrandbits(8) for _ in range(rng.choice([0, 1, 2, 36, 37, 38, 40, 41, 42, 74, 78, 82, rng.randint(0, 200)]))))
    n = rng.randint(0, 6)
    d = b""
    for _ in range(n):
        e = gen_blob(rng, 0)
        d += entry_bytes(e[0], e[1], e[3] % 100000, e[4])
    r = rng.random()
    if d and r < 0.3: d = d[:rng.randint(0, len(d))]
    elif d and r < 0.5:
        i = rng.randint(0, len(d) - 1); d = d[:i] + bytes([d[i] ^ (1 << rng.randint(0, 7))]) + d[i + 1:]
    elif d and r < 0.6:
        i = rng.randint(0, len(d)); d = d[:i] + bytes([rng.getrandbits(8)]) + d[i:]
    return hx(d)


def gen_build(rng):
    n = rng.choice([0, 1, 1, 2, 3, 4, 6, 9])
    tpe = rng.randint(0, 1)
    spec = []
    for _ in range(n):
        ln = rng.choice([0, 1, 32, 33, rng.randint(0, 300)])
        ul = -1 if rng.random() < 0.5 else rng.choice([1, ln + 5, 70000, U32 - 1])
        spec.append((tpe if rng.random() < 0.9 else 1 - tpe, rid(rng), ln, ul))
    r = rng.random()
    if r < 0.5: dmg, extra = 0, 0
    else:
        dmg = rng.choice([1, 1, 2, 2, 3, 4, 5, 6])
        hs = 32 + sum(41 if s[3] > 0 else 37 for s in spec)
        tot = sum(s[2] for s in spec) + hs + 4
        if dmg == 1: extra = rng.choice([0, 1, 31, 32, hs - 1, hs + 1, hs - 37, hs + 37, tot - 4, tot - 3, tot, U32 - 4, U32 - 5, U32 - 1, rng.randint(0, U32 - 1)]) % U32
        elif dmg == 2: extra = rng.choice([0, 1, 2, 3, 4, 5, 35, 36, max(tot - 1, 0), max(tot - 4, 0), rng.randint(0, tot)])
        elif dmg == 5: extra = rng.choice([1, 36, 37, 41])
        elif dmg == 6: extra = rng.choice([1, 100, U32 - 1])
        else: extra = 0
    toks = [str(n)]
    for s in spec: toks += [str(s[0]), s[1], str(s[2]), str(s[3])]
    toks += [str(dmg), str(extra), str(rng.getrandbits(40))]
    return " ".join(toks), spec, dmg


def hints_for(rng, spec, flen, k):
    hs = 32 + sum(41 if s[3] > 0 else 37 for s in spec)
    cands = [(-1, flen), (hs, flen), (0, flen), (hs - 1, flen), (hs + 1, flen), (hs + rng.randint(2, 500), flen),
             (flen - 4, flen), (flen - 3, flen), (flen, flen), (flen - 5, flen), (U32 - 5, flen), (U32 - 4, flen), (U32 - 1, flen),
             (rng.randint(0, max(flen, 1)), flen), (-1, flen - 1), (-1, flen + 1), (hs, flen + 1), (hs, max(flen - 1, 0)),
             (-1, 0), (-1, 3), (-1, 4), (0, 3), (hs, hs + 3), (hs, hs + 4), (-1, U32 - 1), (hs, rng.randint(0, U32 - 1))]
    out = [c for c in cands[:4]]
    out += rng.sample(cands[4:], k)
    return [(h if h >= -1 else -1, max(p, 0) % U32) for h, p in out if h < U32]


def gen_packer(rng):
    tpe = rng.randint(0, 1)
    n = rng.choice([0, 1, 2, 3, 5, 8, 12])
    pool = [rid(rng) for _ in range(max(1, rng.choice([n, n, max(n // 2, 1), 2])))]
    psave = rng.choice([0.0, 0.2, 0.5, 1.0])
    toks = [str(tpe), str(n)]
    for _ in range(n):
        ln = rng.choice([0, 1, 16, 33, rng.randint(0, 80)])
        data = bytes(rng.getrandbits(8) for _ in range(ln))
        ul = -1 if rng.random() < 0.5 else rng.choice([0, 1, 1000, U32 - 1])
        toks += [rng.choice(pool), hx(data), str(ul), "1" if rng.random() < psave else "0"]
    return " ".join(toks)


HOLE = 262144
LIMIT = 41943040


def gen_layout(rng, big):
    """blobs of one pack: increasing offsets with boundary-seeking holes and lengths"""
    n = rng.choice([1, 2, 3, 4, 6, 9])
    off = rng.choice([0, 0, 5, rng.randint(0, 1000)]) if not big else rng.choice([0, U32 - HOLE - 50, U32 - 300, 1 << 31])
    out = []
    for _ in range(n):
        r = rng.random()
        if big and r < 0.3: ln = rng.choice([LIMIT, LIMIT - 1, LIMIT + 1, LIMIT - 7, LIMIT // 2, 100, U32 - 1])
        else: ln = rng.choice([0, 1, 2, 16, 33, rng.randint(0, 120)])
        ul = -1 if rng.random() < 0.6 else rng.choice([1, 7, 70000])
        out.append((off % U32, ln % U32, ul))
        r = rng.random()
        gap = 0 if r < 0.5 else rng.choice([1, 2, 17]) if r < 0.7 else rng.choice([HOLE - 1, HOLE, HOLE + 1]) if (big or r < 0.75) else rng.randint(0, 40)
        off = off + ln + gap
    return out


def gen_centries(rng, big=False, npacks=None, distinct=False):
    npacks = npacks or rng.choice([1, 1, 2, 3])
    # pack ids sharing long prefixes so that the derived order is exercised beyond the first byte
    base = "%062x" % rng.getrandbits(248)
    packs = list(dict.fromkeys([base + "%02x" % rng.randint(0, 255) for _ in range(npacks)] if rng.random() < 0.5 else ["%064x" % rng.getrandbits(256) for _ in range(npacks)]))
    es = []
    for p in packs:
        for (o, l, u) in gen_layout(rng, big):
            if rng.random() < 0.85: es.append((p, o, l, u, "%064x" % rng.getrandbits(256)))
    if distinct:
        seen, es2 = set(), []
        for e in es:
            if (e[0], e[1]) not in seen: seen.add((e[0], e[1])); es2.append(e)
        es = es2
    return packs, es


def sort_ce(es):
    return sorted(es, key=lambda e: (bytes.fromhex(e[0]), e[1]))    # stable


def ce_toks(es):
    t = [str(len(es))]
    for (p, o, l, u, i) in es: t += [p, str(o), str(l), str(u), i]
    return " ".join(t)


def parse_chunks(s):
    """'k C pack off len n id:off:len:ulen ...' -> list of (pack, off, len, [(id, off, len, ulen)])"""
    t = s.split()
    if not t or not t[0].isdigit(): return None
    i, res = 1, []
    for _ in range(int(t[0])):
        pack, off, ln, n = t[i + 1], int(t[i + 2]), int(t[i + 3]), int(t[i + 4]); i += 5
        bl = []
        for x in t[i:i + n]:
            a, o, l, u = x.split(":"); bl.append((a, int(o), int(l), -1 if u == "-" else int(u)))
        i += n
        res.append((pack, off, ln, bl))
    return res


def chunks_oracle(es, chunks):
    """the property on the implementation's chunks: in input order, one pack per chunk, every blob inside the read"""
    flat = [(c[0], b) for c in chunks for b in c[3]]
    if [(p, (i, o, l, u)) for (p, o, l, u, i) in es] != flat: return "chunks are not the input blobs in order with their own pack"
    for (pack, off, ln, bl) in chunks:
        for (i, o, l, u) in bl:
            if o < off or o + l > off + ln: return "a blob lies outside the coalesced read"
    return None


def parse_blobs(s):
    """'n id:tpe:off:len:ulen ...' -> list of tuples, or None"""
    t = s.split()
    if not t or not t[0].isdigit(): return None
    res = []
    for x in t[1:1 + int(t[0])]:
        i, tp, off, ln, ul = x.split(":")
        res.append((i, int(tp), int(off), int(ln), -1 if ul == "-" else int(ul)))
    return res


def describes_line(size, blobs):
    toks = [str(size), str(len(blobs))]
    for (i, tp, off, ln, ul) in blobs: toks += [str(tp), i, str(off), str(ln), str(ul)]
    return " ".join(toks)


# ----------------------------------------------------------------------------- main
def run(ctx):
    rng = ctx.rng
    cov = ctx.coverage
    meta, xerr = vlib.regen_extracted("C08")
    r = vlib.proof_stage(ctx)
    if xerr:
        r["ok"] = False
        r["failures"].append("fact extraction from packfile.rs/packer.rs failed: " + xerr)
    # hard pins: the functions the model states statement by statement must be what they were
    pin_fail = (meta or {}).get("pin_failures", [])
    for pf in pin_fail:
        r["ok"] = False
        r["failures"].append("source no longer has the modelled shape: " + pf)
    cov["pinned_functions"] = len((meta or {}).get("pin_hashes", {}))
    cov["pin_failures"] = pin_fail
    writer_broken = xerr is not None and "file-writer" in xerr or (meta is not None and meta.get("WRITER_INDEXES_AFTER_WRITE") is False) \
        or any("packer::process" in pf for pf in pin_fail)
    cov["trusted_base"] += ["props/C08/extract.py (constants and HeaderEntry layout from packfile.rs into Extracted.v)",
                            "harness SliceBackend (read_partial returns an error outside the file, like the local backend)"]
    ctx.assumptions += [
        "encryption of the header is an abstract function pair with dec (enc x) = Some x and |enc x| = |x| + 32 (AES256-CTR + Poly1305: 16 byte nonce + 16 byte tag); both equations are checked dynamically on every pack",
        "ReadBackend::read_partial returns exactly the requested range or an error",
        "checked u32 arithmetic = build with overflow checks (the harness and `cargo test` profile); a release build wraps instead of panicking",
        "ids are 32 bytes; IndexBlob.uncompressed_length is NonZeroU32 (never Some 0)",
        "the writer thread (Actor) is modelled as a FIFO with at most one failing upload; SHA-256 naming is observed end to end",
        "the packer's age limit (MAX_AGE = 5 min) is an oracle of the model and is not reached by any check run",
        "delete-marks (packs_to_delete) and pack times are not recoverable from packs and are outside rebuild_index_equals_index",
        "written_repo_index_rebuildable assumes that the hash (SHA-256) does not collide on the written pack files",
        "the repacker theorems hold for every order of the blob list; sort_unstable and the parallel iteration over chunks are exercised by the correspondence only"]
    try:
        model = vlib.build_model("C08")
    except RuntimeError as e:
        model = None
        if r["ok"]:
            r["ok"] = False; r["failures"].append("extracted model no longer builds: " + str(e)[-500:])
    impl = vlib.build_harness("c08")
    T = ctx.thorough()
    hist, samples = {}, []
    mism, viol = [], []
    nontriv = set()
    def bump(k, n=1): hist[k] = hist.get(k, 0) + n
    nev = 0

    if ctx.replay:
        rp = json.load(open(ctx.replay))
        w = rp.get("witness", {})
        if w.get("mode") == "e2e" and "case" in w:
            viol, mism = [], []
            run_e2e(ctx, impl, model, lambda k, n=1: None, viol, mism, set(), [], only=[w["case"]])
            for what, mode, case, got in viol[:10]:
                ctx.violation(what, {"mode": mode, "case": case, "impl": got[:4000]})
            if mism and not viol:
                ctx.violation("replayed e2e case: model and implementation disagree", {"first": mism[0][:4]}, no_input=True)
            print("replay e2e: %d oracle violations, %d model/impl mismatches" % (len(viol), len(mism)))
            return vlib.finish_broken_obligations(ctx)
        if w.get("mode") == "fromfile" and "case" in w:
            l = " ".join(w["case"].split()[:3])
            a = run_lines(impl, [l], "fromfile")
            b = run_lines(model, [l + " " + a[0].partition(" | ")[2]], "fromfile") if model else ["-"]
            print("replay fromfile: impl=%s\n model=%s" % (a[0][:2000], b[0][:2000]))
            if a[0].partition(" | ")[0] != b[0].partition(" d=")[0]:
                ctx.violation("replayed case still disagrees", w, no_input=True)
            return vlib.finish_broken_obligations(ctx)
        if w.get("mode") == "failupload" and "case" in w:
            a = run_lines(impl, [w["case"]], "failupload")
            print("replay failupload %s: %s" % (w["case"], a[0]))
            if "phantom=0" not in a[0]:
                ctx.violation("a persisted index file lists a pack that was never stored (upload of pack k rejected)", {"mode": "failupload", "case": w["case"], "impl": a[0]})
            return vlib.finish_broken_obligations(ctx)
        if w.get("mode") == "packauto" and "case" in w:
            v2, m2 = [], []
            run_extremes(ctx, impl, model, lambda k, n=1: None, v2, m2, set(), [], only=[w["case"]])
            for what, mode, case, got in v2[:5]: ctx.violation(what, {"mode": mode, "case": case, "impl": got[:3000]})
            if m2 and not v2: ctx.violation("replayed packauto case: model and implementation disagree", {"case": w["case"]}, no_input=True)
            print("replay packauto: %d oracle violations, %d mismatches" % (len(v2), len(m2)))
            return vlib.finish_broken_obligations(ctx)
        if "mode" in w and "case" in w and w["mode"] in ("codec", "frombin", "packer", "coalloc"):
            a = run_lines(impl, [w["case"]], w["mode"])
            b = run_lines(model, [w["case"]], w["mode"]) if model else ["-"]
            print("replay %s: impl=%s\n model=%s" % (w["mode"], a[0], b[0]))
            if a[0] != b[0].split(" | spec=")[0]:
                ctx.violation("replayed case still disagrees", w, no_input=True)
            return vlib.finish_broken_obligations(ctx)

    # ---- (x) extreme points of the parameter space first (also the first stop of the search when an obligation is broken)
    ex = run_extremes(ctx, impl, model, bump, viol, mism, nontriv, samples) if model else {}
    nev += ex.get("evaluations", 0)

    # ---- (w) directed search, only when the upload-before-registration obligation is broken
    if writer_broken:
        nchunks = 50000
        lines = ["%d %d" % (k, nchunks) for k in range(1, 7)]
        a = run_lines(impl, lines, "failupload", timeout=1500)
        nev += len(lines)
        for l, x in zip(lines, a):
            bump("failupload_" + ("phantom" if "phantom=0" not in x else "clean"))
            if "phantom=" in x and "phantom=0" not in x:
                viol.append(("a persisted index file lists a pack that was never stored (upload of pack k rejected during a backup of %d tiny blobs)" % nchunks, "failupload", l, x))
        cov["failupload_search"] = dict(zip(lines, a))

    # ---- (a) codec
    cases = []
    corpus = os.path.join(ctx.pdir, "corpus.txt")
    if os.path.exists(corpus):
        for ln in open(corpus):
            ln = ln.split("#")[0].strip()
            if ln.startswith("codec "): cases.append(ln[6:])
    ncodec = 12000 if T else 1500
    while len(cases) < ncodec: cases.append(gen_codec(rng, 120 if T else 40))
    a = run_lines(impl, cases, "codec")
    nev += len(cases)
    if model:
        b = run_lines(model, cases, "codec")
        for c, x, y in zip(cases, a, b):
            if x != y: mism.append(("codec", c, x, y))
            f = dict(p.split("=", 1) for p in x.split(" ", 3))
            bump("codec_fb_" + ("ok" if f["fb"][0].isdigit() else f["fb"]))
            bump("codec_ps_" + ("panic" if f["ps"] == "panic" else "ok"))
            if f["fb"][0].isdigit() and int(f["fb"].split()[0]) >= 2: nontriv.add(c)
            # oracle: round trip — when the trailer is empty the parsed blobs are the input blobs with offsets from 0
            t = c.split()
            n = int(t[0])
            if t[-1] == "-" and f["fb"][0].isdigit():
                got = parse_blobs(f["fb"]); off = 0; exp = []
                for i in range(n):
                    tp, idh, _o, ln, ul = t[1 + 5 * i:6 + 5 * i]
                    exp.append((idh, int(tp), off, int(ln), int(ul) if int(ul) > 0 else -1)); off += int(ln)
                if got != exp: viol.append(("header does not parse back to the blobs it was written from", "codec", c, x))
            if len(samples) < 2 and 1 <= n <= 2 and t[-1] == "-": samples.append({"mode": "codec", "case": c, "impl": x, "model": y})
    fb = [gen_frombin(rng) for _ in range(6000 if T else 800)]
    a = run_lines(impl, fb, "frombin")
    nev += len(fb)
    if model:
        b = run_lines(model, fb, "frombin")
        for c, x, y in zip(fb, a, b):
            if x != y: mism.append(("frombin", c, x, y))
            bump("frombin_" + ("ok" if x[0].isdigit() else x))

    # ---- (b) from_file on generated packs
    nb = 2500 if T else 350
    builds = [gen_build(rng) for _ in range(nb)]
    files = run_lines(impl, [b[0] for b in builds], "build")
    ff_lines, ff_meta = [], []
    for (line, spec, dmg), fhex in zip(builds, files):
        flen = 0 if fhex == "-" else len(fhex) // 2
        for (h, p) in hints_for(rng, spec, flen, 6 if T else 4):
            ff_lines.append("%d %d %s" % (h, p, fhex)); ff_meta.append((spec, dmg, flen, h, p))
    a = run_lines(impl, ff_lines, "fromfile")
    nev += len(ff_lines)
    mlines, desc_lines, desc_idx = [], [], []
    for i, (l, x) in enumerate(zip(ff_lines, a)):
        res, _, pair = x.partition(" | ")
        mlines.append(l + " " + pair)
        spec, dmg, flen, h, p = ff_meta[i]
        kind = "ok" if res[0].isdigit() else res
        bump("fromfile_dmg%d_%s" % (dmg, kind))
        hs = 32 + sum(41 if s[3] > 0 else 37 for s in spec)
        bump("fromfile_hint_" + ("none" if h < 0 else "exact" if h == hs else "small" if h < hs else "large"))
        if kind == "ok":
            got = parse_blobs(res)
            if p == flen:
                desc_lines.append(describes_line(flen, got)); desc_idx.append(i)
            if len(got) >= 2: nontriv.add(l)
        # the property on a well-formed pack: for every admissible hint the header lists exactly the blobs
        if dmg == 0 and p == flen and h + 4 <= flen and (h if h >= 0 else 0) + 4 < U32:
            off, exp = 0, []
            for s in spec:
                exp.append((s[1], s[0], off, s[2], s[3] if s[3] > 0 else -1)); off += s[2]
            if kind != "ok" or parse_blobs(res) != exp:
                viol.append(("from_file does not return the blobs of a well-formed pack", "fromfile", l, x))
    if model:
        b = run_lines(model, mlines, "fromfile")
        for l, x, y in zip(mlines, a, b):
            if x.partition(" | ")[0] != y.partition(" d=")[0]: mism.append(("fromfile", l, x, y))
        # oracle (extracted Spec.describes_b) on the implementation's answers
        d = run_lines(model, desc_lines, "layout") if desc_lines else []
        for k, v in zip(desc_idx, d):
            if v.strip() != "1":
                viol.append(("from_file accepted a header that does not lay out the file (contiguous offsets from 0, sizes add up to the file size)", "fromfile", ff_lines[k], a[k]))
        cov["fromfile_oracle_evaluations"] = len(d)
        for l, x, y in list(zip(mlines, a, b))[:400]:
            if len(samples) < 4 and x[0].isdigit() and len(l) < 700: samples.append({"mode": "fromfile", "case": l, "impl": x, "model": y})

    # ---- (c) packer state machine
    pk = [gen_packer(rng) for _ in range(5000 if T else 700)]
    a = run_lines(impl, pk, "packer")
    nev += len(pk)
    if model:
        b = run_lines(model, pk, "packer")
        dl, di = [], []
        for i, (c, x, y) in enumerate(zip(pk, a, b)):
            ym, _, sp = y.partition(" | spec=")
            if x != ym: mism.append(("packer", c, x, y))
            if sp.strip() != "1" and not ym in ("panic", "err"): mism.append(("packer-spec", c, x, y))
            np_ = x.count("P ")
            bump("packer_packs_%s" % (np_ if np_ < 4 else ">=4"))
            if np_ >= 2: nontriv.add(c)
            for part in x.split(" ; "):
                t = part.split(" ", 7)
                if t[0] != "P" or len(t) < 8: continue
                blobs = parse_blobs(t[7])
                dl.append(describes_line(int(t[5]), blobs)); di.append(i)
                if int(t[4]) != (0 if t[2] == "-" else len(t[2]) // 2) + 32 or int(t[3]) != int(t[4]):
                    viol.append(("encrypted header length is not plaintext + 32 or the length field is wrong", "packer", c, x))
                if t[2] == "fail": viol.append(("header of an emitted pack does not decrypt", "packer", c, x))
        d = run_lines(model, dl, "describes") if dl else []
        for k, v in zip(di, d):
            if v.strip() != "1": viol.append(("packer emitted a pack whose index entry does not describe the file", "packer", pk[k], a[k]))
        cov["packer_oracle_evaluations"] = len(d)

    # ---- (e) repacker: coalescing and slicing
    rp = run_repack(ctx, impl, model, bump, viol, mism, nontriv, samples) if model else {}
    nev += rp.get("evaluations", 0)

    # ---- (d) end to end
    e2e = run_e2e(ctx, impl, model, bump, viol, mism, nontriv, samples) if model else {}
    # A violation seen in an end-to-end scenario must recur when the scenario is run alone: under
    # heavy machine load the library itself is flaky (GlobalIndex::into_index panics with "index
    # still in use" after its 100 ms wait), which is not a C08 matter.
    flaky = 0
    for c in sorted({v[2] for v in viol if v[1] == "e2e"}):
        whats = {v[0] for v in viol if v[1] == "e2e" and v[2] == c}
        hits = 0
        for _ in range(2):
            v2, m2 = [], []
            run_e2e(ctx, impl, model, lambda k, n=1: None, v2, m2, set(), [], only=[c])
            if any(x[0] in whats for x in v2): hits += 1
        if hits == 0:
            flaky += len(whats)
            viol[:] = [v for v in viol if not (v[1] == "e2e" and v[2] == c)]
    e2e["e2e_unconfirmed_violations_dropped"] = flaky
    nev += e2e.get("evaluations", 0)

    cov.update({"evaluations": nev, "distinct_nontrivial": len(nontriv),
                "rule": "codec: blob lists (0..%d entries, all four entry types, boundary lengths 0/1/2^16/2^31/2^32-1, arbitrary offsets) x trailers (none / partial entry / unknown type byte / one more entry / compressed entry with raw length 0); from_file: packs built like the packer does (0..9 blobs) undamaged or damaged (wrong length field, truncated, flipped ciphertext bit, header lists fewer blobs / has trailing bytes / wrong length) x size hints (none, exact, too small, too large, pack_size-4, pack_size-3, 2^32-5..) x pack_size argument (true, off by one, 0, 3, 4, huge); packer: 0..12 add_raw steps over a small id pool with every save pattern; e2e: see e2e_rule. non-trivial = at least two blobs parsed / two packs emitted / a repository with >= 2 packs; distinct by full case text" % (120 if T else 40),
                "samples": samples[:6], "distribution": hist,
                "traces_validated_against_impl": nev, "disagreements_checked": len(mism) + len(viol),
                "model_impl_mismatches": len(mism), "oracle_violations": len(viol)})
    cov.update({k: v for k, v in e2e.items() if k != "evaluations"})
    cov.update({k: v for k, v in rp.items() if k != "evaluations"})
    cov.update({k: v for k, v in ex.items() if k != "evaluations"})
    for what, mode, case, got in viol[:40]:
        ctx.violation(what, {"mode": mode, "case": case if len(case) < 20000 else case[:20000] + "...", "impl": got[:4000],
                             "how_to_replay": "echo '<case>' | <harness>/c08 - <mode>   (formats: harness/src/bin/c08.rs)"},
                      signature=classify(what, mode, case, got))
    if mism and not viol:
        m0 = mism[0]
        ctx.violation("correspondence broken: extracted model disagrees with the implementation in mode %s (%d cases) although every oracle holds" % (m0[0], len(mism)),
                      {"mode": m0[0], "case": m0[1][:20000], "impl": m0[2][:3000], "model": m0[3][:3000]}, no_input=True)
    vlib.finish_broken_obligations(ctx)


def extreme_cases(T, max_count):
    """(name, case line) — tpe pack_size nspec { count idbase datalen ulen }"""
    big = 4000000000
    c = [("count_limit_compressed_1B", "1 %d 1 %d 1000 1 7" % (big, max_count + 1)),
         ("count_limit_uncompressed_2B", "0 %d 1 %d 5 2 -1" % (big, max_count)),
         ("size_limit", "1 1000 2 7 100 300 -1 3 100 1 9"),
         ("empty_flush", "1 %d 0" % big),
         ("only_duplicates", "0 %d 3 1 77 5 -1 1 77 5 -1 1 77 9 3" % big),
         ("zero_length_blobs", "1 %d 2 3 50 0 -1 3 60 0 4" % big),
         ("size_limit_one", "0 1 1 4 900 1 -1"),
         ("single_huge_blob", "1 50 1 1 9 %d -1" % (3000000 if T else 300000))]
    if T:
        c += [("count_limit_minus_one_compressed", "1 %d 1 %d 2000 1 3" % (big, max_count - 1)),
              ("two_full_packs_mixed_entries", "1 %d 2 %d 10 1 -1 %d 50000 2 12" % (big, max_count, max_count + 3)),
              ("size_limit_boundary", "0 300 3 1 1 299 -1 1 2 1 -1 1 3 300 5")]
    return c


def run_extremes(ctx, impl, model, bump, viol, mism, nontriv, samples, only=None):
    T = ctx.thorough()
    mc = 10000
    try:
        import importlib.util
        sp = importlib.util.spec_from_file_location("c08x", os.path.join(ctx.pdir, "extract.py")); ex = importlib.util.module_from_spec(sp); sp.loader.exec_module(ex)
        mc = ex.gen(REPO)[1].get("MAX_COUNT", 10000)
    except Exception:
        pass
    cases = extreme_cases(T, mc) if only is None else [("replay", c) for c in only]
    lines = [c for _, c in cases]
    a = run_lines(impl, lines, "packauto", tag="ex")
    b = run_lines(model, lines, "packauto", tag="ex")
    dl, di = [], []
    summary = {}
    for (name, l), x, y in zip(cases, a, b):
        if x != y: mism.append(("packauto", l, x[:3000], y[:3000]))
        packs = [] if x in ("none", "err", "panic") else x.split(" ; ")
        summary[name] = []
        if x in ("err", "panic"):
            viol.append(("the packer fails on an admissible extreme input (%s): %s" % (name, x), "packauto", l, x))
        for part in packs:
            head, _, ff = part.partition(" | ")
            t = head.split(" ", 7)
            if t[0] != "P" or len(t) < 8:
                viol.append(("packer emitted an unreadable pack (%s)" % name, "packauto", l, part[:300])); continue
            blobs = parse_blobs(t[7])
            summary[name].append("%d blobs, %s bytes, %s" % (len(blobs), t[5], ff))
            if len(blobs) >= 2: nontriv.add("ex " + l)
            if len(blobs) > mc:
                viol.append(("a pack holds more than MAX_COUNT blobs (%s)" % name, "packauto", l, "%d blobs" % len(blobs)))
            bad = [f for f in ff.split() if not f.endswith("=same")]
            if bad:
                viol.append(("PackHeader::from_file does not return the index entry of a pack the packer just wrote (%s: %d blobs, header %s bytes): %s"
                             % (name, len(blobs), t[4], " ".join(b_[:60] for b_ in bad)), "packauto", l, "pack of %d blobs, file %s bytes: %s" % (len(blobs), t[5], " ".join(b_[:200] for b_ in bad))))
            if int(t[4]) != (0 if t[2] in ("-", "fail") else len(t[2]) // 2) + 32 or int(t[3]) != int(t[4]) or t[2] == "fail":
                viol.append(("encrypted header length / length field wrong (%s)" % name, "packauto", l, head[:200]))
            dl.append(describes_line(int(t[5]), blobs)); di.append((name, l))
    d = run_lines(model, dl, "describes", tag="ex") if dl else []
    for (name, l), v in zip(di, d):
        if v.strip() != "1": viol.append(("packer emitted a pack whose index entry does not describe the file (%s)" % name, "packauto", l, name))
    if samples is not None and len(samples) < 8 and cases:
        samples.append({"mode": "packauto", "case": cases[2][1] if len(cases) > 2 else cases[0][1], "impl": (a[2] if len(a) > 2 else a[0])[:600]})
    return {"evaluations": len(lines) + len(dl), "extreme_cases": summary,
            "extremes_rule": "packs closed by the blob-count limit (MAX_COUNT one-/two-byte blobs, 41- and 37-byte header entries), by the size limit, a single huge blob, an empty flush, only duplicates, zero-length blobs: real BasicPacker with its own should_save, every pack re-read by the real PackHeader::from_file (hints none/exact/0/max), all compared with the extracted packer_run_auto + from_file. The age limit (5 minutes) is not reachable in a check run and stays an oracle of the model."}


def run_repack(ctx, impl, model, bump, viol, mism, nontriv, samples):
    rng = ctx.rng
    T = ctx.thorough()
    ev = 0
    # coalesce (copy_blobs path) and coalloc (prune path)
    lines, model_lines, metas = [], [], []
    for _ in range(4000 if T else 600):
        big = rng.random() < 0.3
        r = rng.random()
        if r < 0.6:
            _, es = gen_centries(rng, big); es = sort_ce(es); lines.append("0 " + ce_toks(es)); model_lines.append(lines[-1])
        elif r < 0.8:
            _, es = gen_centries(rng, big, distinct=True); sh = es[:]; rng.shuffle(sh); es = sort_ce(es)
            lines.append("1 " + ce_toks(sh)); model_lines.append("1 " + ce_toks(es))
        else:
            _, es = gen_centries(rng, big); rng.shuffle(es); lines.append("0 " + ce_toks(es)); model_lines.append(lines[-1])
        metas.append(es)
    a = run_lines(impl, lines, "coalesce")
    b = run_lines(model, model_lines, "coalesce")
    ev += len(lines)
    for l, x, y, es in zip(lines, a, b, metas):
        if x != y: mism.append(("coalesce", l, x, y))
        ch = parse_chunks(x)
        bump("coalesce_" + ("panic" if ch is None else "merged" if len(ch) < len(es) else "nomerge"))
        if ch is not None:
            if len(ch) >= 2 and len(ch) < len(es): nontriv.add("co " + l)
            bad = chunks_oracle(es, ch)
            if bad: viol.append(("coalescing of reads for copy: " + bad, "coalesce", l, x))
    lines = []
    for _ in range(1500 if T else 250):
        _, es = gen_centries(rng, rng.random() < 0.3, npacks=1)
        if rng.random() < 0.85: es = sort_ce(es)
        else: rng.shuffle(es)
        lines.append(ce_toks(es))
    a = run_lines(impl, lines, "coalloc")
    b = run_lines(model, lines, "coalloc")
    ev += len(lines)
    for l, x, y in zip(lines, a, b):
        if x != y: mism.append(("coalloc", l, x, y))
    # real BlobCopier runs
    nrun = 600 if T else 90
    specs = []
    for _ in range(nrun):
        fast = rng.random() < 0.6
        npk = rng.choice([1, 2, 2, 3])
        packs, plain, ents = {}, {}, []
        pids = sorted(set("%064x" % rng.getrandbits(256) for _ in range(npk)))
        specs.append({"fast": fast, "pids": pids, "blobs": {p: [bytes(rng.getrandbits(8) for _ in range(rng.choice([0, 1, 5, 20, rng.randint(0, 60)]) if fast else rng.randint(1, 40))) for _ in range(rng.choice([1, 2, 3, 5]))] for p in pids},
                      "gaps": {p: [rng.choice([0, 0, 0, 1, 3, 17]) for _ in range(6)] for p in pids}})
    # ciphertexts for the `copy` runs come from the implementation's key
    enc_lines = [" ".join([str(len(bl))] + [hx(b) for b in bl]) for sp in specs if not sp["fast"] for p in sp["pids"] for bl in [sp["blobs"][p]]]
    enc_out = run_lines(impl, enc_lines, "encblobs") if enc_lines else []
    k = 0
    lines, mlines, metas = [], [], []
    for sp in specs:
        store, ents, table = {}, [], []
        for p in sp["pids"]:
            bl = sp["blobs"][p]
            if sp["fast"]: cts = bl
            else:
                cts = [bytes.fromhex(h) if h != "-" else b"" for h in enc_out[k].split()]; k += 1
            data, off = b"", 0
            for j, (c, pl) in enumerate(zip(cts, bl)):
                g = sp["gaps"][p][j % 6]
                data += bytes(rng.getrandbits(8) for _ in range(g)); off += g
                if rng.random() < 0.9: ents.append((p, off, len(c), -1, "%064x" % rng.getrandbits(256), pl))
                table.append((hx(c), hx(pl)))
                data += c; off += len(c)
            store[p] = data
        r = rng.random()
        if sp["fast"] and r < 0.12 and ents:      # a range outside its pack -> error, nothing may be mis-copied
            i = rng.randrange(len(ents)); e = ents[i]; ents[i] = (e[0], e[1], e[2] + rng.choice([1, 500]), e[3], e[4], e[5])
        keys = set()
        ents = [e for e in ents if not ((e[0], e[1]) in keys or keys.add((e[0], e[1])))]
        srt = sort_ce(ents)
        mode = rng.random()
        given, sortflag = (srt, 0) if mode < 0.5 else (rng.sample(ents, len(ents)), 1) if mode < 0.8 else (rng.sample(ents, len(ents)), 0)
        final = srt if sortflag else given
        tpe = rng.randint(0, 1)
        body = "%d %s " % (len(store), " ".join("%s %s" % (p, hx(d)) for p, d in store.items()))
        lines.append("%d %d %d %s" % (tpe, 1 if sp["fast"] else 0, sortflag, body) + ce_toks([e[:5] for e in given]))
        mlines.append("%d %d 0 %s" % (tpe, 1 if sp["fast"] else 0, body) + ce_toks([e[:5] for e in final])
                      + " %d %s" % (len(table), " ".join("%s %s" % t for t in table)))
        metas.append((sp["fast"], final, store))
    a = run_lines(impl, lines, "repackrun")
    b = run_lines(model, mlines, "repack")
    ev += len(lines)
    for l, x, y, (fast, final, store) in zip(lines, a, b, metas):
        xo, _, xc = x.partition(" | ")
        yo, _, rest = y.partition(" | ")
        yc, _, flags = rest.partition(" | ")
        bump("repackrun_%s_%s" % ("fast" if fast else "copy", xo.split()[0]))
        def strip_ulen(o): return " ".join(t.rsplit(":", 1)[0] if ":" in t else t for t in o.split())
        if (xo if fast else strip_ulen(xo)) != (yo if fast else strip_ulen(yo)) or (xo.startswith("ok") and xc != yc): mism.append(("repackrun", l, x, y))
        if xo.startswith("ok"):
            if len(final) >= 2: nontriv.add("rp " + l)
            got = [(t.split(":")[0], t.split(":")[1]) for t in xo.split()[2:]]
            exp = [(e[4], hx(store[e[0]][e[1]:e[1] + e[2]]) if fast else hx(e[5])) for e in final]
            if got != exp:
                viol.append(("repacked blobs do not have the bytes of their source locations (%s)" % ("copy_fast" if fast else "copy"), "repackrun", l, x))
            ch = parse_chunks(xc)
            bad = chunks_oracle([e[:5] for e in final], ch) if ch is not None else "chunks unreadable"
            if bad: viol.append(("coalescing of reads for copy: " + bad, "repackrun", l, x))
            if flags.strip() and "exp=1" not in flags: mism.append(("repack-spec", l, x, y))
    return {"evaluations": ev, "repack_coalesce_cases": (4000 if T else 600) + (1500 if T else 250), "repack_blobcopier_runs": nrun,
            "repack_rule": "coalesce: 1..3 packs (ids sharing 31-byte prefixes half of the time) x blob layouts with holes 0/1/MAX_HOLESIZE-1/MAX_HOLESIZE/MAX_HOLESIZE+1, lengths around LIMIT_PACK_READ and offsets near 2^32, given sorted, shuffled+sort_unstable, or shuffled; real BlobCopier runs (copy_fast on arbitrary bytes, copy on blobs encrypted with the source key) over 1..3 source packs with gaps, new pack parsed back and compared with the source ranges"}


def classify(what, mode, case, got):
    return None


def gen_e2e(rng, T):
    seed = rng.getrandbits(32)
    comp = rng.choice([-1, -1, 1, 3, 10])
    dpack = rng.choice([1, 1, 150, 400, 2000, 50000])
    tpack = rng.choice([1, 200, 1000, 50000])
    chunk = rng.choice([16, 64, 256, 1024])
    nfiles = rng.choice([1, 3, 6, 10])
    maxsize = rng.choice([100, 700, 3000]) if chunk >= 64 else rng.choice([100, 400])
    steps = ["B"]
    for _ in range(rng.choice([1, 2, 3])):
        steps.append(rng.choice(["B", "B", "F", "Pf", "Pr", "D"]))
    if rng.random() < 0.7: steps += ["F", rng.choice(["Pf", "Pr"])]
    if rng.random() < 0.5: steps.append("C")
    steps.append("R%d" % rng.choice([0, 0, 1, 2, 3, 5]))
    if rng.random() < 0.5: steps += ["B", "R0"]
    steps.append("T")
    return "%d %d %d %d %d %d %d %s" % (seed, comp, dpack, tpack, chunk, nfiles, maxsize, " ".join(steps))


def run_e2e(ctx, impl, model, bump, viol, mism, nontriv, samples, only=None):
    rng = ctx.rng
    T = ctx.thorough()
    cases = []
    corpus = os.path.join(ctx.pdir, "corpus.txt")
    if os.path.exists(corpus):
        for ln in open(corpus):
            ln = ln.split("#")[0].strip()
            if ln.startswith("e2e "): cases.append(ln[4:])
    n = 60 if T else 10
    while len(cases) < n: cases.append(gen_e2e(rng, T))
    if only is not None: cases = list(only)
    # bounded harness processes: batches of 8 scenarios, 8 minutes each at most
    blocks, timeouts, kept = [], 0, []
    for b0 in range(0, len(cases), 8):
        batch = cases[b0:b0 + 8]
        path = os.path.join(vlib.BUILD, "C08", "e2e_%d.txt" % os.getpid())
        open(path, "w").write("\n".join(batch) + "\n")
        rc, out, err = vlib.sh2([impl, path, "e2e"], timeout=480)
        os.remove(path)
        if rc == 124:
            timeouts += len(batch); log("e2e batch timed out (machine load?) - %d scenarios skipped" % len(batch)); continue
        if rc != 0:
            raise RuntimeError("e2e harness failed rc=%s\n%s" % (rc, err[-2000:]))
        bl, cur = [], []
        for ln in out.splitlines():
            if ln.startswith("end "):
                bl.append((cur, ln[4:])); cur = []
            else:
                cur.append(ln)
        if len(bl) != len(batch):
            raise RuntimeError("e2e harness returned %d blocks for %d cases" % (len(bl), len(batch)))
        blocks += bl; kept += batch
    cases = kept
    ev = 0
    npacks_total, nrepair, ndumps, tiny = 0, 0, 0, {}
    cache = {}            # (pack id, hint, size) -> model answer
    todo = []             # model lines to run
    checks = []           # deferred comparisons
    for case, (lines, status) in zip(cases, blocks):
        if status != "ok":
            viol.append(("end-to-end scenario failed in the library: " + status[:300], "e2e", case, status)); continue
        dumps, order = {}, []
        for ln in lines:
            t = ln.split(" ", 2)
            kind, tag = t[0], t[1]
            if kind == "tiny":
                tiny[t[2][:40]] = tiny.get(t[2][:40], 0) + 1; continue
            if kind in ("enddump", "indexfile"): continue
            d = dumps.setdefault(tag, {"packs": {}, "implff": [], "index": [], "snaps": {}, "check": None, "note": None})
            if tag not in order: order.append(tag)
            rest = t[2] if len(t) > 2 else ""
            if kind == "pack":
                head, _, pair = rest.partition(" | ")
                pid, size, fhex = head.split(" ")
                ct, pt = pair.split(" ")
                d["packs"][pid] = (int(size), fhex, ct, pt)
            elif kind == "implff":
                pid, hint, res = rest.split(" ", 2)
                d["implff"].append((pid, int(hint), res))
            elif kind == "index":
                ixid, dele, pid, size, tflag, blobs = rest.split(" ", 5)
                d["index"].append((ixid, int(dele), pid, size, blobs))
                d.setdefault("timed", []).append(int(tflag))
            elif kind == "snap":
                sid, nf, dg = rest.split(" ")
                d["snaps"][sid] = (nf, dg)
            elif kind == "check": d["check"] = rest
            elif kind == "note": d["note"] = rest
        digests = {}
        repaired = False
        for tag in order:
            d = dumps[tag]
            if tag.endswith("pre"): continue
            if tag.lstrip("0123456789").startswith("R"): repaired = True
            # the writer stamps every IndexPack it hands to the indexer (re-read headers of repair-index carry no time)
            tm = d.get("timed", [])
            bump("e2e_index_entries_with_time", sum(tm)); bump("e2e_index_entries_without_time", len(tm) - sum(tm))
            if not repaired and tag[-1] != "C" and 0 in tm:
                viol.append(("an index entry written by the packer's file writer has no time (step %s)" % tag, "e2e", case, tag))
            iscopy = tag[-1] == "C"
            ndumps += 1
            if len(d["packs"]) >= 2: nontriv.add(case + "#" + tag)
            npacks_total += len(d["packs"])
            bump("e2e_step_" + tag.lstrip("0123456789")[:2])
            if d["check"] != "ok":
                viol.append(("check(read_data) is not clean after step %s: %s" % (tag, d["check"]), "e2e", case, tag))
            byix = {}
            for (ixid, dele, pid, size, blobs) in d["index"]: byix.setdefault(pid, []).append((ixid, dele, size, blobs))
            for pid, ents in byix.items():
                if pid not in d["packs"] and any(e[1] == 0 for e in ents):
                    viol.append(("index lists pack %s that is not in the backend (step %s)" % (pid[:12], tag), "e2e", case, tag))
            for pid, (size, fhex, ct, pt) in d["packs"].items():
                raw = bytes.fromhex(fhex) if fhex != "-" else b""
                ev += 1
                if hashlib.sha256(raw).hexdigest() != pid:
                    viol.append(("pack name is not the SHA-256 of its bytes (step %s)" % tag, "e2e", case, pid))
                if len(raw) != size:
                    viol.append(("listed size of a pack differs from its length (step %s)" % tag, "e2e", case, pid))
                if pt == "fail" or (0 if ct == "-" else len(ct) // 2) != (0 if pt in ("-", "fail") else len(pt) // 2) + 32:
                    viol.append(("pack trailer does not decrypt / ciphertext is not plaintext + 32 (step %s)" % tag, "e2e", case, pid))
                ents = byix.get(pid, [])
                if len(ents) != 1:
                    viol.append(("pack %s is listed by %d index entries (step %s)" % (pid[:12], len(ents), tag), "e2e", case, tag))
                for (ixid, dele, isz, blobs) in ents:
                    if isz != "-" and int(isz) != size:
                        viol.append(("index size of pack differs from the file size (step %s)" % tag, "e2e", case, pid))
                    checks.append(("index", (pid, -1, size), blobs, case, tag))
                for (p2, hint, res) in d["implff"]:
                    if p2 == pid: checks.append(("impl", (pid, hint, size), res, case, tag))
                for hint in set([-1] + [h for (p2, h, _) in d["implff"] if p2 == pid]):
                    k = (pid, hint, size)
                    if k not in cache:
                        cache[k] = None
                        todo.append((k, "%d %d %s %s %s" % (hint, size, fhex, ct, pt)))
            for sid, v in d["snaps"].items():
                key = ("c" if iscopy else "") + sid
                if key in digests and digests[key] != v:
                    viol.append(("snapshot %s restores differently after step %s" % (sid[:12], tag), "e2e", case, tag))
                digests.setdefault(key, v)
            if tag.lstrip("0123456789").startswith("R"):
                nrepair += 1
                pre = dumps.get(tag + "pre", {"snaps": {}})["snaps"]
                if pre != d["snaps"]:
                    viol.append(("snapshots restore differently after deleting index files and repair_index (step %s: %s)" % (tag, d["note"]), "e2e", case, tag))
    res = run_lines(model, [l for _, l in todo], "fromfile", tag="e2e") if todo else []
    for (k, _), y in zip(todo, res): cache[k] = y
    ev += len(todo)
    bad_d = 0
    for kind, k, exp, case, tag in checks:
        y = cache[k]
        ans, _, dflag = y.partition(" d=")
        if kind == "impl":
            if ans != exp: mism.append(("e2e-fromfile", "%s hint=%d size=%d" % k, exp, y))
        else:
            if ans != exp:
                viol.append(("the blobs the pack's own header lists differ from its index entry (step %s)" % tag, "e2e", case, "pack %s: header %s / index %s" % (k[0], ans[:1500], exp[:1500])))
            elif dflag.strip() != "1":
                bad_d += 1
                viol.append(("pack header is not a contiguous, duplicate-free, single-type description of the file (step %s)" % tag, "e2e", case, "pack %s: %s" % (k[0], ans[:1500])))
    if len(samples) < 6 and todo:
        k, l = todo[0]
        samples.append({"mode": "e2e-fromfile", "case": l if len(l) < 1500 else l[:1500] + "...", "model": cache[k][:600]})
    return {"evaluations": ev, "e2e_cases": len(cases), "e2e_scenarios_skipped_by_timeout": timeouts, "e2e_dumps": ndumps, "e2e_packs_parsed_by_extracted_from_file": len([1 for (k, _) in todo if k[1] == -1]),
            "e2e_pack_observations": npacks_total, "e2e_repair_index_runs": nrepair, "e2e_index_vs_header_comparisons": len([c for c in checks if c[0] == "index"]),
            "e2e_impl_vs_model_from_file": len([c for c in checks if c[0] == "impl"]),
            "e2e_tiny_pack_repair_index": tiny,
            "e2e_rule": "scenario = config (compression off/1/3/10, data pack target 1 B (one blob per pack) .. 50 kB, tree pack target 1 B .. 50 kB, fixed chunk 16..1024 B) x 1..10 files (empty, 1 byte, duplicates, compressible, random) x steps drawn from backup / forget / prune with repack_all and fast or re-encoding repack / copy into a second repository with another key and compression / delete all or a subset of index files + repair_index; after every step all packs of the backend are dumped, parsed by the extracted from_file, compared with the index files, SHA-256, listing size, check(read_data) and per-snapshot content digests"}
