(* prelude: zn nat *)
(* C08 driver: same case lines as harness/src/bin/c08.rs (modes codec, frombin, fromfile, packer, rebuild). *)
let mode = if Array.length Sys.argv > 2 then Sys.argv.(2) else "codec"

let hexval c = match c with
  | '0'..'9' -> Char.code c - 48 | 'a'..'f' -> Char.code c - 87 | 'A'..'F' -> Char.code c - 55
  | _ -> failwith "hex"
let raw_of_hex s =
  if s = "-" then "" else
  String.init (String.length s / 2) (fun i -> Char.chr (hexval s.[2*i] * 16 + hexval s.[2*i+1]))
(* table of the 256 byte values as N, built once *)
let ntab = Array.init 256 n_of_int
let list_of_raw_sub s o l =
  let rec go i acc = if i < o then acc else go (i - 1) (ntab.(Char.code s.[i]) :: acc) in
  go (o + l - 1) []
let list_of_raw s = list_of_raw_sub s 0 (String.length s)
let bytes_of_hex s = list_of_raw (raw_of_hex s)
let hex_of_bytes l =
  if l = [] then "-" else begin
    let b = Buffer.create 64 in
    List.iter (fun x -> Buffer.add_string b (Printf.sprintf "%02x" (int_of_n x))) l;
    Buffer.contents b end

let fmt_blobs bs =
  let b = Buffer.create 128 in
  Buffer.add_string b (string_of_int (List.length bs));
  List.iter (fun x ->
    Buffer.add_string b (Printf.sprintf " %s:%d:%d:%d:%s" (hex_of_bytes x.bid)
      (match x.btpe with Tree -> 0 | Data -> 1) (int_of_n x.boff) (int_of_n x.blen)
      (match x.bulen with None -> "-" | Some u -> string_of_int (int_of_n u)))) bs;
  Buffer.contents b

let tpe_of n = if n = 0 then Tree else Data
let ulen_of u = if u <= 0 then None else Some (n_of_int u)   (* NonZeroU32::new *)

let fmt_res f = function Panic -> "panic" | Err -> "err" | Ok x -> f x
let fmt_opt = function None -> "panic" | Some v -> string_of_int (int_of_n v)

let rd_blobs t =
  let n = ni t in
  ntimes n (fun () ->
    let tp = tpe_of (ni t) in
    let i = bytes_of_hex (next t) in
    let off = ni t in let len = ni t in let ul = ni t in
    { bid = i; btpe = tp; boff = n_of_int off; blen = n_of_int len; bulen = ulen_of ul })

let codec_case line =
  let t = toks line in
  let bs = rd_blobs t in
  let trailer = bytes_of_hex (next t) in
  let tb = hdr_to_binary bs in
  Printf.sprintf "tb=%s sz=%s ps=%s fb=%s" (hex_of_bytes tb) (fmt_opt (hdr_size bs)) (fmt_opt (hdr_pack_size bs))
    (fmt_res fmt_blobs (hdr_from_binary (tb @ trailer)))

let frombin_case line = fmt_res fmt_blobs (hdr_from_binary (bytes_of_hex (String.trim line)))

(* fromfile: hint ps filehex cthex pthex|fail   (dec = the one decryption the key owner supplied) *)
let read_partial_of raw = fun off len ->
  let o = int_of_n off and l = int_of_n len in
  if o + l <= String.length raw then Some (list_of_raw_sub raw o l) else None
let dec_of ct pt = fun d -> if pt <> "fail" && hex_of_bytes d = ct then Some (bytes_of_hex pt) else None

let fromfile_case line =
  let t = toks line in
  let hint = ni t in let ps = ni t in
  let raw = raw_of_hex (next t) in
  let ct = next t in let pt = next t in
  let r = from_file (read_partial_of raw) (dec_of ct pt) (if hint < 0 then None else Some (n_of_int hint)) (n_of_int ps) in
  let orc = match r with Ok bs -> if describes_b bs (n_of_int (String.length raw)) then " d=1" else " d=0" | _ -> "" in
  fmt_res fmt_blobs r ^ orc

(* packer: tpe n { idhex datahex ulen save }  ; enc = 16 zero bytes ++ x ++ 16 zero bytes *)
let zeros k = List.init k (fun _ -> N0)
let enc0 x = zeros 16 @ x @ zeros 16
let rec take k l = if k = 0 then [] else match l with [] -> [] | x :: r -> x :: take (k-1) r
let rec drop k l = if k = 0 then l else match l with [] -> [] | _ :: r -> drop (k-1) r
let packer_case line =
  let t = toks line in
  let tp = tpe_of (ni t) in
  let n = ni t in
  let ops = ntimes n (fun () ->
    let i = bytes_of_hex (next t) in
    let d = bytes_of_hex (next t) in
    let ul = ni t in let sv = ni t = 1 in
    { op_data = d; op_id = i; op_ulen = ulen_of ul; op_save = sv }) in
  let spec = List.map (pack_of_group enc0 tp) (spec_groups [] ops) in
  match packer_run enc0 tp ops with
  | Panic -> "panic" | Err -> "err"
  | Ok packs ->
    let parts = List.map (fun (f, bs) ->
      let blen = List.fold_left (fun a b -> a + int_of_n b.blen) 0 bs in
      let fl = List.length f in
      let ct = take (fl - blen - 4) (drop blen f) in
      let pt = take (List.length ct - 32) (drop 16 ct) in
      Printf.sprintf "P %s %s %d %d %d - %s" (hex_of_bytes (take blen f)) (hex_of_bytes pt)
        (int_of_n (rd32 (drop (fl - 4) f))) (List.length ct) fl (fmt_blobs bs)) packs in
    (if parts = [] then "none" else String.concat " ; " parts) ^ (if spec = packs then " | spec=1" else " | spec=0")

let describes_case line =
  let t = toks line in
  let size = ni t in
  let bs = rd_blobs t in
  if describes_b bs (n_of_int size) then "1" else "0"

let layout_case line =
  let t = toks line in
  let size = ni t in
  let bs = rd_blobs t in
  if layout_b bs (n_of_int size) then "1" else "0"

(* packauto: tpe pack_size nspec { count idbase datalen ulen }   (same generator as the harness) *)
let dec0 y = let n = List.length y in if n < 32 then None else Some (take (n - 32) (drop 16 y))
let packauto_case line =
  let t = toks line in
  let tp = tpe_of (ni t) in
  let limit = ni t in
  let nspec = ni t in
  let ops = List.concat (ntimes nspec (fun () ->
    let count = ni t in let base = ni t in let dl = ni t in let ul = ni t in
    List.init count (fun j ->
      let v = base + j in
      let idb = List.init 32 (fun k -> if k < 8 then ntab.((v lsr (8 * (7 - k))) land 255) else N0) in
      { op_data = List.init dl (fun k -> ntab.((v + 3 * k) mod 256)); op_id = idb; op_ulen = ulen_of ul; op_save = false }))) in
  match packer_run_auto enc0 tp (n_of_int limit) ops with
  | Panic -> "panic" | Err -> "err"
  | Ok packs ->
    let parts = List.map (fun (f, bs) ->
      let blen = List.fold_left (fun a b -> a + int_of_n b.blen) 0 bs in
      let fl = List.length f in
      let ct = take (fl - blen - 4) (drop blen f) in
      let pt = take (List.length ct - 32) (drop 16 ct) in
      let tr = int_of_n (rd32 (drop (fl - 4) f)) in
      let want = fmt_blobs bs in
      let raw = String.init fl (let a = Array.of_list f in fun i -> Char.chr (int_of_n a.(i))) in
      let ff = List.map (fun (name, hint) ->
        let r = from_file (read_partial_of raw) dec0 hint (n_of_int fl) in
        name ^ "=" ^ (match r with
          | Panic -> "panic" | Err -> "err"
          | Ok b -> let g = fmt_blobs b in if g = want then "same" else "ok:" ^ String.concat "," (String.split_on_char ' ' g)))
        [("none", None); ("exact", Some (n_of_int tr)); ("zero", Some N0); ("max", Some (n_of_int (max (fl - 4) 0)))] in
      Printf.sprintf "P %s %s %d %d %d - %s | %s" (hex_of_bytes (take blen f)) (hex_of_bytes pt) tr (List.length ct) fl want
        (String.concat " " ff)) packs in
    if parts = [] then "none" else String.concat " ; " parts

(* ---- repacker ---- *)
let rd_entries t =
  let n = ni t in
  ntimes n (fun () ->
    let pack = bytes_of_hex (next t) in
    let off = ni t in let len = ni t in let ul = ni t in
    let i = bytes_of_hex (next t) in
    { ce_pack = pack; ce_loc = { l_off = n_of_int off; l_len = n_of_int len; l_ulen = ulen_of ul }; ce_id = i })

let fmt_chunks cs =
  let b = Buffer.create 128 in
  Buffer.add_string b (string_of_int (List.length cs));
  List.iter (fun (pack, bl) ->
    Buffer.add_string b (Printf.sprintf " C %s %d %d %d" (hex_of_bytes pack) (int_of_n bl.bl_off) (int_of_n bl.bl_len) (List.length bl.bl_blobs));
    List.iter (fun (l, i) ->
      Buffer.add_string b (Printf.sprintf " %s:%d:%d:%s" (hex_of_bytes i) (int_of_n l.l_off) (int_of_n l.l_len)
        (match l.l_ulen with None -> "-" | Some u -> string_of_int (int_of_n u)))) bl.bl_blobs) cs;
  Buffer.contents b

(* coalesce: sort n {...}  (sort flag: the list must already be in the sorted order; reported) *)
let coalesce_case line =
  let t = toks line in
  let _sort = ni t in
  let es = rd_entries t in
  match coalesce_all (cpb_coalesce true) (List.map from_index_entry es) with
  | None -> "panic"
  | Some cs -> fmt_chunks cs

(* coalloc: n {...}  all of one pack: BlobLocations::coalesce *)
let coalloc_case line =
  let t = toks line in
  let es = rd_entries t in
  let pack = match es with [] -> List.init 32 (fun _ -> N0) | e :: _ -> e.ce_pack in
  match coalesce_all bl_coalesce (List.map (fun e -> from_blob_location e.ce_loc e.ce_id) es) with
  | None -> "panic"
  | Some cs -> fmt_chunks (List.map (fun bl -> (pack, bl)) cs)

(* repack: fast npacks {packhex datahex} n {entries} ndec {cthex pthex}
   -> ok k id:bytes:ulen ... | chunks | sorted=b exp=b *)
let repack_case line =
  let t = toks line in
  let _tpe = ni t in
  let fast = ni t = 1 in
  let _sort = ni t in
  let np = ni t in
  let packs = ntimes np (fun () -> let p = next t in let d = next t in (p, bytes_of_hex d)) in
  let es = rd_entries t in
  let nd = if more t then ni t else 0 in
  let tbl = Hashtbl.create 16 in
  for _ = 1 to nd do let c = next t in let p = next t in Hashtbl.replace tbl c p done;
  let store p = List.assoc_opt (hex_of_bytes p) packs in
  let decode d _ = if fast then Some d else
    (match Hashtbl.find_opt tbl (hex_of_bytes d) with Some p -> Some (bytes_of_hex p) | None -> None) in
  let chunks = match coalesce_all (cpb_coalesce true) (List.map from_index_entry es) with
    | None -> "panic" | Some cs -> fmt_chunks cs in
  match repack true store decode es with
  | Panic -> "panic" | Err -> "err"
  | Ok out ->
    let exp = List.map (expected_of store decode) es = List.map (fun h -> Some h) out in
    Printf.sprintf "ok %d %s | %s | sorted=%d exp=%d" (List.length out)
      (String.concat " " (List.map (fun ((i, d), u) ->
         Printf.sprintf "%s:%s:%s" (hex_of_bytes i) (hex_of_bytes d)
           (match u with None -> "-" | Some u -> string_of_int (int_of_n u))) out))
      chunks (if sorted_ce es then 1 else 0) (if exp then 1 else 0)

let () =
  main_loop (match mode with
    | "codec" -> codec_case | "frombin" -> frombin_case | "fromfile" -> fromfile_case
    | "packer" -> packer_case | "describes" -> describes_case | "layout" -> layout_case
    | "packauto" -> packauto_case
    | "coalesce" -> coalesce_case | "coalloc" -> coalloc_case | "repack" -> repack_case
    | _ -> failwith "mode")
