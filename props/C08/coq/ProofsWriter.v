(* C08 — pack name = hash of the file bytes; the index entry carries that name, the packer's blobs
   and a time; and the composition: what a packer + writer run leaves in backend and index can be
   rebuilt by repair-index from any subset of its index entries. *)
From Verif.Base Require Import Tactics.
From Verif.C08 Require Import Extracted Model Spec ProofsCodec ProofsPacker ProofsFromFile ProofsRebuild Writer.
Local Open Scope N_scope.

Definition wkey (w : wpack) : ipack := (w_id w, w_blobs w).
Definition named (hash : bytes -> id) (packs : list (bytes * list iblob)) : list pk :=
  map (fun p => (hash (fst p), p)) packs.

Lemma writer_go_spec hash clock packs : forall k st,
  let r := writer_go hash clock k st packs in
  fst r = fst st ++ listing_of (named hash packs) /\
  map wkey (snd r) = map wkey (snd st) ++ truth_of (named hash packs) /\
  (Forall (fun w => w_time w <> None /\ w_size w = None) (snd st) ->
   Forall (fun w => w_time w <> None /\ w_size w = None) (snd r)).
Proof.
  induction packs as [|p packs IH]; intros k st; cbn [writer_go named map listing_of truth_of].
  - cbv zeta. rewrite !app_nil_r. auto.
  - cbv zeta. destruct (IH (S k) (writer_step hash (clock k) st p)) as (H1 & H2 & H3).
    cbv zeta in H1, H2, H3. rewrite H1, H2. unfold writer_step. cbn [fst snd].
    rewrite map_app, <- !app_assoc. cbn [map app wkey w_id w_blobs fst snd].
    split; [reflexivity|]. split; [reflexivity|].
    intro HF. apply H3. unfold writer_step. cbn [snd]. apply Forall_app. split; [assumption|].
    constructor; [|constructor]. cbn [w_time w_size]. split; [discriminate|reflexivity].
Qed.

Lemma pack_id_is_hash_of_file_lemma hash clock packs :
  let r := writer_run hash clock packs in
  fst r = map (fun p => (hash (fst p), fst p)) packs /\
  map wkey (snd r) = map (fun p => (hash (fst p), snd p)) packs /\
  Forall (fun w => w_time w <> None /\ w_size w = None) (snd r).
Proof.
  cbv zeta. unfold writer_run.
  destruct (writer_go_spec hash clock packs 0%nat ([], [])) as (H1 & H2 & H3). cbv zeta in *.
  cbn [fst snd map app] in *. unfold listing_of, truth_of, named in *. rewrite map_map in H1, H2. cbn [fst snd] in *.
  split; [assumption|]. split; [assumption|]. apply H3. constructor.
Qed.

(* ---- order of upload and registration ------------------------------------------------------- *)
Lemma writer_go_f_indexed_written hash clock packs fail_at : forall k st,
  incl (map w_id (snd st)) (map fst (fst st)) ->
  let r := writer_go_f true hash clock k st packs fail_at in
  incl (map w_id (snd r)) (map fst (fst r)).
Proof.
  induction packs as [|p packs IH]; intros k st Hst; cbn [writer_go_f]; [exact Hst|].
  destruct (match fail_at with Some n => Nat.eqb n k | None => false end); [exact Hst|].
  apply IH. cbn [fst snd]. rewrite !map_app. cbn [map fst w_id].
  apply incl_app; [apply incl_appl; exact Hst|apply incl_appr, incl_refl].
Qed.

(* every pack registered with the indexer (hence every pack a persisted index file can list) was
   stored before - for every upload failure point.  Uses the order found in the source. *)
Lemma indexed_pack_is_written_lemma hash clock packs fail_at :
  let r := writer_run_src hash clock packs fail_at in
  incl (map w_id (snd r)) (map fst (fst r)).
Proof.
  unfold writer_run_src, writer_run_f.
  change WRITER_INDEXES_AFTER_WRITE with true.
  apply writer_go_f_indexed_written. cbn. apply incl_refl.
Qed.

(* without failure the source order does not matter: same result as writer_run *)
Lemma writer_run_f_no_failure iaw hash clock packs : forall k st,
  writer_go_f iaw hash clock k st packs None = writer_go hash clock k st packs.
Proof.
  induction packs as [|p packs IH]; intros k st; cbn [writer_go_f writer_go]; [reflexivity|].
  rewrite IH. reflexivity.
Qed.

(* registering before the upload: one rejected upload leaves a listed pack that was never stored *)
Lemma index_before_write_refuted_lemma :
  exists hash clock packs fail_at,
    let r := writer_run_f false hash clock packs fail_at in
    ~ incl (map w_id (snd r)) (map fst (fst r)).
Proof.
  exists (fun f => f), (fun _ => 0%Z), [([1], [])], (Some 0%nat). cbn. intro H.
  destruct (H [1] (or_introl eq_refl)).
Qed.

Section WithCrypto.
Variables (enc : bytes -> bytes) (dec : bytes -> option bytes).
Hypothesis dec_enc : forall x, dec (enc x) = Some x.
Hypothesis enc_len : forall x, length (enc x) = (length x + 32)%nat.
Variable hash : bytes -> id.

(* the blob list of a good pack is determined by its bytes *)
Lemma good_pack_blobs_unique i1 i2 f bs1 bs2 :
  good_pack enc (i1, (f, bs1)) -> good_pack enc (i2, (f, bs2)) -> bs1 = bs2.
Proof.
  intros [[t1 W1] [F1 L1]] [[t2 W2] [F2 L2]]. cbn [fst snd] in *.
  pose proof (pack_wellformed_from_file enc dec dec_enc enc_len t1 f bs1 None F1 W1 L1 I) as E1.
  pose proof (pack_wellformed_from_file enc dec dec_enc enc_len t2 f bs2 None F2 W2 L2 I) as E2.
  congruence.
Qed.

(* packs of (possibly several) packer runs, named by the writer *)
Lemma packer_packs_good tpe ops packs :
  Forall wf_op ops -> packer_run enc tpe ops = Ok packs -> Forall (good_pack enc) (named hash packs).
Proof.
  intros Hwf Hrun.
  pose proof (packer_pack_wellformed_lemma enc enc_len tpe ops packs Hwf Hrun) as (Heq & HW & HL).
  unfold named. apply Forall_forall. intros p Hp. apply in_map_iff in Hp as [[f bs] [<- Hin]].
  rewrite Forall_forall in HW, HL. pose proof (HW _ Hin) as Hw. pose proof (HL _ Hin) as Hl. cbn [fst] in Hl.
  unfold good_pack. cbn [fst snd]. split; [exists tpe; assumption|]. split; [|assumption].
  subst packs. apply in_map_iff in Hin as [g [Hg Hin]]. unfold pack_of_group in Hg. inv Hg.
  pose proof (spec_groups_props ops [] g (NoDup_nil _) Hin) as (_ & _ & H3).
  apply blobs_of_wf.
  - rewrite Forall_forall in *. intros o Ho. apply Hwf. apply H3. assumption.
  - unfold pack_file in Hl. rewrite app_length in Hl. lia.
Qed.

(* every index entry the writer produced agrees with the packs, when the hash does not collide on
   the files that occur *)
Lemma written_index_agrees (P : list pk) :
  Forall (good_pack enc) P ->
  (forall p q, In p P -> In q P -> fst p = fst q -> fst (snd p) = fst (snd q)) ->
  Forall (entry_agrees P) (truth_of P).
Proof.
  intros Hg Hinj. apply Forall_forall. intros e He. unfold truth_of in He.
  apply in_map_iff in He as [[pid [f bs]] [<- Hin]]. cbn [fst snd].
  rewrite Forall_forall in Hg. pose proof (Hg _ Hin) as G.
  split.
  - cbn [snd]. destruct (good_sizes enc dec dec_enc enc_len _ _ _ G) as [Hps _]. congruence.
  - cbn [fst snd]. intros f' bs' Hin'. pose proof (Hinj _ _ Hin Hin' eq_refl) as Hf. cbn [fst snd] in Hf. subst f'.
    eapply good_pack_blobs_unique; [exact G|exact (Hg _ Hin')].
Qed.

Lemma sublist_agrees (P : list pk) (index full : list ipack) :
  Forall (entry_agrees P) full -> incl index full -> Forall (entry_agrees P) index.
Proof.
  intros H Hi. apply Forall_forall. intros e He. rewrite Forall_forall in H. apply H. apply Hi. assumption.
Qed.

(* composition: one packer run with its writer, then any subset of the index entries is lost *)
Lemma written_repo_rebuildable_lemma clock tpe ops be ix index read_all :
  Forall wf_op ops ->
  packer_with_writer enc hash clock tpe ops = Ok (be, ix) ->
  (forall p q, In p be -> In q be -> fst p = fst q -> snd p = snd q) ->      (* no hash collision among the written files *)
  incl index (map wkey ix) ->
  exists r, rebuild_index dec read_all be index = Ok r /\ Permutation r (map wkey ix).
Proof.
  intros Hwf Hrun Hinj Hsub. unfold packer_with_writer in Hrun.
  destruct (packer_run enc tpe ops) as [| |packs] eqn:R; try discriminate. injection Hrun as W.
  destruct (pack_id_is_hash_of_file_lemma hash clock packs) as (Hbe & Hix & _). cbv zeta in *.
  rewrite W in Hbe, Hix. cbn [fst snd] in Hbe, Hix.
  pose proof (packer_packs_good tpe ops packs Hwf R) as Hg.
  assert (Hl : be = listing_of (named hash packs)).
  { rewrite Hbe. unfold listing_of, named. rewrite map_map. reflexivity. }
  assert (Ht : map wkey ix = truth_of (named hash packs)).
  { rewrite Hix. unfold truth_of, named. rewrite map_map. reflexivity. }
  rewrite Ht in *. rewrite Hl in *. clear Hl Hbe.
  assert (Hag : Forall (entry_agrees (named hash packs)) (truth_of (named hash packs))).
  { apply written_index_agrees; [assumption|].
    intros p q Hp Hq Hpq.
    apply (Hinj (fst p, fst (snd p)) (fst q, fst (snd q))); try assumption;
      unfold listing_of; apply in_map_iff; eexists; split; try reflexivity; assumption. }
  destruct (rebuild_index_lemma enc dec dec_enc enc_len (named hash packs) Hg read_all index
              (sublist_agrees _ _ _ Hag Hsub)) as (r & Hr & Hp).
  exists r. split; assumption.
Qed.

End WithCrypto.

Example writer_example :
  let enc := fun x => repeat 0 16 ++ x ++ repeat 0 16 in
  let hash := fun f : bytes => firstn 32 (f ++ repeat 0 32) in
  exists be ix, packer_with_writer enc hash (fun k => Z.of_nat k) Data
                  [mkop [7;8;9] (repeat 1 32) None true; mkop [5] (repeat 2 32) (Some 9) false] = Ok (be, ix) /\
    length be = 2%nat /\ map fst be = map w_id ix.
Proof. cbv zeta. eexists. eexists. split; [vm_compute; reflexivity|]. split; reflexivity. Qed.
