(* C08 — executable model of the pack-header codec (repofile/packfile.rs), of
   PackHeader::from_file, of the BasicPacker/RawPacker state machine (blob/packer.rs)
   and of the index rebuild of repair-index (commands/repair/index.rs).
   Definitions only; constants come from Extracted.v (regenerated from the source).

   Conventions: bytes are N (< 256 by the wf predicates), ids are 32 bytes, u32 values
   are N with *checked* arithmetic: `Panic` is what a build with overflow checks does
   (the harness and `cargo test` builds), `Err` is a returned RusticError. *)
From Verif.Base Require Import Tactics.
From Verif.C08 Require Import Extracted.
Local Open Scope N_scope.

Definition byte := N.
Definition bytes := list byte.
Definition id := bytes.                      (* 32 bytes *)
Inductive blob_type := Tree | Data.

(* IndexBlob: id, type, BlobLocation{offset,length,uncompressed_length: Option<NonZeroU32>} *)
Record iblob := mkblob { bid : id; btpe : blob_type; boff : N; blen : N; bulen : option N }.

Inductive res (A : Type) := Panic | Err | Ok (a : A).
Arguments Panic {A}. Arguments Err {A}. Arguments Ok {A} a.

Definition bind {A B} (r : res A) (f : A -> res B) : res B :=
  match r with Panic => Panic | Err => Err | Ok a => f a end.

(* ---------------------------------------------------------------- u32 *)
Definition U32 : N := 4294967296.
Definition u32_add (a b : N) : option N := let r := a + b in if r <? U32 then Some r else None.
Definition u32_sub (a b : N) : option N := if b <=? a then Some (a - b) else None.
Definition opt_res {A} (o : option A) : res A := match o with Some a => Ok a | None => Panic end.

(* little-endian u32 (binrw `#[brw(little)]`) *)
Definition le32 (n : N) : bytes :=
  [n mod 256; (n / 256) mod 256; (n / 65536) mod 256; (n / 16777216) mod 256].
Definition rd32 (d : bytes) : N :=
  match d with
  | b0 :: b1 :: b2 :: b3 :: _ => b0 + 256 * b1 + 65536 * b2 + 16777216 * b3
  | _ => 0
  end.

Fixpoint bytes_eqb (a b : bytes) : bool :=
  match a, b with
  | [], [] => true
  | x :: a', y :: b' => (x =? y) && bytes_eqb a' b'
  | _, _ => false
  end.

Definition tpe_eqb (a b : blob_type) : bool :=
  match a, b with Tree, Tree => true | Data, Data => true | _, _ => false end.

(* ------------------------------------------------ HeaderEntry::from_blob / write *)
Definition magic_of (b : iblob) : N :=
  match bulen b, btpe b with
  | None, Data => MAGIC_DATA
  | None, Tree => MAGIC_TREE
  | Some _, Data => MAGIC_COMP_DATA
  | Some _, Tree => MAGIC_COMP_TREE
  end.

Definition entry_to_binary (b : iblob) : bytes :=
  magic_of b :: le32 (blen b) ++ (match bulen b with None => [] | Some u => le32 u end) ++ bid b.

(* PackHeaderRef::to_binary *)
Definition hdr_to_binary (bs : list iblob) : bytes := flat_map entry_to_binary bs.

(* HeaderEntry::length *)
Definition entry_len (b : iblob) : N :=
  match bulen b with None => ENTRY_LEN | Some _ => ENTRY_LEN_COMPRESSED end.

(* PackHeaderRef::size: fold(COMP_OVERHEAD, acc + entry.length()) in u32 *)
Definition hdr_size (bs : list iblob) : option N :=
  fold_left (fun acc b => match acc with None => None | Some a => u32_add a (entry_len b) end)
            bs (Some COMP_OVERHEAD).

(* PackHeaderRef::pack_size: fold(COMP_OVERHEAD + LENGTH_LEN, acc + length + entry.length()) *)
Definition hdr_pack_size (bs : list iblob) : option N :=
  fold_left (fun acc b => match acc with
                          | None => None
                          | Some a => match u32_add a (blen b) with
                                      | None => None
                                      | Some a' => u32_add a' (entry_len b)
                                      end
                          end)
            bs (u32_add COMP_OVERHEAD LENGTH_LEN).

(* ------------------------------------------------ HeaderEntry::read (binrw enum) *)
(* binrw tries the four variants in order; a variant fails with BadMagic when the first
   byte is not its magic and with an EOF error when the input ends inside it.
   `err.is_eof()` holds for the collected EnumErrors only if *every* variant failed with
   EOF, i.e. only when not even the magic byte could be read. *)
Inductive entry_res :=
| REof                       (* no byte left: all variants report EOF  -> loop ends *)
| RBad                       (* unknown magic, or input ends inside an entry -> error *)
| RGot (t : blob_type) (len : N) (ul : option N) (i : id) (rest : bytes).

Definition id_len : nat := 32.

Definition read_entry (d : bytes) : entry_res :=
  match d with
  | [] => REof
  | m :: r =>
    let comp := (m =? MAGIC_COMP_DATA) || (m =? MAGIC_COMP_TREE) in
    let known := (m =? MAGIC_DATA) || (m =? MAGIC_TREE) || comp in
    if negb known then RBad else
    let t := if (m =? MAGIC_TREE) || (m =? MAGIC_COMP_TREE) then Tree else Data in
    let need := if comp then (8 + id_len)%nat else (4 + id_len)%nat in
    (* `firstn` keeps the test linear in the entry size (same value as length r <? need) *)
    if (length (firstn need r) <? need)%nat then RBad else
    let len := rd32 r in
    let r1 := skipn 4 r in
    (* into_location: NonZeroU32::new(len_data) — a stored 0 becomes None *)
    let ul := if comp then (let raw := rd32 r1 in if raw =? 0 then None else Some raw) else None in
    let r2 := if comp then skipn 4 r1 else r1 in
    RGot t len ul (firstn id_len r2) (skipn id_len r2)
  end.

(* PackHeader::from_binary: loop { read entry; into_blob(offset); offset += length } *)
Fixpoint from_binary_go (fuel : nat) (d : bytes) (off : N) : res (list iblob) :=
  match fuel with
  | O => Err
  | S f =>
    match read_entry d with
    | REof => Ok []
    | RBad => Err
    | RGot t len ul i rest =>
      match u32_add off len with
      | None => Panic                                  (* offset += blob.location.length *)
      | Some off' =>
        match from_binary_go f rest off' with
        | Panic => Panic
        | Err => Err
        | Ok l => Ok (mkblob i t off len ul :: l)
        end
      end
    end
  end.

Definition hdr_from_binary (d : bytes) : res (list iblob) := from_binary_go (S (length d)) d 0.

(* ------------------------------------------------ PackHeader::from_file *)
Definition slice (f : bytes) (off len : N) : bytes :=
  firstn (N.to_nat len) (skipn (N.to_nat off) f).

(* ReadBackend::read_partial of a file: exactly `len` bytes at `off`, or an error *)
Definition read_of (f : bytes) (off len : N) : option bytes :=
  if off + len <=? N.of_nat (length f) then Some (slice f off len) else None.

Definition from_file (read_partial : N -> N -> option bytes) (dec : bytes -> option bytes)
           (hint : option N) (pack_size : N) : res (list iblob) :=
  let size_guess := match hint with Some h => h | None => 0 end in
  match u32_add size_guess LENGTH_LEN with
  | None => Panic                                             (* size_guess + LENGTH_LEN *)
  | Some read_size =>
  match u32_sub pack_size read_size with
  | None => Panic                                             (* pack_size - read_size *)
  | Some offset =>
  match read_partial offset read_size with
  | None => Err
  | Some data0 =>
  if (length data0 <? N.to_nat size_guess)%nat then Panic     (* Bytes::split_off out of bounds *)
  else
  let tail := skipn (N.to_nat size_guess) data0 in
  let data := firstn (N.to_nat size_guess) data0 in
  if (length tail <? 4)%nat then Err                           (* PackHeaderLength::from_binary *)
  else
  let size_real := rd32 tail in
  match u32_add size_real LENGTH_LEN with
  | None => Panic                                             (* size_real + LENGTH_LEN *)
  | Some hl4 =>
  if pack_size <? hl4 then Err else
  let hdr :=
    if size_real <=? size_guess
    then Some (skipn (N.to_nat (size_guess - size_real)) data)
    else read_partial (pack_size - size_real - LENGTH_LEN) size_real in
  match hdr with
  | None => Err
  | Some h =>
  match dec h with
  | None => Err
  | Some plain =>
  match hdr_from_binary plain with
  | Panic => Panic
  | Err => Err
  | Ok blobs =>
    match hdr_size blobs with
    | None => Panic
    | Some s =>
      if negb (s =? size_real) then Err else
      match hdr_pack_size blobs with
      | None => Panic
      | Some ps => if negb (ps =? pack_size) then Err else Ok blobs
      end
    end
  end end end end end end end.

(* ------------------------------------------------ BasicPacker / RawPacker *)
Record pstate := mkst { p_file : bytes; p_size : N; p_count : N; p_index : list iblob }.
Definition st0 : pstate := mkst [] 0 0 [].

Record pop := mkop { op_data : bytes; op_id : id; op_ulen : option N; op_save : bool }.

(* BasicPacker::has *)
Definition p_has (st : pstate) (i : id) : bool := existsb (fun b => bytes_eqb (bid b) i) (p_index st).

(* BasicPacker::write_data: len: u32 = data.len().try_into()?; file.add(data); size += len *)
Definition write_data (st : pstate) (d : bytes) : res (pstate * N) :=
  let len := N.of_nat (length d) in
  if U32 <=? len then Err else
  match u32_add (p_size st) len with
  | None => Panic
  | Some sz => Ok (mkst (p_file st ++ d) sz (p_count st) (p_index st), len)
  end.

(* BasicPacker::add_raw *)
Definition add_raw (tpe : blob_type) (st : pstate) (o : pop) : res pstate :=
  if p_has st (op_id o) then Ok st else
  let offset := p_size st in
  bind (write_data st (op_data o)) (fun '(st1, len) =>
  match u32_add (p_count st1) 1 with
  | None => Panic
  | Some c => Ok (mkst (p_file st1) (p_size st1) c
                       (p_index st1 ++ [mkblob (op_id o) tpe offset len (op_ulen o)]))
  end).

(* RawPacker::save = header_bytes; encrypt; write_header; take_data.
   Returns the emitted (file, IndexPack.blobs) — IndexPack.size stays None, id/time are
   set by the writer — and the reset state. *)
Definition save (enc : bytes -> bytes) (st : pstate) : res ((bytes * list iblob) * pstate) :=
  let header := enc (hdr_to_binary (p_index st)) in
  let headerlen := N.of_nat (length header) in
  if U32 <=? headerlen then Err else                       (* header.len().try_into::<u32>() *)
  bind (write_data st header) (fun '(st1, _) =>
  bind (write_data st1 (le32 headerlen)) (fun '(st2, _) =>
  match hdr_pack_size (p_index st2) with                   (* take_data: index.pack_size() *)
  | None => Panic
  | Some _ => Ok ((p_file st2, p_index st2), st0)
  end)).

(* RawPacker::add_raw for each op (save iff the oracle `should_save` says so — it depends on
   wall-clock time, so it is an arbitrary boolean per step), then RawPacker::finalize. *)
Fixpoint run_go (enc : bytes -> bytes) (tpe : blob_type) (st : pstate) (ops : list pop)
  : res (list (bytes * list iblob)) :=
  match ops with
  | [] => if p_count st =? 0 then Ok [] else bind (save enc st) (fun '(pk, _) => Ok [pk])
  | o :: r =>
    bind (add_raw tpe st o) (fun st1 =>
    if op_save o
    then bind (save enc st1) (fun '(pk, st2) => bind (run_go enc tpe st2 r) (fun l => Ok (pk :: l)))
    else run_go enc tpe st1 r)
  end.

Definition packer_run (enc : bytes -> bytes) (tpe : blob_type) (ops : list pop) :=
  run_go enc tpe st0 ops.

(* BasicPacker::should_save with PackSizer::fixed(limit): count >= MAX_COUNT || size >= min(limit,
   MAX_SIZE) || elapsed >= MAX_AGE — the age test is the only oracle left (`aged`). *)
Definition should_save_b (limit : N) (aged : bool) (st : pstate) : bool :=
  (MAX_COUNT <=? p_count st) || (N.min limit MAX_SIZE <=? p_size st) || aged.

(* the packer driven by its own should_save; `op_save o` is read as "the pack is older than MAX_AGE
   when o arrives" *)
Fixpoint run_auto (enc : bytes -> bytes) (tpe : blob_type) (limit : N) (st : pstate) (ops : list pop)
  : res (list (bytes * list iblob)) :=
  match ops with
  | [] => if p_count st =? 0 then Ok [] else bind (save enc st) (fun '(pk, _) => Ok [pk])
  | o :: r =>
    bind (add_raw tpe st o) (fun st1 =>
    if should_save_b limit (op_save o) st1
    then bind (save enc st1) (fun '(pk, st2) => bind (run_auto enc tpe limit st2 r) (fun l => Ok (pk :: l)))
    else run_auto enc tpe limit st1 r)
  end.

Definition packer_run_auto enc tpe limit ops := run_auto enc tpe limit st0 ops.

(* ------------------------------------------------ repair-index: re-derive the index *)
(* A repository's pack listing: (pack id, file bytes).  An index pack: (pack id, blobs).
   PackChecker::check_pack keeps an index entry iff the pack exists (first occurrence),
   its computed size equals the listed size and !read_all; every other listed pack is
   re-read with PackHeader::from_file (hint = header size of the index entry, or None
   for packs no index file mentions); unreadable packs are left out. *)
Definition ipack := (id * list iblob)%type.

Fixpoint remove_pack (i : id) (l : list (id * bytes)) : option (bytes * list (id * bytes)) :=
  match l with
  | [] => None
  | (j, f) :: r =>
    if bytes_eqb j i then Some (f, r)
    else match remove_pack i r with
         | None => None
         | Some (g, r') => Some (g, (j, f) :: r')
         end
  end.

(* one index pack through check_pack: (remaining listing, kept, to_read) *)
Definition check_one (read_all : bool) (st : list (id * bytes) * list ipack * list (id * option N * bytes))
           (p : ipack) : res (list (id * bytes) * list ipack * list (id * option N * bytes)) :=
  let '(listing, kept, toread) := st in
  let '(pid, blobs) := p in
  match hdr_pack_size blobs with                         (* p.pack_size() with size = None *)
  | None => Panic
  | Some index_size =>
    match remove_pack pid listing with
    | None => Ok (listing, kept, toread)                 (* not existing / already indexed *)
    | Some (f, listing') =>
      let size := N.of_nat (length f) in
      if negb (index_size =? size) || read_all
      then match hdr_size blobs with
           | None => Panic
           | Some h => Ok (listing', kept, toread ++ [(pid, Some h, f)])
           end
      else Ok (listing', kept ++ [p], toread)
    end
  end.

Fixpoint check_all (read_all : bool) st (ps : list ipack) :=
  match ps with
  | [] => Ok st
  | p :: r => bind (check_one read_all st p) (fun st' => check_all read_all st' r)
  end.

Fixpoint read_headers (dec : bytes -> option bytes) (l : list (id * option N * bytes)) : res (list ipack) :=
  match l with
  | [] => Ok []
  | (pid, hint, f) :: r =>
    match from_file (read_of f) dec hint (N.of_nat (length f)) with
    | Panic => Panic
    | Err => read_headers dec r                            (* warn, pack left out *)
    | Ok blobs => bind (read_headers dec r) (fun l' => Ok ((pid, blobs) :: l'))
    end
  end.

(* repair_index: index files are given as the concatenation of their `packs` lists *)
Definition rebuild_index (dec : bytes -> option bytes) (read_all : bool)
           (listing : list (id * bytes)) (index : list ipack) : res (list ipack) :=
  bind (check_all read_all (listing, [], []) index) (fun '(rest, kept, toread) =>
  bind (read_headers dec (toread ++ map (fun '(pid, f) => (pid, None, f)) rest)) (fun new =>
  Ok (kept ++ new))).
