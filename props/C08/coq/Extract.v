(* C08 — extraction of the executable model and oracle (ExtrOcamlBasic only). *)
Require Extraction.
Require Import ExtrOcamlBasic.
From Coq Require Import ZArith NArith.
From Verif.C08 Require Import Extracted Model Spec Repack.
Extraction "model_ml.ml" hdr_to_binary hdr_from_binary hdr_size hdr_pack_size from_file read_of
  packer_run rebuild_index describes_b layout_b spec_groups pack_of_group le32 rd32 Z.of_N packer_run_auto
  repack coalesce_all cpb_coalesce bl_coalesce from_index_entry from_blob_location sorted_ce expected_of.
