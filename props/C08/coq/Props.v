(* C08 — property theorems.  Nothing but statements closed by `exact`, each followed by
   Print Assumptions.  Model.v mirrors repofile/packfile.rs (codec, sizes, from_file),
   blob/packer.rs (BasicPacker/RawPacker) and commands/repair/index.rs; the constants come
   from Extracted.v, regenerated from the source on every run. *)
From Verif.Base Require Import Tactics.
From Verif.C08 Require Import Extracted Model Spec ProofsCodec ProofsPacker ProofsFromFile ProofsRebuild Repack ProofsRepack Writer ProofsWriter.
Local Open Scope N_scope.

(* Parsing the binary header of any list of index blobs gives the same blobs back, with the
   offsets recomputed contiguously from 0 (so: exactly the same list iff offsets were contiguous). *)
Theorem header_roundtrip : forall bs,
  Forall wf_blob bs -> total_len bs < U32 ->
  hdr_from_binary (hdr_to_binary bs) = Ok (reoffset 0 bs) /\
  (contiguous 0 bs <-> reoffset 0 bs = bs).
Proof. exact (fun bs H1 H2 => conj (header_roundtrip_lemma bs H1 H2) (reoffset_contiguous bs 0)). Qed.
Print Assumptions header_roundtrip.

(* ... and when the lengths do not fit u32 the offset accumulation overflows (debug panic). *)
Theorem header_roundtrip_overflow : forall bs,
  Forall wf_blob bs -> U32 <= total_len bs ->
  hdr_from_binary (hdr_to_binary bs) = Panic.
Proof. exact header_roundtrip_overflow_lemma. Qed.
Print Assumptions header_roundtrip_overflow.

(* A trailing partial entry or an unknown type byte is an error (binrw reports EOF only when
   no byte at all is left), never a silently shortened blob list. *)
Theorem trailing_garbage_rejected : forall bs tail,
  Forall wf_blob bs -> total_len bs < U32 -> read_entry tail = RBad ->
  hdr_from_binary (hdr_to_binary bs ++ tail) = Err.
Proof. exact trailing_garbage_rejected_lemma. Qed.
Print Assumptions trailing_garbage_rejected.

(* size() = |plaintext header| + crypto overhead; pack_size() = blobs + size() + length field;
   entries are 37 / 41 bytes. *)
Theorem header_sizes : forall bs s,
  Forall wf_blob bs -> hdr_size bs = Some s ->
  s = N.of_nat (length (hdr_to_binary bs)) + COMP_OVERHEAD /\
  (forall ps, hdr_pack_size bs = Some ps -> ps = total_len bs + s + LENGTH_LEN) /\
  Forall (fun b => length (entry_to_binary b) = match bulen b with None => 37%nat | Some _ => 41%nat end) bs.
Proof. exact header_sizes_lemma. Qed.
Print Assumptions header_sizes.

(* For every op sequence and every save oracle (should_save depends on wall-clock time), a run of
   the packer that neither panics nor errs emits exactly the packs of the declarative grouping:
   each file is  blobs ++ enc(header) ++ LE32 |enc(header)|,  its IndexPack lists exactly the
   accepted blobs in order with contiguous offsets from 0, true lengths, the packer's single
   type, no id twice, it is not empty, pack_size() of the index entry is the file size and
   size() is the length of the encrypted header.  `enc` is any function adding 32 bytes. *)
Theorem packer_pack_wellformed : forall (enc : bytes -> bytes) tpe ops packs,
  (forall x, length (enc x) = (length x + 32)%nat) ->
  Forall wf_op ops -> packer_run enc tpe ops = Ok packs ->
  packs = map (pack_of_group enc tpe) (spec_groups [] ops) /\
  Forall (pack_wellformed enc tpe) packs /\
  Forall (fun pk => N.of_nat (length (fst pk)) < U32) packs.
Proof. exact (fun enc tpe ops packs H => packer_pack_wellformed_lemma enc H tpe ops packs). Qed.
Print Assumptions packer_pack_wellformed.

(* Parsing an emitted pack with PackHeader::from_file returns exactly the IndexPack's blobs, for
   every size hint (none, too small => second read, too large) that does not make
   `pack_size - (hint + 4)` underflow.  enc/dec: any pair with dec (enc x) = Some x, +32 bytes. *)
Theorem from_file_inverts_packer : forall (enc : bytes -> bytes) (dec : bytes -> option bytes) tpe ops packs f bs hint,
  (forall x, dec (enc x) = Some x) -> (forall x, length (enc x) = (length x + 32)%nat) ->
  Forall wf_op ops -> packer_run enc tpe ops = Ok packs -> In (f, bs) packs ->
  (match hint with Some h => h + LENGTH_LEN <= N.of_nat (length f) | None => True end) ->
  from_file (read_of f) dec hint (N.of_nat (length f)) = Ok bs.
Proof. exact (fun enc dec tpe ops packs f bs hint H1 H2 => from_file_inverts_packer_lemma enc dec H1 H2 tpe ops packs f bs hint). Qed.
Print Assumptions from_file_inverts_packer.

(* ... and any hint beyond that bound is a panic of the overflow-checked build, whatever the file. *)
Theorem from_file_hint_underflow : forall (dec : bytes -> option bytes) rp hint ps,
  (match hint with Some h => h | None => 0 end) + LENGTH_LEN < U32 ->
  ps < (match hint with Some h => h | None => 0 end) + LENGTH_LEN ->
  from_file rp dec hint ps = Panic.
Proof. exact from_file_underflow. Qed.
Print Assumptions from_file_hint_underflow.

(* repair-index, for ANY subset of index files removed (and any stale or duplicated entries left):
   `packs` are the pack files of the backend, each a well-formed pack (what packer_pack_wellformed
   gives) named by its id; `index` is whatever index entries remain, each with a computable size
   and - if the pack it names exists - listing that pack's blobs.  Then PackChecker::check_pack over
   all entries followed by PackHeader::from_file on every pack not kept (hint = header size of the
   index entry, or none for unindexed packs; read_all or not) neither panics nor errs and yields,
   up to order, exactly one entry per existing pack with exactly the packer's blobs; hence the same
   set of (pack, type, id, offset, length, uncompressed length) tuples as the lost index had for
   existing packs.  Delete marks and pack times are not recoverable from packs (not claimed). *)
Theorem rebuild_index_equals_index : forall (enc : bytes -> bytes) (dec : bytes -> option bytes) read_all
    (packs : list pk) (index : list ipack),
  (forall x, dec (enc x) = Some x) -> (forall x, length (enc x) = (length x + 32)%nat) ->
  Forall (good_pack enc) packs ->
  Forall (entry_agrees packs) index ->
  exists r, rebuild_index dec read_all (listing_of packs) index = Ok r /\
            Permutation r (truth_of packs) /\
            Permutation (entries_of r) (entries_of (truth_of packs)).
Proof. exact (fun enc dec ra packs index H1 H2 H3 => rebuild_index_entries_lemma enc dec H1 H2 packs H3 ra index). Qed.
Print Assumptions rebuild_index_equals_index.

(* The repacker (prune repack, copy): for EVERY list of (source pack, location, blob id) - in the
   order sort_unstable() gives or any other -, every pack store and every blob decoder
   (identity for copy_fast; decrypt + decompress for copy), if coalescing the reads
   (CopyPackBlobs::coalesce / BlobLocations::coalesce under itertools' coalesce) and slicing each
   read back into blobs ends without panic or error, the blobs handed to the target packer are, in
   order, exactly (id, decode (bytes of the pack at [offset, offset+length)), uncompressed length)
   of each entry, and each such range lies inside its pack. *)
Theorem repack_preserves_blobs : forall (store : id -> option bytes) (decode : bytes -> option N -> option bytes)
    (es : list centry) (out : list handed),
  repack true store decode es = Ok out ->
  Forall2 (fun e h => expected_of store decode e = Some h) es out.
Proof. exact repack_preserves_blobs_lemma. Qed.
Print Assumptions repack_preserves_blobs.

(* ... and it does end that way whenever every blob lies inside its (existing) pack, decodes, and
   packs are shorter than 2^32 - MAX_HOLESIZE bytes (guaranteed by the packer's MAX_SIZE): no panic
   of the unchecked u32 sums in can_coalesce/append/slicing, no failed read. *)
Theorem repack_total : forall (store : id -> option bytes) (decode : bytes -> option N -> option bytes) (es : list centry),
  Forall (entry_inside store decode) es -> exists out, repack true store decode es = Ok out.
Proof. exact repack_total_lemma. Qed.
Print Assumptions repack_total.

(* The `self.pack_id == other.pack_id` conjunct of CopyPackBlobs::coalesce is necessary: without it
   (repack false) a sorted two-blob list from two packs hands a blob the bytes of the wrong pack. *)
Theorem repack_across_packs_refuted :
  exists (store : id -> option bytes) (es : list centry) out,
    sorted_ce es = true /\
    repack false store (fun d _ => Some d) es = Ok out /\
    ~ Forall2 (fun e h => expected_of store (fun d _ => Some d) e = Some h) es out.
Proof. exact repack_across_packs_refuted_lemma. Qed.
Print Assumptions repack_across_packs_refuted.

(* The file-writer actor: every pack is stored under hash(file bytes) (SHA-256 in the code; any
   function here), and the IndexPack handed to the indexer carries that same id, the packer's blob
   list unchanged, a time, and no explicit size - in the order the packs were emitted. *)
Theorem pack_id_is_hash_of_file : forall (hash : bytes -> id) (clock : nat -> Z) (packs : list (bytes * list iblob)),
  let r := writer_run hash clock packs in
  fst r = map (fun p => (hash (fst p), fst p)) packs /\
  map wkey (snd r) = map (fun p => (hash (fst p), snd p)) packs /\
  Forall (fun w => w_time w <> None /\ w_size w = None) (snd r).
Proof. exact pack_id_is_hash_of_file_lemma. Qed.
Print Assumptions pack_id_is_hash_of_file.

(* Composition (packer + writer + repair-index): for every op sequence and save oracle, whatever
   the run leaves in the backend `be` and the index `ix`, if the hash does not collide on the
   written files, then from ANY subset `index` of the written index entries repair-index rebuilds,
   up to order, exactly the written index (ids and blob lists). *)
Theorem written_repo_index_rebuildable : forall (enc : bytes -> bytes) (dec : bytes -> option bytes)
    (hash : bytes -> id) clock tpe ops be ix index read_all,
  (forall x, dec (enc x) = Some x) -> (forall x, length (enc x) = (length x + 32)%nat) ->
  Forall wf_op ops ->
  packer_with_writer enc hash clock tpe ops = Ok (be, ix) ->
  (forall p q, In p be -> In q be -> fst p = fst q -> snd p = snd q) ->
  incl index (map wkey ix) ->
  exists r, rebuild_index dec read_all be index = Ok r /\ Permutation r (map wkey ix).
Proof. exact (fun enc dec hash clock tpe ops be ix index ra H1 H2 => written_repo_rebuildable_lemma enc dec H1 H2 hash clock tpe ops be ix index ra). Qed.
Print Assumptions written_repo_index_rebuildable.

(* The packer driven by its OWN should_save (count >= MAX_COUNT, size >= min(limit, MAX_SIZE), age -
   the age test stays an oracle) is one of the runs packer_pack_wellformed quantifies over: every
   pack it emits - in particular packs closed by the blob-count limit or by the size limit - is
   well-formed, and from_file_inverts_packer applies to it. *)
Theorem auto_packer_pack_wellformed : forall (enc : bytes -> bytes) tpe limit ops packs,
  (forall x, length (enc x) = (length x + 32)%nat) ->
  Forall wf_op ops -> packer_run_auto enc tpe limit ops = Ok packs ->
  Forall (pack_wellformed enc tpe) packs /\
  Forall (fun pk => N.of_nat (length (fst pk)) < U32) packs.
Proof. exact (fun enc tpe limit ops packs H => auto_packer_wellformed_lemma enc H tpe limit ops packs). Qed.
Print Assumptions auto_packer_pack_wellformed.

(* Order of upload and registration, as found in the source (Extracted.WRITER_INDEXES_AFTER_WRITE):
   whichever pack upload fails, every pack registered with the indexer - hence every pack a
   persisted index file can list - was stored before. *)
Theorem indexed_pack_is_written : forall (hash : bytes -> id) (clock : nat -> Z) packs fail_at,
  let r := writer_run_src hash clock packs fail_at in
  incl (map w_id (snd r)) (map fst (fst r)).
Proof. exact indexed_pack_is_written_lemma. Qed.
Print Assumptions indexed_pack_is_written.

(* ... which is false for the other order (registration before the upload). *)
Theorem index_before_write_refuted :
  exists hash clock packs fail_at,
    let r := writer_run_f false hash clock packs fail_at in
    ~ incl (map w_id (snd r)) (map fst (fst r)).
Proof. exact index_before_write_refuted_lemma. Qed.
Print Assumptions index_before_write_refuted.

(* The functions whose behaviour Model.v / Repack.v / Writer.v state have, in the current source,
   exactly the control-flow shape they had when modelled (returns, ifs, `?`, matches per function;
   three error returns in from_file; upload before registration).  Regenerated on every run. *)
Theorem source_shape_is_modelled :
  SOURCE_SHAPE = MODELLED_SHAPE /\ FROM_FILE_ERROR_RETURNS = 3 /\ WRITER_INDEXES_AFTER_WRITE = true.
Proof. exact (conj eq_refl (conj eq_refl eq_refl)). Qed.
Print Assumptions source_shape_is_modelled.

(* PackHeader::from_file on a 3-byte file without size hint (what repair-index does for a
   truncated, unindexed pack): `pack_size - read_size` underflows; and a length field >= 2^32-4
   overflows `size_real + LENGTH_LEN`.  Both are panics of the overflow-checked build, for any key. *)
Theorem from_file_tiny_pack_refuted :
  exists (f : bytes), (length f < 4)%nat /\
    forall dec, from_file (read_of f) dec None (N.of_nat (length f)) = Panic.
Proof. exact from_file_tiny_pack_refuted_lemma. Qed.
Print Assumptions from_file_tiny_pack_refuted.

Theorem from_file_huge_length_field_refuted :
  exists (f : bytes), (4 <= length f)%nat /\ wf_bytes f /\
    forall dec, from_file (read_of f) dec None (N.of_nat (length f)) = Panic.
Proof. exact from_file_huge_length_field_refuted_lemma. Qed.
Print Assumptions from_file_huge_length_field_refuted.
