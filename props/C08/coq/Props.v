(* C08 — property theorems.  Nothing but statements closed by `exact`, each followed by
   Print Assumptions.  Model.v mirrors repofile/packfile.rs (codec, sizes, from_file),
   blob/packer.rs (BasicPacker/RawPacker) and commands/repair/index.rs; the constants come
   from Extracted.v, regenerated from the source on every run. *)
From Verif.Base Require Import Tactics.
From Verif.C08 Require Import Extracted Model Spec ProofsCodec.
Local Open Scope N_scope.

(* Parsing the binary header of any list of index blobs gives the same blobs back, with the
   offsets recomputed contiguously from 0 (so: exactly the same list iff offsets were contiguous). *)
Theorem header_roundtrip : forall bs,
  Forall wf_blob bs -> total_len bs < U32 ->
  hdr_from_binary (hdr_to_binary bs) = Ok (reoffset 0 bs) /\
  (contiguous 0 bs <-> reoffset 0 bs = bs).
Proof. exact (fun bs H1 H2 => conj (header_roundtrip_lemma bs H1 H2) (reoffset_contiguous bs 0)). Qed.
Print Assumptions header_roundtrip.

(* ... and when the lengths do not fit u32 the offset accumulation overflows (debug panic). *)
Theorem header_roundtrip_overflow : forall bs,
  Forall wf_blob bs -> U32 <= total_len bs ->
  hdr_from_binary (hdr_to_binary bs) = Panic.
Proof. exact header_roundtrip_overflow_lemma. Qed.
Print Assumptions header_roundtrip_overflow.

(* A trailing partial entry or an unknown type byte is an error (binrw reports EOF only when
   no byte at all is left), never a silently shortened blob list. *)
Theorem trailing_garbage_rejected : forall bs tail,
  Forall wf_blob bs -> total_len bs < U32 -> read_entry tail = RBad ->
  hdr_from_binary (hdr_to_binary bs ++ tail) = Err.
Proof. exact trailing_garbage_rejected_lemma. Qed.
Print Assumptions trailing_garbage_rejected.

(* size() = |plaintext header| + crypto overhead; pack_size() = blobs + size() + length field;
   entries are 37 / 41 bytes. *)
Theorem header_sizes : forall bs s,
  Forall wf_blob bs -> hdr_size bs = Some s ->
  s = N.of_nat (length (hdr_to_binary bs)) + COMP_OVERHEAD /\
  (forall ps, hdr_pack_size bs = Some ps -> ps = total_len bs + s + LENGTH_LEN) /\
  Forall (fun b => length (entry_to_binary b) = match bulen b with None => 37%nat | Some _ => 41%nat end) bs.
Proof. exact header_sizes_lemma. Qed.
Print Assumptions header_sizes.
