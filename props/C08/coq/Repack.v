(* C08 — executable model of the repacker (definitions only):
   BlobLocations::{from_blob_location, can_coalesce, append, coalesce} (blob.rs),
   CopyPackBlobs::{from_index_entry, coalesce}, BlobCopier::{copy_fast, copy} (blob/packer.rs)
   and itertools' `coalesce` adaptor as used by commands/copy.rs::copy_blobs and prune.
   u32 arithmetic is checked (`None`/`Panic` = overflow-checked build panics). *)
From Verif.Base Require Import Tactics.
From Verif.C08 Require Import Extracted Model.
Local Open Scope N_scope.

(* BlobLocation *)
Record loc := mkloc { l_off : N; l_len : N; l_ulen : option N }.
(* BlobLocations<BlobId> *)
Record blocs := mkbl { bl_off : N; bl_len : N; bl_blobs : list (loc * id) }.
(* CopyPackBlobs *)
Definition cpb := (id * blocs)%type.
(* one blob to copy: source pack, location, blob id *)
Record centry := mkce { ce_pack : id; ce_loc : loc; ce_id : id }.

Definition from_blob_location (l : loc) (t : id) : blocs := mkbl (l_off l) (l_len l) [(l, t)].
Definition from_index_entry (e : centry) : cpb := (ce_pack e, from_blob_location (ce_loc e) (ce_id e)).

(* BlobLocations::can_coalesce — `&&` short-circuits, the sums are u32 *)
Definition can_coalesce (a b : blocs) : option bool :=
  match u32_add (bl_off a) (bl_len a) with
  | None => None
  | Some e =>
    match u32_add e MAX_HOLESIZE with
    | None => None
    | Some eh =>
      if negb (bl_off b <=? eh) then Some false else
      if negb (e <=? bl_off b) then Some false else
      match u32_add (bl_off b) (bl_len b) with
      | None => None
      | Some oe =>
        match u32_sub oe (bl_off a) with
        | None => None
        | Some span => Some (span <=? LIMIT_PACK_READ)
        end
      end
    end
  end.

(* BlobLocations::append *)
Definition bl_append (a b : blocs) : option blocs :=
  match u32_add (bl_off b) (bl_len b) with
  | None => None
  | Some oe =>
    match u32_sub oe (bl_off a) with
    | None => None
    | Some span => Some (mkbl (bl_off a) span (bl_blobs a ++ bl_blobs b))
    end
  end.

(* Result<Self, (Self, Self)> with a panic layer *)
Inductive merged (X : Type) := MPanic | MOk (m : X) | MNo (a b : X).
Arguments MPanic {X}. Arguments MOk {X} m. Arguments MNo {X} a b.

(* BlobLocations::coalesce *)
Definition bl_coalesce (a b : blocs) : merged blocs :=
  match can_coalesce a b with
  | None => MPanic
  | Some false => MNo a b
  | Some true => match bl_append a b with None => MPanic | Some m => MOk m end
  end.

(* CopyPackBlobs::coalesce.  `check_pack = true` is the code; `false` is the variant without the
   `self.pack_id == other.pack_id` conjunct (used only for the refutation witness). *)
Definition cpb_coalesce (check_pack : bool) (a b : cpb) : merged cpb :=
  if check_pack && negb (bytes_eqb (fst a) (fst b)) then MNo a b else
  match bl_coalesce (snd a) (snd b) with
  | MPanic => MPanic
  | MOk m => MOk (fst a, m)
  | MNo x y => MNo (fst a, x) (fst b, y)
  end.

(* itertools::Itertools::coalesce *)
Fixpoint coalesce_go {X} (f : X -> X -> merged X) (prev : X) (l : list X) : option (list X) :=
  match l with
  | [] => Some [prev]
  | x :: r =>
    match f prev x with
    | MPanic => None
    | MOk m => coalesce_go f m r
    | MNo a b => match coalesce_go f b r with None => None | Some t => Some (a :: t) end
    end
  end.

Definition coalesce_all {X} (f : X -> X -> merged X) (l : list X) : option (list X) :=
  match l with [] => Some [] | x :: r => coalesce_go f x r end.

(* the slice `data[start..end]` of copy_fast/copy for one blob of a chunk read at `off` *)
Definition slice_blob (data : bytes) (off : N) (l : loc) : res bytes :=
  match u32_sub (l_off l) off with
  | None => Panic
  | Some st =>
    match u32_add (l_off l) (l_len l) with
    | None => Panic
    | Some e0 =>
      match u32_sub e0 off with
      | None => Panic
      | Some en =>
        if (N.of_nat (length data) <? en) || (en <? st) then Panic      (* slice index out of range *)
        else Ok (firstn (N.to_nat (en - st)) (skipn (N.to_nat st) data))
      end
    end
  end.

(* what is handed to the target packer for one blob: (blob id, bytes, uncompressed length).
   copy_fast: the raw bytes (decode = identity); copy: read_encrypted_from_partial (decrypt,
   decompress, check length) — `decode` is a parameter. *)
Definition handed := (id * bytes * option N)%type.

Fixpoint copy_blobs_of (decode : bytes -> option N -> option bytes) (data : bytes) (off : N)
         (bl : list (loc * id)) : res (list handed) :=
  match bl with
  | [] => Ok []
  | (l, i) :: r =>
    match slice_blob data off l with
    | Panic => Panic
    | Err => Err
    | Ok d =>
      match decode d (l_ulen l) with
      | None => Err
      | Some pd => match copy_blobs_of decode data off r with
                   | Panic => Panic | Err => Err
                   | Ok t => Ok ((i, pd, l_ulen l) :: t)
                   end
      end
    end
  end.

(* BlobCopier::copy_fast / copy on one chunk: one read_partial, then the slices *)
Definition copy_chunk (store : id -> option bytes) (decode : bytes -> option N -> option bytes)
           (c : cpb) : res (list handed) :=
  match store (fst c) with
  | None => Err
  | Some f =>
    match read_of f (bl_off (snd c)) (bl_len (snd c)) with
    | None => Err
    | Some data => copy_blobs_of decode data (bl_off (snd c)) (bl_blobs (snd c))
    end
  end.

Fixpoint copy_chunks store decode (cs : list cpb) : res (list handed) :=
  match cs with
  | [] => Ok []
  | c :: r =>
    match copy_chunk store decode c with
    | Panic => Panic | Err => Err
    | Ok a => match copy_chunks store decode r with
              | Panic => Panic | Err => Err
              | Ok b => Ok (a ++ b)
              end
    end
  end.

(* copy_blobs (after the sort) / the per-pack loop of prune: coalesce, then copy every chunk *)
Definition repack (check_pack : bool) store decode (es : list centry) : res (list handed) :=
  match coalesce_all (cpb_coalesce check_pack) (map from_index_entry es) with
  | None => Panic
  | Some cs => copy_chunks store decode cs
  end.

(* the order `sort_unstable()` establishes (derived Ord of CopyPackBlobs: pack id, then
   BlobLocations::cmp = offset); executable check used by the correspondence *)
Fixpoint bytes_leb (a b : bytes) : bool :=
  match a, b with
  | [], _ => true
  | _ :: _, [] => false
  | x :: a', y :: b' => (x <? y) || ((x =? y) && bytes_leb a' b')
  end.

Definition ce_leb (a b : centry) : bool :=
  if bytes_eqb (ce_pack a) (ce_pack b) then l_off (ce_loc a) <=? l_off (ce_loc b)
  else bytes_leb (ce_pack a) (ce_pack b).

Fixpoint sorted_ce (l : list centry) : bool :=
  match l with
  | a :: ((b :: _) as r) => ce_leb a b && sorted_ce r
  | _ => true
  end.

(* the declarative result: every blob gets the bytes of its own source location *)
Definition expected_of (store : id -> option bytes) (decode : bytes -> option N -> option bytes)
           (e : centry) : option handed :=
  match store (ce_pack e) with
  | None => None
  | Some f =>
    if l_off (ce_loc e) + l_len (ce_loc e) <=? N.of_nat (length f)
    then match decode (slice f (l_off (ce_loc e)) (l_len (ce_loc e))) (l_ulen (ce_loc e)) with
         | Some d => Some (ce_id e, d, l_ulen (ce_loc e))
         | None => None
         end
    else None
  end.
