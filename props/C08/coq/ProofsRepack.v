(* C08 — the repacker hands every blob to the target packer with exactly the bytes of its
   source location, for every list of blobs to copy (sorted or not): coalesced reads only ever
   merge adjacent, monotone ranges of the SAME pack. *)
From Verif.Base Require Import Tactics.
From Verif.C08 Require Import Extracted Model Spec ProofsCodec ProofsFromFile Repack.
Local Open Scope N_scope.

Lemma u32_sub_none a b : u32_sub a b = None <-> a < b.
Proof. unfold u32_sub. destruct (b <=? a) eqn:E; split; try discriminate; lia || reflexivity. Qed.

Definition key_of (e : centry) : loc * id := (ce_loc e, ce_id e).

(* a chunk together with the entries it stands for *)
Definition chunk_ok (c : cpb) (es : list centry) : Prop :=
  bl_blobs (snd c) = map key_of es /\
  Forall (fun e => ce_pack e = fst c) es /\
  Forall (fun e => bl_off (snd c) <= l_off (ce_loc e) /\
                   l_off (ce_loc e) + l_len (ce_loc e) <= bl_off (snd c) + bl_len (snd c)) es.

Lemma from_index_entry_ok e : chunk_ok (from_index_entry e) [e].
Proof.
  unfold chunk_ok, from_index_entry, from_blob_location. cbn [fst snd bl_blobs bl_off bl_len map].
  split; [reflexivity|]. split; constructor; try constructor; try reflexivity; lia.
Qed.

Lemma can_coalesce_true a b :
  can_coalesce a b = Some true ->
  bl_off a + bl_len a <= bl_off b /\ bl_off b + bl_len b < U32.
Proof.
  unfold can_coalesce.
  destruct (u32_add (bl_off a) (bl_len a)) as [e|] eqn:E1; [|discriminate]. apply u32_add_some in E1 as [-> E1].
  destruct (u32_add _ MAX_HOLESIZE) as [eh|] eqn:E2; [|discriminate].
  destruct (negb (bl_off b <=? eh)); [discriminate|].
  destruct (negb (bl_off a + bl_len a <=? bl_off b)) eqn:E3; [discriminate|].
  destruct (u32_add (bl_off b) (bl_len b)) as [oe|] eqn:E4; [|discriminate]. apply u32_add_some in E4 as [-> E4].
  intros _. split; lia.
Qed.

Lemma bl_coalesce_no a b x y : bl_coalesce a b = MNo x y -> x = a /\ y = b.
Proof.
  unfold bl_coalesce. destruct (can_coalesce a b) as [[|]|]; try discriminate.
  - destruct (bl_append a b); discriminate.
  - intro H. inv H. split; reflexivity.
Qed.

Lemma cpb_coalesce_no a b x y : cpb_coalesce true a b = MNo x y -> x = a /\ y = b.
Proof.
  unfold cpb_coalesce. cbn [andb]. destruct (negb (bytes_eqb (fst a) (fst b))).
  - intro H. inv H. split; reflexivity.
  - destruct (bl_coalesce (snd a) (snd b)) as [|m|x' y'] eqn:E; try discriminate.
    intro H. inv H. apply bl_coalesce_no in E as [-> ->]. destruct a, b. split; reflexivity.
Qed.

Lemma cpb_coalesce_ok a b m ea eb :
  chunk_ok a ea -> chunk_ok b eb -> cpb_coalesce true a b = MOk m -> chunk_ok m (ea ++ eb).
Proof.
  intros (Ha1 & Ha2 & Ha3) (Hb1 & Hb2 & Hb3). unfold cpb_coalesce. cbn [andb].
  destruct (bytes_eqb (fst a) (fst b)) eqn:Ep; cbn [negb]; [|discriminate].
  apply bytes_eqb_eq in Ep.
  unfold bl_coalesce. destruct (can_coalesce (snd a) (snd b)) as [[|]|] eqn:Ec; try discriminate.
  apply can_coalesce_true in Ec as [Hmono Hlt].
  unfold bl_append. destruct (u32_add _ _) as [oe|] eqn:E1; [|discriminate]. apply u32_add_some in E1 as [-> E1].
  destruct (u32_sub _ _) as [span|] eqn:E2; [|discriminate]. apply u32_sub_some in E2 as [-> E2].
  intro H. inv H. unfold chunk_ok. cbn [fst snd bl_blobs bl_off bl_len].
  split; [rewrite map_app, Ha1, Hb1; reflexivity|]. split.
  - apply Forall_app. split; [assumption|]. eapply Forall_impl; [|exact Hb2]. cbv beta. intros e He. congruence.
  - apply Forall_app. split; (eapply Forall_impl; [|eassumption]); cbv beta; intros e He; lia.
Qed.

Lemma coalesce_go_ok es : forall prev ep cs,
  chunk_ok prev ep ->
  coalesce_go (cpb_coalesce true) prev (map from_index_entry es) = Some cs ->
  exists ess, Forall2 chunk_ok cs ess /\ concat ess = ep ++ es.
Proof.
  induction es as [|e es IH]; intros prev ep cs Hp H; cbn [map coalesce_go] in H.
  - inv H. exists [ep]. split; [constructor; [assumption|constructor]|]. cbn [concat]. rewrite !app_nil_r. reflexivity.
  - destruct (cpb_coalesce true prev (from_index_entry e)) as [|m|a b] eqn:E; [discriminate| |].
    + pose proof (cpb_coalesce_ok _ _ _ _ _ Hp (from_index_entry_ok e) E) as Hm.
      destruct (IH _ _ _ Hm H) as (ess & H1 & H2). exists ess. split; [assumption|].
      rewrite H2, <- app_assoc. reflexivity.
    + apply cpb_coalesce_no in E as [-> ->].
      destruct (coalesce_go _ _ _) as [t|] eqn:G; [|discriminate]. inv H.
      destruct (IH _ _ _ (from_index_entry_ok e) G) as (ess & H1 & H2).
      exists (ep :: ess). split; [constructor; assumption|]. cbn [concat]. rewrite H2. reflexivity.
Qed.

Lemma coalesce_all_ok es cs :
  coalesce_all (cpb_coalesce true) (map from_index_entry es) = Some cs ->
  exists ess, Forall2 chunk_ok cs ess /\ concat ess = es.
Proof.
  destruct es as [|e es]; cbn [map coalesce_all]; intro H.
  - inv H. exists []. split; [constructor|reflexivity].
  - destruct (coalesce_go_ok es _ [e] cs (from_index_entry_ok e) H) as (ess & H1 & H2).
    exists ess. split; assumption.
Qed.

(* ---- slices of a slice ------------------------------------------------------------- *)
Lemma slice_in_slice (f : bytes) (o L x l : nat) :
  (o <= x)%nat -> (x + l <= o + L)%nat ->
  firstn l (skipn (x - o) (firstn L (skipn o f))) = firstn l (skipn x f).
Proof.
  intros H1 H2. rewrite skipn_firstn_comm, firstn_firstn, skipn_skipn_add.
  replace (o + (x - o))%nat with x by lia. replace (Nat.min l (L - (x - o))) with l by lia. reflexivity.
Qed.

Lemma slice_blob_ok f off len l d :
  off <= l_off l -> l_off l + l_len l <= off + len ->
  slice_blob (slice f off len) off l = Ok d ->
  d = slice f (l_off l) (l_len l).
Proof.
  intros H1 H2. unfold slice_blob.
  destruct (u32_sub (l_off l) off) as [st|] eqn:E1; [|discriminate]. apply u32_sub_some in E1 as [-> E1].
  destruct (u32_add _ _) as [e0|] eqn:E2; [|discriminate]. apply u32_add_some in E2 as [-> E2].
  destruct (u32_sub _ off) as [en|] eqn:E3; [|discriminate]. apply u32_sub_some in E3 as [-> E3].
  destruct (_ || _); [discriminate|]. intro H. inv H. unfold slice.
  replace (N.to_nat (l_off l + l_len l - off - (l_off l - off))) with (N.to_nat (l_len l)) by lia.
  replace (N.to_nat (l_off l - off)) with (N.to_nat (l_off l) - N.to_nat off)%nat by lia.
  apply slice_in_slice; lia.
Qed.

Section WithStore.
Variable store : id -> option bytes.
Variable decode : bytes -> option N -> option bytes.

Lemma copy_blobs_of_ok f off len pid : forall es out,
  store pid = Some f -> off + len <= N.of_nat (length f) ->
  Forall (fun e => ce_pack e = pid) es ->
  Forall (fun e => off <= l_off (ce_loc e) /\ l_off (ce_loc e) + l_len (ce_loc e) <= off + len) es ->
  copy_blobs_of decode (slice f off len) off (map key_of es) = Ok out ->
  Forall2 (fun e h => expected_of store decode e = Some h) es out.
Proof.
  induction es as [|e es IH]; intros out Hs Hin Hp Hr H; cbn [map copy_blobs_of key_of] in H.
  - inv H. constructor.
  - inversion Hp as [|e' es' Hp1 Hp2]; subst. inversion Hr as [|e' es' [Hlo Hhi] Hr2]; subst.
    destruct (slice_blob _ off (ce_loc e)) as [| |d] eqn:S; try discriminate.
    apply slice_blob_ok in S; [|assumption|assumption]. subst d.
    destruct (decode _ _) as [pd|] eqn:D; [|discriminate].
    fold (key_of) in H. change (map (fun e0 => (ce_loc e0, ce_id e0)) es) with (map key_of es) in H.
    destruct (copy_blobs_of decode _ off (map key_of es)) as [| |t] eqn:R; try discriminate.
    inv H. constructor; [|apply IH; try assumption; reflexivity].
    unfold expected_of. rewrite Hs.
    assert (Ec : (l_off (ce_loc e) + l_len (ce_loc e) <=? N.of_nat (length f)) = true) by lia.
    rewrite Ec, D. reflexivity.
Qed.

Lemma copy_chunk_ok c es out :
  chunk_ok c es -> copy_chunk store decode c = Ok out ->
  Forall2 (fun e h => expected_of store decode e = Some h) es out.
Proof.
  intros (H1 & H2 & H3). unfold copy_chunk.
  destruct (store (fst c)) as [f|] eqn:Hs; [|discriminate].
  unfold read_of. destruct (_ <=? _) eqn:Hin; [|discriminate]. rewrite H1.
  apply (copy_blobs_of_ok f _ _ (fst c)); try assumption. lia.
Qed.

Lemma copy_chunks_ok cs : forall ess out,
  Forall2 chunk_ok cs ess -> copy_chunks store decode cs = Ok out ->
  Forall2 (fun e h => expected_of store decode e = Some h) (concat ess) out.
Proof.
  induction cs as [|c cs IH]; intros ess out HF H; inv HF; cbn [copy_chunks concat] in *.
  - inv H. constructor.
  - destruct (copy_chunk store decode c) as [| |a] eqn:C; try discriminate.
    destruct (copy_chunks store decode cs) as [| |b] eqn:R; try discriminate. inv H.
    apply Forall2_app; [eapply copy_chunk_ok; eassumption|apply IH; try assumption; reflexivity].
Qed.

Lemma repack_preserves_blobs_lemma es out :
  repack true store decode es = Ok out ->
  Forall2 (fun e h => expected_of store decode e = Some h) es out.
Proof.
  unfold repack. destruct (coalesce_all _ _) as [cs|] eqn:C; [|discriminate].
  apply coalesce_all_ok in C as (ess & H1 & <-). apply copy_chunks_ok. assumption.
Qed.

End WithStore.

(* ---- completeness: when every blob lies inside its pack (packs below 2^32 - MAX_HOLESIZE
   bytes, which MAX_SIZE guarantees) and decodes, the repacker neither panics nor errs ---------- *)
Section Complete.
Variable store : id -> option bytes.
Variable decode : bytes -> option N -> option bytes.

Definition entry_inside (e : centry) : Prop :=
  exists f, store (ce_pack e) = Some f /\
    l_off (ce_loc e) + l_len (ce_loc e) <= N.of_nat (length f) /\
    N.of_nat (length f) + MAX_HOLESIZE < U32 /\
    decode (slice f (l_off (ce_loc e)) (l_len (ce_loc e))) (l_ulen (ce_loc e)) <> None.

(* a chunk whose read stays inside the file of its pack *)
Definition chunk_inside (c : cpb) : Prop :=
  exists f, store (fst c) = Some f /\ bl_off (snd c) + bl_len (snd c) <= N.of_nat (length f) /\
            N.of_nat (length f) + MAX_HOLESIZE < U32.

Lemma cpb_coalesce_total a b :
  chunk_inside a -> chunk_inside b ->
  match cpb_coalesce true a b with
  | MPanic => False
  | MOk m => chunk_inside m
  | MNo x y => x = a /\ y = b
  end.
Proof.
  intros (fa & Sa & Ia & La) (fb & Sb & Ib & Lb). unfold cpb_coalesce. cbn [andb].
  destruct (bytes_eqb (fst a) (fst b)) eqn:Ep; cbn [negb]; [|split; reflexivity].
  apply bytes_eqb_eq in Ep. rewrite <- Ep, Sa in Sb. inv Sb.
  unfold bl_coalesce, can_coalesce.
  destruct (u32_add (bl_off (snd a)) (bl_len (snd a))) as [e|] eqn:E1;
    [apply u32_add_some in E1 as [-> E1]|apply u32_add_none in E1; lia].
  destruct (u32_add _ MAX_HOLESIZE) as [eh|] eqn:E2;
    [apply u32_add_some in E2 as [-> E2]|apply u32_add_none in E2; lia].
  destruct (negb (bl_off (snd b) <=? _)); [destruct a, b; split; reflexivity|].
  destruct (negb (_ <=? bl_off (snd b))) eqn:E3; [destruct a, b; split; reflexivity|].
  destruct (u32_add (bl_off (snd b)) (bl_len (snd b))) as [oe|] eqn:E4;
    [apply u32_add_some in E4 as [-> E4]|apply u32_add_none in E4; lia].
  destruct (u32_sub _ (bl_off (snd a))) as [sp|] eqn:E5;
    [apply u32_sub_some in E5 as [-> E5]|apply u32_sub_none in E5; lia].
  destruct (_ <=? LIMIT_PACK_READ); [|destruct a, b; split; reflexivity].
  unfold bl_append.
  assert (X1 : u32_add (bl_off (snd b)) (bl_len (snd b)) = Some (bl_off (snd b) + bl_len (snd b)))
    by (apply u32_add_some; split; [reflexivity|lia]).
  rewrite X1.
  assert (X2 : u32_sub (bl_off (snd b) + bl_len (snd b)) (bl_off (snd a))
               = Some (bl_off (snd b) + bl_len (snd b) - bl_off (snd a)))
    by (apply u32_sub_some; split; [reflexivity|lia]).
  rewrite X2. exists fb. cbn [fst snd bl_off bl_len]. split; [assumption|]. split; [lia|assumption].
Qed.

Lemma coalesce_go_total es : forall prev,
  chunk_inside prev -> Forall entry_inside es ->
  exists cs, coalesce_go (cpb_coalesce true) prev (map from_index_entry es) = Some cs /\ Forall chunk_inside cs.
Proof.
  induction es as [|e es IH]; intros prev Hp He; cbn [map coalesce_go].
  - eexists. split; [reflexivity|]. constructor; [assumption|constructor].
  - inversion He as [|e' es' (f & S & I' & L & _) He2]; subst.
    assert (Hc : chunk_inside (from_index_entry e)).
    { exists f. unfold from_index_entry, from_blob_location. cbn [fst snd bl_off bl_len]. auto. }
    pose proof (cpb_coalesce_total prev (from_index_entry e) Hp Hc) as T.
    destruct (cpb_coalesce true prev (from_index_entry e)) as [|m|x y]; [contradiction| |].
    + apply IH; assumption.
    + destruct T as [-> ->]. destruct (IH _ Hc He2) as (cs & -> & HF).
      eexists. split; [reflexivity|]. constructor; assumption.
Qed.

Lemma copy_blobs_of_total f off len pid : forall es,
  store pid = Some f -> off + len <= N.of_nat (length f) -> N.of_nat (length f) < U32 ->
  Forall (fun e => ce_pack e = pid) es -> Forall entry_inside es ->
  Forall (fun e => off <= l_off (ce_loc e) /\ l_off (ce_loc e) + l_len (ce_loc e) <= off + len) es ->
  exists out, copy_blobs_of decode (slice f off len) off (map key_of es) = Ok out.
Proof.
  induction es as [|e es IH]; intros Hs Hin Hlt Hp Hi Hr; cbn [map copy_blobs_of key_of].
  - eexists. reflexivity.
  - inversion Hp as [|? ? Hp1 Hp2]; subst. inversion Hi as [|? ? (f' & S' & I' & L' & D') Hi2]; subst.
    inversion Hr as [|? ? [Hlo Hhi] Hr2]; subst. rewrite Hs in S'. inv S'.
    assert (Hsl : slice_blob (slice f' off len) off (ce_loc e) = Ok (slice f' (l_off (ce_loc e)) (l_len (ce_loc e)))).
    { unfold slice_blob.
      assert (X1 : u32_sub (l_off (ce_loc e)) off = Some (l_off (ce_loc e) - off)) by (apply u32_sub_some; split; [reflexivity|lia]).
      rewrite X1.
      assert (X2 : u32_add (l_off (ce_loc e)) (l_len (ce_loc e)) = Some (l_off (ce_loc e) + l_len (ce_loc e)))
        by (apply u32_add_some; split; [reflexivity|lia]).
      rewrite X2.
      assert (X3 : u32_sub (l_off (ce_loc e) + l_len (ce_loc e)) off = Some (l_off (ce_loc e) + l_len (ce_loc e) - off))
        by (apply u32_sub_some; split; [reflexivity|lia]).
      rewrite X3.
      assert (Hlen : N.of_nat (length (slice f' off len)) = len).
      { unfold slice. rewrite firstn_length, skipn_length. lia. }
      rewrite Hlen.
      assert (X4 : ((len <? l_off (ce_loc e) + l_len (ce_loc e) - off) ||
                    (l_off (ce_loc e) + l_len (ce_loc e) - off <? l_off (ce_loc e) - off)) = false) by lia.
      rewrite X4. f_equal. unfold slice.
      replace (N.to_nat (l_off (ce_loc e) + l_len (ce_loc e) - off - (l_off (ce_loc e) - off))) with (N.to_nat (l_len (ce_loc e))) by lia.
      replace (N.to_nat (l_off (ce_loc e) - off)) with (N.to_nat (l_off (ce_loc e)) - N.to_nat off)%nat by lia.
      apply slice_in_slice; lia. }
    change (ce_loc e, ce_id e) with (key_of e). cbn [key_of fst snd]. rewrite Hsl.
    destruct (decode _ _) as [pd|]; [|congruence].
    destruct (IH Hs Hin Hlt Hp2 Hi2 Hr2) as (t & ->). eexists. reflexivity.
Qed.

Lemma repack_total_lemma es :
  Forall entry_inside es -> exists out, repack true store decode es = Ok out.
Proof.
  intro Hi. unfold repack.
  assert (Hc : exists cs, coalesce_all (cpb_coalesce true) (map from_index_entry es) = Some cs /\ Forall chunk_inside cs).
  { destruct es as [|e es]; cbn [map coalesce_all].
    - eexists. split; [reflexivity|constructor].
    - inversion Hi as [|? ? (f & S & I' & L & _) Hi2]; subst.
      apply coalesce_go_total; [|assumption].
      exists f. unfold from_index_entry, from_blob_location. cbn [fst snd bl_off bl_len]. auto. }
  destruct Hc as (cs & C & Hin). rewrite C.
  destruct (coalesce_all_ok _ _ C) as (ess & HF & Hcat).
  assert (Hall : Forall (Forall entry_inside) ess).
  { apply Forall_forall. intros g Hg. apply Forall_forall. intros e He. rewrite Forall_forall in Hi. apply Hi.
    rewrite <- Hcat. apply in_concat. exists g. split; assumption. }
  clear C Hcat Hi. revert ess HF Hall. induction cs as [|c cs IH]; intros ess HF Hall; cbn [copy_chunks].
  - eexists. reflexivity.
  - inversion HF as [|? g ? ess' (H1 & H2 & H3) HF2]; subst. inversion Hall as [|? ? Hg Hall2]; subst.
    inversion Hin as [|? ? (f & S & I' & L) Hin2]; subst.
    assert (Hck : exists a, copy_chunk store decode c = Ok a).
    { unfold copy_chunk. rewrite S. unfold read_of.
      assert (Ec : (bl_off (snd c) + bl_len (snd c) <=? N.of_nat (length f)) = true) by lia. rewrite Ec, H1.
      apply (copy_blobs_of_total f _ _ (fst c)); try assumption. unfold MAX_HOLESIZE in L. lia. }
    destruct Hck as (a & ->). destruct (IH Hin2 _ HF2 Hall2) as (b & ->). eexists. reflexivity.
Qed.

End Complete.

(* the pack-id conjunct is necessary: without it a sorted two-blob list gets foreign bytes *)
Lemma repack_across_packs_refuted_lemma :
  exists (store : id -> option bytes) (es : list centry) out,
    sorted_ce es = true /\
    repack false store (fun d _ => Some d) es = Ok out /\
    ~ Forall2 (fun e h => expected_of store (fun d _ => Some d) e = Some h) es out.
Proof.
  set (p1 := repeat 1 32). set (p2 := repeat 2 32).
  exists (fun p => if bytes_eqb p p1 then Some [10; 11] else if bytes_eqb p p2 then Some [20; 21] else None).
  exists [mkce p1 (mkloc 0 1 None) (repeat 7 32); mkce p2 (mkloc 1 1 None) (repeat 8 32)].
  eexists. split; [vm_compute; reflexivity|]. split; [vm_compute; reflexivity|].
  intro H. inv H. inv H5. vm_compute in H3. discriminate.
Qed.

Example repack_example :
  let p1 := repeat 1 32 in
  let store := fun p => if bytes_eqb p p1 then Some [10; 11; 12; 13; 14] else None in
  let es := [mkce p1 (mkloc 0 2 None) (repeat 7 32); mkce p1 (mkloc 2 1 (Some 5)) (repeat 8 32);
             mkce p1 (mkloc 4 1 None) (repeat 9 32)] in
  repack true store (fun d _ => Some d) es
  = Ok [(repeat 7 32, [10; 11], None); (repeat 8 32, [12], Some 5); (repeat 9 32, [14], None)] /\
  coalesce_all (cpb_coalesce true) (map from_index_entry es)
  = Some [(p1, mkbl 0 5 (map key_of es))].
Proof. cbv zeta. split; vm_compute; reflexivity. Qed.
