(* C08 — the file-writer actor of the packer (blob/packer.rs `Actor::new`,
   `FileWriterHandle::{process,index}`), definitions only.  For every (file, IndexPack) received
   from RawPacker::save, in FIFO order: id = hash(file bytes); index.id = id;
   be.write_bytes(Pack, id, file); index.time = Some(now); indexer.add(index).
   `hash` (SHA-256) and the clock are parameters. *)
From Verif.Base Require Import Tactics.
From Verif.C08 Require Import Extracted Model.
Local Open Scope N_scope.

(* IndexPack as stored in the index *)
Record wpack := mkwp { w_id : id; w_blobs : list iblob; w_time : option Z; w_size : option N }.

(* writer state: backend writes so far (pack id, bytes), index packs handed to the indexer *)
Definition wstate := (list (id * bytes) * list wpack)%type.

Definition writer_step (hash : bytes -> id) (now : Z) (st : wstate) (pk : bytes * list iblob) : wstate :=
  let pid := hash (fst pk) in
  (fst st ++ [(pid, fst pk)], snd st ++ [mkwp pid (snd pk) (Some now) None]).

Fixpoint writer_go (hash : bytes -> id) (clock : nat -> Z) (k : nat) (st : wstate)
         (packs : list (bytes * list iblob)) : wstate :=
  match packs with
  | [] => st
  | pk :: r => writer_go hash clock (S k) (writer_step hash (clock k) st pk) r
  end.

Definition writer_run hash clock packs : wstate := writer_go hash clock 0 ([], []) packs.

(* the packer with its writer: what ends up in the backend and in the index *)
Definition packer_with_writer (enc : bytes -> bytes) (hash : bytes -> id) (clock : nat -> Z)
           (tpe : blob_type) (ops : list pop) : res wstate :=
  match packer_run enc tpe ops with
  | Panic => Panic
  | Err => Err
  | Ok packs => Ok (writer_run hash clock packs)
  end.

(* ---- with a failing upload ----------------------------------------------------------------
   `index_after_write` is the order found in the source (Extracted.WRITER_INDEXES_AFTER_WRITE):
   true  = process: write_bytes, then (pipeline) indexer.add — a failed upload registers nothing;
   false = indexer.add before write_bytes — a failed upload leaves the pack registered.
   The run stops at the first failing upload (`fail_at` = position of the rejected pack). *)
Fixpoint writer_go_f (index_after_write : bool) (hash : bytes -> id) (clock : nat -> Z) (k : nat)
         (st : wstate) (packs : list (bytes * list iblob)) (fail_at : option nat) : wstate :=
  match packs with
  | [] => st
  | pk :: r =>
    let pid := hash (fst pk) in
    let w := mkwp pid (snd pk) (Some (clock k)) None in
    let fails := match fail_at with Some n => Nat.eqb n k | None => false end in
    if fails
    then (if index_after_write then st else (fst st, snd st ++ [w]))
    else writer_go_f index_after_write hash clock (S k) (fst st ++ [(pid, fst pk)], snd st ++ [w]) r fail_at
  end.

Definition writer_run_f iaw hash clock packs fail_at : wstate :=
  writer_go_f iaw hash clock 0 ([], []) packs fail_at.

(* the writer as the source has it *)
Definition writer_run_src hash clock packs fail_at : wstate :=
  writer_run_f WRITER_INDEXES_AFTER_WRITE hash clock packs fail_at.
