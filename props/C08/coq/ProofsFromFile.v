(* C08 — PackHeader::from_file re-derives exactly the index entries of every well-formed pack,
   for every size hint that does not underflow; the index can be rebuilt from the packs. *)
From Verif.Base Require Import Tactics.
From Verif.C08 Require Import Extracted Model Spec ProofsCodec ProofsPacker.
Local Open Scope N_scope.

(* ---- list slicing ---------------------------------------------------------------- *)
Lemma skipn_skipn_add {A} (l : list A) : forall x y, skipn x (skipn y l) = skipn (y + x) l.
Proof.
  induction l as [|a l IH]; intros x y.
  - rewrite !skipn_nil. reflexivity.
  - destruct y; cbn [skipn plus]; [reflexivity|]. apply IH.
Qed.

Section Slices.
Variables (A H T : bytes).
Hypothesis HT : length T = 4%nat.
Let f := A ++ H ++ T.

Lemma first_read_all g : (g <= length A + length H)%nat ->
  firstn (g + 4) (skipn (length A + length H - g) f) = skipn (length A + length H - g) f.
Proof.
  intro Hg. apply firstn_all2. rewrite skipn_length. unfold f. rewrite !app_length, HT. lia.
Qed.

Lemma tail_of_read g : (g <= length A + length H)%nat ->
  skipn g (skipn (length A + length H - g) f) = T.
Proof.
  intro Hg. rewrite skipn_skipn_add. unfold f. rewrite app_assoc.
  apply skipn_app_exact. rewrite app_length. lia.
Qed.

Lemma hdr_in_first_read g : (length H <= g)%nat -> (g <= length A + length H)%nat ->
  skipn (g - length H) (firstn g (skipn (length A + length H - g) f)) = H.
Proof.
  intros H1 H2. unfold f. rewrite skipn_app.
  replace (length A + length H - g - length A)%nat with 0%nat by lia. cbn [skipn].
  rewrite app_assoc. rewrite firstn_app_exact by (rewrite app_length, skipn_length; lia).
  apply skipn_app_exact. rewrite skipn_length. lia.
Qed.

Lemma hdr_second_read : firstn (length H) (skipn (length A) f) = H.
Proof.
  unfold f. rewrite skipn_app_exact by reflexivity. apply firstn_app_exact. reflexivity.
Qed.
End Slices.

Section WithCrypto.
Variables (enc : bytes -> bytes) (dec : bytes -> option bytes).
Hypothesis dec_enc : forall x, dec (enc x) = Some x.
Hypothesis enc_len : forall x, length (enc x) = (length x + 32)%nat.

Lemma from_file_wellformed data bs hint :
  Forall wf_blob bs -> contiguous 0 bs -> total_len bs = N.of_nat (length data) ->
  N.of_nat (length (pack_file enc data bs)) < U32 ->
  (match hint with Some h => h + LENGTH_LEN <= N.of_nat (length (pack_file enc data bs)) | None => True end) ->
  from_file (read_of (pack_file enc data bs)) dec hint (N.of_nat (length (pack_file enc data bs))) = Ok bs.
Proof.
  intros Hwf Hcont Htot Hlt Hhint.
  pose proof (wf_blob_idlen bs Hwf) as Hid.
  pose proof (pack_file_length enc enc_len data bs Hid) as HF.
  set (Hd := enc (hdr_to_binary bs)) in *.
  assert (HHd : N.of_nat (length Hd) = sum_entry bs + COMP_OVERHEAD).
  { unfold Hd. rewrite enc_len, Nat2N.inj_add, (hdr_to_binary_length bs Hid). reflexivity. }
  set (T := le32 (N.of_nat (length Hd))).
  assert (HT : length T = 4%nat) by reflexivity.
  assert (Hf : pack_file enc data bs = data ++ Hd ++ T) by reflexivity.
  set (sg := match hint with Some h => h | None => 0 end).
  assert (Hsg : sg + 4 <= N.of_nat (length (pack_file enc data bs))).
  { unfold sg. destruct hint; [exact Hhint|]. rewrite HF. unfold COMP_OVERHEAD, LENGTH_LEN. lia. }
  assert (Hlenf : length (pack_file enc data bs) = (length data + length Hd + 4)%nat).
  { rewrite Hf, !app_length, HT. lia. }
  set (g := N.to_nat sg).
  assert (Hg : (g <= length data + length Hd)%nat) by (unfold g; lia).
  unfold from_file. fold sg.
  set (F := N.of_nat (length (pack_file enc data bs))) in *.
  change LENGTH_LEN with 4.
  assert (E1 : u32_add sg 4 = Some (sg + 4)) by (apply u32_add_some; split; [reflexivity|lia]).
  rewrite E1.
  assert (E2 : u32_sub F (sg + 4) = Some (F - (sg + 4))) by (apply u32_sub_some; split; [reflexivity|lia]).
  rewrite E2.
  assert (E3 : read_of (pack_file enc data bs) (F - (sg + 4)) (sg + 4)
               = Some (skipn (length data + length Hd - g) (data ++ Hd ++ T))).
  { unfold read_of. fold F.
    assert (Ec : (F - (sg + 4) + (sg + 4) <=? F) = true) by lia. rewrite Ec.
    unfold slice. rewrite Hf.
    replace (N.to_nat (F - (sg + 4))) with (length data + length Hd - g)%nat by (unfold F, g; lia).
    replace (N.to_nat (sg + 4)) with (g + 4)%nat by (unfold g; lia).
    rewrite (first_read_all data Hd T HT g Hg). reflexivity. }
  rewrite E3. fold g.
  assert (Elen : (length (skipn (length data + length Hd - g) (data ++ Hd ++ T)) <? g)%nat = false).
  { apply Nat.ltb_ge. rewrite skipn_length, !app_length, HT. lia. }
  rewrite Elen.
  rewrite (tail_of_read data Hd T HT g Hg).
  assert (Elt : (length T <? 4)%nat = false) by reflexivity. rewrite Elt.
  assert (Hhl : N.of_nat (length Hd) < U32) by (unfold F in Hlt; lia).
  assert (Er : rd32 T = N.of_nat (length Hd)).
  { unfold T. rewrite <- (app_nil_r (le32 _)). apply rd32_le32. assumption. }
  rewrite Er.
  assert (E4 : u32_add (N.of_nat (length Hd)) 4 = Some (N.of_nat (length Hd) + 4))
    by (apply u32_add_some; split; [reflexivity|unfold F in Hlt; lia]).
  rewrite E4.
  assert (E5 : (F <? N.of_nat (length Hd) + 4) = false) by (unfold F; lia). rewrite E5.
  assert (Ehdr : (if N.of_nat (length Hd) <=? sg
                  then Some (skipn (N.to_nat (sg - N.of_nat (length Hd)))
                                   (firstn g (skipn (length data + length Hd - g) (data ++ Hd ++ T))))
                  else read_of (pack_file enc data bs) (F - N.of_nat (length Hd) - 4) (N.of_nat (length Hd)))
                 = Some Hd).
  { destruct (N.of_nat (length Hd) <=? sg) eqn:Ec.
    - replace (N.to_nat (sg - N.of_nat (length Hd))) with (g - length Hd)%nat by (unfold g; lia).
      rewrite (hdr_in_first_read data Hd T HT g) by (unfold g; lia). reflexivity.
    - unfold read_of. fold F.
      assert (Ec2 : (F - N.of_nat (length Hd) - 4 + N.of_nat (length Hd) <=? F) = true) by (unfold F; lia).
      rewrite Ec2. unfold slice. rewrite Hf.
      replace (N.to_nat (F - N.of_nat (length Hd) - 4)) with (length data) by (unfold F; lia).
      rewrite Nat2N.id. rewrite (hdr_second_read data Hd T). reflexivity. }
  rewrite Ehdr. unfold Hd at 1. rewrite dec_enc.
  assert (Htl : total_len bs < U32) by (unfold F in Hlt; lia).
  rewrite (header_roundtrip_lemma bs Hwf Htl).
  apply reoffset_contiguous in Hcont. rewrite Hcont.
  rewrite hdr_size_sum.
  assert (E6 : (COMP_OVERHEAD + sum_entry bs <? U32) = true) by (unfold F in Hlt; lia). rewrite E6.
  assert (E7 : (COMP_OVERHEAD + sum_entry bs =? N.of_nat (length Hd)) = true) by lia. rewrite E7.
  cbn [negb]. rewrite hdr_pack_size_sum. cbv zeta.
  assert (E8 : COMP_OVERHEAD + LENGTH_LEN + (total_len bs + sum_entry bs) = F).
  { rewrite HF, Htot. lia. }
  rewrite E8. assert (E9 : (F <? U32) = true) by lia. rewrite E9, N.eqb_refl. reflexivity.
Qed.

(* the hint that underflows `pack_size - read_size` panics (overflow checks on) whatever the file is *)
Lemma from_file_underflow rp hint ps :
  (match hint with Some h => h | None => 0 end) + LENGTH_LEN < U32 ->
  ps < (match hint with Some h => h | None => 0 end) + LENGTH_LEN ->
  from_file rp dec hint ps = Panic.
Proof.
  intros H1 H2. unfold from_file.
  set (sg := match hint with Some h => h | None => 0 end) in *.
  assert (E1 : u32_add sg LENGTH_LEN = Some (sg + LENGTH_LEN)) by (apply u32_add_some; split; [reflexivity|lia]).
  rewrite E1. unfold u32_sub. assert (E2 : (sg + LENGTH_LEN <=? ps) = false) by lia. rewrite E2. reflexivity.
Qed.

Lemma pack_wellformed_from_file tpe f bs hint :
  Forall wf_blob bs -> pack_wellformed enc tpe (f, bs) -> N.of_nat (length f) < U32 ->
  (match hint with Some h => h + LENGTH_LEN <= N.of_nat (length f) | None => True end) ->
  from_file (read_of f) dec hint (N.of_nat (length f)) = Ok bs.
Proof.
  intros Hwf (ds & -> & Hl & Hc & _ & _ & _ & _ & _) Hlt Hh.
  apply from_file_wellformed; try assumption.
  clear Hlt Hh Hc Hwf. induction Hl as [|d b ds bs Hdb _ IH]; [reflexivity|].
  cbn [total_len concat]. rewrite app_length, Nat2N.inj_add, IH, Hdb. reflexivity.
Qed.

Lemma from_file_inverts_packer_lemma tpe ops packs f bs hint :
  Forall wf_op ops -> packer_run enc tpe ops = Ok packs -> In (f, bs) packs ->
  (match hint with Some h => h + LENGTH_LEN <= N.of_nat (length f) | None => True end) ->
  from_file (read_of f) dec hint (N.of_nat (length f)) = Ok bs.
Proof.
  intros Hwf Hrun Hin Hh.
  pose proof (packer_pack_wellformed_lemma enc enc_len tpe ops packs Hwf Hrun) as (Heq & HW & HL).
  rewrite Forall_forall in HW, HL. pose proof (HW _ Hin) as Hpw. pose proof (HL _ Hin) as Hlt. cbn [fst] in Hlt.
  apply (pack_wellformed_from_file tpe); try assumption.
  subst packs. apply in_map_iff in Hin as [g [Hg Hin]]. unfold pack_of_group in Hg. inv Hg.
  pose proof (spec_groups_props ops [] g (NoDup_nil _) Hin) as (_ & _ & H3).
  apply blobs_of_wf.
  - rewrite Forall_forall in *. intros o Ho. apply Hwf. apply H3. assumption.
  - unfold pack_file in Hlt. rewrite app_length in Hlt. lia.
Qed.

(* ---- repair-index with every index file deleted ---------------------------------- *)
Definition good_pack (p : id * (bytes * list iblob)) : Prop :=
  (exists tpe, pack_wellformed enc tpe (snd p)) /\ Forall wf_blob (snd (snd p)) /\
  N.of_nat (length (fst (snd p))) < U32.

Lemma read_headers_good (packs : list (id * (bytes * list iblob))) :
  Forall good_pack packs ->
  read_headers dec (map (fun '(pid, f) => (pid, None, f)) (map (fun p => (fst p, fst (snd p))) packs))
  = Ok (map (fun p => (fst p, snd (snd p))) packs).
Proof.
  induction 1 as [|[pid [f bs]] packs [[tpe Hw] [Hwf Hlt]] _ IH]; [reflexivity|].
  cbn [map fst snd read_headers] in *.
  rewrite (pack_wellformed_from_file tpe f bs None Hwf Hw Hlt I).
  rewrite IH. reflexivity.
Qed.

Lemma rebuild_all_deleted_lemma read_all (packs : list (id * (bytes * list iblob))) :
  Forall good_pack packs ->
  rebuild_index dec read_all (map (fun p => (fst p, fst (snd p))) packs) []
  = Ok (map (fun p => (fst p, snd (snd p))) packs).
Proof.
  intro H. unfold rebuild_index. cbn [check_all bind app].
  rewrite (read_headers_good packs H). reflexivity.
Qed.

(* an index entry that agrees with its pack is kept as it is (no re-read) when sizes match *)
Lemma check_one_keeps read_all pid f bs tpe rest kept toread :
  pack_wellformed enc tpe (f, bs) -> read_all = false ->
  check_one read_all ((pid, f) :: rest, kept, toread) (pid, bs) = Ok (rest, kept ++ [(pid, bs)], toread).
Proof.
  intros (ds & _ & _ & _ & _ & _ & _ & Hps & _) ->. unfold check_one. rewrite Hps.
  cbn [remove_pack]. rewrite bytes_eqb_refl, N.eqb_refl. reflexivity.
Qed.

End WithCrypto.

(* a 3-byte pack with no index entry (what repair-index sees for a truncated upload): the
   subtraction `pack_size - read_size` underflows, whatever the content and the key *)
Lemma from_file_tiny_pack_refuted_lemma :
  exists (f : bytes), (length f < 4)%nat /\
    forall dec, from_file (read_of f) dec None (N.of_nat (length f)) = Panic.
Proof. exists [0; 0; 0]. split; [cbn; lia|]. intro dec. vm_compute. reflexivity. Qed.

(* ... and a corrupt length field close to 2^32 overflows `size_real + LENGTH_LEN` *)
Lemma from_file_huge_length_field_refuted_lemma :
  exists (f : bytes), (4 <= length f)%nat /\ wf_bytes f /\
    forall dec, from_file (read_of f) dec None (N.of_nat (length f)) = Panic.
Proof.
  exists [253; 255; 255; 255]. split; [cbn; lia|]. split; [repeat constructor; lia|].
  intro dec. vm_compute. reflexivity.
Qed.

Example from_file_example :
  let enc := fun x => repeat 0 16 ++ x ++ repeat 0 16 in
  let dec := fun y : bytes => Some (firstn (length y - 32) (skipn 16 y)) in
  let ops := [mkop [7;8;9] (repeat 1 32) None false; mkop [5] (repeat 2 32) (Some 9) false] in
  exists f bs, packer_run enc Data ops = Ok [(f, bs)] /\
    from_file (read_of f) dec (Some 10) (N.of_nat (length f)) = Ok bs /\
    from_file (read_of f) dec (Some 200) (N.of_nat (length f)) = Panic.
Proof. cbv zeta. eexists. eexists. split; [vm_compute; reflexivity|]. split; vm_compute; reflexivity. Qed.
