(* C08 — declarative side: well-formedness, contiguous offsets, and the specification of
   what the packer must emit (grouping of the accepted blobs into packs). *)
From Verif.Base Require Import Tactics.
From Verif.C08 Require Import Extracted Model.
Local Open Scope N_scope.

Definition wf_bytes (l : bytes) : Prop := Forall (fun b => b < 256) l.
Definition wf_id (i : id) : Prop := length i = id_len /\ wf_bytes i.
Definition wf_ulen (u : option N) : Prop := match u with Some n => 0 < n < U32 | None => True end.
Definition wf_blob (b : iblob) : Prop := wf_id (bid b) /\ blen b < U32 /\ wf_ulen (bulen b).

(* offsets as from_binary assigns them *)
Fixpoint reoffset (off : N) (bs : list iblob) : list iblob :=
  match bs with
  | [] => []
  | b :: r => mkblob (bid b) (btpe b) off (blen b) (bulen b) :: reoffset (off + blen b) r
  end.

Fixpoint contiguous (off : N) (bs : list iblob) : Prop :=
  match bs with
  | [] => True
  | b :: r => boff b = off /\ contiguous (off + blen b) r
  end.

Fixpoint total_len (bs : list iblob) : N :=
  match bs with [] => 0 | b :: r => blen b + total_len r end.

Fixpoint sum_entry (bs : list iblob) : N :=
  match bs with [] => 0 | b :: r => entry_len b + sum_entry r end.

(* ---- what the packer must emit ------------------------------------------------- *)
(* the accepted blobs are grouped into packs: a blob whose id is already in the current
   group is dropped; a group is closed after every step whose oracle says `save` and at the end *)
Fixpoint spec_groups (cur : list pop) (ops : list pop) : list (list pop) :=
  match ops with
  | [] => match cur with [] => [] | _ => [cur] end
  | o :: r =>
    let cur' := if existsb (fun p => bytes_eqb (op_id p) (op_id o)) cur then cur else cur ++ [o] in
    if op_save o then cur' :: spec_groups [] r else spec_groups cur' r
  end.

(* index entries of a group: contiguous offsets from `off`, true lengths, the packer's type *)
Fixpoint blobs_of (tpe : blob_type) (off : N) (g : list pop) : list iblob :=
  match g with
  | [] => []
  | o :: r => let len := N.of_nat (length (op_data o)) in
              mkblob (op_id o) tpe off len (op_ulen o) :: blobs_of tpe (off + len) r
  end.

Definition data_of (g : list pop) : bytes := flat_map op_data g.

(* the file of a pack: blobs, encrypted header, LE32 length of the encrypted header *)
Definition pack_file (enc : bytes -> bytes) (data : bytes) (bs : list iblob) : bytes :=
  let h := enc (hdr_to_binary bs) in data ++ h ++ le32 (N.of_nat (length h)).

Definition pack_of_group (enc : bytes -> bytes) (tpe : blob_type) (g : list pop) : bytes * list iblob :=
  let bs := blobs_of tpe 0 g in (pack_file enc (data_of g) bs, bs).

Definition wf_op (o : pop) : Prop := wf_id (op_id o) /\ wf_ulen (op_ulen o).

(* a pack (file, index blobs) is self-describing *)
Definition pack_wellformed (enc : bytes -> bytes) (tpe : blob_type) (pk : bytes * list iblob) : Prop :=
  let '(f, bs) := pk in
  exists ds : list bytes,
    f = pack_file enc (concat ds) bs /\
    Forall2 (fun d b => blen b = N.of_nat (length d)) ds bs /\
    contiguous 0 bs /\
    Forall (fun b => btpe b = tpe) bs /\
    NoDup (map bid bs) /\
    bs <> [] /\
    hdr_pack_size bs = Some (N.of_nat (length f)) /\
    hdr_size bs = Some (N.of_nat (length (enc (hdr_to_binary bs)))).

(* executable oracle used by the correspondence: does `bs` describe a file of `size` bytes? *)
Fixpoint contiguous_b (off : N) (bs : list iblob) : bool :=
  match bs with
  | [] => true
  | b :: r => (boff b =? off) && contiguous_b (off + blen b) r
  end.

Fixpoint nodup_ids (bs : list iblob) : bool :=
  match bs with
  | [] => true
  | b :: r => negb (existsb (fun c => bytes_eqb (bid c) (bid b)) r) && nodup_ids r
  end.

Definition homogeneous_b (bs : list iblob) : bool :=
  match bs with
  | [] => true
  | b :: r => forallb (fun c => tpe_eqb (btpe c) (btpe b)) r
  end.

(* what from_file alone can guarantee about an accepted header: contiguous layout and sizes *)
Definition layout_b (bs : list iblob) (size : N) : bool :=
  contiguous_b 0 bs &&
  match hdr_pack_size bs with Some s => s =? size | None => false end.

Definition describes_b (bs : list iblob) (size : N) : bool :=
  contiguous_b 0 bs && nodup_ids bs && homogeneous_b bs &&
  match hdr_pack_size bs with Some s => s =? size | None => false end.

(* ---- the control-flow shape of the functions the model states (returns, ifs, `?`, matches per
   function, in the order of extract.py's PINS), as it was when the model was written.  Props.v
   pins SOURCE_SHAPE (regenerated from the source) to it. *)
Definition MODELLED_SHAPE : list (N * N * N * N) :=
  [ (0, 0, 0, 0) (* packfile::from_binary#0 *);
    (0, 0, 1, 0) (* packfile::to_binary#0 *);
    (0, 0, 0, 1) (* packfile::from_blob#0 *);
    (0, 0, 0, 1) (* packfile::length#0 *);
    (0, 0, 0, 1) (* packfile::into_location#0 *);
    (0, 0, 0, 1) (* packfile::into_blob#0 *);
    (1, 1, 0, 1) (* packfile::from_binary#1 *);
    (3, 4, 5, 0) (* packfile::from_file#0 *);
    (0, 0, 0, 0) (* packfile::size#1 *);
    (0, 0, 0, 0) (* packfile::pack_size#1 *);
    (0, 0, 1, 0) (* packfile::to_binary#1 *);
    (0, 1, 2, 0) (* packer::add_raw#1 *);
    (0, 1, 2, 0) (* packer::finalize#1 *);
    (0, 0, 4, 0) (* packer::save#0 *);
    (0, 0, 1, 0) (* packer::write_data#0 *);
    (1, 1, 2, 0) (* packer::add_raw#2 *);
    (0, 0, 0, 0) (* packer::should_save#0 *);
    (0, 0, 0, 0) (* packer::header_bytes#0 *);
    (0, 0, 4, 0) (* packer::write_header#0 *);
    (0, 0, 0, 0) (* packer::take_data#0 *);
    (0, 0, 0, 0) (* packer::has#1 *);
    (0, 0, 1, 0) (* packer::process#0 *);
    (0, 1, 0, 0) (* packer::coalesce#0 *);
    (0, 0, 2, 0) (* packer::copy_fast#0 *);
    (0, 0, 3, 0) (* packer::copy#0 *);
    (0, 0, 0, 0) (* blob::can_coalesce#0 *);
    (0, 0, 0, 0) (* blob::append#0 *);
    (0, 1, 0, 0) (* blob::coalesce#0 *);
    (0, 2, 0, 1) (* repair::check_pack#0 *);
    (0, 0, 0, 0) (* repair::into_pack_to_read#0 *) ].
