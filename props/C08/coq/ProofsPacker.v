(* C08 — the BasicPacker/RawPacker state machine refines the declarative grouping
   (Spec.spec_groups / pack_of_group) for every op sequence and every save oracle, and every
   emitted pack is well-formed. *)
From Verif.Base Require Import Tactics.
From Verif.C08 Require Import Extracted Model Spec ProofsCodec.
Local Open Scope N_scope.

(* the packer state that corresponds to the current group *)
Definition st_of (tpe : blob_type) (cur : list pop) : pstate :=
  mkst (data_of cur) (N.of_nat (length (data_of cur))) (N.of_nat (length cur)) (blobs_of tpe 0 cur).

Lemma data_of_app a b : data_of (a ++ b) = data_of a ++ data_of b.
Proof. unfold data_of. apply flat_map_app. Qed.

Lemma blobs_of_app tpe a : forall off b,
  blobs_of tpe off (a ++ b) =
  blobs_of tpe off a ++ blobs_of tpe (off + N.of_nat (length (data_of a))) b.
Proof.
  induction a as [|o a IH]; intros off b; cbn [app blobs_of data_of flat_map length].
  - rewrite N.add_0_r. reflexivity.
  - rewrite IH. f_equal. f_equal. f_equal. fold (data_of a). rewrite app_length. lia.
Qed.

Lemma has_blobs_of tpe i cur : forall off,
  existsb (fun b => bytes_eqb (bid b) i) (blobs_of tpe off cur) =
  existsb (fun p => bytes_eqb (op_id p) i) cur.
Proof.
  induction cur as [|o cur IH]; intro off; cbn [blobs_of existsb bid]; [reflexivity|].
  rewrite IH. reflexivity.
Qed.

Definition next_cur (cur : list pop) (o : pop) : list pop :=
  if existsb (fun p => bytes_eqb (op_id p) (op_id o)) cur then cur else cur ++ [o].

Lemma add_raw_spec tpe cur o st' :
  add_raw tpe (st_of tpe cur) o = Ok st' -> st' = st_of tpe (next_cur cur o).
Proof.
  unfold add_raw, next_cur, p_has. cbn [p_index st_of].
  rewrite has_blobs_of.
  destruct (existsb _ cur); [intro H; inv H; reflexivity|].
  unfold write_data. cbn [p_size p_file p_count p_index st_of].
  destruct (U32 <=? _); [discriminate|].
  destruct (u32_add _ _) as [sz|] eqn:E1; [|discriminate]. apply u32_add_some in E1 as [-> E1].
  cbn [bind p_count p_file p_size p_index].
  destruct (u32_add _ _) as [c|] eqn:E2; [|discriminate]. apply u32_add_some in E2 as [-> E2].
  intro H. inv H. unfold st_of.
  rewrite data_of_app, blobs_of_app, !app_length. cbn [data_of flat_map blobs_of length].
  rewrite app_nil_r, N.add_0_l. f_equal; lia.
Qed.

Lemma save_spec enc tpe cur pk st' :
  save enc (st_of tpe cur) = Ok (pk, st') ->
  pk = pack_of_group enc tpe cur /\ st' = st_of tpe [] /\ N.of_nat (length (fst pk)) < U32.
Proof.
  unfold save. cbn [p_index st_of].
  destruct (U32 <=? _); [discriminate|].
  unfold write_data at 1. cbn [p_size p_file p_count p_index].
  destruct (U32 <=? _); [discriminate|].
  destruct (u32_add _ _) as [sz|] eqn:E1; [|discriminate]. apply u32_add_some in E1 as [-> E1].
  cbn [bind]. unfold write_data. cbn [p_size p_file p_count p_index].
  destruct (U32 <=? _); [discriminate|].
  destruct (u32_add _ _) as [sz|] eqn:E2; [|discriminate]. apply u32_add_some in E2 as [-> E2].
  cbn [bind p_index p_file]. destruct (hdr_pack_size _); [|discriminate].
  intro H. inv H. split; [|split].
  - unfold pack_of_group, pack_file. rewrite <- app_assoc. reflexivity.
  - reflexivity.
  - cbn [fst]. rewrite !app_length. rewrite le32_length in *. cbn [p_size st_of] in *. lia.
Qed.

Lemma count_zero tpe cur : (p_count (st_of tpe cur) =? 0) = true <-> cur = [].
Proof.
  cbn [p_count st_of]. destruct cur; cbn [length]; split; intro H; try reflexivity; try discriminate; lia.
Qed.

Lemma run_go_spec enc tpe ops : forall cur packs,
  run_go enc tpe (st_of tpe cur) ops = Ok packs ->
  packs = map (pack_of_group enc tpe) (spec_groups cur ops) /\
  Forall (fun pk => N.of_nat (length (fst pk)) < U32) packs.
Proof.
  induction ops as [|o r IH]; intros cur packs; cbn [run_go spec_groups].
  - destruct (p_count (st_of tpe cur) =? 0) eqn:E.
    + apply count_zero in E. subst. intro H. inv H. split; [reflexivity|constructor].
    + assert (cur <> []) by (intro; subst; discriminate).
      destruct (save enc (st_of tpe cur)) as [| |[pk st']] eqn:S; cbn [bind]; try discriminate.
      intro H0. inv H0. apply save_spec in S as (-> & _ & Hlt).
      destruct cur; [congruence|]. split; [reflexivity|repeat constructor; assumption].
  - destruct (add_raw tpe (st_of tpe cur) o) as [| |st1] eqn:A; cbn [bind]; try discriminate.
    apply add_raw_spec in A. subst st1. fold (next_cur cur o).
    destruct (op_save o).
    + destruct (save enc (st_of tpe (next_cur cur o))) as [| |[pk st2]] eqn:S; cbn [bind]; try discriminate.
      apply save_spec in S as (-> & -> & Hlt).
      destruct (run_go enc tpe (st_of tpe []) r) as [| |l] eqn:R; cbn [bind]; try discriminate.
      intro H. inv H. apply IH in R as [-> HF]. split; [reflexivity|constructor; assumption].
    + apply IH.
Qed.

(* ---- properties of the groups ---------------------------------------------------- *)
Lemma existsb_id_In i cur :
  existsb (fun p => bytes_eqb (op_id p) i) cur = true <-> In i (map op_id cur).
Proof.
  rewrite existsb_exists, in_map_iff. split.
  - intros [p [Hp He]]. apply bytes_eqb_eq in He. eauto.
  - intros [p [He Hp]]. exists p. split; [assumption|]. apply bytes_eqb_eq. assumption.
Qed.

Lemma NoDup_snoc {A} (l : list A) x : NoDup l -> ~ In x l -> NoDup (l ++ [x]).
Proof.
  induction 1 as [|y l Hy Hnd IH]; intro Hx; cbn [app].
  - constructor; [intros []|constructor].
  - constructor.
    + intro H. apply in_app_or in H as [H|[H|[]]]; [contradiction|]. subst. apply Hx. left. reflexivity.
    + apply IH. intro. apply Hx. right. assumption.
Qed.

Lemma next_cur_nodup cur o : NoDup (map op_id cur) -> NoDup (map op_id (next_cur cur o)).
Proof.
  intro H. unfold next_cur. destruct (existsb _ cur) eqn:E; [assumption|].
  rewrite map_app. cbn [map]. apply NoDup_snoc; [assumption|].
  intro Hx. apply existsb_id_In in Hx. congruence.
Qed.

Lemma next_cur_nonempty cur o : next_cur cur o <> [].
Proof.
  unfold next_cur. destruct (existsb _ cur) eqn:E.
  - destruct cur; [discriminate|congruence].
  - destruct cur; discriminate.
Qed.

Lemma next_cur_sub cur o : incl (next_cur cur o) (cur ++ [o]).
Proof.
  unfold next_cur. destruct (existsb _ cur); [apply incl_appl|]; apply incl_refl.
Qed.

Lemma spec_groups_props ops : forall cur g,
  NoDup (map op_id cur) -> In g (spec_groups cur ops) ->
  NoDup (map op_id g) /\ g <> [] /\ incl g (cur ++ ops).
Proof.
  induction ops as [|o r IH]; intros cur g Hnd Hin; cbn [spec_groups] in Hin.
  - destruct cur; [destruct Hin|]. destruct Hin as [<-|[]].
    split; [assumption|]. split; [discriminate|]. rewrite app_nil_r. apply incl_refl.
  - fold (next_cur cur o) in Hin. destruct (op_save o).
    + destruct Hin as [<-|Hin].
      * split; [apply next_cur_nodup; assumption|]. split; [apply next_cur_nonempty|].
        eapply incl_tran; [apply next_cur_sub|]. apply incl_app; [apply incl_appl, incl_refl|].
        apply incl_appr. cbn [app]. intros x [<-|[]]. left. reflexivity.
      * apply IH in Hin as (H1 & H2 & H3); [|constructor].
        split; [assumption|]. split; [assumption|]. cbn [app] in H3.
        intros x Hx. apply in_or_app. right. right. apply H3. assumption.
    + apply IH in Hin as (H1 & H2 & H3); [|apply next_cur_nodup; assumption].
      split; [assumption|]. split; [assumption|].
      intros x Hx. apply H3 in Hx. apply in_app_or in Hx as [Hx|Hx].
      * apply next_cur_sub in Hx. apply in_app_or in Hx as [Hx|[<-|[]]];
          apply in_or_app; [left; assumption|right; left; reflexivity].
      * apply in_or_app. right. right. assumption.
Qed.

Lemma blobs_of_contiguous tpe g : forall off, contiguous off (blobs_of tpe off g).
Proof.
  induction g as [|o g IH]; intro off; cbn [blobs_of contiguous]; [exact I|].
  split; [reflexivity|]. cbn [blen]. apply IH.
Qed.

Lemma blobs_of_tpe tpe g : forall off, Forall (fun b => btpe b = tpe) (blobs_of tpe off g).
Proof. induction g; intro off; cbn [blobs_of]; constructor; [reflexivity|apply IHg]. Qed.

Lemma blobs_of_ids tpe g : forall off, map bid (blobs_of tpe off g) = map op_id g.
Proof. induction g; intro off; cbn [blobs_of map bid]; [reflexivity|]. rewrite IHg. reflexivity. Qed.

Lemma blobs_of_lens tpe g : forall off,
  Forall2 (fun d b => blen b = N.of_nat (length d)) (map op_data g) (blobs_of tpe off g).
Proof. induction g; intro off; cbn [blobs_of map]; constructor; [reflexivity|apply IHg]. Qed.

Lemma blobs_of_total tpe g : forall off, total_len (blobs_of tpe off g) = N.of_nat (length (data_of g)).
Proof.
  induction g as [|o g IH]; intro off; cbn [blobs_of total_len data_of flat_map blen]; [reflexivity|].
  rewrite IH. fold (data_of g). rewrite app_length. lia.
Qed.

Lemma blobs_of_idlen tpe g : forall off,
  Forall wf_op g -> Forall (fun b => length (bid b) = id_len) (blobs_of tpe off g).
Proof.
  induction g as [|o g IH]; intros off H; cbn [blobs_of]; constructor.
  - inv H. destruct H2 as [[H _] _]. exact H.
  - inv H. apply IH. assumption.
Qed.

Lemma blobs_of_wf tpe g : forall off,
  Forall wf_op g -> N.of_nat (length (data_of g)) < U32 -> Forall wf_blob (blobs_of tpe off g).
Proof.
  induction g as [|o g IH]; intros off H Hlt; cbn [blobs_of]; constructor.
  - inv H. destruct H2 as [Hid Hu]. cbn [data_of flat_map] in Hlt. rewrite app_length in Hlt.
    split; [exact Hid|]. split; [cbn [blen]; lia|exact Hu].
  - inv H. apply IH; [assumption|]. cbn [data_of flat_map] in Hlt. rewrite app_length in Hlt.
    fold (data_of g) in Hlt. lia.
Qed.

(* ---- the packer driven by its own should_save is one of the oracle runs ------------------- *)
Definition set_save (b : bool) (o : pop) : pop := mkop (op_data o) (op_id o) (op_ulen o) b.
Definition op_key (o : pop) := (op_data o, op_id o, op_ulen o).

Lemma add_raw_set_save tpe st o b : add_raw tpe st (set_save b o) = add_raw tpe st o.
Proof. reflexivity. Qed.

Lemma run_auto_is_run_go enc tpe limit ops : forall st,
  exists ops', map op_key ops' = map op_key ops /\
               run_auto enc tpe limit st ops = run_go enc tpe st ops'.
Proof.
  induction ops as [|o r IH]; intro st.
  - exists []. split; reflexivity.
  - cbn [run_auto]. destruct (add_raw tpe st o) as [| |st1] eqn:A.
    + exists (o :: r). split; [reflexivity|]. cbn [run_go]. rewrite A. reflexivity.
    + exists (o :: r). split; [reflexivity|]. cbn [run_go]. rewrite A. reflexivity.
    + cbn [bind]. destruct (should_save_b limit (op_save o) st1) eqn:B.
      * destruct (save enc st1) as [| |[pk st2]] eqn:S.
        -- exists (set_save true o :: r). split; [reflexivity|].
           cbn [run_go]. rewrite add_raw_set_save, A. cbn [bind op_save set_save]. rewrite S. reflexivity.
        -- exists (set_save true o :: r). split; [reflexivity|].
           cbn [run_go]. rewrite add_raw_set_save, A. cbn [bind op_save set_save]. rewrite S. reflexivity.
        -- destruct (IH st2) as (r' & Hk & Hr). exists (set_save true o :: r').
           split; [cbn [map]; rewrite Hk; reflexivity|].
           cbn [run_go]. rewrite add_raw_set_save, A. cbn [bind op_save set_save]. rewrite S. cbn [bind]. rewrite Hr. reflexivity.
      * destruct (IH st1) as (r' & Hk & Hr). exists (set_save false o :: r').
        split; [cbn [map]; rewrite Hk; reflexivity|].
        cbn [run_go]. rewrite add_raw_set_save, A. cbn [bind op_save set_save]. exact Hr.
Qed.

Lemma wf_op_key a : forall b, map op_key a = map op_key b -> Forall wf_op b -> Forall wf_op a.
Proof.
  induction a as [|x a IH]; intros [|y b] H Hb; try discriminate; constructor.
  - inversion Hb as [|? ? Hy Hb']; subst. cbn [map] in H. unfold op_key in H.
    assert (E1 : op_id x = op_id y) by congruence. assert (E2 : op_ulen x = op_ulen y) by congruence.
    unfold wf_op. rewrite E1, E2. exact Hy.
  - inversion Hb as [|? ? Hy Hb']; subst. cbn [map] in H. inversion H. eapply IH; eassumption.
Qed.

Section WithEnc.
Variable enc : bytes -> bytes.
Hypothesis enc_len : forall x, length (enc x) = (length x + 32)%nat.

Lemma pack_file_length data bs :
  Forall (fun b => length (bid b) = id_len) bs ->
  N.of_nat (length (pack_file enc data bs)) =
  N.of_nat (length data) + (sum_entry bs + COMP_OVERHEAD) + LENGTH_LEN.
Proof.
  intro H. unfold pack_file. rewrite !app_length, le32_length, enc_len.
  rewrite <- (hdr_to_binary_length bs H). unfold COMP_OVERHEAD, LENGTH_LEN. lia.
Qed.

Lemma group_wellformed tpe g :
  Forall wf_op g -> NoDup (map op_id g) -> g <> [] ->
  N.of_nat (length (fst (pack_of_group enc tpe g))) < U32 ->
  pack_wellformed enc tpe (pack_of_group enc tpe g).
Proof.
  intros Hwf Hnd Hne Hlt. unfold pack_of_group in *. unfold pack_wellformed. cbv zeta in Hlt. cbn [fst] in Hlt.
  pose proof (blobs_of_idlen tpe g 0 Hwf) as Hid.
  pose proof (pack_file_length (data_of g) _ Hid) as Hlen.
  exists (map op_data g). repeat split.
  - unfold data_of. rewrite flat_map_concat_map. reflexivity.
  - apply blobs_of_lens.
  - apply blobs_of_contiguous.
  - apply blobs_of_tpe.
  - rewrite blobs_of_ids. assumption.
  - destruct g; [congruence|discriminate].
  - rewrite hdr_pack_size_sum. cbv zeta. rewrite blobs_of_total.
    rewrite Hlen in *. unfold COMP_OVERHEAD, LENGTH_LEN in *.
    match goal with |- (if ?c then _ else _) = _ => assert (E : c = true) by lia; rewrite E end.
    f_equal. lia.
  - rewrite hdr_size_sum. rewrite enc_len, Nat2N.inj_add, (hdr_to_binary_length _ Hid).
    rewrite Hlen in Hlt. unfold COMP_OVERHEAD, LENGTH_LEN in *.
    match goal with |- (if ?c then _ else _) = _ => assert (E : c = true) by lia; rewrite E end.
    f_equal. lia.
Qed.

Lemma packer_pack_wellformed_lemma tpe ops packs :
  Forall wf_op ops -> packer_run enc tpe ops = Ok packs ->
  packs = map (pack_of_group enc tpe) (spec_groups [] ops) /\
  Forall (pack_wellformed enc tpe) packs /\
  Forall (fun pk => N.of_nat (length (fst pk)) < U32) packs.
Proof.
  intros Hwf Hrun. unfold packer_run in Hrun. change st0 with (st_of tpe []) in Hrun.
  apply run_go_spec in Hrun as [-> HF]. split; [reflexivity|]. split; [|assumption].
  apply Forall_forall. intros pk Hpk. apply in_map_iff in Hpk as [g [<- Hg]].
  pose proof (spec_groups_props ops [] g (NoDup_nil _) Hg) as (H1 & H2 & H3).
  apply group_wellformed; try assumption.
  - rewrite Forall_forall. intros o Ho. rewrite Forall_forall in Hwf. apply Hwf. apply H3. assumption.
  - rewrite Forall_forall in HF. apply HF. apply in_map. assumption.
Qed.

Lemma auto_packer_wellformed_lemma tpe limit ops packs :
  Forall wf_op ops -> packer_run_auto enc tpe limit ops = Ok packs ->
  Forall (pack_wellformed enc tpe) packs /\
  Forall (fun pk => N.of_nat (length (fst pk)) < U32) packs.
Proof.
  intros Hwf Hrun. unfold packer_run_auto in Hrun.
  destruct (run_auto_is_run_go enc tpe limit ops st0) as (ops' & Hk & Hr). rewrite Hr in Hrun.
  destruct (packer_pack_wellformed_lemma tpe ops' packs (wf_op_key _ _ Hk Hwf) Hrun) as (_ & H1 & H2).
  split; assumption.
Qed.

End WithEnc.

(* hypotheses are satisfiable: a two-op run with a save in the middle *)
Example packer_example :
  let enc := fun x => repeat 0 16 ++ x ++ repeat 0 16 in
  let i1 := repeat 1 32 in let i2 := repeat 2 32 in
  let ops := [mkop [7;8;9] i1 None true; mkop [5] i2 (Some 9) false; mkop [6] i2 None false] in
  Forall wf_op ops /\
  (forall x, length (enc x) = (length x + 32)%nat) /\
  exists packs, packer_run enc Data ops = Ok packs /\ length packs = 2%nat.
Proof.
  cbv zeta. split; [|split].
  - repeat constructor; cbn; lia.
  - intro x. rewrite !app_length, !repeat_length. lia.
  - eexists. split; [vm_compute; reflexivity|reflexivity].
Qed.
