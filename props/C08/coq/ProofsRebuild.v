(* C08 — repair-index rebuilds the index from the packs: for ANY set of remaining index
   entries that agree with their packs (= any subset of index files removed), the entries
   kept by PackChecker::check_pack plus the headers re-read with PackHeader::from_file are,
   up to order, exactly one entry per existing pack with the blobs the packer recorded. *)
From Verif.Base Require Import Tactics.
From Verif.C08 Require Import Extracted Model Spec ProofsCodec ProofsPacker ProofsFromFile.
Local Open Scope N_scope.

Definition pk := (id * (bytes * list iblob))%type.
Definition listing_of (P : list pk) : list (id * bytes) := map (fun p => (fst p, fst (snd p))) P.
Definition truth_of (P : list pk) : list ipack := map (fun p => (fst p, snd (snd p))) P.
Definition hint_of (p : pk) : N := match hdr_size (snd (snd p)) with Some h => h | None => 0 end.
Definition toread_of (P : list pk) : list (id * option N * bytes) :=
  map (fun p => (fst p, Some (hint_of p), fst (snd p))) P.

Definition entries_of (ix : list ipack) : list (id * iblob) :=
  flat_map (fun e => map (fun b => (fst e, b)) (snd e)) ix.

Lemma listing_of_app a b : listing_of (a ++ b) = listing_of a ++ listing_of b.
Proof. apply map_app. Qed.
Lemma truth_of_app a b : truth_of (a ++ b) = truth_of a ++ truth_of b.
Proof. apply map_app. Qed.
Lemma toread_of_app a b : toread_of (a ++ b) = toread_of a ++ toread_of b.
Proof. apply map_app. Qed.

Lemma remove_pack_spec pid (P : list pk) : forall f l',
  remove_pack pid (listing_of P) = Some (f, l') ->
  exists A p B, P = A ++ p :: B /\ fst p = pid /\ fst (snd p) = f /\ l' = listing_of (A ++ B).
Proof.
  induction P as [|q P IH]; intros f l' H; cbn [listing_of map remove_pack] in H; [discriminate|].
  destruct (bytes_eqb (fst q) pid) eqn:E.
  - inv H. apply bytes_eqb_eq in E. exists [], q, P. repeat split; assumption.
  - fold (listing_of P) in H. destruct (remove_pack pid (listing_of P)) as [[g r']|] eqn:R; [|discriminate].
    inv H. destruct (IH _ _ eq_refl) as (A & p & B & -> & H1 & H2 & ->).
    exists (q :: A), p, B. repeat split; assumption.
Qed.

Lemma remove_pack_none pid (P : list pk) :
  remove_pack pid (listing_of P) = None -> ~ In pid (map fst P).
Proof.
  induction P as [|q P IH]; intro H; cbn [listing_of map remove_pack] in *; [intros []|].
  destruct (bytes_eqb (fst q) pid) eqn:E; [discriminate|].
  fold (listing_of P) in H. destruct (remove_pack pid (listing_of P)) as [[g r']|]; [discriminate|].
  intros [Hq|Hin]; [|exact (IH eq_refl Hin)].
  subst. rewrite bytes_eqb_refl in E. discriminate.
Qed.

Lemma perm_move_T {X} (A B K T : list X) p :
  Permutation ((A ++ p :: B) ++ K ++ T) ((A ++ B) ++ K ++ (T ++ [p])).
Proof.
  transitivity (p :: (A ++ B ++ K ++ T)).
  - rewrite <- app_assoc. cbn [app]. symmetry. apply Permutation_middle.
  - replace ((A ++ B) ++ K ++ T ++ [p]) with ((A ++ B ++ K ++ T) ++ [p]) by (rewrite <- !app_assoc; reflexivity).
    apply Permutation_cons_append.
Qed.

Lemma perm_move_K {X} (A B K T : list X) p :
  Permutation ((A ++ p :: B) ++ K ++ T) ((A ++ B) ++ (K ++ [p]) ++ T).
Proof.
  transitivity (p :: (A ++ B ++ K ++ T)).
  - rewrite <- app_assoc. cbn [app]. symmetry. apply Permutation_middle.
  - replace ((A ++ B) ++ (K ++ [p]) ++ T) with ((A ++ B ++ K) ++ p :: T) by (rewrite <- !app_assoc; reflexivity).
    replace (A ++ B ++ K ++ T) with ((A ++ B ++ K) ++ T) by (rewrite <- !app_assoc; reflexivity).
    apply Permutation_middle.
Qed.

Section WithCrypto.
Variables (enc : bytes -> bytes) (dec : bytes -> option bytes).
Hypothesis dec_enc : forall x, dec (enc x) = Some x.
Hypothesis enc_len : forall x, length (enc x) = (length x + 32)%nat.

Variable packs : list pk.
Hypothesis packs_good : Forall (good_pack enc) packs.

(* an index entry is admissible: its size is computable (it was written by a packer), and
   if the pack it names exists, it lists that pack's blobs *)
Definition entry_agrees (e : ipack) : Prop :=
  hdr_pack_size (snd e) <> None /\
  forall f bs', In (fst e, (f, bs')) packs -> snd e = bs'.

Definition inv (st : list (id * bytes) * list ipack * list (id * option N * bytes)) : Prop :=
  exists PR PK PT,
    Permutation packs (PR ++ PK ++ PT) /\
    st = (listing_of PR, truth_of PK, toread_of PT).

Lemma good_in p : In p packs -> good_pack enc p.
Proof. rewrite Forall_forall in packs_good. apply packs_good. Qed.

Lemma good_sizes pid f bs :
  good_pack enc (pid, (f, bs)) ->
  hdr_pack_size bs = Some (N.of_nat (length f)) /\
  exists h, hdr_size bs = Some h /\ h + LENGTH_LEN <= N.of_nat (length f).
Proof.
  intros [[tpe (ds & _ & _ & _ & _ & _ & _ & Hps & Hs)] _]. cbn [snd fst] in *.
  split; [assumption|]. eexists. split; [eassumption|].
  rewrite hdr_pack_size_sum in Hps. cbv zeta in Hps. rewrite hdr_size_sum in Hs.
  destruct (_ + _ + _ <? U32); [|discriminate]. destruct (COMP_OVERHEAD + sum_entry bs <? U32); [|discriminate].
  inversion Hs as [Hs']. inversion Hps as [Hps']. unfold COMP_OVERHEAD, LENGTH_LEN in *. lia.
Qed.

Lemma check_one_inv read_all st e :
  inv st -> entry_agrees e -> exists st', check_one read_all st e = Ok st' /\ inv st'.
Proof.
  intros (PR & PK & PT & Hperm & ->) [Hsz Hag]. destruct e as [pid bs]. cbn [fst snd] in *.
  unfold check_one. destruct (hdr_pack_size bs) as [isz|] eqn:Eps; [|congruence].
  destruct (remove_pack pid (listing_of PR)) as [[f l']|] eqn:R.
  - destruct (remove_pack_spec _ _ _ _ R) as (A & p & B & -> & Hp1 & Hp2 & ->).
    destruct p as [pid' [f' bs']]. cbn [fst snd] in *. subst pid' f'.
    assert (Hin : In (pid, (f, bs')) packs).
    { eapply Permutation_in; [apply Permutation_sym; eassumption|]. apply in_or_app. left. apply in_or_app. right. left. reflexivity. }
    pose proof (Hag _ _ Hin) as ->.
    destruct (good_sizes _ _ _ (good_in _ Hin)) as (Hps & h & Hh & _).
    destruct (negb (isz =? N.of_nat (length f)) || read_all).
    + rewrite Hh. eexists. split; [reflexivity|].
      exists (A ++ B), PK, (PT ++ [(pid, (f, bs'))]). split.
      * eapply Permutation_trans; [eassumption|]. apply perm_move_T.
      * rewrite toread_of_app. cbn [toread_of map fst snd]. unfold hint_of. cbn [snd]. rewrite Hh. reflexivity.
    + eexists. split; [reflexivity|].
      exists (A ++ B), (PK ++ [(pid, (f, bs'))]), PT. split.
      * eapply Permutation_trans; [eassumption|]. apply perm_move_K.
      * rewrite truth_of_app. reflexivity.
  - eexists. split; [reflexivity|]. exists PR, PK, PT. split; [assumption|reflexivity].
Qed.

Lemma check_all_inv read_all index : forall st,
  inv st -> Forall entry_agrees index ->
  exists st', check_all read_all st index = Ok st' /\ inv st'.
Proof.
  induction index as [|e index IH]; intros st Hinv Hag; cbn [check_all].
  - eexists. split; [reflexivity|assumption].
  - inv Hag. destruct (check_one_inv read_all st e Hinv H1) as (st1 & -> & Hinv1). cbn [bind].
    apply IH; assumption.
Qed.

Lemma read_headers_any (P : list pk) (l : list (id * option N * bytes)) :
  Forall (good_pack enc) P ->
  Forall2 (fun p e => e = (fst p, None, fst (snd p)) \/ e = (fst p, Some (hint_of p), fst (snd p))) P l ->
  read_headers dec l = Ok (truth_of P).
Proof.
  intros Hg H. induction H as [|p e P l He _ IH]; [reflexivity|]. inv Hg.
  destruct p as [pid [f bs]]. pose proof H1 as [[tpe Hw] [Hwf Hlt]]. cbn [fst snd] in *.
  destruct (good_sizes _ _ _ H1) as (_ & h & Hh & Hle).
  assert (Hff : forall hint, hint = None \/ hint = Some h ->
                from_file (read_of f) dec hint (N.of_nat (length f)) = Ok bs).
  { intros hint [->| ->]; apply (pack_wellformed_from_file enc dec dec_enc enc_len tpe); try assumption; exact I. }
  destruct He as [-> | ->]; cbn [read_headers].
  - rewrite (Hff None) by (left; reflexivity). rewrite (IH H2). reflexivity.
  - unfold hint_of. cbn [snd]. rewrite Hh. rewrite (Hff (Some h)) by (right; reflexivity). rewrite (IH H2). reflexivity.
Qed.

Lemma rebuild_index_lemma read_all index :
  Forall entry_agrees index ->
  exists r, rebuild_index dec read_all (listing_of packs) index = Ok r /\
            Permutation r (truth_of packs).
Proof.
  intro Hag. unfold rebuild_index.
  assert (Hinv0 : inv (listing_of packs, [], [])).
  { exists packs, [], []. split; [rewrite !app_nil_r; reflexivity|reflexivity]. }
  destruct (check_all_inv read_all index _ Hinv0 Hag) as (st & -> & (PR & PK & PT & Hperm & ->)). cbn [bind].
  assert (Hg : Forall (good_pack enc) (PT ++ PR)).
  { apply Forall_forall. intros p Hp. apply good_in. eapply Permutation_in; [apply Permutation_sym; eassumption|].
    apply in_app_or in Hp as [Hp|Hp]; apply in_or_app; [right; apply in_or_app; right|left]; assumption. }
  rewrite (read_headers_any (PT ++ PR)); [|assumption|].
  - cbn [bind]. eexists. split; [reflexivity|].
    rewrite <- !truth_of_app. unfold truth_of. apply Permutation_map.
    eapply Permutation_trans; [|apply Permutation_sym; eassumption].
    rewrite app_assoc. apply Permutation_app_comm.
  - apply Forall2_app.
    + unfold toread_of. clear. induction PT; cbn [map]; constructor; [right; reflexivity|assumption].
    + unfold listing_of. rewrite map_map. clear. induction PR as [|[pid [f bs]] PR IH]; cbn [map]; constructor; [left; reflexivity|assumption].
Qed.

(* the flat entry set (pack, type, id, offset, length, uncompressed length) *)
Lemma rebuild_index_entries_lemma read_all index :
  Forall entry_agrees index ->
  exists r, rebuild_index dec read_all (listing_of packs) index = Ok r /\
            Permutation r (truth_of packs) /\
            Permutation (entries_of r) (entries_of (truth_of packs)).
Proof.
  intro H. destruct (rebuild_index_lemma read_all index H) as (r & Hr & Hp).
  exists r. split; [assumption|]. split; [assumption|]. unfold entries_of. apply Permutation_flat_map. assumption.
Qed.

End WithCrypto.

(* hypotheses are satisfiable: two packs, one stale index entry, one agreeing entry *)
Example rebuild_example :
  let enc := fun x => repeat 0 16 ++ x ++ repeat 0 16 in
  let dec := fun y : bytes => Some (firstn (length y - 32) (skipn 16 y)) in
  let i1 := repeat 1 32 in let i2 := repeat 2 32 in
  exists p1 p2, packer_run enc Data [mkop [7;8;9] i1 None true; mkop [5] i2 (Some 9) false] = Ok [p1; p2] /\
    let packs := [(repeat 10 32, p1); (repeat 11 32, p2)] in
    let index := [(repeat 99 32, [mkblob i1 Data 0 1 None]); (repeat 11 32, snd p2)] in
    Forall (entry_agrees packs) index /\
    exists r, rebuild_index dec false (listing_of packs) index = Ok r /\ length r = 2%nat.
Proof.
  cbv zeta. eexists. eexists. split; [vm_compute; reflexivity|].
  split.
  - constructor; [|constructor; [|constructor]]; split; cbn [fst snd]; try (vm_compute; discriminate).
    + intros f bs' [H|[H|[]]]; inv H.
    + intros f bs' [H|[H|[]]]; inv H. reflexivity.
  - eexists. split; [vm_compute; reflexivity|reflexivity].
Qed.
