(* C08 — lemmas about the header codec: round trip, sizes. *)
From Verif.Base Require Import Tactics.
From Verif.C08 Require Import Extracted Model Spec.
Local Open Scope N_scope.

Lemma u32_add_some a b c : u32_add a b = Some c <-> (c = a + b /\ a + b < U32).
Proof.
  unfold u32_add. cbv zeta. destruct (a + b <? U32) eqn:E; split.
  - intro H. inv H. split; [reflexivity|lia].
  - intros [-> _]. reflexivity.
  - discriminate.
  - intros [_ H]. lia.
Qed.

Lemma u32_add_none a b : u32_add a b = None <-> U32 <= a + b.
Proof.
  unfold u32_add. cbv zeta. destruct (a + b <? U32) eqn:E; split; try discriminate; try lia. reflexivity.
Qed.

Lemma u32_sub_some a b c : u32_sub a b = Some c <-> (c = a - b /\ b <= a).
Proof.
  unfold u32_sub. destruct (b <=? a) eqn:E; split.
  - intro H. inv H. split; [reflexivity|lia].
  - intros [-> _]. reflexivity.
  - discriminate.
  - intros [_ H]. lia.
Qed.

Lemma le32_length n : length (le32 n) = 4%nat.
Proof. reflexivity. Qed.

Lemma rd32_le32 n r : n < U32 -> rd32 (le32 n ++ r) = n.
Proof.
  unfold U32. intro H. unfold le32, rd32. cbn [app]. lia.
Qed.

Lemma le32_wf n : wf_bytes (le32 n).
Proof.
  unfold wf_bytes, le32. repeat constructor; lia.
Qed.

Lemma skipn_app_exact {A} (a b : list A) n : length a = n -> skipn n (a ++ b) = b.
Proof.
  intros <-. rewrite skipn_app, skipn_all, Nat.sub_diag. reflexivity.
Qed.

Lemma firstn_app_exact {A} (a b : list A) n : length a = n -> firstn n (a ++ b) = a.
Proof.
  intros <-. rewrite firstn_app, firstn_all, Nat.sub_diag, firstn_O, app_nil_r. reflexivity.
Qed.

Lemma bytes_eqb_refl a : bytes_eqb a a = true.
Proof. induction a; cbn [bytes_eqb]; [reflexivity|]. rewrite N.eqb_refl, IHa. reflexivity. Qed.

Lemma bytes_eqb_eq a b : bytes_eqb a b = true <-> a = b.
Proof.
  revert b. induction a as [|x a IH]; intros [|y b]; cbn [bytes_eqb]; split; intro H;
    try reflexivity; try discriminate.
  - apply andb_true_iff in H as [H1 H2]. apply N.eqb_eq in H1. apply IH in H2. subst. reflexivity.
  - inv H. rewrite N.eqb_refl, bytes_eqb_refl. reflexivity.
Qed.

(* ---- one entry ---------------------------------------------------------------- *)
Ltac is_pos p := match p with xH => idtac | xO ?q => is_pos q | xI ?q => is_pos q end.
Ltac is_num n := match n with N0 => idtac | Npos ?p => is_pos p end.
Ltac red_eqb :=
  repeat match goal with
         | |- context [N.eqb ?a ?b] =>
           is_num a; is_num b;
           let v := eval vm_compute in (N.eqb a b) in change (N.eqb a b) with v
         end.
Lemma read_entry_to_binary b rest :
  wf_blob b ->
  read_entry (entry_to_binary b ++ rest) = RGot (btpe b) (blen b) (bulen b) (bid b) rest.
Proof.
  intros [[Hl Hw] [Hlen Hu]].
  destruct b as [i t off len ul]. cbn [bid btpe boff blen bulen] in *.
  unfold entry_to_binary, magic_of. cbn [bid btpe boff blen bulen].
  destruct ul as [u|]; destruct t; cbn [app]; unfold read_entry;
    cbv [MAGIC_DATA MAGIC_TREE MAGIC_COMP_DATA MAGIC_COMP_TREE];
    red_eqb; cbn [orb negb];
    match goal with |- context [(length ?l <? ?k)%nat] =>
      assert (Hge : (length l <? k)%nat = false)
        by (apply Nat.ltb_ge; rewrite firstn_length, !app_length, le32_length; try rewrite le32_length;
            rewrite Hl; unfold id_len; lia);
      rewrite Hge end;
    rewrite <- ?app_assoc.
  all: rewrite rd32_le32 by assumption.
  all: rewrite (skipn_app_exact (le32 len)) by reflexivity.
  1,2: rewrite rd32_le32 by (cbn [wf_ulen] in Hu; lia).
  1,2: rewrite (skipn_app_exact (le32 u)) by reflexivity.
  1,2: assert (Hz : (u =? 0) = false) by (cbn [wf_ulen] in Hu; lia); rewrite Hz.
  all: rewrite firstn_app_exact, skipn_app_exact by assumption; reflexivity.
Qed.

Lemma entry_to_binary_length b :
  length (bid b) = id_len -> N.of_nat (length (entry_to_binary b)) = entry_len b.
Proof.
  intro H. unfold entry_to_binary, entry_len. cbn [length]. rewrite !app_length, le32_length.
  destruct (bulen b); rewrite ?le32_length, H; reflexivity.
Qed.

Lemma entry_to_binary_nonempty b : (1 <= length (entry_to_binary b))%nat.
Proof. unfold entry_to_binary. cbn [length]. lia. Qed.

(* ---- the loop ------------------------------------------------------------------ *)
Lemma hdr_to_binary_cons b bs : hdr_to_binary (b :: bs) = entry_to_binary b ++ hdr_to_binary bs.
Proof. reflexivity. Qed.

Lemma hdr_to_binary_app a b : hdr_to_binary (a ++ b) = hdr_to_binary a ++ hdr_to_binary b.
Proof. unfold hdr_to_binary. apply flat_map_app. Qed.

Lemma from_binary_go_ok bs : forall fuel off,
  Forall wf_blob bs -> (length (hdr_to_binary bs) < fuel)%nat ->
  off + total_len bs < U32 ->
  from_binary_go fuel (hdr_to_binary bs) off = Ok (reoffset off bs).
Proof.
  induction bs as [|b bs IH]; intros fuel off Hwf Hf Hsum.
  - destruct fuel; [cbn in Hf; lia|]. reflexivity.
  - destruct fuel; [lia|].
    inv Hwf. rewrite hdr_to_binary_cons in *. cbn [from_binary_go].
    rewrite read_entry_to_binary by assumption.
    cbn [total_len] in Hsum.
    unfold u32_add. assert (Hlt : (off + blen b <? U32) = true) by lia. rewrite Hlt.
    rewrite IH; [reflexivity|assumption| |lia].
    rewrite app_length in Hf. pose proof (entry_to_binary_nonempty b). lia.
Qed.

Lemma from_binary_go_overflow bs : forall fuel off,
  Forall wf_blob bs -> (length (hdr_to_binary bs) < fuel)%nat ->
  off < U32 -> U32 <= off + total_len bs ->
  from_binary_go fuel (hdr_to_binary bs) off = Panic.
Proof.
  induction bs as [|b bs IH]; intros fuel off Hwf Hf Hoff Hsum.
  - cbn [total_len] in Hsum. lia.
  - destruct fuel; [lia|].
    inv Hwf. rewrite hdr_to_binary_cons in *. cbn [from_binary_go].
    rewrite read_entry_to_binary by assumption.
    cbn [total_len] in Hsum.
    unfold u32_add. destruct (off + blen b <? U32) eqn:E; [|reflexivity].
    rewrite IH; [reflexivity|assumption| |lia|lia].
    rewrite app_length in Hf. pose proof (entry_to_binary_nonempty b). lia.
Qed.

Lemma header_roundtrip_lemma bs :
  Forall wf_blob bs -> total_len bs < U32 ->
  hdr_from_binary (hdr_to_binary bs) = Ok (reoffset 0 bs).
Proof.
  intros. unfold hdr_from_binary. apply from_binary_go_ok; [assumption|lia|lia].
Qed.

Lemma header_roundtrip_overflow_lemma bs :
  Forall wf_blob bs -> U32 <= total_len bs ->
  hdr_from_binary (hdr_to_binary bs) = Panic.
Proof.
  intros. unfold hdr_from_binary. apply from_binary_go_overflow; [assumption|lia|unfold U32; lia|lia].
Qed.

Lemma reoffset_contiguous bs : forall off, contiguous off bs <-> reoffset off bs = bs.
Proof.
  induction bs as [|b bs IH]; intro off; cbn [contiguous reoffset]; [tauto|].
  split.
  - intros [H1 H2]. apply IH in H2. rewrite H2. destruct b; cbn in *. subst. reflexivity.
  - intro H. inversion H as [[H1 H2]]. rewrite H2. split.
    + destruct b; cbn in *. congruence.
    + apply IH. assumption.
Qed.

Lemma contiguous_reoffset bs : forall off, contiguous off (reoffset off bs).
Proof.
  induction bs as [|b bs IH]; intro off; cbn [contiguous reoffset]; [exact I|].
  split; [reflexivity|]. cbn [blen]. apply IH.
Qed.

(* a trailing partial entry or an unknown type byte is an error, not a silent end *)
Lemma from_binary_go_app_bad bs : forall fuel off tail,
  Forall wf_blob bs -> (length (hdr_to_binary bs ++ tail) < fuel)%nat ->
  off + total_len bs < U32 ->
  read_entry tail = RBad ->
  from_binary_go fuel (hdr_to_binary bs ++ tail) off = Err.
Proof.
  induction bs as [|b bs IH]; intros fuel off tail Hwf Hf Hsum Hbad.
  - destruct fuel; [reflexivity|]. cbn [hdr_to_binary flat_map app from_binary_go]. rewrite Hbad. reflexivity.
  - destruct fuel; [reflexivity|].
    inv Hwf. rewrite hdr_to_binary_cons in *. rewrite <- app_assoc in *. cbn [from_binary_go].
    rewrite read_entry_to_binary by assumption.
    cbn [total_len] in Hsum.
    unfold u32_add. assert (Hlt : (off + blen b <? U32) = true) by lia. rewrite Hlt.
    rewrite IH; [reflexivity|assumption| |lia|assumption].
    rewrite app_length in Hf. pose proof (entry_to_binary_nonempty b). lia.
Qed.

Lemma trailing_garbage_rejected_lemma bs tail :
  Forall wf_blob bs -> total_len bs < U32 -> read_entry tail = RBad ->
  hdr_from_binary (hdr_to_binary bs ++ tail) = Err.
Proof.
  intros. unfold hdr_from_binary. apply from_binary_go_app_bad; [assumption|lia|lia|assumption].
Qed.

(* ---- sizes --------------------------------------------------------------------- *)
Definition step_size := (fun (acc : option N) (b : iblob) =>
  match acc with None => None | Some a => u32_add a (entry_len b) end).

Lemma fold_size_none bs : fold_left step_size bs None = None.
Proof. induction bs; cbn; auto. Qed.

Lemma fold_size bs : forall a,
  fold_left step_size bs (Some a) =
  if a + sum_entry bs <? U32 then Some (a + sum_entry bs) else None.
Proof.
  induction bs as [|b bs IH]; intro a; cbn [fold_left sum_entry].
  - rewrite N.add_0_r. unfold step_size.
    destruct (a <? U32) eqn:E; [reflexivity|].
Abort.

Lemma entry_len_pos b : 0 < entry_len b.
Proof. unfold entry_len. destruct (bulen b); reflexivity. Qed.

Lemma fold_size bs : forall a, a < U32 ->
  fold_left step_size bs (Some a) =
  if a + sum_entry bs <? U32 then Some (a + sum_entry bs) else None.
Proof.
  induction bs as [|b bs IH]; intros a Ha; cbn [fold_left sum_entry].
  - rewrite N.add_0_r. assert (E : (a <? U32) = true) by lia. rewrite E. reflexivity.
  - cbn [step_size]. unfold u32_add. destruct (a + entry_len b <? U32) eqn:E.
    + rewrite IH by lia. rewrite N.add_assoc. reflexivity.
    + rewrite fold_size_none. assert (E2 : (a + (entry_len b + sum_entry bs) <? U32) = false) by lia.
      rewrite E2. reflexivity.
Qed.

Lemma hdr_size_sum bs :
  hdr_size bs = if COMP_OVERHEAD + sum_entry bs <? U32 then Some (COMP_OVERHEAD + sum_entry bs) else None.
Proof. unfold hdr_size. apply (fold_size bs). reflexivity. Qed.

Definition step_psize := (fun (acc : option N) (b : iblob) =>
  match acc with
  | None => None
  | Some a => match u32_add a (blen b) with None => None | Some a' => u32_add a' (entry_len b) end
  end).

Lemma fold_psize_none bs : fold_left step_psize bs None = None.
Proof. induction bs; cbn; auto. Qed.

Lemma fold_psize bs : forall a, a < U32 ->
  fold_left step_psize bs (Some a) =
  if a + (total_len bs + sum_entry bs) <? U32 then Some (a + (total_len bs + sum_entry bs)) else None.
Proof.
  induction bs as [|b bs IH]; intros a Ha; cbn [fold_left sum_entry total_len].
  - rewrite N.add_0_r. assert (E : (a <? U32) = true) by lia. rewrite E. reflexivity.
  - cbn [step_psize]. unfold u32_add.
    destruct (a + blen b <? U32) eqn:E1.
    + destruct (a + blen b + entry_len b <? U32) eqn:E2.
      * rewrite IH by lia.
        replace (a + blen b + entry_len b + (total_len bs + sum_entry bs))
          with (a + (blen b + total_len bs + (entry_len b + sum_entry bs))) by lia.
        reflexivity.
      * rewrite fold_psize_none.
        assert (E3 : (a + (blen b + total_len bs + (entry_len b + sum_entry bs)) <? U32) = false) by lia.
        rewrite E3. reflexivity.
    + rewrite fold_psize_none.
      assert (E3 : (a + (blen b + total_len bs + (entry_len b + sum_entry bs)) <? U32) = false) by lia.
      rewrite E3. reflexivity.
Qed.

Lemma hdr_pack_size_sum bs :
  hdr_pack_size bs =
  let s := COMP_OVERHEAD + LENGTH_LEN + (total_len bs + sum_entry bs) in
  if s <? U32 then Some s else None.
Proof.
  unfold hdr_pack_size. change (u32_add COMP_OVERHEAD LENGTH_LEN) with (Some (COMP_OVERHEAD + LENGTH_LEN)).
  apply (fold_psize bs). reflexivity.
Qed.

Lemma hdr_to_binary_length bs :
  Forall (fun b => length (bid b) = id_len) bs ->
  N.of_nat (length (hdr_to_binary bs)) = sum_entry bs.
Proof.
  induction 1 as [|b bs Hb _ IH]; [reflexivity|].
  rewrite hdr_to_binary_cons, app_length, Nat2N.inj_add, IH, entry_to_binary_length by assumption.
  reflexivity.
Qed.

Lemma wf_blob_idlen bs : Forall wf_blob bs -> Forall (fun b => length (bid b) = id_len) bs.
Proof. apply Forall_impl. intros b [[H _] _]. exact H. Qed.

(* header_sizes: the size the code computes is the length of the plaintext header plus the
   crypto overhead, and the pack size adds the blobs and the length field; 37/41 bytes/entry *)
Lemma header_sizes_lemma bs s :
  Forall wf_blob bs ->
  hdr_size bs = Some s ->
  s = N.of_nat (length (hdr_to_binary bs)) + COMP_OVERHEAD /\
  (forall ps, hdr_pack_size bs = Some ps -> ps = total_len bs + s + LENGTH_LEN) /\
  Forall (fun b => length (entry_to_binary b) = match bulen b with None => 37%nat | Some _ => 41%nat end) bs.
Proof.
  intros Hwf Hs. rewrite hdr_size_sum in Hs.
  rewrite (hdr_to_binary_length bs) by (apply wf_blob_idlen; assumption).
  destruct (COMP_OVERHEAD + sum_entry bs <? U32) eqn:E; [|discriminate]. inv Hs.
  split; [lia|]. split.
  - intros ps Hps. rewrite hdr_pack_size_sum in Hps. cbv zeta in Hps.
    destruct (_ + _ + _ <? U32); [|discriminate]. inv Hps. unfold COMP_OVERHEAD, LENGTH_LEN. lia.
  - eapply Forall_impl; [|apply wf_blob_idlen; eassumption].
    intros b Hb. cbv beta in Hb. unfold entry_to_binary. cbn [length]. rewrite !app_length, le32_length, Hb.
    destruct (bulen b); rewrite ?le32_length; reflexivity.
Qed.

(* hypotheses of the codec theorems are satisfiable: one entry of each of the four kinds *)
Example codec_example :
  let i := repeat 7 32 in
  let bs := [mkblob i Data 0 5 None; mkblob i Tree 5 0 None; mkblob i Data 5 9 (Some 100); mkblob i Tree 14 1 (Some 1)] in
  Forall wf_blob bs /\ total_len bs < U32 /\ contiguous 0 bs /\
  hdr_from_binary (hdr_to_binary bs) = Ok bs /\ hdr_size bs = Some 188 /\ hdr_pack_size bs = Some 207 /\
  hdr_from_binary (hdr_to_binary bs ++ [0]) = Err.
Proof.
  cbv zeta. split.
  - repeat constructor; cbn; lia.
  - split; [reflexivity|]. split; [cbn; repeat split; reflexivity|].
    split; [vm_compute; reflexivity|]. split; [reflexivity|]. split; [reflexivity|vm_compute; reflexivity].
Qed.
