(* prelude: zn nat *)
(* C02 driver: same case lines as harness/src/bin/c02.rs (planner level).  Prints the model's
   plan in the harness' format, then ` | ` and model-only diagnostics (per-pack accounting, ties,
   and the abstract execution: removed packs, new index sections, repack inputs). *)
let rd_limit t = let k = ni t in let v = ni t in
  match k with 0 -> LUnlimited | 1 -> LPercent (n_of_int v) | _ -> LSize (n_of_int v)

let rd_pack t =
  let pid = ni t in let size = ni t in
  let time = if ni t = 1 then Some (z_of_int (ni t)) else None in
  let nb = ni t in
  let blobs = ntimes nb (fun () ->
    let bid = ni t in let tpe = if ni t = 0 then Tree else Data in
    let len = ni t in let comp = ni t = 1 in
    { b_id = n_of_int bid; b_tpe = tpe; b_len = n_of_int len; b_comp = comp }) in
  { p_id = n_of_int pid; p_blobs = blobs; p_time = time; p_size = n_of_int size }

let todo_name = function
  | Undecided -> "Undecided" | Keep -> "Keep" | Repack -> "Repack" | MarkDelete -> "MarkDelete"
  | KeepMarked -> "KeepMarked" | KeepMarkedAndCorrect -> "KeepMarkedAndCorrect"
  | Recover -> "Recover" | Delete -> "Delete"

let b2i b = if b then 1 else 0
let join = String.concat ","

let plan_case line =
  let t = toks line in
  let now = ni t in let keep_pack = ni t in let keep_delete = ni t in
  let cacheable_only = ni t = 1 in let unc = ni t = 1 in let all = ni t = 1 in
  let no_resize = ni t = 1 in let instant = ni t = 1 in
  let mu = rd_limit t in let mr = rd_limit t in
  let rd_sizer () = let a = ni t in let b = ni t in let c = ni t in
    { sz_target = n_of_int a; sz_min = n_of_int b; sz_max = n_of_int c } in
  let szt = rd_sizer () in let szd = rd_sizer () in
  let nu = ni t in let used = ntimes nu (fun () -> let tp = ni t in let i = ni t in (tp, i)) in
  let ne = ni t in let existing = ntimes ne (fun () -> let p = ni t in let s = ni t in (p, s)) in
  let nf = ni t in
  let files = ntimes nf (fun () ->
    let fid = ni t in
    let np = ni t in let packs = ntimes np (fun () -> rd_pack t) in
    let nd = ni t in let dels = ntimes nd (fun () -> rd_pack t) in
    { f_id = n_of_int fid; f_packs = packs; f_del = dels }) in
  let o = { o_now = z_of_int now; o_keep_pack = z_of_int keep_pack; o_keep_delete = z_of_int keep_delete;
            o_cacheable_only = cacheable_only; o_unc = unc; o_all = all; o_no_resize = no_resize; o_instant = instant;
            o_max_unused = mu; o_max_repack = mr; o_sz_tree = szt; o_sz_data = szd;
            o_rel = z_of_int 4000000000000000000 (* sentinel: the release time is not part of the case *) } in
  let bt tp = if tp = 0 then Tree else Data in
  let key (tp, i) = used_key (bt tp) (n_of_int i) in
  let typed = used_key Tree (n_of_int 1) <> used_key Data (n_of_int 1) in
  let usedn = List.map key used in
  let exn = List.map (fun (p, s) -> (n_of_int p, n_of_int s)) existing in
  (* the packer of the abstract execution: one new pack per call, ids 9000001, 9000002 *)
  let ctr = ref 9000000 in
  let packer l = if l = [] then [] else begin incr ctr; [ (n_of_int !ctr, l) ] end in
  match prune_with decide_repack packer (n_of_int 8000000) o files usedn exn with
  | Inl e -> (match e with EMissing -> "err missing" | ENoDecision -> "err nodecision" | ESize -> "err size"
                         | ENoExist -> "err noexist" | EPanic -> "panic")
  | Inr (pl, out) ->
    let fids = Array.of_list (List.map (fun (i, _) -> int_of_n i) pl.pl_mods) in
    let ps = pl.pl_packs in
    let d = List.map (fun p -> Printf.sprintf "%d:%d:%d:%s" fids.(int_of_nat p.pp_idx) (int_of_n p.pp_id) (b2i p.pp_mark) (todo_name p.pp_todo)) ps in
    let m = List.map (fun (i, b) -> Printf.sprintf "%d:%d" (int_of_n i) (b2i b)) pl.pl_mods in
    let rw = List.map (fun n -> string_of_int fids.(int_of_nat n)) pl.pl_rewritten in
    let un = List.sort compare (List.map (fun (p, s) -> (int_of_n p, int_of_n s)) pl.pl_unref) in
    let un = List.map (fun (p, s) -> Printf.sprintf "%d:%d" p s) un in
    let left = List.filter (fun k -> pl.pl_left (key k) <> None) (List.sort_uniq compare used) in
    let left = if typed then List.map (fun (tp, i) -> Printf.sprintf "%d:%d" tp i) left
               else List.sort_uniq compare (List.map (fun (_, i) -> Printf.sprintf "x:%d" i) left) in
    let st = Array.make 15 0 in
    List.iter (fun p ->
      let pi = info_of p in
      let k = match pi.pi_type with Tree -> 0 | Data -> 1 in
      let ub = int_of_n pi.pi_used_blobs and nb = int_of_n pi.pi_unused_blobs in
      st.(2 * k) <- st.(2 * k) + ub; st.(2 * k + 1) <- st.(2 * k + 1) + nb;
      st.(4 + 2 * k) <- st.(4 + 2 * k) + int_of_n pi.pi_used_size;
      st.(5 + 2 * k) <- st.(5 + 2 * k) + int_of_n pi.pi_unused_size;
      if not p.pp_mark then begin
        if ub = 0 then st.(10) <- st.(10) + 1
        else if nb = 0 then st.(8) <- st.(8) + 1 else st.(9) <- st.(9) + 1 end;
      (match p.pp_todo with Keep -> st.(11) <- st.(11) + 1 | Repack -> st.(12) <- st.(12) + 1 | _ -> ())) ps;
    st.(13) <- List.length pl.pl_unref;
    st.(14) <- List.fold_left (fun a (_, s) -> a + int_of_n s) 0 pl.pl_unref;
    (* model-only diagnostics *)
    let x = List.map (fun p -> let pi = info_of p in
      Printf.sprintf "%d:%d:%d:%s" (int_of_n p.pp_id) (int_of_n pi.pi_used_blobs) (int_of_n pi.pi_unused_blobs)
        (match p.pp_cand with None -> "-" | Some PartlyUsed -> "P" | Some ToCompress -> "C" | Some SizeMismatch -> "S")) ps in
    let szs = List.map (fun p -> let pi = info_of p in
      Printf.sprintf "%d:%d:%d" (int_of_n p.pp_id) (int_of_n pi.pi_used_size) (int_of_n pi.pi_unused_size)) ps in
    let cands = List.filter (fun p -> p.pp_cand <> None) ps in
    let key p = let pi = info_of p in (pi.pi_type, int_of_n pi.pi_used_size, int_of_n pi.pi_unused_size) in
    let eqk a b = let (ta, ua, na) = key a and (tb, ub, nb) = key b in ta = tb && nb * ua = na * ub in
    let rec ties = function [] -> false | a :: tl -> List.exists (fun b -> eqk a b) tl || ties tl in
    let ip (p : ipack) = Printf.sprintf "%d:%s" (int_of_n p.p_id) (match p.p_time with None -> "n" | Some z -> string_of_int (int_of_z z)) in
    let nf = match List.rev out.out_index with f :: _ when int_of_n f.f_id = 8000000 -> Some f | _ -> None in
    let newp = match nf with Some f -> join (List.map ip f.f_packs) | None -> "" in
    let newd = match nf with Some f -> join (List.map ip f.f_del) | None -> "" in
    let cp = List.concat_map (fun (nid, l) -> List.map (fun (src, b) -> Printf.sprintf "%d:%d:%d" (int_of_n src) (int_of_n b.b_id) (match b.b_tpe with Tree -> 0 | Data -> 1)) l) out.out_new in
    Printf.sprintf "ok d=%s mod=%s rw=%s unref=%s left=%s stats=%s | x=%s sz=%s ties=%d removed=%s newpacks=%s newdel=%s copied=%s kept_files=%d"
      (join d) (join m) (join rw) (join un) (join left)
      (join (Array.to_list (Array.map string_of_int st)))
      (join x) (join szs) (b2i (ties cands))
      (join (List.map (fun i -> string_of_int (int_of_n i)) out.out_removed)) newp newd (join cp)
      (List.length out.out_index - (match nf with Some _ -> 1 | None -> 0))

let () = main_loop plan_case
