(* C02 — executable model of the prune planner and executor (crates/core/src/commands/prune.rs).
   Definitions only.  Blob identity is whatever key the code uses for `PrunePlan.used_ids` (b_key, regenerated from
   the source: the plain id, or type + id).
   The decision tables come from Extracted.v (regenerated from the source on every run). *)
From Verif.Base Require Import Tactics.
From Verif.C02 Require Import ModelBase Extracted.
Local Open Scope N_scope.

(* ------------------------------------------------------------------ index files *)
Record ipack := mkIPack { p_id : id; p_blobs : list blob; p_time : option Z; p_size : N (* IndexPack::pack_size() *) }.
Record ifile := mkIFile { f_id : id; f_packs : list ipack; f_del : list ipack }.

(* IndexPack::blob_type: type of the first blob, Data for an empty pack *)
Definition blobs_type (bs : list blob) : btype := match bs with [] => Data | b :: _ => b_tpe b end.


(* PrunePack, flat, tagged with the position of its index file; pp_info = Some after decide_packs
   looked at the pack; pp_cand = Some for entries pushed to repack_candidates *)
Record ppack := mkPP { pp_idx : nat; pp_id : id; pp_type : btype; pp_size : N; pp_mark : bool; pp_todo : todo;
                       pp_info : option pinfo; pp_cand : option reason; pp_time : option Z; pp_blobs : list blob }.

Definition of_ipack (n : nat) (mark : bool) (p : ipack) : ppack :=
  mkPP n (p_id p) (blobs_type (p_blobs p)) (p_size p) mark Undecided None None (p_time p) (p_blobs p).

Definition mem (x : id) (l : list id) : bool := existsb (N.eqb x) l.

(* `.filter(|p| processed.insert(p.id))`: keeps the first listing of every pack id; third component:
   some listing was dropped *)
Fixpoint dedup (seen : list id) (l : list ipack) : list id * list ipack * bool :=
  match l with
  | [] => (seen, [], false)
  | p :: tl => if mem (p_id p) seen then let '(s, r, _) := dedup seen tl in (s, r, true)
               else let '(s, r, d) := dedup (p_id p :: seen) tl in (s, p :: r, d)
  end.

(* first loop of PrunePlan::new *)
Fixpoint new_files (n : nat) (seen seend : list id) (fs : list ifile) : list id * list (id * bool) * list ppack :=
  match fs with
  | [] => (seen, [], [])
  | f :: tl =>
      let '(seen1, ps, d1) := dedup seen (f_packs f) in
      let '(seend1, ds, d2) := dedup seend (f_del f) in
      let '(seenF, mods, rest) := new_files (S n) seen1 seend1 tl in
      (seenF, (f_id f, d1 || d2) :: mods, map (of_ipack n false) ps ++ map (of_ipack n true) ds ++ rest)
  end.

(* second loop: marked entries whose pack is also listed unmarked are dropped *)
Definition keep_after_new (seenF : list id) (p : ppack) : bool := negb (pp_mark p) || negb (mem (pp_id p) seenF).
Fixpoint mods_fix (n : nat) (seenF : list id) (ps : list ppack) (mods : list (id * bool)) : list (id * bool) :=
  match mods with
  | [] => []
  | (fid, m) :: tl =>
      (fid, m || existsb (fun p => (pp_idx p =? n)%nat && negb (keep_after_new seenF p)) ps) :: mods_fix (S n) seenF ps tl
  end.
Definition plan_new (fs : list ifile) : list (id * bool) * list ppack :=
  let '(seenF, mods, ps) := new_files 0 [] [] fs in
  (mods_fix 0 seenF ps mods, filter (keep_after_new seenF) ps).

(* ------------------------------------------------------------------ used ids *)
Definition umap := id -> option N.
Definition upd (m : umap) (k : id) (v : N) : umap := fun x => if x =? k then Some v else m x.
Definition del (m : umap) (k : id) : umap := fun x => if x =? k then None else m x.
Definition umap0 (used : list id) : umap := fun x => if mem x used then Some 0 else None.

Definition sat_inc (c : N) : N := if c <? cnt_max then c + 1 else cnt_max.
Definition count_blob (m : umap) (b : blob) : umap :=
  match m (b_key b) with Some c => upd m (b_key b) (sat_inc c) | None => m end.
Definition count_used (m : umap) (ps : list ppack) : umap :=
  fold_left (fun m p => fold_left count_blob (pp_blobs p) m) ps m.
(* PrunePlan::check *)
Definition check_used (m : umap) (used : list id) : bool :=
  forallb (fun x => match m x with Some 0 => false | _ => true end) used.

(* ------------------------------------------------------------------ PackInfo::from_pack *)
(* first pass (`position`): returns the map, the blobs before the first needed one, and the
   first needed blob with the blobs after it *)
Fixpoint pass1 (m : umap) (bs : list blob) : umap * list blob * option (blob * list blob) :=
  match bs with
  | [] => (m, [], None)
  | b :: tl =>
      match m (b_key b) with
      | None => let '(m', pre, r) := pass1 m tl in (m', b :: pre, r)
      | Some c =>
          if c =? 0 then let '(m', pre, r) := pass1 m tl in (m', b :: pre, r)
          else let m1 := upd m (b_key b) (c - 1) in
               if c - 1 =? 0 then (m1, [], Some (b, tl))
               else let '(m', pre, r) := pass1 m1 tl in (m', b :: pre, r)
      end
  end.

(* second/third pass: every blob whose counter is still positive is used in this pack; counter := 0.
   Returns the map and the blobs found used (in order) *)
Fixpoint mark_used (m : umap) (bs : list blob) : umap * list blob :=
  match bs with
  | [] => (m, [])
  | b :: tl =>
      match m (b_key b) with
      | None => mark_used m tl
      | Some c => if c =? 0 then mark_used m tl
                  else let '(m', u) := mark_used (upd m (b_key b) 0) tl in (m', b :: u)
      end
  end.

Definition sum_len (bs : list blob) : N := fold_right (fun b a => b_len b + a) 0 bs.
Definition lenN {A} (l : list A) : N := N.of_nat (length l).

Definition from_pack (m : umap) (tpe : btype) (bs : list blob) : umap * pinfo :=
  let '(m1, pre, r) := pass1 m bs in
  match r with
  | None => (m1, mkPI tpe 0 (lenN pre) 0 (sum_len pre))
  | Some (b, suf) =>
      let '(m2, u2) := mark_used m1 pre in
      let '(m3, u3) := mark_used m2 suf in
      let ub := 1 + lenN u2 + lenN u3 in
      let us := b_len b + sum_len u2 + sum_len u3 in
      (m3, mkPI tpe ub (lenN bs - ub) us (sum_len bs - us))
  end.

(* ------------------------------------------------------------------ options *)
Record sizer := mkSizer { sz_target : N; sz_min : N; sz_max : N (* 0 = no maximum *) }.
Definition is_too_small (s : sizer) (size : N) : bool := size * 100 <? sz_target s * sz_min s.
Definition is_too_large (s : sizer) (size : N) : bool :=
  sz_target s * (if sz_max s =? 0 then 4294967295 else sz_max s) <? size * 100.
Definition size_ok (s : sizer) (size : N) : bool := negb (is_too_small s size) && negb (is_too_large s size).

Record popts := mkOpts {
  o_now : Z; o_keep_pack : Z; o_keep_delete : Z;
  o_cacheable_only : bool; o_unc : bool; o_all : bool; o_no_resize : bool; o_instant : bool;
  o_max_unused : limit; o_max_repack : limit; o_sz_tree : sizer; o_sz_data : sizer;
  o_rel : Z   (* clock when the new index is finalized (`Timestamp::now()` handed to release_removals); >= o_now *)
}.
Definition sizer_of (o : popts) (t : btype) : sizer := match t with Tree => o_sz_tree o | Data => o_sz_data o end.

(* the local booleans of decide_packs (their definitions are pinned by the extractor) *)
Definition guards_of (o : popts) (p : ppack) : guards :=
  mkG (match pp_time p with Some t => (t >? o_now o - o_keep_pack o)%Z | None => false end)
      (o_cacheable_only o && negb (is_cacheable (pp_type p)))
      (o_unc o && negb (forallb b_comp (pp_blobs p)))
      (o_all o)
      (negb (size_ok (sizer_of o (pp_type p)) (pp_size p)))
      (pp_time p)
      (o_now o - o_keep_delete o)%Z.

(* ------------------------------------------------------------------ decide_packs *)
Fixpoint map_st {S A B} (f : S -> A -> S * B) (s : S) (l : list A) : S * list B :=
  match l with
  | [] => (s, [])
  | a :: tl => let '(s1, b) := f s a in let '(s2, bs) := map_st f s1 tl in (s2, b :: bs)
  end.

Definition set_dec (p : ppack) (pi : pinfo) (t : todo) (c : option reason) : ppack :=
  mkPP (pp_idx p) (pp_id p) (pp_type p) (pp_size p) (pp_mark p) t (Some pi) c (pp_time p) (pp_blobs p).

Definition decide_one (o : popts) (m : umap) (p : ppack) : umap * ppack :=
  let '(m', pi) := from_pack m (pp_type p) (pp_blobs p) in
  match decide_table (pp_mark p) (pi_used_blobs pi) (pi_unused_blobs pi) (guards_of o p) with
  | Some (OTodo t) => (m', set_dec p pi t None)
  | Some (OCand r) => (m', set_dec p pi Undecided (Some r))
  | None => (m', set_dec p pi Undecided None)
  end.

Definition decide_step (o : popts) (mc : bool) (m : umap) (p : ppack) : umap * ppack :=
  if Bool.eqb (pp_mark p) mc then decide_one o m p else (m, p).

(* for mark_case in mark_order { for every pack with delete_mark == mark_case { … } } *)
Definition decide_packs (o : popts) (m : umap) (ps : list ppack) : umap * list ppack :=
  fold_left (fun '(m, ps) mc => map_st (decide_step o mc) m ps) mark_order (m, ps).

(* ------------------------------------------------------------------ statistics used by decide_repack *)
Definition info_of (p : ppack) : pinfo := match pp_info p with Some pi => pi | None => mkPI (pp_type p) 0 0 0 0 end.
Definition sumN {A} (f : A -> N) (l : list A) : N := fold_right (fun a s => f a + s) 0 l.
Definition size_used (ps : list ppack) : N := sumN (fun p => pi_used_size (info_of p)) ps.
Definition size_unused (ps : list ppack) : N := sumN (fun p => pi_unused_size (info_of p)) ps.
Definition size_remove (ps : list ppack) : N :=
  sumN (fun p => if todo_eqb (pp_todo p) MarkDelete then pi_unused_size (info_of p) else 0) ps.

(* ------------------------------------------------------------------ decide_repack *)
(* PackInfo::cmp (operands regenerated from the source): blob type first, then cmp_lhs vs cmp_rhs *)
Definition pi_le (a b : pinfo) : bool :=
  if btype_rank (pi_type a) <? btype_rank (pi_type b) then true
  else if btype_rank (pi_type b) <? btype_rank (pi_type a) then false
  else cmp_lhs a b <=? cmp_rhs a b.
Definition pi_lt (a b : pinfo) : bool := negb (pi_le b a).

Fixpoint insert_sorted (x : ppack) (l : list ppack) : list ppack :=
  match l with
  | [] => [x]
  | y :: tl => if pi_le (info_of x) (info_of y) then x :: l else y :: insert_sorted x tl
  end.
(* a stable sort (equal keys keep the order in which the candidates were pushed); the code uses
   sort_unstable_by_key (order of equal keys unspecified) *)
Definition sort_cands (l : list ppack) : list ppack := fold_right insert_sorted [] l.

Definition is_cand (p : ppack) : bool := match pp_cand p with Some _ => true | None => false end.
Definition cand_reason (p : ppack) : reason := match pp_cand p with Some r => r | None => PartlyUsed end.

(* loop state: repack_size per type, do_repack per type, repackrm accumulated by set_todo(Repack),
   resize_packs per type, decisions taken inside the loop *)
Record rstate := mkRS { rs_tree : N; rs_data : N; rs_do_tree : bool; rs_do_data : bool; rs_rm : N;
                        rs_resize_tree : list ppack; rs_resize_data : list ppack; rs_dec : list (ppack * todo) }.
Definition rs0 : rstate := mkRS 0 0 false false 0 [] [] [].

Definition repack_step (no_resize : bool) (max_repack max_unused : option N) (unused remove : N) (s : rstate) (p : ppack) : rstate :=
  let pi := info_of p in
  if keep_cond (rs_tree s + rs_data s) (pi_used_size pi) max_repack max_unused (unused - remove - rs_rm s)
               (cand_reason p) (pi_type pi) no_resize
  then mkRS (rs_tree s) (rs_data s) (rs_do_tree s) (rs_do_data s) (rs_rm s) (rs_resize_tree s) (rs_resize_data s)
            ((p, Keep) :: rs_dec s)
  else if reason_eqb (cand_reason p) SizeMismatch then
    match pi_type pi with
    | Tree => mkRS (rs_tree s + pi_used_size pi) (rs_data s) (rs_do_tree s) (rs_do_data s) (rs_rm s)
                   (p :: rs_resize_tree s) (rs_resize_data s) (rs_dec s)
    | Data => mkRS (rs_tree s) (rs_data s + pi_used_size pi) (rs_do_tree s) (rs_do_data s) (rs_rm s)
                   (rs_resize_tree s) (p :: rs_resize_data s) (rs_dec s)
    end
  else
    match pi_type pi with
    | Tree => mkRS (rs_tree s + pi_used_size pi) (rs_data s) true (rs_do_data s) (rs_rm s + pi_unused_size pi)
                   (rs_resize_tree s) (rs_resize_data s) ((p, Repack) :: rs_dec s)
    | Data => mkRS (rs_tree s) (rs_data s + pi_used_size pi) (rs_do_tree s) true (rs_rm s + pi_unused_size pi)
                   (rs_resize_tree s) (rs_resize_data s) ((p, Repack) :: rs_dec s)
    end.

Definition max_unused_of (o : popts) (ps : list ppack) : option N :=
  limit_unused_x (o_unc o || o_all o) (o_max_unused o) (size_used ps).
Definition max_repack_of (o : popts) (ps : list ppack) : option N :=
  limit_repack_x (o_max_repack o) (size_used ps + size_unused ps).

Definition pack_size_target (s : sizer) : N := N.min (sz_target s) 4273995776.   (* grow factor 0; MAX_SIZE *)

Definition repack_loop (o : popts) (ps : list ppack) : rstate :=
  fold_left (repack_step (o_no_resize o) (max_repack_of o ps) (max_unused_of o ps) (size_unused ps) (size_remove ps))
            (sort_cands (filter is_cand ps)) rs0.

Definition resize_todo (o : popts) (s : rstate) (t : btype) : todo :=
  match t with
  | Tree => if resize_repacks (rs_do_tree s) (rs_tree s) (pack_size_target (o_sz_tree o)) then Repack else Keep
  | Data => if resize_repacks (rs_do_data s) (rs_data s) (pack_size_target (o_sz_data o)) then Repack else Keep
  end.

(* every candidate with its decision *)
Definition repack_decisions (o : popts) (ps : list ppack) : list (ppack * todo) :=
  let s := repack_loop o ps in
  rs_dec s ++ map (fun p => (p, resize_todo o s Tree)) (rs_resize_tree s)
           ++ map (fun p => (p, resize_todo o s Data)) (rs_resize_data s).

(* keyed by pack id, as apply_repack consumes it (pack ids are unique after PrunePlan::new) *)
Definition decide_repack (o : popts) (ps : list ppack) : option (list (id * todo)) :=
  Some (map (fun pt => (pp_id (fst pt), snd pt)) (repack_decisions o ps)).

Fixpoint lookup {A} (k : id) (l : list (id * A)) : option A :=
  match l with [] => None | (k', v) :: tl => if k =? k' then Some v else lookup k tl end.

(* a candidate becomes Keep or Repack; anything else leaves it Undecided (=> planner error) *)
Definition apply_repack (dec : list (id * todo)) (p : ppack) : ppack :=
  match pp_cand p with
  | None => p
  | Some r =>
      let t := match lookup (pp_id p) dec with Some Keep => Keep | Some Repack => Repack | _ => Undecided end in
      mkPP (pp_idx p) (pp_id p) (pp_type p) (pp_size p) (pp_mark p) t (pp_info p) (Some r) (pp_time p) (pp_blobs p)
  end.

(* ------------------------------------------------------------------ check_existing_packs *)
Inductive perr := EMissing | ENoDecision | ESize | ENoExist | EPanic.
Definition del_blobs (m : umap) (bs : list blob) : umap := fold_left (fun m b => del m (b_key b)) bs m.
Definition ex_remove (k : id) (ex : list (id * N)) : list (id * N) := filter (fun e => negb (fst e =? k)) ex.

Fixpoint cep (ex : list (id * N)) (m : umap) (ps : list ppack) : perr + (list (id * N) * umap) :=
  match ps with
  | [] => inr (ex, m)
  | p :: tl =>
      let '(err, drops, chk) := cep_table (pp_todo p) in
      if err then inl ENoDecision else
      let m' := if drops then del_blobs m (pp_blobs p) else m in
      let bad := if chk then match lookup (pp_id p) ex with
                             | Some s => if s =? pp_size p then None else Some ESize
                             | None => Some ENoExist end
                 else None in
      match bad with Some e => inl e | None => cep (ex_remove (pp_id p) ex) m' tl end
  end.

(* ------------------------------------------------------------------ filter_index_files *)
Definition file_packs (n : nat) (ps : list ppack) : list ppack := filter (fun p => (pp_idx p =? n)%nat) ps.
Definition must_modify (instant : bool) (ps : list ppack) (n : nat) (modified : bool) : bool :=
  modified || existsb (fun p => forces_rewrite (pp_todo p) instant) (file_packs n ps).
Definition index_len (ps : list ppack) (n : nat) : N := sumN (fun p => lenN (pp_blobs p)) (file_packs n ps).

Fixpoint enum_from {A} (n : nat) (l : list A) : list (nat * A) :=
  match l with [] => [] | a :: tl => (n, a) :: enum_from (S n) tl end.

Definition rewritten (instant : bool) (mods : list (id * bool)) (ps : list ppack) : list nat :=
  let fl := enum_from 0 mods in
  let any := existsb (fun '(n, (_, m)) => must_modify instant ps n m) fl in
  let kept := filter (fun '(n, (_, m)) => must_modify instant ps n m || (index_len ps n <? MIN_INDEX_LEN)) fl in
  if negb any && (length kept =? 1)%nat then [] else map fst kept.

(* ------------------------------------------------------------------ the planner *)
Record plan_t := mkPlan { pl_mods : list (id * bool); pl_packs : list ppack; pl_rewritten : list nat;
                          pl_unref : list (id * N); pl_left : umap }.

(* `dec` is the repack decision procedure: the real one is decide_repack; the safety theorems hold
   for EVERY dec (it can only turn candidates into Keep or Repack) *)
Definition plan_with (dec : popts -> list ppack -> option (list (id * todo)))
           (o : popts) (fs : list ifile) (used : list id) (existing : list (id * N)) : perr + plan_t :=
  let '(mods, ps0) := plan_new fs in
  let m0 := count_used (umap0 used) ps0 in
  if negb (check_used m0 used) then inl EMissing else
  let '(m1, ps1) := decide_packs o m0 ps0 in
  match dec o ps1 with
  | None => inl EPanic
  | Some d =>
      let ps2 := map (apply_repack d) ps1 in
      match cep existing m1 ps2 with
      | inl e => inl e
      | inr (unref, m2) => inr (mkPlan mods ps2 (rewritten (o_instant o) mods ps2) unref m2)
      end
  end.
Definition plan := plan_with decide_repack.

(* ------------------------------------------------------------------ prune_repository on an abstract repository *)
(* blobs a Repack pack hands to the repacker: `blobs.retain(|b| used_ids.remove(&b.id).is_some())` *)
Fixpoint retain (m : umap) (bs : list blob) : umap * list blob :=
  match bs with
  | [] => (m, [])
  | b :: tl => match m (b_key b) with
               | Some _ => let '(m', r) := retain (del m (b_key b)) tl in (m', b :: r)
               | None => retain m tl
               end
  end.

Definition in_rewritten (pl : plan_t) (p : ppack) : bool := existsb (Nat.eqb (pp_idx p)) (pl_rewritten pl).
Definition processed (pl : plan_t) : list ppack := filter (in_rewritten pl) (pl_packs pl).

(* (pack type, (source pack, blob)) handed to the repackers, in processing order; the repacker is
   chosen by the type of the PACK (`match pack.blob_type`) *)
Fixpoint repack_inputs (m : umap) (ps : list ppack) : list (btype * (id * blob)) :=
  match ps with
  | [] => []
  | p :: tl => if exec_repacks (pp_todo p)
               then let '(m', r) := retain m (pp_blobs p) in map (fun b => (pp_type p, (pp_id p, b))) r ++ repack_inputs m' tl
               else repack_inputs m tl
  end.

Definition new_time (now : Z) (md : tmode) (t : option Z) : option Z :=
  match md with TSet => Some now | TKeepOrSet => match t with Some x => Some x | None => Some now end end.
Definition to_ipack (now : Z) (md : tmode) (p : ppack) : ipack := mkIPack (pp_id p) (pp_blobs p) (new_time now md (pp_time p)) (pp_size p).

Definition sec_packs (o : popts) (ps : list ppack) : list ipack :=
  flat_map (fun p => match exec_table (pp_todo p) (o_instant o) with XPacks md => [to_ipack (o_now o) md p] | _ => [] end) ps.
Definition sec_del (o : popts) (ps : list ppack) : list ipack :=
  flat_map (fun p => match exec_table (pp_todo p) (o_instant o) with XDel md => [to_ipack (o_now o) md p] | _ => [] end) ps.
(* release_removals: a held delete mark that carries the plan time gets the release time (only when the source
   holds and re-stamps, see Extracted.marks_restamped) *)
Definition restamp (o : popts) (t : option Z) : option Z :=
  if marks_restamped then
    match t with Some x => if (x =? o_now o)%Z then Some (o_rel o) else t | None => t end
  else t.
Definition del_entry (o : popts) (e : ipack) : ipack := mkIPack (p_id e) (p_blobs e) (restamp o (p_time e)) (p_size e).
Definition removed_of (o : popts) (ps : list ppack) : list id :=
  flat_map (fun p => match exec_table (pp_todo p) (o_instant o) with XRemove => [pp_id p] | _ => [] end) ps.

(* a freshly written pack: its id and the (source pack, blob) pairs copied into it *)
Definition newpack := (id * list (id * blob))%type.
Definition np_ipack (now : Z) (np : newpack) : ipack :=
  mkIPack (fst np) (map snd (snd np)) (Some now) (sum_len (map snd (snd np))).

Record outcome_t := mkOut {
  out_index : list ifile;           (* index files after the run *)
  out_removed : list id;            (* pack files physically removed *)
  out_new : list newpack            (* pack files written by the repackers *)
}.

Definition untouched (pl : plan_t) (fs : list ifile) : list ifile :=
  map snd (filter (fun '(n, _) => negb (existsb (Nat.eqb n) (pl_rewritten pl))) (enum_from 0 fs)).

(* `packer`: how the two repackers (tree, data) cut their input stream into pack files — any
   function; the theorems state what they need of it (packer_ok) *)
Definition execute (packer : list (id * blob) -> list newpack) (new_index_id : id)
           (o : popts) (fs : list ifile) (pl : plan_t) : outcome_t :=
  let unref_rm := if o_instant o then map fst (pl_unref pl) else [] in
  match pl_rewritten pl with
  | [] => mkOut fs unref_rm []          (* "nothing to do": the marks of unreferenced packs are never saved *)
  | _ =>
      let ps := processed pl in
      let unref_mark := if o_instant o then [] else map (fun e => mkIPack (fst e) [] (Some (o_now o)) (snd e)) (pl_unref pl) in
      let inputs := repack_inputs (pl_left pl) ps in
      let nps := packer (map snd (filter (fun x => btype_eqb (fst x) Tree) inputs))
                 ++ packer (map snd (filter (fun x => btype_eqb (fst x) Data) inputs)) in
      let nf := mkIFile new_index_id (sec_packs o ps ++ map (np_ipack (o_now o)) nps) (map (del_entry o) (unref_mark ++ sec_del o ps)) in
      mkOut (untouched pl fs ++ [nf]) (unref_rm ++ removed_of o ps) nps
  end.

Definition prune_with dec packer nid (o : popts) (fs : list ifile) (used : list id) (existing : list (id * N))
  : perr + (plan_t * outcome_t) :=
  match plan_with dec o fs used existing with
  | inl e => inl e
  | inr pl => inr (pl, execute packer nid o fs pl)
  end.
