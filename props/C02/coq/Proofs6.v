(* C02 — lemmas, part 6: the planner as a whole and the executor; the property lemmas. *)
From Verif.Base Require Import Tactics.
From Verif.C02 Require Import ModelBase Extracted Model Spec Proofs Proofs2 Proofs3 Proofs4 Proofs5.
Local Open Scope N_scope.

Lemma static_fields : forall p q, static p = static q ->
  pp_idx p = pp_idx q /\ pp_id p = pp_id q /\ pp_type p = pp_type q /\ pp_size p = pp_size q
  /\ pp_mark p = pp_mark q /\ pp_time p = pp_time q /\ pp_blobs p = pp_blobs q.
Proof. intros p q H. unfold static in H. inv H. repeat split; assumption. Qed.

Lemma map_static_ids : forall l l', map static l = map static l' -> map pp_id l = map pp_id l'.
Proof.
  induction l as [|a t IH]; intros [|b u] H; cbn [map] in *; try discriminate; [reflexivity|].
  assert (H1 : static a = static b) by congruence.
  assert (H2 : map static t = map static u) by congruence.
  f_equal; [apply static_fields in H1; tauto|apply IH; exact H2].
Qed.

Lemma NoDup_map_inj : forall {A B} (f : A -> B) l a b, NoDup (map f l) -> In a l -> In b l -> f a = f b -> a = b.
Proof.
  intros A B f l. induction l as [|h t IH]; intros a b N Ha Hb E; [destruct Ha|].
  cbn [map] in N. inv N. destruct Ha as [Ha|Ha], Hb as [Hb|Hb]; subst.
  - reflexivity.
  - exfalso. apply H1. rewrite E. apply in_map. exact Hb.
  - exfalso. apply H1. rewrite <- E. apply in_map. exact Ha.
  - apply IH; assumption.
Qed.

(* the index entry a planned pack stands for *)
Definition entry_of (fs : list ifile) (p : ppack) : Prop :=
  exists k f ip, nth_error fs k = Some f /\ pp_idx p = k
    /\ (if pp_mark p then In ip (f_del f) else In ip (f_packs f))
    /\ pp_id p = p_id ip /\ pp_blobs p = p_blobs ip /\ pp_time p = p_time ip /\ pp_size p = p_size ip.

Lemma from_file_entry : forall fs p0 p, from_file fs 0 p0 -> static p = static p0 -> entry_of fs p.
Proof.
  intros fs p0 p [k [f [ip [N1 [N2 [N3 N4]]]]]] S. apply static_fields in S.
  destruct S as [S1 [S2 [S3 [S4 [S5 [S6 S7]]]]]]. cbn [Nat.add] in *.
  exists k, f, ip. rewrite S5. split; [exact N1|]. split; [congruence|]. split; [exact N3|].
  rewrite N4 in S2, S6, S7, S4. cbn in S2, S6, S7, S4. repeat split; assumption.
Qed.

Record plan_facts (o : popts) (fs : list ifile) (used : list id) (existing : list (id * N)) (pl : plan_t) : Prop := {
  pf_entry : forall p, In p (pl_packs pl) -> entry_of fs p;
  pf_nodup : NoDup (map pp_id (pl_packs pl));
  pf_final : forall p, In p (pl_packs pl) -> final_ok o p /\ pp_todo p <> Undecided;
  pf_exist : forall p, In p (pl_packs pl) -> pp_todo p = Keep \/ pp_todo p = Recover \/ pp_todo p = Repack ->
                       In (pp_id p) (map fst existing);
  pf_unref : forall e, In e (pl_unref pl) -> In e existing /\ forall p, In p (pl_packs pl) -> fst e <> pp_id p;
  pf_cover : forall x, In x used ->
      (exists p, In p (pl_packs pl) /\ (pp_todo p = Keep \/ pp_todo p = Recover) /\ In x (ids (pp_blobs p)))
      \/ (pl_left pl x <> None /\ exists p, In p (pl_packs pl) /\ pp_todo p = Repack /\ In x (ids (pp_blobs p)));
  pf_good : forall x, In x used ->
      exists p, In p (pl_packs pl) /\ In x (ids (pp_blobs p))
                /\ (pp_todo p = Keep \/ pp_todo p = Recover \/ pp_todo p = Repack);
  pf_mods : length (pl_mods pl) = length fs;
  pf_rw : pl_rewritten pl = rewritten (o_instant o) (pl_mods pl) (pl_packs pl)
}.

Lemma plan_with_facts : forall dec o fs used existing pl,
  plan_with dec o fs used existing = inr pl -> plan_facts o fs used existing pl.
Proof.
  intros dec o fs used existing pl H. unfold plan_with in H.
  destruct (plan_new fs) as [mods ps0] eqn:PN.
  destruct (check_used (count_used (umap0 used) ps0) used) eqn:CK; cbn [negb] in H; [|discriminate].
  destruct (decide_packs o (count_used (umap0 used) ps0) ps0) as [m1 ps1] eqn:DP.
  destruct (dec o ps1) as [d|]; [|discriminate].
  destruct (cep existing m1 (map (apply_repack d) ps1)) as [e|[unref m2]] eqn:CE; [discriminate|]. inv H.
  destruct (plan_new_spec _ _ _ PN) as [FF [ND [LM PE]]].
  destruct (decide_packs_covers _ _ _ _ _ PE CK DP) as [ST [AD CV]].
  pose proof (decide_packs_ok _ _ _ _ _ PE DP) as OK1.
  destruct (cep_spec _ _ _ _ _ CE) as [CA [CB [CC CD]]].
  assert (ST2 : map static (map (apply_repack d) ps1) = map static ps0).
  { rewrite map_map. rewrite <- ST. apply map_ext. intro a. apply apply_repack_static. }
  constructor; cbn [pl_packs pl_unref pl_left pl_mods pl_rewritten].
  - intros p Hp. assert (In (static p) (map static ps0)) by (rewrite <- ST2; apply in_map; exact Hp).
    apply in_map_iff in H. destruct H as [p0 [E0 H0]]. eapply from_file_entry; [apply FF; exact H0|symmetry; exact E0].
  - rewrite (map_static_ids _ _ ST2). exact ND.
  - intros p Hp. split; [|apply CA; exact Hp]. apply in_map_iff in Hp. destruct Hp as [p1 [E1 H1]]. subst p.
    apply apply_repack_ok. apply OK1; [exact H1|apply AD; exact H1].
  - exact CB.
  - exact CC.
  - intros x Hx. destruct (CV x Hx) as [M1 [p1 [H1 [I1 G1]]]].
    destruct (CD x) as [[_ [q [Hq [Kq Iq]]]]|[D1 D2]].
    + left. exists q. split; [exact Hq|]. split; assumption.
    + assert (H2 : In (apply_repack d p1) (map (apply_repack d) ps1)) by (apply in_map; exact H1).
      assert (B2 : pp_blobs (apply_repack d p1) = pp_blobs p1)
        by (destruct (apply_repack_static d p1) as [S _]; apply static_fields in S; apply S).
      destruct (good_after_repack d p1 G1) as [K|[K|[K|K]]].
      * exfalso. apply (D2 _ H2 (or_introl K)). rewrite B2. exact I1.
      * exfalso. apply (D2 _ H2 (or_intror K)). rewrite B2. exact I1.
      * right. split; [rewrite D1, M1; discriminate|]. exists (apply_repack d p1). split; [exact H2|]. split; [exact K|rewrite B2; exact I1].
      * exfalso. exact (CA _ H2 K).
  - intros x Hx. destruct (CV x Hx) as [M1 [p1 [H1 [I1 G1]]]].
    assert (H2 : In (apply_repack d p1) (map (apply_repack d) ps1)) by (apply in_map; exact H1).
    assert (B2 : pp_blobs (apply_repack d p1) = pp_blobs p1)
      by (destruct (apply_repack_static d p1) as [S _]; apply static_fields in S; apply S).
    exists (apply_repack d p1). split; [exact H2|]. split; [rewrite B2; exact I1|].
    destruct (good_after_repack d p1 G1) as [K|[K|[K|K]]]; auto. exfalso. exact (CA _ H2 K).
  - rewrite <- LM. reflexivity.
  - reflexivity.
Qed.

(* ---------------------------------------------------------------- facts of the execution table *)
Lemma exec_facts :
  (forall i, exists md, exec_table Keep i = XPacks md) /\ (forall i, exists md, exec_table Recover i = XPacks md)
  /\ (forall t, exec_repacks t = true -> t = Repack)
  /\ (forall t, exec_table t false = XRemove -> t = Delete)
  /\ (forall i, exec_table Recover i = XPacks TSet).
Proof.
  split; [intros []; eexists; reflexivity|]. split; [intros []; eexists; reflexivity|].
  split; [intros [] H; try discriminate; reflexivity|].
  split; [intros [] H; try discriminate; reflexivity|]. intros []; reflexivity.
Qed.

Section Exec.
Variables (packer : list (id * blob) -> list newpack) (nid : id) (o : popts) (fs : list ifile)
          (used : list id) (existing : list (id * N)) (pl : plan_t).
Hypothesis PF : plan_facts o fs used existing pl.
Let out := execute packer nid o fs pl.

Lemma processed_in : forall p, In p (processed pl) -> In p (pl_packs pl).
Proof. intros p H. apply filter_In in H. apply H. Qed.

Lemma removed_sub : forall i, In i (out_removed out) ->
  (o_instant o = true /\ In i (map fst (pl_unref pl)))
  \/ (exists p, In p (pl_packs pl) /\ pp_id p = i /\ exec_table (pp_todo p) (o_instant o) = XRemove).
Proof.
  intros i H. unfold out, execute in H.
  assert (U : In i (if o_instant o then map fst (pl_unref pl) else []) -> o_instant o = true /\ In i (map fst (pl_unref pl)))
    by (destruct (o_instant o); [auto|intros []]).
  destruct (pl_rewritten pl) eqn:R; cbn [out_removed] in H; [left; apply U; exact H|].
  apply in_app_or in H. destruct H as [H|H]; [left; apply U; exact H|].
  right. unfold removed_of in H. apply in_flat_map in H. destruct H as [p [Hp K]].
  exists p. split; [apply processed_in; exact Hp|].
  destruct (exec_table (pp_todo p) (o_instant o)) eqn:E; try destruct K.
  - split; [exact H|reflexivity].
  - destruct H.
Qed.

Lemma not_removed : forall q, In q (pl_packs pl) ->
  (exists md, exec_table (pp_todo q) (o_instant o) = XPacks md) -> ~ In (pp_id q) (out_removed out).
Proof.
  intros q Hq [md E] K. apply removed_sub in K. destruct K as [[_ K]|[p [Hp [Ep Xp]]]].
  - apply in_map_iff in K. destruct K as [e [Ee He]]. destruct (pf_unref _ _ _ _ _ PF e He) as [_ D].
    apply (D q Hq). exact Ee.
  - assert (p = q) by (eapply NoDup_map_inj; [apply (pf_nodup _ _ _ _ _ PF)|exact Hp|exact Hq|exact Ep]).
    subst p. congruence.
Qed.

Lemma entry_listed : forall q b, In q (pl_packs pl) -> In b (pp_blobs q) -> listed_before fs (pp_id q) b.
Proof.
  intros q b Hq Hb. destruct (pf_entry _ _ _ _ _ PF q Hq) as [k [f [ip [N1 [N2 [N3 [E1 [E2 _]]]]]]]].
  exists f, ip. split; [eapply nth_error_In; eauto|].
  split; [destruct (pp_mark q); [right|left]; exact N3|]. split; [symmetry; exact E1|rewrite <- E2; exact Hb].
Qed.

Lemma in_rewritten_iff : forall p, in_rewritten pl p = true <-> In (pp_idx p) (pl_rewritten pl).
Proof.
  intro p. unfold in_rewritten. rewrite existsb_exists. split.
  - intros [n [H E]]. apply Nat.eqb_eq in E. subst n. exact H.
  - intro H. exists (pp_idx p). split; [exact H|apply Nat.eqb_refl].
Qed.

Lemma forced_in_rewritten : forall p, In p (pl_packs pl) -> forces_rewrite (pp_todo p) (o_instant o) = true ->
  In (pp_idx p) (pl_rewritten pl).
Proof.
  intros p Hp F. destruct (pf_entry _ _ _ _ _ PF p Hp) as [k [f [ip [N1 [N2 _]]]]].
  destruct (nth_error_some_lt fs (pl_mods pl) k f N1 (pf_mods _ _ _ _ _ PF)) as [fm Hfm].
  rewrite (pf_rw _ _ _ _ _ PF). rewrite N2. exact (rewritten_forced _ _ _ p k fm Hp F N2 Hfm).
Qed.

(* a kept or recovered pack is listed unmarked afterwards and is not removed *)
Lemma kept_listed : forall q, In q (pl_packs pl) -> pp_todo q = Keep \/ pp_todo q = Recover ->
  exists f p, In f (out_index out) /\ In p (f_packs f) /\ p_id p = pp_id q /\ p_blobs p = pp_blobs q
              /\ (pp_todo q = Recover -> p_time p = Some (o_now o)).
Proof.
  destruct exec_facts as [XK [XR [_ [_ XT]]]].
  intros q Hq K.
  destruct (pf_entry _ _ _ _ _ PF q Hq) as [k [f [ip [N1 [N2 [N3 [E1 [E2 _]]]]]]]].
  destruct (in_rewritten pl q) eqn:IR.
  - (* its index file is rewritten: the entry is in section `packs` of the new file *)
    assert (Hpr : In q (processed pl)) by (apply filter_In; split; assumption).
    apply in_rewritten_iff in IR. unfold out, execute.
    destruct (pl_rewritten pl) eqn:R; [destruct IR|]. cbn [out_index].
    assert (Ex : exists md, exec_table (pp_todo q) (o_instant o) = XPacks md /\ (pp_todo q = Recover -> md = TSet)).
    { destruct K as [K|K]; rewrite K.
      - destruct (XK (o_instant o)) as [md E]. exists md. split; [exact E|discriminate].
      - exists TSet. split; [apply XT|reflexivity]. }
    destruct Ex as [md [E Emd]].
    eexists. exists (to_ipack (o_now o) md q). split; [apply in_or_app; right; left; reflexivity|].
    cbn [f_packs]. split.
    + apply in_or_app. left. unfold sec_packs. apply in_flat_map. exists q. split; [exact Hpr|]. rewrite E. left. reflexivity.
    + split; [reflexivity|]. split; [reflexivity|]. intro Rc. rewrite (Emd Rc). reflexivity.
  - (* untouched index file: only Keep can be there, in section `packs` *)
    assert (NR : ~ In (pp_idx q) (pl_rewritten pl)) by (intro X; apply in_rewritten_iff in X; congruence).
    assert (Kq : pp_todo q = Keep).
    { destruct K as [K|K]; [exact K|]. exfalso. apply NR. apply forced_in_rewritten; [exact Hq|].
      rewrite K. apply forces_facts. }
    destruct (pf_final _ _ _ _ _ PF q Hq) as [[FK _] _]. rewrite (FK Kq) in N3.
    assert (UT : In f (untouched pl fs)).
    { unfold untouched. apply in_map_iff. exists (k, f). split; [reflexivity|].
      apply filter_In. split; [apply (enum_from_In fs k 0%nat f N1)|].
      apply Bool.negb_true_iff. destruct (existsb (Nat.eqb k) (pl_rewritten pl)) eqn:X; [|reflexivity].
      exfalso. apply NR. apply existsb_exists in X. destruct X as [y [Hy Ey]]. apply Nat.eqb_eq in Ey. subst y.
      rewrite N2. exact Hy. }
    exists f, ip. split.
    + unfold out, execute. destruct (pl_rewritten pl) eqn:R; cbn [out_index]; [eapply nth_error_In; eauto|].
      apply in_or_app. left. exact UT.
    + split; [exact N3|]. split; [symmetry; exact E1|]. split; [symmetry; exact E2|]. intro X. congruence.
Qed.

Hypothesis PK : packer_ok packer (taken fs existing).

Lemma removed_taken : forall i, In i (out_removed out) -> taken fs existing i.
Proof.
  intros i H. apply removed_sub in H. destruct H as [[_ H]|[p [Hp [Ep _]]]].
  - left. apply in_map_iff in H. destruct H as [e [Ee He]]. apply in_map_iff. exists e. split; [exact Ee|].
    apply (pf_unref _ _ _ _ _ PF e He).
  - right. destruct (pf_entry _ _ _ _ _ PF p Hp) as [k [f [ip [N1 [N2 [N3 [E1 _]]]]]]].
    exists f, ip. split; [eapply nth_error_In; eauto|]. split; [destruct (pp_mark p); [right|left]; exact N3|congruence].
Qed.

Lemma keeps_used_lemma : forall x, In x used -> avail_after (o_now o) fs existing out x.
Proof.
  destruct exec_facts as [XK [XR [XRP _]]].
  intros x Hx. destruct (pf_cover _ _ _ _ _ PF x Hx) as [[q [Hq [K Iq]]]|[L [q [Hq [K Iq]]]]].
  - (* some kept/recovered pack holds x *)
    left. destruct (kept_listed q Hq K) as [f [p [Hf [Hp [Ei [Eb _]]]]]].
    apply in_map_iff in Iq. destruct Iq as [b [Exb Hb]].
    exists f, p, b. split; [exact Hf|]. split; [exact Hp|]. split; [rewrite Eb; exact Hb|]. split; [exact Exb|].
    rewrite Ei. split; [apply (pf_exist _ _ _ _ _ PF q Hq); tauto|].
    split; [|apply entry_listed; assumption].
    apply not_removed; [exact Hq|]. destruct K as [K|K]; rewrite K; [apply XK|apply XR].
  - (* only repacked packs hold x: the first of them hands x to a repacker *)
    right.
    assert (IR : In (pp_idx q) (pl_rewritten pl)) by (apply forced_in_rewritten; [exact Hq|rewrite K; apply forces_facts]).
    assert (Hpr : In q (processed pl)) by (apply filter_In; split; [exact Hq|apply in_rewritten_iff; exact IR]).
    destruct (repack_inputs_covers (processed pl) (pl_left pl) x L) as [t [src [b [Hin Eb]]]].
    { exists q. split; [exact Hpr|]. split; [rewrite K; reflexivity|exact Iq]. }
    unfold out, execute. destruct (pl_rewritten pl) eqn:R; [destruct IR|]. cbn [out_index out_removed out_new].
    set (inputs := repack_inputs (pl_left pl) (processed pl)) in *.
    set (lt := map snd (filter (fun x0 => btype_eqb (fst x0) Tree) inputs)).
    set (ld := map snd (filter (fun x0 => btype_eqb (fst x0) Data) inputs)).
    assert (Hl : In (src, b) lt \/ In (src, b) ld).
    { destruct t; [left; apply in_map_iff; exists (Tree, (src, b))|right; apply in_map_iff; exists (Data, (src, b))];
        (split; [reflexivity|]); apply filter_In; (split; [exact Hin|reflexivity]). }
    assert (Pick : exists l0, (l0 = lt \/ l0 = ld) /\ In (src, b) l0) by (destruct Hl; eauto).
    destruct Pick as [l0 [El Hl']].
    destruct (PK l0) as [P1 P2]. destruct (P1 _ Hl') as [np [[src' b'] [Hnp [Hsb [Hsl Eid]]]]]. cbn [snd] in Eid.
    assert (Hinp : exists t', In (t', (src', b')) inputs).
    { destruct El; subst l0; apply in_map_iff in Hsl; destruct Hsl as [[t' sb] [E1 H1]]; cbn [snd] in E1; subst sb;
        apply filter_In in H1; exists t'; apply H1. }
    destruct Hinp as [t' Hinp]. destruct (repack_inputs_from _ _ _ _ _ Hinp) as [q' [Hq' [Rq' [Es [Hb' _]]]]].
    assert (Hq'' : In q' (pl_packs pl)) by (apply processed_in; exact Hq').
    assert (Hnps : In np (packer lt ++ packer ld)) by (apply in_or_app; destruct El; subst l0; auto).
    exists np, src', b'. split; [exact Hnps|]. split; [exact Hsb|]. split; [congruence|].
    subst src'. split; [apply entry_listed; assumption|].
    split; [apply (pf_exist _ _ _ _ _ PF q' Hq''); right; right; apply XRP; exact Rq'|].
    split.
    + intro X. apply (P2 np Hnp). apply removed_taken. unfold out, execute. rewrite R. exact X.
    + eexists. split; [apply in_or_app; right; left; reflexivity|]. cbn [f_packs].
      apply in_or_app. right. apply in_map. exact Hnps.
Qed.

End Exec.

(* ---------------------------------------------------------------- property lemmas *)
Lemma prune_keeps_used_lemma : forall dec packer nid o fs used existing pl out,
  packer_ok packer (taken fs existing) ->
  prune_with dec packer nid o fs used existing = inr (pl, out) ->
  forall x, In x used -> avail_after (o_now o) fs existing out x.
Proof.
  intros dec packer nid o fs used existing pl out PK H x Hx. unfold prune_with in H.
  destruct (plan_with dec o fs used existing) as [e|pl'] eqn:P; [discriminate|]. inv H.
  eapply keeps_used_lemma; eauto. eapply plan_with_facts; eauto.
Qed.

Lemma only_unused_removed_lemma : forall dec packer nid o fs used existing pl out,
  prune_with dec packer nid o fs used existing = inr (pl, out) ->
  forall i, In i (out_removed out) ->
    o_instant o = true
    \/ exists f p t pp, In f fs /\ In p (f_del f) /\ p_id p = i /\ p_time p = Some t
                        /\ (t + o_keep_delete o <= o_now o)%Z
                        /\ In pp (pl_packs pl) /\ pp_id pp = i /\ pp_todo pp = Delete
                        /\ pi_used_blobs (info_of pp) = 0.
Proof.
  intros dec packer nid o fs used existing pl out H i Hi. unfold prune_with in H.
  destruct (plan_with dec o fs used existing) as [e|pl'] eqn:P; [discriminate|]. inv H.
  pose proof (plan_with_facts _ _ _ _ _ _ P) as PF.
  destruct (o_instant o) eqn:I; [left; reflexivity|right].
  destruct (removed_sub _ _ _ _ _ i Hi) as [[X _]|[pp [Hp [Ep Xp]]]]; [congruence|].
  rewrite I in Xp. destruct exec_facts as [_ [_ [_ [XD _]]]]. apply XD in Xp.
  destruct (pf_final _ _ _ _ _ PF pp Hp) as [[_ [_ FD]] _]. destruct (FD Xp) as [Mk [U [t [Tm Le]]]].
  destruct (pf_entry _ _ _ _ _ PF pp Hp) as [k [f [ip [N1 [N2 [N3 [E1 [E2 [E3 _]]]]]]]]]. rewrite Mk in N3.
  exists f, ip, t, pp. split; [eapply nth_error_In; eauto|]. split; [exact N3|]. split; [congruence|].
  split; [congruence|]. split; [lia|]. repeat split; assumption.
Qed.

Lemma marked_needed_recovered_lemma : forall dec packer nid o fs used existing pl p x,
  plan_with dec o fs used existing = inr pl ->
  In p (pl_packs pl) -> pp_mark p = true -> In x used -> In x (ids (pp_blobs p)) ->
  (forall q, In q (pl_packs pl) -> In x (ids (pp_blobs q)) -> q = p) ->
  pp_todo p = Recover
  /\ exists f e, In f (out_index (execute packer nid o fs pl)) /\ In e (f_packs f)
                 /\ p_id e = pp_id p /\ p_blobs e = pp_blobs p /\ p_time e = Some (o_now o).
Proof.
  intros dec packer nid o fs used existing pl p x P Hp Mk Hx Ix Uq.
  pose proof (plan_with_facts _ _ _ _ _ _ P) as PF.
  destruct (pf_good _ _ _ _ _ PF x Hx) as [q [Hq [Iq K]]].
  assert (q = p) by (apply Uq; assumption). subst q.
  destruct (pf_final _ _ _ _ _ PF p Hp) as [[FK [FR _]] _].
  assert (R : pp_todo p = Recover).
  { destruct K as [K|[K|K]]; [specialize (FK K); congruence|exact K|specialize (FR K); congruence]. }
  split; [exact R|].
  destruct (kept_listed packer nid o fs used existing pl PF p Hp (or_intror R)) as [f [e [Hf [He [E1 [E2 E3]]]]]].
  exists f, e. repeat split; auto.
Qed.

(* decide_repack (limits, ordering, resize) only ever answers Keep or Repack *)
Lemma repack_step_dec : forall nr mr mu un rm s p,
  (forall q t, In (q, t) (rs_dec s) -> t = Keep \/ t = Repack) ->
  forall q t, In (q, t) (rs_dec (repack_step nr mr mu un rm s p)) -> t = Keep \/ t = Repack.
Proof.
  intros nr mr mu un rm s p H q t. unfold repack_step.
  destruct (keep_cond _ _ _ _ _ _ _ _); cbn [rs_dec]; [intros [E|E]; [inv E; auto|eauto]|].
  destruct (reason_eqb _ SizeMismatch); destruct (pi_type (info_of p)); cbn [rs_dec]; eauto;
    intros [E|E]; [inv E; auto|eauto|inv E; auto|eauto].
Qed.

Lemma fold_repack_dec : forall nr mr mu un rm l s,
  (forall q t, In (q, t) (rs_dec s) -> t = Keep \/ t = Repack) ->
  forall q t, In (q, t) (rs_dec (fold_left (repack_step nr mr mu un rm) l s)) -> t = Keep \/ t = Repack.
Proof.
  induction l as [|a tl IH]; intros s Hs; cbn [fold_left]; [exact Hs|]. apply IH. apply repack_step_dec. exact Hs.
Qed.

Lemma repack_decisions_keep_or_repack : forall o ps q t,
  In (q, t) (repack_decisions o ps) -> t = Keep \/ t = Repack.
Proof.
  intros o ps q t Hi. unfold repack_decisions in Hi.
  apply in_app_or in Hi. destruct Hi as [Hi|Hi].
  - unfold repack_loop in Hi. eapply fold_repack_dec; [|exact Hi]. intros q0 t0 [].
  - apply in_app_or in Hi. destruct Hi as [Hi|Hi]; apply in_map_iff in Hi; destruct Hi as [j [E _]]; inv E;
      unfold resize_todo; match goal with |- (if ?c then _ else _) = _ \/ _ => destruct c; auto end.
Qed.

Lemma decide_repack_keep_or_repack : forall o ps d,
  decide_repack o ps = Some d -> forall i t, In (i, t) d -> t = Keep \/ t = Repack.
Proof.
  intros o ps d H i t Hi. unfold decide_repack in H. inv H.
  apply in_map_iff in Hi. destruct Hi as [[q t'] [E Hq]]. cbn [fst snd] in E. inv E.
  eapply repack_decisions_keep_or_repack; eauto.
Qed.
