(* C02 — extraction of the executable planner/executor model (ExtrOcamlBasic only). *)
Require Extraction.
Require Import ExtrOcamlBasic.
From Verif.C02 Require Import ModelBase Extracted Model.
Extraction "model_ml.ml" plan prune_with decide_repack file_packs info_of used_key b_key.
