(* C02 — lemmas, part 5: per-pack facts from the tables, apply_repack, check_existing_packs,
   filter_index_files, the executor, and the property lemmas. *)
From Verif.Base Require Import Tactics.
From Verif.C02 Require Import ModelBase Extracted Model Spec Proofs Proofs2 Proofs3 Proofs4.
Local Open Scope N_scope.

(* ---------------------------------------------------------------- more facts of the decision table *)
Lemma table_unmarked : forall mark used unused g o,
  decide_table mark used unused g = Some o ->
  (o = OTodo Keep \/ (exists r, o = OCand r)) -> mark = false.
Proof.
  intros mark used unused g o H K. destruct mark; [|reflexivity]. exfalso.
  unfold decide_table in H. cbn [Bool.eqb andb] in H.
  destruct (used =? 0).
  - inv H. destruct (g_time g) as [t|]; [destruct (g_del_limit g >=? t)%Z|];
      destruct K as [K|[r K]]; discriminate.
  - destruct (1 <=? used); [|discriminate]. inv H. destruct K as [K|[r K]]; discriminate.
Qed.

(* facts about a decided pack that the later steps rely on *)
Definition pack_ok (o : popts) (p : ppack) : Prop :=
  (pp_todo p = Keep -> pp_mark p = false)
  /\ (pp_cand p <> None -> pp_mark p = false /\ pp_todo p = Undecided)
  /\ (pp_todo p = Repack -> False)
  /\ (pp_todo p = Delete ->
        pp_mark p = true /\ pi_used_blobs (info_of p) = 0
        /\ exists t, pp_time p = Some t /\ (t <= o_now o - o_keep_delete o)%Z).

Lemma decide_one_ok : forall o m p m' p', decide_one o m p = (m', p') -> pack_ok o p'.
Proof.
  intros o m p m' p' H. unfold decide_one in H.
  destruct (from_pack m (pp_type p) (pp_blobs p)) as [m1 pi].
  destruct (decide_table (pp_mark p) (pi_used_blobs pi) (pi_unused_blobs pi) (guards_of o p)) as [[t|r]|] eqn:T; inv H;
    unfold pack_ok; cbn [pp_todo pp_cand pp_mark set_dec info_of pp_info pp_time].
  - split; [intro E; subst t; eapply table_unmarked; eauto|].
    split; [intro K; exfalso; apply K; reflexivity|].
    split.
    + intro E; subst t. exfalso. clear - T. unfold decide_table in T.
      destruct (pp_mark p); cbn [Bool.eqb andb] in T;
        repeat match type of T with
               | context [if ?c then _ else _] => destruct c; cbn [andb] in T
               | context [match ?c with Some _ => _ | None => _ end] => destruct c
               end; discriminate.
    + intro E; subst t. destruct (table_delete _ _ _ _ T) as [Mk [U [tm [Tm Le]]]].
      cbn [guards_of g_time g_del_limit] in Tm, Le. split; [exact Mk|]. split; [exact U|]. exists tm. split; assumption.
  - split; [discriminate|]. split; [intros _; split; [eapply table_unmarked; eauto|reflexivity]|].
    split; discriminate.
  - split; [discriminate|]. split; [intro K; exfalso; apply K; reflexivity|]. split; discriminate.
Qed.

Lemma map_st_ok : forall o mc l m m' l',
  (forall p, In p l -> is_pending p = false -> pack_ok o p) ->
  map_st (decide_step o mc) m l = (m', l') -> (forall p, In p l' -> is_pending p = false -> pack_ok o p).
Proof.
  induction l as [|a tl IH]; intros m m' l' H E; cbn [map_st] in E.
  - inv E. intros p [].
  - destruct (decide_step o mc m a) as [s1 a1] eqn:Fa. destruct (map_st (decide_step o mc) s1 tl) as [s2 bs] eqn:M. inv E.
    intros p [Hp|Hp] Np.
    + subst p. unfold decide_step in Fa. destruct (Bool.eqb (pp_mark a) mc).
      * eapply decide_one_ok; eauto.
      * inv Fa. apply H; [left; reflexivity|exact Np].
    + eapply IH; [|exact M|exact Hp|exact Np]. intros q Hq. apply H. right. exact Hq.
Qed.

Lemma decide_packs_ok : forall o m l m' l',
  (forall p, In p l -> is_pending p = true) ->
  decide_packs o m l = (m', l') -> forall p, In p l' -> is_pending p = false -> pack_ok o p.
Proof.
  intros o m l m' l' Pe E. unfold decide_packs, mark_order in E. cbn [fold_left] in E.
  destruct (map_st (decide_step o true) m l) as [m1 l1] eqn:E1.
  eapply map_st_ok; [|exact E]. eapply map_st_ok; [|exact E1].
  intros p Hp Np. rewrite (Pe p Hp) in Np. discriminate.
Qed.

(* ---------------------------------------------------------------- apply_repack *)
Lemma apply_repack_static : forall d p, static (apply_repack d p) = static p /\ pp_info (apply_repack d p) = pp_info p.
Proof. intros d p. unfold apply_repack. destruct (pp_cand p); split; reflexivity. Qed.

Lemma apply_repack_todo : forall d p,
  (pp_cand p = None /\ apply_repack d p = p)
  \/ (pp_cand p <> None /\ (pp_todo (apply_repack d p) = Keep \/ pp_todo (apply_repack d p) = Repack
                           \/ pp_todo (apply_repack d p) = Undecided)).
Proof.
  intros d p. unfold apply_repack. destruct (pp_cand p) as [r|]; [right|left; split; reflexivity].
  split; [discriminate|]. cbn [pp_todo]. destruct (lookup (pp_id p) d) as [[]|]; auto.
Qed.

(* after apply_repack: Keep and Repack only on unmarked packs, Delete only as decided by the table *)
Definition final_ok (o : popts) (p : ppack) : Prop :=
  (pp_todo p = Keep -> pp_mark p = false)
  /\ (pp_todo p = Repack -> pp_mark p = false)
  /\ (pp_todo p = Delete ->
        pp_mark p = true /\ pi_used_blobs (info_of p) = 0
        /\ exists t, pp_time p = Some t /\ (t <= o_now o - o_keep_delete o)%Z).

Lemma apply_repack_ok : forall o d p, pack_ok o p -> final_ok o (apply_repack d p).
Proof.
  intros o d p [K [C [R D]]]. destruct (apply_repack_todo d p) as [[Cn E]|[Cn T]].
  - rewrite E. split; [exact K|]. split; [intro X; destruct (R X)|exact D].
  - destruct (C Cn) as [Mk Un]. destruct (apply_repack_static d p) as [St In_].
    assert (Mk' : pp_mark (apply_repack d p) = false) by (unfold static in St; congruence).
    split; [intros _; exact Mk'|]. split; [intros _; exact Mk'|].
    intro X. destruct T as [T|[T|T]]; congruence.
Qed.

Lemma good_after_repack : forall d p, good p ->
  pp_todo (apply_repack d p) = Keep \/ pp_todo (apply_repack d p) = Recover
  \/ pp_todo (apply_repack d p) = Repack \/ pp_todo (apply_repack d p) = Undecided.
Proof.
  intros d p [_ G]. destruct (apply_repack_todo d p) as [[Cn E]|[Cn T]].
  - rewrite E. destruct G as [G|[G|G]]; [auto|auto|contradiction].
  - destruct T as [T|[T|T]]; auto.
Qed.

(* ---------------------------------------------------------------- check_existing_packs *)
Lemma cep_table_facts :
  (forall t, fst (fst (cep_table t)) = true <-> t = Undecided)
  /\ (forall t, snd (fst (cep_table t)) = true <-> (t = Keep \/ t = Recover))
  /\ (forall t, t = Keep \/ t = Recover \/ t = Repack -> snd (cep_table t) = true).
Proof.
  split; [intro t; destruct t; cbn; split; intro H; try discriminate; reflexivity|].
  split.
  - intro t; destruct t; cbn; split; intro H; try discriminate; auto; destruct H; discriminate.
  - intros t H; repeat destruct H as [H|H]; subst t; reflexivity.
Qed.

Lemma lookup_In : forall {A} k (l : list (id * A)) v, lookup k l = Some v -> In (k, v) l.
Proof.
  induction l as [|[k' v'] t IH]; intros v H; cbn [lookup] in H; [discriminate|].
  destruct (k =? k') eqn:E; [apply N.eqb_eq in E; inv H; left; reflexivity|right; apply IH; exact H].
Qed.

Lemma del_blobs_spec : forall bs m x, del_blobs m bs x = if mem x (ids bs) then None else m x.
Proof.
  unfold del_blobs. induction bs as [|b t IH]; intros m x; cbn [fold_left]; [reflexivity|].
  rewrite IH. cbn [ids map mem existsb]. fold (ids t). fold (mem x (ids t)).
  unfold del. destruct (mem x (ids t)); [rewrite Bool.orb_true_r; reflexivity|].
  rewrite Bool.orb_false_r. reflexivity.
Qed.

Lemma cep_spec : forall ps ex m unref m2,
  cep ex m ps = inr (unref, m2) ->
  (forall p, In p ps -> pp_todo p <> Undecided)
  /\ (forall p, In p ps -> pp_todo p = Keep \/ pp_todo p = Recover \/ pp_todo p = Repack -> In (pp_id p) (map fst ex))
  /\ (forall e, In e unref -> In e ex /\ forall p, In p ps -> fst e <> pp_id p)
  /\ (forall x, (m2 x = None /\ exists p, In p ps /\ (pp_todo p = Keep \/ pp_todo p = Recover) /\ In x (ids (pp_blobs p)))
                \/ (m2 x = m x /\ forall p, In p ps -> pp_todo p = Keep \/ pp_todo p = Recover -> ~ In x (ids (pp_blobs p)))).
Proof.
  destruct cep_table_facts as [TF1 [TF2 TF3]].
  induction ps as [|p tl IH]; intros ex m unref m2 H; cbn [cep] in H.
  - inv H. split; [intros p []|]. split; [intros p []|]. split; [intros e He; split; [exact He|intros p []]|].
    intro x. right. split; [reflexivity|intros p []].
  - destruct (cep_table (pp_todo p)) as [[err drops] chk] eqn:T.
    destruct err eqn:Ee; [discriminate|].
    set (m' := if drops then del_blobs m (pp_blobs p) else m) in *.
    assert (Hchk : chk = true -> In (pp_id p) (map fst ex)).
    { intro C. subst chk. destruct (lookup (pp_id p) ex) as [s|] eqn:L; [|discriminate].
      apply lookup_In in L. apply in_map_iff. exists (pp_id p, s). split; [reflexivity|exact L]. }
    assert (H' : cep (ex_remove (pp_id p) ex) m' tl = inr (unref, m2)).
    { destruct chk; [|exact H]. destruct (lookup (pp_id p) ex) as [s|]; [|discriminate].
      destruct (s =? pp_size p); [exact H|discriminate]. }
    destruct (IH _ _ _ _ H') as [A [B [C D]]].
    split.
    { intros q [Hq|Hq]; [subst q|apply A; exact Hq]. intro U. apply TF1 in U. rewrite T in U. discriminate. }
    split.
    { intros q [Hq|Hq] K.
      - subst q. apply Hchk. specialize (TF3 _ K). rewrite T in TF3. exact TF3.
      - specialize (B q Hq K). unfold ex_remove in B. apply in_map_iff in B. destruct B as [e [E He]].
        apply filter_In in He. apply in_map_iff. exists e. split; [exact E|apply He]. }
    split.
    { intros e He. destruct (C e He) as [C1 C2]. unfold ex_remove in C1. apply filter_In in C1. destruct C1 as [C1 C3].
      split; [exact C1|]. intros q [Hq|Hq]; [subst q|apply C2; exact Hq].
      apply Bool.negb_true_iff in C3. apply N.eqb_neq in C3. exact C3. }
    intro x. specialize (TF2 (pp_todo p)). rewrite T in TF2. cbn [fst snd] in TF2.
    destruct (D x) as [[D1 [q [Hq [Kq Iq]]]]|[D1 D2]].
    { left. split; [exact D1|]. exists q. split; [right; exact Hq|]. split; assumption. }
    subst m'. destruct drops eqn:Dr.
    + rewrite del_blobs_spec in D1. destruct (mem x (ids (pp_blobs p))) eqn:Mx.
      * left. split; [exact D1|]. exists p. split; [left; reflexivity|]. split; [apply TF2; reflexivity|apply mem_In; exact Mx].
      * right. split; [exact D1|]. intros q [Hq|Hq] K; [subst q|apply D2; assumption].
        intro X. apply mem_In in X. congruence.
    + right. split; [exact D1|]. intros q [Hq|Hq] K; [subst q|apply D2; assumption].
      apply TF2 in K. discriminate.
Qed.

(* ---------------------------------------------------------------- filter_index_files *)
Lemma enum_from_In : forall {A} (l : list A) k n a, nth_error l k = Some a -> In ((n + k)%nat, a) (enum_from n l).
Proof.
  induction l as [|h t IH]; intros k n a H; destruct k; cbn [nth_error] in H; try discriminate.
  - inv H. rewrite Nat.add_0_r. left. reflexivity.
  - cbn [enum_from]. right. replace (n + S k)%nat with (S n + k)%nat by lia. apply IH. exact H.
Qed.

Lemma nth_error_some_lt : forall {A B} (l : list A) (l2 : list B) k a,
  nth_error l k = Some a -> length l2 = length l -> exists b, nth_error l2 k = Some b.
Proof.
  intros A B l l2 k a H L. assert (k < length l2)%nat by (rewrite L; apply nth_error_Some; congruence).
  destruct (nth_error l2 k) eqn:E; [eauto|]. apply nth_error_None in E. lia.
Qed.

Lemma rewritten_forced : forall instant mods ps p k fm,
  In p ps -> forces_rewrite (pp_todo p) instant = true -> pp_idx p = k -> nth_error mods k = Some fm ->
  In k (rewritten instant mods ps).
Proof.
  intros instant mods ps p k [fid md] Hp F Ek N. unfold rewritten.
  pose proof (enum_from_In mods k 0%nat _ N) as HI. cbn [Nat.add] in HI.
  assert (MM : must_modify instant ps k md = true).
  { unfold must_modify. apply Bool.orb_true_iff. right. apply existsb_exists. exists p. split; [|exact F].
    unfold file_packs. apply filter_In. split; [exact Hp|]. rewrite Ek. apply Nat.eqb_refl. }
  assert (ANY : existsb (fun '(n, (_, m)) => must_modify instant ps n m) (enum_from 0 mods) = true).
  { apply existsb_exists. exists (k, (fid, md)). split; [exact HI|exact MM]. }
  rewrite ANY. cbn [negb andb].
  apply in_map_iff. exists (k, (fid, md)). split; [reflexivity|]. apply filter_In. split; [exact HI|].
  rewrite MM. reflexivity.
Qed.

Lemma forces_facts : forall instant,
  forces_rewrite Recover instant = true /\ forces_rewrite Repack instant = true.
Proof. intro instant. destruct instant; split; reflexivity. Qed.

(* ---------------------------------------------------------------- retain / repack inputs *)
Lemma retain_spec : forall bs m m' r,
  retain m bs = (m', r) ->
  (forall b, In b r -> In b bs)
  /\ (forall x, m x <> None -> In x (ids bs) -> exists b, In b r /\ b_key b = x)
  /\ (forall x, ~ In x (ids bs) -> m' x = m x).
Proof.
  induction bs as [|b tl IH]; intros m m' r H; cbn [retain] in H.
  - inv H. split; [intros b []|]. split; [intros x _ []|reflexivity].
  - destruct (m (b_key b)) as [c|] eqn:Eb.
    + destruct (retain (del m (b_key b)) tl) as [m1 r1] eqn:R. inv H. destruct (IH _ _ _ R) as [A [B C]].
      split; [intros q [Hq|Hq]; [left; exact Hq|right; apply A; exact Hq]|].
      split.
      * intros x Hx Hin. destruct (N.eq_dec x (b_key b)) as [->|Ne]; [exists b; split; [left|]; reflexivity|].
        destruct Hin as [Hin|Hin]; [congruence|].
        destruct (B x) as [q [Hq Eq]]; [unfold del; apply N.eqb_neq in Ne; rewrite Ne; exact Hx|exact Hin|].
        exists q. split; [right; exact Hq|exact Eq].
      * intros x Hx. rewrite C by (intro K; apply Hx; right; exact K). unfold del.
        destruct (x =? b_key b) eqn:E; [|reflexivity]. apply N.eqb_eq in E. exfalso. apply Hx. left. symmetry. exact E.
    + destruct (IH _ _ _ H) as [A [B C]].
      split; [intros q Hq; right; apply A; exact Hq|].
      split.
      * intros x Hx [Hin|Hin]; [congruence|]. apply B; assumption.
      * intros x Hx. apply C. intro K. apply Hx. right. exact K.
Qed.

Lemma repack_inputs_from : forall ps m t src b,
  In (t, (src, b)) (repack_inputs m ps) ->
  exists q, In q ps /\ exec_repacks (pp_todo q) = true /\ src = pp_id q /\ In b (pp_blobs q) /\ t = pp_type q.
Proof.
  induction ps as [|p tl IH]; intros m t src b H; cbn [repack_inputs] in H; [destruct H|].
  destruct (exec_repacks (pp_todo p)) eqn:E.
  - destruct (retain m (pp_blobs p)) as [m1 r] eqn:R. apply in_app_or in H. destruct H as [H|H].
    + apply in_map_iff in H. destruct H as [b0 [E0 Hb]]. inv E0.
      exists p. split; [left; reflexivity|]. split; [exact E|]. split; [reflexivity|].
      split; [apply (proj1 (retain_spec _ _ _ _ R)); exact Hb|reflexivity].
    + destruct (IH _ _ _ _ H) as [q [Hq K]]. exists q. split; [right; exact Hq|exact K].
  - destruct (IH _ _ _ _ H) as [q [Hq K]]. exists q. split; [right; exact Hq|exact K].
Qed.

Lemma repack_inputs_covers : forall ps m x,
  m x <> None -> (exists p, In p ps /\ exec_repacks (pp_todo p) = true /\ In x (ids (pp_blobs p))) ->
  exists t src b, In (t, (src, b)) (repack_inputs m ps) /\ b_key b = x.
Proof.
  induction ps as [|p tl IH]; intros m x Hx [q [Hq [Eq Hin]]]; [destruct Hq|].
  cbn [repack_inputs]. destruct (exec_repacks (pp_todo p)) eqn:E.
  - destruct (retain m (pp_blobs p)) as [m1 r] eqn:R. destruct (retain_spec _ _ _ _ R) as [A [B C]].
    destruct (in_dec N.eq_dec x (ids (pp_blobs p))) as [I|NI].
    + destruct (B x Hx I) as [b [Hb Eb]]. exists (pp_type p), (pp_id p), b. split; [|exact Eb].
      apply in_or_app. left. apply in_map_iff. exists b. split; [reflexivity|exact Hb].
    + destruct Hq as [Hq|Hq]; [subst q; contradiction|].
      destruct (IH m1 x) as [t [src [b [H1 H2]]]]; [rewrite C by exact NI; exact Hx|exists q; auto|].
      exists t, src, b. split; [apply in_or_app; right; exact H1|exact H2].
  - destruct Hq as [Hq|Hq]; [subst q; congruence|].
    destruct (IH m x Hx) as [t [src [b [H1 H2]]]]; [exists q; auto|]. exists t, src, b. split; assumption.
Qed.
