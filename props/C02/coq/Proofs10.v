(* C02 — lemmas, part 10: keep_pack and repack_all at the level of the whole plan. *)
From Verif.Base Require Import Tactics.
From Verif.C02 Require Import ModelBase Extracted Model Spec Proofs Proofs2 Proofs3 Proofs4 Proofs5 Proofs6 Proofs8 Proofs9.
Local Open Scope N_scope.

(* what plan_with computes, opened once *)
Lemma plan_with_open : forall dec o fs used existing pl,
  plan_with dec o fs used existing = inr pl ->
  exists ps1 d,
    dec o ps1 = Some d /\ pl_packs pl = map (apply_repack d) ps1
    /\ (forall p, In p ps1 -> is_pending p = false)
    /\ (forall Q : ppack -> Prop, (forall m p m' p', decide_one o m p = (m', p') -> Q p') -> forall p, In p ps1 -> Q p)
    /\ NoDup (map pp_id ps1)
    /\ (forall p, In p (pl_packs pl) -> pp_todo p <> Undecided).
Proof.
  intros dec o fs used existing pl H. unfold plan_with in H.
  destruct (plan_new fs) as [mods ps0] eqn:PN.
  destruct (check_used (count_used (umap0 used) ps0) used) eqn:CK; cbn [negb] in H; [|discriminate].
  destruct (decide_packs o (count_used (umap0 used) ps0) ps0) as [m1 ps1] eqn:DP.
  destruct (dec o ps1) as [d|] eqn:D; [|discriminate].
  destruct (cep existing m1 (map (apply_repack d) ps1)) as [e|[unref m2]] eqn:CE; [discriminate|]. inv H.
  destruct (plan_new_spec _ _ _ PN) as [_ [ND [_ PE]]].
  destruct (decide_packs_covers _ _ _ _ _ PE CK DP) as [ST [AD _]].
  destruct (cep_spec _ _ _ _ _ CE) as [CA _].
  exists ps1, d. split; [exact D|]. split; [reflexivity|]. split; [exact AD|].
  split; [intros Q HQ p Hp; eapply (decide_packs_Q o Q HQ); eauto|].
  split; [rewrite (map_static_ids _ _ ST); exact ND|exact CA].
Qed.

Lemma guards_static : forall o d p, guards_of o (apply_repack d p) = guards_of o p.
Proof. intros o d p. unfold apply_repack. destruct (pp_cand p); reflexivity. Qed.

(* keep_pack: an unmarked pack younger than keep_pack is kept, whatever else the options say *)
Lemma keep_pack_lemma : forall dec o fs used existing pl p t,
  plan_with dec o fs used existing = inr pl -> In p (pl_packs pl) ->
  pp_mark p = false -> pp_time p = Some t -> (t > o_now o - o_keep_pack o)%Z -> pp_todo p = Keep.
Proof.
  intros dec o fs used existing pl p t P Hp Mk Tm Y.
  destruct (plan_with_open _ _ _ _ _ _ P) as [ps1 [d [_ [E [_ [HQ _]]]]]].
  rewrite E in Hp. apply in_map_iff in Hp. destruct Hp as [p1 [E1 H1]]. subst p.
  destruct (apply_repack_static d p1) as [St _]. apply static_fields in St.
  destruct St as [_ [_ [_ [_ [S5 [S6 _]]]]]].
  assert (Yg : g_too_young (guards_of o p1) = true).
  { unfold guards_of. cbn [g_too_young]. rewrite <- S6, Tm. apply Z.gtb_lt. lia. }
  destruct (HQ (young_ok o) (decide_one_young o) p1 H1) as [K C]; [congruence|exact Yg|].
  destruct (apply_repack_todo d p1) as [[_ Eq]|[Cn _]]; [rewrite Eq; exact K|congruence].
Qed.

Lemma lookup_all_repack : forall (d : list (id * todo)) k t0,
  (forall i t, In (i, t) d -> t = Repack) -> In (k, t0) d -> lookup k d = Some Repack.
Proof.
  induction d as [|[k' v] tl IH]; intros k t0 A Hin; [destruct Hin|]. cbn [lookup].
  destruct (k =? k') eqn:E.
  - f_equal. eapply A. left. reflexivity.
  - destruct Hin as [Hin|Hin]; [inv Hin; rewrite N.eqb_refl in E; discriminate|].
    eapply IH; [|exact Hin]. intros i t Hi. eapply A. right. exact Hi.
Qed.

(* repack_all with unlimited max_repack: every unmarked pack that holds a used blob, is not younger than
   keep_pack and is not protected by repack_cacheable_only is repacked *)
Lemma repack_all_lemma : forall o fs used existing pl p,
  plan_with decide_repack o fs used existing = inr pl -> In p (pl_packs pl) ->
  o_all o = true -> o_max_repack o = LUnlimited ->
  pp_mark p = false -> 1 <= pi_used_blobs (info_of p) ->
  g_too_young (guards_of o p) = false -> g_keep_uncacheable (guards_of o p) = false ->
  pp_todo p = Repack.
Proof.
  intros o fs used existing pl p P Hp A MR Mk U Y C.
  destruct (plan_with_open _ _ _ _ _ _ P) as [ps1 [d [D [E [_ [HQ _]]]]]].
  rewrite E in Hp. apply in_map_iff in Hp. destruct Hp as [p1 [E1 H1]]. subst p.
  destruct (apply_repack_static d p1) as [St In1]. apply static_fields in St.
  destruct St as [_ [_ [_ [_ [S5 _]]]]].
  rewrite guards_static in Y, C.
  assert (Inf : info_of (apply_repack d p1) = info_of p1) by (unfold info_of; rewrite In1; destruct (apply_repack_static d p1) as [S _]; apply static_fields in S; destruct S as [_ [_ [S3 _]]]; rewrite S3; reflexivity).
  rewrite Inf in U.
  destruct (HQ (all_ok o) (decide_one_all o) p1 H1 A) as [_ G]. destruct (G (eq_trans (eq_sym S5) Mk) U Y C) as [Cd Un].
  (* all candidates have a reason other than SizeMismatch *)
  assert (NS : forall q, In q (sort_cands (filter is_cand ps1)) -> cand_reason q <> SizeMismatch).
  { intros q Hq. apply (proj1 (sort_cands_In _ _)) in Hq. apply filter_In in Hq. destruct Hq as [Hq Cq].
    destruct (HQ (all_ok o) (decide_one_all o) q Hq A) as [N1 _]. unfold cand_reason, is_cand in *.
    destruct (pp_cand q) as [r|]; [|discriminate]. intro X. apply N1. congruence. }
  unfold decide_repack in D. inv D.
  assert (MRn : max_repack_of o ps1 = None) by (unfold max_repack_of; rewrite MR; reflexivity).
  assert (MUn : max_unused_of o ps1 = Some 0).
  { unfold max_unused_of. rewrite A, Bool.orb_true_r. reflexivity. }
  destruct (fold_all_inv (o_no_resize o) _ _ (size_unused ps1) (size_remove ps1) MRn MUn _ [] rs0 NS) as [dn [[R1 [R2 [R3 R4]]] Cov]].
  { split; [reflexivity|]. split; [reflexivity|]. split; [intros q t []|intros q []]. }
  fold (repack_loop o ps1) in R1, R2, R3, R4.
  assert (Hc : In p1 (sort_cands (filter is_cand ps1))) by (apply (proj2 (sort_cands_In _ _)); apply filter_In; split; assumption).
  assert (Ent : In (p1, Repack) (repack_decisions o ps1)).
  { unfold repack_decisions. apply in_or_app. left. apply R4. apply Cov. left. exact Hc. }
  assert (AllR : forall i t, In (i, t) (map (fun pt : ppack * todo => (pp_id (fst pt), snd pt)) (repack_decisions o ps1)) -> t = Repack).
  { intros i t Hi. apply in_map_iff in Hi. destruct Hi as [[q t'] [Eq Hq]]. cbn [fst snd] in Eq. inv Eq.
    unfold repack_decisions in Hq. rewrite R1, R2 in Hq. cbn [map app] in Hq. rewrite app_nil_r in Hq. eapply R3; eauto. }
  unfold apply_repack. unfold is_cand in Cd. destruct (pp_cand p1) as [r|]; [|discriminate]. cbn [pp_todo].
  rewrite (lookup_all_repack _ (pp_id p1) Repack AllR); [reflexivity|].
  apply in_map_iff. exists (p1, Repack). split; [reflexivity|exact Ent].
Qed.
