(* C02 — lemmas, part 11: find_used_blobs is complete: every blob reachable from a present snapshot is
   in the used set, with its type. *)
From Verif.Base Require Import Tactics.
From Verif.C02 Require Import ModelBase Extracted Model ModelUsed Spec Proofs Proofs2 Proofs3 Proofs4 Proofs5 Proofs6 Proofs7.
Local Open Scope N_scope.

(* blob key k is needed to restore the tree t *)
Inductive reach (st : tstore) : id -> N -> Prop :=
| r_self : forall t, reach st t (used_key Tree t)
| r_file : forall t ns c i, st t = Some ns -> In (NFile c) ns -> In i c -> reach st t (used_key Data i)
| r_dir : forall t ns s k, st t = Some ns -> In (NDir s) ns -> reach st s k -> reach st t k.

Definition W (st : tstore) (todo visited : list id) (acc : list N) : Prop :=
  forall v, In v visited -> exists ns, st v = Some ns
    /\ (forall n k, In n ns -> In k (node_keys n) -> In k acc)
    /\ (forall n s, In n ns -> In s (node_subs n) -> In s visited \/ In s todo).

Lemma walk_spec : forall fuel st todo visited acc out,
  walk fuel st todo visited acc = Some out -> W st todo visited acc ->
  (forall k, In k acc -> In k out)
  /\ exists visited', W st [] visited' out /\ (forall v, In v visited \/ In v todo -> In v visited').
Proof.
  induction fuel as [|f IH]; intros st todo visited acc out H Inv; destruct todo as [|t rest]; cbn [walk] in H; try discriminate.
  - inv H. split; [auto|]. exists visited. split; [exact Inv|]. intros v [Hv|[]]; exact Hv.
  - inv H. split; [auto|]. exists visited. split; [exact Inv|]. intros v [Hv|[]]; exact Hv.
  - destruct (mem t visited) eqn:M.
    + apply mem_In in M.
      assert (Inv' : W st rest visited acc).
      { intros v Hv. destruct (Inv v Hv) as [ns [E [K S]]]. exists ns. split; [exact E|]. split; [exact K|].
        intros n s Hn Hs. destruct (S n s Hn Hs) as [X|[X|X]]; [left; exact X|subst s; left; exact M|right; exact X]. }
      destruct (IH _ _ _ _ _ H Inv') as [A [v' [B C]]]. split; [exact A|]. exists v'. split; [exact B|].
      intros v [Hv|[Hv|Hv]]; [apply C; left; exact Hv|subst v; apply C; left; exact M|apply C; right; exact Hv].
    + destruct (st t) as [ns|] eqn:E; [|discriminate].
      assert (Inv' : W st (flat_map node_subs ns ++ rest) (t :: visited) (flat_map node_keys ns ++ acc)).
      { intros v [Hv|Hv].
        - subst v. exists ns. split; [exact E|]. split.
          + intros n k Hn Hk. apply in_or_app. left. apply in_flat_map. exists n. split; assumption.
          + intros n s Hn Hs. right. apply in_or_app. left. apply in_flat_map. exists n. split; assumption.
        - destruct (Inv v Hv) as [ns' [E' [K S]]]. exists ns'. split; [exact E'|]. split.
          + intros n k Hn Hk. apply in_or_app. right. eapply K; eauto.
          + intros n s Hn Hs. destruct (S n s Hn Hs) as [X|[X|X]];
              [left; right; exact X|subst s; left; left; reflexivity|right; apply in_or_app; right; exact X]. }
      destruct (IH _ _ _ _ _ H Inv') as [A [v' [B C]]].
      split; [intros k Hk; apply A; apply in_or_app; right; exact Hk|]. exists v'. split; [exact B|].
      intros v [Hv|[Hv|Hv]]; [apply C; left; right; exact Hv|subst v; apply C; left; left; reflexivity
                              |apply C; right; apply in_or_app; right; exact Hv].
Qed.

Lemma closed_reach : forall st visited out,
  W st [] visited out -> forall t k, reach st t k -> In t visited -> In (used_key Tree t) out -> In k out.
Proof.
  intros st visited out Inv t k R. induction R as [t|t ns c i E Hn Hi|t ns s k E Hn R IH]; intros Hv Hk.
  - exact Hk.
  - destruct (Inv t Hv) as [ns' [E' [K _]]]. rewrite E in E'. inv E'.
    apply (K (NFile c)); [exact Hn|]. cbn [node_keys]. apply in_map. exact Hi.
  - destruct (Inv t Hv) as [ns' [E' [K S]]]. rewrite E in E'. inv E'.
    apply IH.
    + destruct (S (NDir s) s Hn (or_introl eq_refl)) as [X|[]]. exact X.
    + apply (K (NDir s)); [exact Hn|]. left. reflexivity.
Qed.

Lemma used_ids_complete_lemma : forall fuel st roots used,
  find_used fuel st roots = Some used -> forall r k, In r roots -> reach st r k -> In k used.
Proof.
  intros fuel st roots used H r k Hr R. unfold find_used in H.
  assert (Inv : W st roots [] (map (used_key Tree) roots)) by (intros v []).
  destruct (walk_spec _ _ _ _ _ _ H Inv) as [A [v' [B C]]].
  eapply closed_reach; [exact B|exact R|apply C; right; exact Hr|]. apply A. apply in_map. exact Hr.
Qed.

Lemma forget_spec : forall ids snaps s, In s (forget ids snaps) <-> In s snaps /\ ~ In (fst s) ids.
Proof.
  intros ids snaps s. unfold forget. rewrite filter_In. split; intros [A B]; (split; [exact A|]).
  - intro K. apply mem_In in K. rewrite K in B. discriminate.
  - destruct (mem (fst s) ids) eqn:M; [apply mem_In in M; contradiction|reflexivity].
Qed.

(* the chain: a snapshot that was not forgotten keeps every blob it needs, under its type, through prune *)
Lemma present_snapshots_lemma : forall fuel st ids snaps used dec packer nid o fs existing pl out,
  find_used fuel st (roots_of (forget ids snaps)) = Some used ->
  packer_ok packer (taken fs existing) ->
  prune_with dec packer nid o fs used existing = inr (pl, out) ->
  forall s t i, In s snaps -> ~ In (fst s) ids -> reach st (snd s) (used_key t i) ->
  avail_after_typed (o_now o) fs existing out t i.
Proof.
  intros fuel st ids snaps used dec packer nid o fs existing pl out F PK P s t i Hs Ni R.
  eapply prune_keeps_used_typed_lemma; eauto.
  eapply used_ids_complete_lemma; [exact F| |exact R].
  unfold roots_of. apply in_map. apply forget_spec. split; assumption.
Qed.

(* example: root 1 = { file [10;11]; dir 2 }, tree 2 = { file [11]; symlink } ; snapshots (100,1), (101,2) *)
Definition ex_store : tstore := fun t =>
  if t =? 1 then Some [NFile [10; 11]; NDir 2] else if t =? 2 then Some [NFile [11]; NOther] else None.
Example ex_find_used :
  find_used 10 ex_store (roots_of (forget [101] [(100, 1); (101, 2)]))
  = Some [used_key Data 11; used_key Data 10; used_key Data 11; used_key Tree 2; used_key Tree 1].
Proof. vm_compute. reflexivity. Qed.
Example ex_find_used_missing_tree : find_used 10 ex_store [3] = None.
Proof. vm_compute. reflexivity. Qed.
