(* C02 — base types shared by the generated Extracted.v and the hand-written Model.v. *)
From Verif.Base Require Import Tactics.

Definition id := N.
Inductive btype := Tree | Data.
Definition btype_eqb (a b : btype) : bool :=
  match a, b with Tree, Tree | Data, Data => true | _, _ => false end.

(* IndexBlob *)
Record blob := mkBlob { b_id : id; b_tpe : btype; b_len : N; b_comp : bool (* uncompressed_length.is_some() *) }.

(* PackToDo (prune.rs) *)
Inductive todo := Undecided | Keep | Repack | MarkDelete | KeepMarked | KeepMarkedAndCorrect | Recover | Delete.
Definition todo_eqb (a b : todo) : bool :=
  match a, b with
  | Undecided, Undecided | Keep, Keep | Repack, Repack | MarkDelete, MarkDelete
  | KeepMarked, KeepMarked | KeepMarkedAndCorrect, KeepMarkedAndCorrect
  | Recover, Recover | Delete, Delete => true
  | _, _ => false
  end.

(* RepackReason *)
Inductive reason := PartlyUsed | ToCompress | SizeMismatch.
Definition reason_eqb (a b : reason) : bool :=
  match a, b with PartlyUsed, PartlyUsed | ToCompress, ToCompress | SizeMismatch, SizeMismatch => true | _, _ => false end.

(* what one arm of the decision match of decide_packs does with a pack *)
Inductive outcome := OTodo (t : todo) | OCand (r : reason).

(* the local booleans of decide_packs that the arms consult *)
Record guards := mkG {
  g_too_young : bool; g_keep_uncacheable : bool; g_to_compress : bool;
  g_repack_all : bool; g_size_mismatch : bool;
  g_time : option Z;        (* pack.time *)
  g_del_limit : Z           (* self.time - keep_delete *)
}.

(* effect of one arm of the to_do match of prune_repository on the new index / the removal lists *)
Inductive tmode := TKeepOrSet (* into_index_pack: keep the time, set it when missing *)
                 | TSet       (* into_index_pack_with_time: prune time *).
Inductive effect := XErr | XPacks (m : tmode) | XDel (m : tmode) | XRemove.

(* PackInfo *)
Record pinfo := mkPI { pi_type : btype; pi_used_blobs : N; pi_unused_blobs : N; pi_used_size : N; pi_unused_size : N }.

(* LimitOption *)
Inductive limit := LUnlimited | LPercent (p : N) | LSize (s : N).

(* u64 saturating_mul *)
Definition sat_mul (a b : N) : N := N.min (a * b) 18446744073709551615.
(* comparisons with a byte limit; None = u64::MAX = no limit *)
Definition lim_ge (x : N) (l : option N) : bool := match l with None => false | Some v => N.leb v x end.  (* x >= l *)
Definition lim_lt (x : N) (l : option N) : bool := match l with None => true | Some v => N.ltb x v end.   (* x < l *)
