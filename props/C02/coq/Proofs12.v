(* C02 — examples (vm_compute) for the repack option theorems: their hypotheses are satisfiable and the
   limits bite where expected. *)
From Verif.Base Require Import Tactics.
From Verif.C02 Require Import ModelBase Extracted Model Spec Proofs Proofs2 Proofs3 Proofs4 Proofs5 Proofs6 Proofs7 Proofs9 Proofs10.
Local Open Scope N_scope.

(* three data packs, each with one used and one unused blob of 10 bytes; pack 104 fully used *)
Definition x_pack (pid u n : N) (tm : Z) : ipack :=
  mkIPack pid [mkBlob u Data 10 true; mkBlob n Data 10 true] (Some tm) 50.
Definition x_fs : list ifile :=
  [ mkIFile 501 [x_pack 101 1 2 0; x_pack 102 3 4 0; x_pack 103 5 6 0;
                 mkIPack 104 [mkBlob 7 Data 10 true] (Some 0%Z) 50] [] ].
Definition x_used : list id := map (used_key Data) [1; 3; 5; 7].
Definition x_existing : list (id * N) := [(101, 50); (102, 50); (103, 50); (104, 50)].
Definition x_opts (mu mr : limit) (all nores : bool) (keep_pack : Z) (sz : sizer) : popts :=
  mkOpts 1000%Z keep_pack 0%Z false false all nores false mu mr sz sz 1000%Z.
Definition x_todos (o : popts) := todos_of (prune_with decide_repack packer1 800 o x_fs x_used x_existing).

(* max_repack = 25 bytes: two packs (10 + 10 used bytes) fit, the third would reach the limit *)
Example ex_max_repack :
  x_todos (x_opts (LPercent 0) (LSize 25) false false 0 sz0)
  = [(101, Repack); (102, Repack); (103, Keep); (104, Keep)].
Proof. vm_compute. reflexivity. Qed.

(* max_unused = 15 bytes: repacking stops as soon as fewer than 15 unused bytes remain *)
Example ex_max_unused :
  x_todos (x_opts (LSize 15) LUnlimited false false 0 sz0)
  = [(101, Repack); (102, Repack); (103, Keep); (104, Keep)].
Proof. vm_compute. reflexivity. Qed.

(* a percentage >= 100 tolerates everything (saturating arithmetic, no division by zero) *)
Example ex_max_unused_100 :
  x_todos (x_opts (LPercent 100) LUnlimited false false 0 sz0)
  = [(101, Keep); (102, Keep); (103, Keep); (104, Keep)].
Proof. vm_compute. reflexivity. Qed.

(* target pack size 1000, packs of 50 bytes are too small: the fully used pack 104 is a resize candidate;
   it is repacked together with the partly used ones, but kept under no_resize *)
Definition sz_big : sizer := mkSizer 1000 30 0.
Example ex_resize :
  x_todos (x_opts (LPercent 0) LUnlimited false false 0 sz_big)
  = [(101, Repack); (102, Repack); (103, Repack); (104, Repack)].
Proof. vm_compute. reflexivity. Qed.
Example ex_no_resize :
  x_todos (x_opts (LPercent 0) LUnlimited false true 0 sz_big)
  = [(101, Repack); (102, Repack); (103, Repack); (104, Keep)].
Proof. vm_compute. reflexivity. Qed.

(* keep_pack = 2000 s: every pack (created at time 0, now = 1000) is too young *)
Example ex_keep_pack :
  x_todos (x_opts (LPercent 0) LUnlimited true false 2000 sz0)
  = [(101, Keep); (102, Keep); (103, Keep); (104, Keep)].
Proof. vm_compute. reflexivity. Qed.

(* repack_all *)
Example ex_repack_all :
  x_todos (x_opts LUnlimited LUnlimited true false 0 sz0)
  = [(101, Repack); (102, Repack); (103, Repack); (104, Repack)].
Proof. vm_compute. reflexivity. Qed.
