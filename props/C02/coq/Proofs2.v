(* C02 — lemmas, part 2: the duplicate-aware accounting (count_used_blobs, PackInfo::from_pack)
   and the invariant of decide_packs: every used id ends up accounted "used" in some pack that
   the decision table keeps, recovers or makes a repack candidate. *)
From Verif.Base Require Import Tactics.
From Verif.C02 Require Import ModelBase Extracted Model Proofs.
Local Open Scope N_scope.

Definition ids (bs : list blob) : list id := map b_key bs.
Fixpoint occ (x : id) (bs : list blob) : N :=
  match bs with [] => 0 | b :: tl => (if b_key b =? x then 1 else 0) + occ x tl end.

Lemma occ_notin : forall x bs, ~ In x (ids bs) -> occ x bs = 0.
Proof.
  induction bs as [|b tl IH]; intro H; cbn [occ]; [reflexivity|].
  cbn [ids map In] in H. destruct (b_key b =? x) eqn:E.
  - apply N.eqb_eq in E. exfalso. apply H. left. exact E.
  - rewrite IH; [reflexivity|]. intro K. apply H. right. exact K.
Qed.

Lemma occ_app : forall x a b, occ x (a ++ b) = occ x a + occ x b.
Proof. induction a as [|h t IH]; intro b; cbn [occ app]; [reflexivity|]. rewrite IH. lia. Qed.

Lemma upd_same : forall m k v, upd m k v k = Some v.
Proof. intros. unfold upd. rewrite N.eqb_refl. reflexivity. Qed.
Lemma upd_other : forall m k v x, x <> k -> upd m k v x = m x.
Proof. intros. unfold upd. destruct (x =? k) eqn:E; [apply N.eqb_eq in E; contradiction|reflexivity]. Qed.

(* ---------------------------------------------------------------- pass1 *)
Definition dec_rel (m m' : umap) (bs : list blob) : Prop :=
  forall x, match m x with
            | None => m' x = None
            | Some c => m' x = Some (c - occ x bs) /\ (1 <= c -> 1 <= c - occ x bs)
            end.

Lemma pass1_none : forall bs m m' pre,
  pass1 m bs = (m', pre, None) -> pre = bs /\ dec_rel m m' bs.
Proof.
  induction bs as [|b tl IH]; intros m m' pre H; cbn [pass1] in H.
  - inv H. split; [reflexivity|]. intro x. destruct (m' x); [|reflexivity]. cbn [occ]. split; [f_equal; lia|lia].
  - destruct (m (b_key b)) as [c|] eqn:Eb.
    + destruct (c =? 0) eqn:E0.
      * destruct (pass1 m tl) as [[m1 pre1] r1] eqn:P. inv H.
        apply IH in P. destruct P as [-> D]. split; [reflexivity|].
        intro x. specialize (D x). cbn [occ]. destruct (m x) as [cx|] eqn:Ex; [|exact D].
        destruct D as [D1 D2]. destruct (b_key b =? x) eqn:E.
        -- apply N.eqb_eq in E. subst x. rewrite Eb in Ex. inv Ex. apply N.eqb_eq in E0. subst cx.
           rewrite D1. split; [f_equal; lia|lia].
        -- rewrite D1. split; [f_equal; lia|lia].
      * destruct (c - 1 =? 0) eqn:E1; [inv H|].
        destruct (pass1 (upd m (b_key b) (c - 1)) tl) as [[m1 pre1] r1] eqn:P. inv H.
        apply IH in P. destruct P as [-> D]. split; [reflexivity|].
        apply N.eqb_neq in E0. apply N.eqb_neq in E1.
        intro x. specialize (D x). cbn [occ]. destruct (b_key b =? x) eqn:E.
        -- apply N.eqb_eq in E. subst x. rewrite upd_same in D. rewrite Eb. destruct D as [D1 D2].
           rewrite D1. split; [f_equal; lia|lia].
        -- apply N.eqb_neq in E. rewrite upd_other in D by congruence.
           destruct (m x) as [cx|]; [|exact D]. destruct D as [D1 D2]. rewrite D1. split; [f_equal; lia|lia].
    + destruct (pass1 m tl) as [[m1 pre1] r1] eqn:P. inv H.
      apply IH in P. destruct P as [-> D]. split; [reflexivity|].
      intro x. specialize (D x). cbn [occ]. destruct (m x) as [cx|] eqn:Ex; [|exact D].
      destruct (b_key b =? x) eqn:E.
      * apply N.eqb_eq in E. subst x. congruence.
      * destruct D as [D1 D2]. rewrite D1. split; [f_equal; lia|lia].
Qed.

(* found: bs = pre ++ b :: suf; the counter of b is 0 now; the others were decremented along pre *)
Definition found_rel (m m' : umap) (pre : list blob) (b : blob) : Prop :=
  forall x, match m x with
            | None => m' x = None
            | Some c => if x =? b_key b then m' x = Some 0
                        else m' x = Some (c - occ x pre) /\ (1 <= c -> 1 <= c - occ x pre)
            end.

Lemma pass1_some : forall bs m m' pre b suf,
  pass1 m bs = (m', pre, Some (b, suf)) -> bs = pre ++ b :: suf /\ found_rel m m' pre b.
Proof.
  induction bs as [|a tl IH]; intros m m' pre b suf H; cbn [pass1] in H; [inv H|].
  destruct (m (b_key a)) as [c|] eqn:Ea.
  - destruct (c =? 0) eqn:E0.
    + destruct (pass1 m tl) as [[m1 pre1] r1] eqn:P. inv H.
      apply IH in P. destruct P as [-> D]. split; [reflexivity|].
      apply N.eqb_eq in E0. subst c.
      intro x. specialize (D x). destruct (m x) as [cx|] eqn:Ex; [|exact D].
      destruct (x =? b_key b) eqn:Exb; [exact D|]. cbn [occ].
      destruct D as [D1 D2]. destruct (b_key a =? x) eqn:E.
      * apply N.eqb_eq in E. subst x. rewrite Ea in Ex. inv Ex. rewrite D1. split; [f_equal; lia|lia].
      * rewrite D1. split; [f_equal; lia|lia].
    + apply N.eqb_neq in E0. destruct (c - 1 =? 0) eqn:E1.
      * inv H. split; [reflexivity|]. apply N.eqb_eq in E1.
        intro x. destruct (x =? b_key b) eqn:Exb.
        -- apply N.eqb_eq in Exb. subst x. rewrite Ea. rewrite upd_same. f_equal. exact E1.
        -- apply N.eqb_neq in Exb. rewrite upd_other by exact Exb.
           destruct (m x); [|reflexivity]. cbn [occ]. split; [f_equal; lia|lia].
      * apply N.eqb_neq in E1.
        destruct (pass1 (upd m (b_key a) (c - 1)) tl) as [[m1 pre1] r1] eqn:P. inv H.
        apply IH in P. destruct P as [-> D]. split; [reflexivity|].
        intro x. specialize (D x). cbn [occ]. destruct (b_key a =? x) eqn:E.
        -- apply N.eqb_eq in E. subst x. rewrite upd_same in D. rewrite Ea.
           destruct (b_key a =? b_key b); [exact D|]. destruct D as [D1 D2]. rewrite D1. split; [f_equal; lia|lia].
        -- apply N.eqb_neq in E. rewrite upd_other in D by congruence.
           destruct (m x) as [cx|]; [|exact D]. destruct (x =? b_key b); [exact D|].
           destruct D as [D1 D2]. rewrite D1. split; [f_equal; lia|lia].
  - destruct (pass1 m tl) as [[m1 pre1] r1] eqn:P. inv H.
    apply IH in P. destruct P as [-> D]. split; [reflexivity|].
    intro x. specialize (D x). destruct (m x) as [cx|] eqn:Ex; [|exact D].
    destruct (x =? b_key b); [exact D|]. cbn [occ].
    destruct (b_key a =? x) eqn:E.
    + apply N.eqb_eq in E. subst x. congruence.
    + destruct D as [D1 D2]. rewrite D1. split; [f_equal; lia|lia].
Qed.

(* ---------------------------------------------------------------- mark_used *)
Lemma mem_In : forall x l, mem x l = true <-> In x l.
Proof.
  intros x l. unfold mem. rewrite existsb_exists. split.
  - intros [y [H E]]. apply N.eqb_eq in E. subst. exact H.
  - intro H. exists x. split; [exact H|apply N.eqb_refl].
Qed.

Lemma mark_used_spec : forall bs m m' u,
  mark_used m bs = (m', u) ->
  forall x, m' x = if mem x (ids bs) then option_map (fun _ => 0) (m x) else m x.
Proof.
  induction bs as [|b tl IH]; intros m m' u H x; cbn [mark_used] in H.
  - inv H. reflexivity.
  - cbn [ids map mem existsb]. fold (ids tl). fold (mem x (ids tl)).
    destruct (m (b_key b)) as [c|] eqn:Eb.
    + destruct (c =? 0) eqn:E0.
      * rewrite (IH _ _ _ H x). destruct (x =? b_key b) eqn:E; cbn [orb]; [|reflexivity].
        apply N.eqb_eq in E. subst x. apply N.eqb_eq in E0. subst c. rewrite Eb. cbn [option_map].
        destruct (mem (b_key b) (ids tl)); reflexivity.
      * destruct (mark_used (upd m (b_key b) 0) tl) as [m1 u1] eqn:M. inv H.
        rewrite (IH _ _ _ M x). destruct (x =? b_key b) eqn:E; cbn [orb].
        -- apply N.eqb_eq in E. subst x. rewrite upd_same, Eb. cbn [option_map].
           destruct (mem (b_key b) (ids tl)); reflexivity.
        -- apply N.eqb_neq in E. rewrite upd_other by exact E. reflexivity.
    + rewrite (IH _ _ _ H x). destruct (x =? b_key b) eqn:E; cbn [orb]; [|reflexivity].
      apply N.eqb_eq in E. subst x. rewrite Eb. cbn [option_map]. destruct (mem (b_key b) (ids tl)); reflexivity.
Qed.

(* ---------------------------------------------------------------- from_pack *)
Definition used_rel (m m' : umap) (bs : list blob) : Prop :=
  forall x, m' x = if mem x (ids bs) then option_map (fun _ => 0) (m x) else m x.

Lemma ids_app : forall a b, ids (a ++ b) = ids a ++ ids b.
Proof. intros. unfold ids. apply map_app. Qed.

Lemma mem_app : forall x a b, mem x (a ++ b) = mem x a || mem x b.
Proof. intros. unfold mem. apply existsb_app. Qed.

Lemma from_pack_spec : forall m tpe bs m' pi,
  from_pack m tpe bs = (m', pi) ->
  pi_type pi = tpe /\
  ((pi_used_blobs pi = 0 /\ dec_rel m m' bs) \/ (1 <= pi_used_blobs pi /\ used_rel m m' bs)).
Proof.
  intros m tpe bs m' pi H. unfold from_pack in H.
  destruct (pass1 m bs) as [[m1 pre] r] eqn:P. destruct r as [[b suf]|].
  - destruct (mark_used m1 pre) as [m2 u2] eqn:M2. destruct (mark_used m2 suf) as [m3 u3] eqn:M3. inv H.
    cbn [pi_type pi_used_blobs]. split; [reflexivity|]. right. split; [lia|].
    apply pass1_some in P. destruct P as [-> F].
    intro x. rewrite (mark_used_spec _ _ _ _ M3 x), (mark_used_spec _ _ _ _ M2 x).
    rewrite ids_app, mem_app. cbn [ids map mem existsb]. fold (ids suf). fold (mem x (ids suf)).
    specialize (F x). destruct (m x) as [c|] eqn:Ex.
    + destruct (x =? b_key b) eqn:E.
      * rewrite F. cbn [option_map]. destruct (mem x (ids pre)), (mem x (ids suf)); reflexivity.
      * destruct F as [F1 F2]. rewrite F1. cbn [option_map orb].
        destruct (mem x (ids pre)) eqn:Mp; cbn [orb option_map].
        -- destruct (mem x (ids suf)); reflexivity.
        -- destruct (mem x (ids suf)); [reflexivity|].
           f_equal. rewrite occ_notin; [lia|]. intro K. apply mem_In in K. congruence.
    + rewrite F. cbn [option_map]. destruct (mem x (ids pre)), (mem x (ids suf)), (x =? b_key b); reflexivity.
  - inv H. cbn [pi_type pi_used_blobs]. split; [reflexivity|]. left. split; [reflexivity|].
    apply pass1_none in P. destruct P as [-> D]. exact D.
Qed.

(* ---------------------------------------------------------------- count_used_blobs *)
(* m' counts at most f more than m, and a counter is 0 afterwards only if it was 0 and f = 0 *)
Definition cnt_rel (m m' : umap) (f : id -> N) : Prop :=
  forall x, match m x with
            | None => m' x = None
            | Some c => exists c', m' x = Some c' /\ c' <= c + f x /\ (c' = 0 -> c = 0 /\ f x = 0)
            end.

Lemma cnt_rel_refl : forall m, cnt_rel m m (fun _ => 0).
Proof. intros m x. destruct (m x) as [c|]; [|reflexivity]. exists c. split; [reflexivity|]. split; lia. Qed.

Lemma cnt_rel_trans : forall m1 m2 m3 f g h,
  cnt_rel m1 m2 f -> cnt_rel m2 m3 g -> (forall x, h x = f x + g x) -> cnt_rel m1 m3 h.
Proof.
  intros m1 m2 m3 f g h A B E x. specialize (A x). specialize (B x). rewrite E.
  destruct (m1 x) as [c|].
  - destruct A as [c2 [A1 [A2 A3]]]. rewrite A1 in B. destruct B as [c3 [B1 [B2 B3]]].
    exists c3. split; [exact B1|]. split; [lia|]. intro Z. destruct (B3 Z) as [Z1 Z2]. destruct (A3 Z1). lia.
  - rewrite A in B. exact B.
Qed.

Lemma count_blob_rel : forall m b, cnt_rel m (count_blob m b) (fun x => if b_key b =? x then 1 else 0).
Proof.
  intros m b x. unfold count_blob. destruct (m (b_key b)) as [cb|] eqn:Eb.
  - destruct (b_key b =? x) eqn:E.
    + apply N.eqb_eq in E. subst x. rewrite Eb, upd_same. exists (sat_inc cb). split; [reflexivity|].
      unfold sat_inc, cnt_max. destruct (cb <? 255) eqn:L; split; lia.
    + apply N.eqb_neq in E. rewrite upd_other by congruence. destruct (m x) as [c|]; [|reflexivity].
      exists c. split; [reflexivity|]. split; lia.
  - destruct (m x) as [c|] eqn:Ex; [|reflexivity]. destruct (b_key b =? x) eqn:E.
    + apply N.eqb_eq in E. subst x. congruence.
    + exists c. split; [reflexivity|]. split; lia.
Qed.

Lemma count_blobs_rel : forall bs m, cnt_rel m (fold_left count_blob bs m) (fun x => occ x bs).
Proof.
  induction bs as [|b tl IH]; intro m; cbn [fold_left].
  - apply cnt_rel_refl.
  - eapply cnt_rel_trans; [apply count_blob_rel|apply IH|]. intro x. reflexivity.
Qed.

Definition tot_occ (x : id) (ps : list ppack) : N := sumN (fun p => occ x (pp_blobs p)) ps.

Lemma count_used_rel : forall ps m, cnt_rel m (count_used m ps) (fun x => tot_occ x ps).
Proof.
  unfold count_used. induction ps as [|p tl IH]; intro m; cbn [fold_left].
  - apply cnt_rel_refl.
  - eapply cnt_rel_trans; [apply count_blobs_rel|apply IH|]. intro x. reflexivity.
Qed.
