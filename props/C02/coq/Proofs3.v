(* C02 — lemmas, part 3: invariant of decide_packs over the flat pack list. *)
From Verif.Base Require Import Tactics.
From Verif.C02 Require Import ModelBase Extracted Model Proofs Proofs2.
Local Open Scope N_scope.

Definition is_pending (p : ppack) : bool := match pp_info p with None => true | Some _ => false end.
Definition pend_occ (x : id) (l : list ppack) : N :=
  sumN (fun p => if is_pending p then occ x (pp_blobs p) else 0) l.

(* decided in a way that keeps the pack's blobs reachable *)
Definition good (p : ppack) : Prop :=
  is_pending p = false /\ (pp_todo p = Keep \/ pp_todo p = Recover \/ pp_cand p <> None).

Definition CountInv (m : umap) (l : list ppack) : Prop :=
  forall x c, m x = Some c ->
    (c = 0 /\ exists p, In p l /\ In x (ids (pp_blobs p)) /\ good p) \/ (1 <= c /\ c <= pend_occ x l).

(* what decide_packs never changes *)
Definition static (p : ppack) := (pp_idx p, pp_id p, pp_type p, pp_size p, pp_mark p, pp_time p, pp_blobs p).

Lemma sumN_app : forall {A} (f : A -> N) a b, sumN f (a ++ b) = sumN f a + sumN f b.
Proof. intros A f a b. unfold sumN. induction a as [|h t IH]; cbn [app fold_right]; [lia|]. rewrite IH. lia. Qed.

Lemma pend_occ_mid : forall x l1 p l2,
  pend_occ x (l1 ++ p :: l2) = pend_occ x l1 + (if is_pending p then occ x (pp_blobs p) else 0) + pend_occ x l2.
Proof. intros. unfold pend_occ. rewrite sumN_app. cbn [sumN fold_right]. unfold sumN. lia. Qed.

(* decided packs of the well-formed kind: the decision follows the table *)
Definition wf_pack (p : ppack) : Prop :=
  is_pending p = true -> pp_todo p = Undecided /\ pp_cand p = None.

Lemma decide_one_static : forall o m p m' p', decide_one o m p = (m', p') -> static p' = static p /\ is_pending p' = false.
Proof.
  intros o m p m' p' H. unfold decide_one in H.
  destruct (from_pack m (pp_type p) (pp_blobs p)) as [m1 pi].
  destruct (decide_table _ _ _ _) as [[t|r]|]; inv H; split; reflexivity.
Qed.

Lemma decide_one_good : forall o m p m' p' pi,
  from_pack m (pp_type p) (pp_blobs p) = (m', pi) -> 1 <= pi_used_blobs pi ->
  decide_one o m p = (m', p') -> good p'.
Proof.
  intros o m p m' p' pi F U H. unfold decide_one in H. rewrite F in H.
  destruct (table_used_kept (pp_mark p) (pi_used_blobs pi) (pi_unused_blobs pi) (guards_of o p) U) as [oc [E K]].
  rewrite E in H. destruct oc as [t|r]; inv H; (split; [reflexivity|]); cbn [pp_todo pp_cand set_dec].
  - destruct t; try contradiction; auto.
  - right. right. discriminate.
Qed.

Lemma not_good_pending : forall p, is_pending p = true -> ~ good p.
Proof. intros p H [G _]. congruence. Qed.

Lemma decide_one_inv : forall o m p m' p' l1 l2,
  CountInv m (l1 ++ p :: l2) -> is_pending p = true ->
  decide_one o m p = (m', p') -> CountInv m' (l1 ++ p' :: l2).
Proof.
  intros o m p m' p' l1 l2 Inv Pe H.
  destruct (from_pack m (pp_type p) (pp_blobs p)) as [m1 pi] eqn:F.
  assert (m1 = m') by (unfold decide_one in H; rewrite F in H; destruct (decide_table _ _ _ _) as [[t|r]|]; inv H; reflexivity).
  subst m1.
  destruct (decide_one_static _ _ _ _ _ H) as [St Np].
  assert (Bl : pp_blobs p' = pp_blobs p) by (unfold static in St; congruence).
  destruct (from_pack_spec _ _ _ _ _ F) as [_ [[U0 D]|[U1 D]]].
  - (* no used blob: counters decremented by the occurrences, stay >= 1 *)
    intros x c' Hx. specialize (D x). destruct (m x) as [c|] eqn:Ex; [|congruence].
    destruct D as [D1 D2]. rewrite D1 in Hx. inv Hx.
    destruct (Inv x c Ex) as [[Z [q [Hq [Hin G]]]]|[C1 C2]].
    + left. split; [lia|]. exists q. split; [|split; assumption].
      apply in_app_or in Hq. apply in_or_app. destruct Hq as [Hq|[Hq|Hq]]; [left; exact Hq| |right; right; exact Hq].
      subst q. exfalso. exact (not_good_pending _ Pe G).
    + right. split; [auto|]. rewrite pend_occ_mid in *. rewrite Pe in C2. rewrite Np. specialize (D2 C1). lia.
  - (* the pack is accounted used: all its ids drop to 0 and the pack is good *)
    assert (G : good p') by (eapply decide_one_good; eauto).
    intros x c' Hx. rewrite (D x) in Hx. destruct (mem x (ids (pp_blobs p))) eqn:Mx.
    + destruct (m x) as [c|] eqn:Ex; [|discriminate]. cbn [option_map] in Hx. inv Hx.
      left. split; [reflexivity|]. exists p'. split; [apply in_or_app; right; left; reflexivity|].
      split; [rewrite Bl; apply mem_In; exact Mx|exact G].
    + destruct (Inv x c' Hx) as [[Z [q [Hq [Hin Gq]]]]|[C1 C2]].
      * left. split; [exact Z|]. exists q. split; [|split; assumption].
        apply in_app_or in Hq. apply in_or_app. destruct Hq as [Hq|[Hq|Hq]]; [left; exact Hq| |right; right; exact Hq].
        subst q. exfalso. exact (not_good_pending _ Pe Gq).
      * right. split; [exact C1|]. rewrite pend_occ_mid in *. rewrite Pe in C2. rewrite Np.
        rewrite occ_notin in C2; [lia|]. intro K. apply mem_In in K. congruence.
Qed.

(* ---------------------------------------------------------------- map_st with a positional invariant *)
Lemma map_st_inv : forall {S A} (f : S -> A -> S * A) (I : S -> list A -> list A -> Prop),
  (forall s l1 a l2 s' a', I s l1 (a :: l2) -> f s a = (s', a') -> I s' (l1 ++ [a']) l2) ->
  forall l2 s l1 s' l', I s l1 l2 -> map_st f s l2 = (s', l') -> I s' (l1 ++ l') [].
Proof.
  intros S A f I Step. induction l2 as [|a tl IH]; intros s l1 s' l' H E; cbn [map_st] in E.
  - inv E. rewrite app_nil_r. exact H.
  - destruct (f s a) as [s1 a1] eqn:Fa. destruct (map_st f s1 tl) as [s2 bs] eqn:M. inv E.
    specialize (IH s1 (l1 ++ [a1]) s' bs (Step _ _ _ _ _ _ H Fa) M).
    rewrite <- app_assoc in IH. exact IH.
Qed.

Lemma map_st_static : forall o mc l m m' l', map_st (decide_step o mc) m l = (m', l') -> map static l' = map static l.
Proof.
  induction l as [|a tl IH]; intros m m' l' E; cbn [map_st] in E.
  - inv E. reflexivity.
  - destruct (decide_step o mc m a) as [s1 a1] eqn:Fa. destruct (map_st (decide_step o mc) s1 tl) as [s2 bs] eqn:M. inv E.
    cbn [map]. f_equal; [|eapply IH; eauto].
    unfold decide_step in Fa. destruct (Bool.eqb (pp_mark a) mc); [|inv Fa; reflexivity].
    apply decide_one_static in Fa. apply Fa.
Qed.

(* phase invariant: packs whose mark equals a case still to come are pending *)
Definition Phase (todo_marks : list bool) (mc : bool) (m : umap) (l1 l2 : list ppack) : Prop :=
  CountInv m (l1 ++ l2)
  /\ (forall p, In p l2 -> pp_mark p = mc -> is_pending p = true)
  /\ (forall p, In p (l1 ++ l2) -> In (pp_mark p) todo_marks -> is_pending p = true)
  /\ (forall p, In p l1 -> pp_mark p = mc -> is_pending p = false).

Lemma phase_step : forall o tm mc m l1 a l2 m' a',
  ~ In mc tm ->
  Phase tm mc m l1 (a :: l2) -> decide_step o mc m a = (m', a') -> Phase tm mc m' (l1 ++ [a']) l2.
Proof.
  intros o tm mc m l1 a l2 m' a' Nin [Inv [P2 [P3 P1]]] E. unfold decide_step in E.
  destruct (Bool.eqb (pp_mark a) mc) eqn:Em.
  - apply Bool.eqb_prop in Em.
    assert (Pa : is_pending a = true) by (apply P2; [left; reflexivity|exact Em]).
    destruct (decide_one_static _ _ _ _ _ E) as [St Np].
    assert (Mk : pp_mark a' = pp_mark a) by (unfold static in St; congruence).
    split; [rewrite <- app_assoc; cbn [app]; eapply decide_one_inv; eauto|].
    split; [intros p Hp; apply P2; right; exact Hp|].
    split.
    + intros p Hp Hm. rewrite <- app_assoc in Hp. cbn [app] in Hp. apply in_app_or in Hp.
      destruct Hp as [Hp|[Hp|Hp]].
      * apply P3; [apply in_or_app; left; exact Hp|exact Hm].
      * subst p. exfalso. apply Nin. rewrite Mk, Em in Hm. exact Hm.
      * apply P3; [apply in_or_app; right; right; exact Hp|exact Hm].
    + intros p Hp Hm. apply in_app_or in Hp. destruct Hp as [Hp|[Hp|[]]]; [apply P1; assumption|subst p; exact Np].
  - inv E. split; [rewrite <- app_assoc; exact Inv|].
    split; [intros p Hp; apply P2; right; exact Hp|].
    split; [intros p Hp; apply P3; rewrite <- app_assoc in Hp; exact Hp|].
    intros p Hp Hm. apply in_app_or in Hp. destruct Hp as [Hp|[Hp|[]]]; [apply P1; assumption|].
    subst p. apply Bool.eqb_false_iff in Em. contradiction.
Qed.

Lemma phase_run : forall o tm mc m l m' l',
  ~ In mc tm -> Phase tm mc m [] l -> map_st (decide_step o mc) m l = (m', l') -> Phase tm mc m' l' [].
Proof.
  intros o tm mc m l m' l' Nin H E.
  pose proof (map_st_inv (decide_step o mc) (Phase tm mc)) as K.
  specialize (K (fun s l1 a l2 s' a' HI HE => phase_step o tm mc s l1 a l2 s' a' Nin HI HE)).
  exact (K l m [] m' l' H E).
Qed.

(* ---------------------------------------------------------------- decide_packs *)
Definition all_decided (l : list ppack) : Prop := forall p, In p l -> is_pending p = false.

Lemma pend_occ_done : forall x l, all_decided l -> pend_occ x l = 0.
Proof.
  intros x l H. unfold pend_occ. induction l as [|p tl IH]; cbn [sumN fold_right]; [reflexivity|].
  rewrite (H p (or_introl eq_refl)). unfold sumN in IH. rewrite IH; [lia|]. intros q Hq. apply H. right. exact Hq.
Qed.

Lemma decide_packs_inv : forall o m l m' l',
  CountInv m l -> (forall p, In p l -> is_pending p = true) ->
  decide_packs o m l = (m', l') ->
  CountInv m' l' /\ all_decided l' /\ map static l' = map static l.
Proof.
  intros o m l m' l' Inv Pe E. unfold decide_packs, mark_order in E. cbn [fold_left] in E.
  destruct (map_st (decide_step o true) m l) as [m1 l1] eqn:E1.
  pose proof (map_st_static _ _ _ _ _ _ E1) as S1.
  pose proof (map_st_static _ _ _ _ _ _ E) as S2.
  assert (P0 : Phase [false] true m [] l).
  { split; [exact Inv|]. split; [intros; apply Pe; assumption|]. split; [intros; apply Pe; assumption|]. intros p []. }
  assert (N1 : ~ In true [false]) by (intros [K|[]]; discriminate).
  pose proof (phase_run o [false] true m l m1 l1 N1 P0 E1) as [I1 [_ [Q3 Q1]]].
  rewrite app_nil_r in *.
  assert (P1 : Phase [] false m1 [] l1).
  { split; [exact I1|]. split; [intros p Hp Hm; apply Q3; [exact Hp|left; symmetry; exact Hm]|].
    split; [intros p _ []|intros p []]. }
  pose proof (phase_run o [] false m1 l1 m' l' (fun K => K) P1 E) as [I2 [_ [_ R1]]].
  rewrite app_nil_r in *.
  split; [exact I2|]. split; [|congruence].
  (* every pack was handled in the phase of its mark *)
  intros p Hp. destruct (pp_mark p) eqn:Mp; [|apply R1; assumption].
  (* marked packs: decided in phase 1, untouched in phase 2 *)
  clear - E Q1 Hp Mp. revert m1 m' l' E Q1 Hp.
  induction l1 as [|a tl IH]; intros m1 m' l' E Q1 Hp; cbn [map_st] in E.
  - inv E. destruct Hp.
  - destruct (decide_step o false m1 a) as [s1 a1] eqn:Fa. destruct (map_st (decide_step o false) s1 tl) as [s2 bs] eqn:M. inv E.
    destruct Hp as [Hp|Hp].
    + subst p. unfold decide_step in Fa. destruct (Bool.eqb (pp_mark a) false) eqn:Em.
      * apply decide_one_static in Fa. apply Fa.
      * inv Fa. apply Q1; [left; reflexivity|exact Mp].
    + eapply IH; [exact M| |exact Hp]. intros q Hq. apply Q1. right. exact Hq.
Qed.

(* ---------------------------------------------------------------- from the initial counters *)
Lemma pend_occ_all : forall x l, (forall p, In p l -> is_pending p = true) -> pend_occ x l = tot_occ x l.
Proof.
  intros x l H. unfold pend_occ, tot_occ. induction l as [|p tl IH]; cbn [sumN fold_right]; [reflexivity|].
  rewrite (H p (or_introl eq_refl)). unfold sumN in IH. rewrite IH; [reflexivity|]. intros q Hq. apply H. right. exact Hq.
Qed.

Lemma umap0_spec : forall used x, umap0 used x = if mem x used then Some 0 else None.
Proof. reflexivity. Qed.

Lemma initial_inv : forall used l,
  (forall p, In p l -> is_pending p = true) ->
  check_used (count_used (umap0 used) l) used = true ->
  CountInv (count_used (umap0 used) l) l
  /\ (forall x, In x used -> exists c, count_used (umap0 used) l x = Some c).
Proof.
  intros used l Pe Ck. pose proof (count_used_rel l (umap0 used)) as R.
  split.
  - intros x c Hx. right. specialize (R x). rewrite umap0_spec in R. destruct (mem x used) eqn:Mx.
    + destruct R as [c' [R1 [R2 R3]]]. rewrite Hx in R1. inv R1.
      unfold check_used in Ck. rewrite forallb_forall in Ck. apply mem_In in Mx. specialize (Ck x Mx). rewrite Hx in Ck.
      rewrite pend_occ_all by exact Pe. split; [|lia]. destruct (N.eq_dec c' 0) as [->|]; [discriminate|lia].
    + congruence.
  - intros x Hx. specialize (R x). rewrite umap0_spec in R. apply mem_In in Hx. rewrite Hx in R.
    destruct R as [c' [R1 _]]. eauto.
Qed.

(* keys are preserved by decide_packs *)
Lemma from_pack_keys : forall m tpe bs m' pi x, from_pack m tpe bs = (m', pi) -> (m x = None <-> m' x = None).
Proof.
  intros m tpe bs m' pi x F. destruct (from_pack_spec _ _ _ _ _ F) as [_ [[_ D]|[_ D]]]; specialize (D x).
  - destruct (m x); [destruct D as [D _]; rewrite D; split; discriminate|rewrite D; tauto].
  - rewrite D. destruct (mem x (ids bs)), (m x); cbn [option_map]; split; congruence.
Qed.

Lemma map_st_keys : forall o mc l m m' l' x, map_st (decide_step o mc) m l = (m', l') -> (m x = None <-> m' x = None).
Proof.
  induction l as [|a tl IH]; intros m m' l' x E; cbn [map_st] in E.
  - inv E. tauto.
  - destruct (decide_step o mc m a) as [s1 a1] eqn:Fa. destruct (map_st (decide_step o mc) s1 tl) as [s2 bs] eqn:M. inv E.
    rewrite <- (IH _ _ _ x M). unfold decide_step in Fa. destruct (Bool.eqb (pp_mark a) mc); [|inv Fa; tauto].
    unfold decide_one in Fa. destruct (from_pack m (pp_type a) (pp_blobs a)) as [m1 pi] eqn:F.
    assert (m1 = s1) by (destruct (decide_table _ _ _ _) as [[t|r]|]; inv Fa; reflexivity). subst.
    eapply from_pack_keys; eauto.
Qed.

Lemma decide_packs_keys : forall o m l m' l' x, decide_packs o m l = (m', l') -> (m x = None <-> m' x = None).
Proof.
  intros o m l m' l' x E. unfold decide_packs, mark_order in E. cbn [fold_left] in E.
  destruct (map_st (decide_step o true) m l) as [m1 l1] eqn:E1.
  rewrite (map_st_keys _ _ _ _ _ _ x E1). eapply map_st_keys; eauto.
Qed.

(* the headline of this file: after decide_packs every used id lies in a good pack *)
Lemma decide_packs_covers : forall o used l m' l',
  (forall p, In p l -> is_pending p = true) ->
  check_used (count_used (umap0 used) l) used = true ->
  decide_packs o (count_used (umap0 used) l) l = (m', l') ->
  map static l' = map static l /\ all_decided l' /\
  forall x, In x used -> m' x = Some 0 /\ exists p, In p l' /\ In x (ids (pp_blobs p)) /\ good p.
Proof.
  intros o used l m' l' Pe Ck E.
  destruct (initial_inv used l Pe Ck) as [I0 K0].
  destruct (decide_packs_inv _ _ _ _ _ I0 Pe E) as [I [AD St]].
  split; [exact St|]. split; [exact AD|].
  intros x Hx. destruct (K0 x Hx) as [c0 Hc0].
  destruct (m' x) as [c|] eqn:Ex.
  - destruct (I x c Ex) as [[Z G]|[C1 C2]].
    + subst c. split; [reflexivity|exact G].
    + rewrite pend_occ_done in C2 by exact AD. lia.
  - apply (decide_packs_keys _ _ _ _ _ x E) in Ex. congruence.
Qed.
