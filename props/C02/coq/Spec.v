(* C02 — declarative side: what "still available after prune" means on the abstract repository. *)
From Verif.Base Require Import Tactics.
From Verif.C02 Require Import ModelBase Extracted Model.
Local Open Scope N_scope.

(* the index (either section of some index file) lists blob entry b in pack pid *)
Definition listed_before (fs : list ifile) (pid : id) (b : blob) : Prop :=
  exists f p, In f fs /\ (In p (f_packs f) \/ In p (f_del f)) /\ p_id p = pid /\ In b (p_blobs p).

(* pack ids that are in use before the run: listed by the backend or by an index file *)
Definition taken (fs : list ifile) (existing : list (id * N)) (i : id) : Prop :=
  In i (map fst existing) \/ exists f p, In f fs /\ (In p (f_packs f) \/ In p (f_del f)) /\ p_id p = i.

(* what the theorems need of the repackers (Packer/BlobCopier, C08): every blob handed over ends up —
   under its id, taken from one of the handed-over copies — in some written pack, and written packs
   get fresh names.  (The real packer drops a blob only when the pack under construction already
   holds that id.) *)
Definition packer_ok (packer : list (id * blob) -> list newpack) (tk : id -> Prop) : Prop :=
  forall l,
    (forall sb, In sb l -> exists np sb', In np (packer l) /\ In sb' (snd np) /\ In sb' l /\ b_key (snd sb') = b_key (snd sb))
    /\ (forall np, In np (packer l) -> ~ tk (fst np)).

(* Blob key x (b_key: what the planner identifies blobs by) is available after the run: either in an old pack that still exists, is not removed and
   is listed UNMARKED by an index file of the new index set (the entry b is one the old index had for
   that pack, so the bytes are the old bytes), or in a freshly written pack listed unmarked whose copy
   (src, b) was read from an existing pack at an entry the old index listed. *)
Definition avail_after (now : Z) (fs : list ifile) (existing : list (id * N)) (out : outcome_t) (x : id) : Prop :=
  (exists f p b, In f (out_index out) /\ In p (f_packs f) /\ In b (p_blobs p) /\ b_key b = x
                 /\ In (p_id p) (map fst existing) /\ ~ In (p_id p) (out_removed out)
                 /\ listed_before fs (p_id p) b)
  \/
  (exists np src b, In np (out_new out) /\ In (src, b) (snd np) /\ b_key b = x
                    /\ listed_before fs src b /\ In src (map fst existing)
                    /\ ~ In (fst np) (out_removed out)
                    /\ exists f, In f (out_index out) /\ In (np_ipack now np) (f_packs f)).

(* the same for a blob given by type and id — the reading of the property *)
Definition avail_after_typed (now : Z) (fs : list ifile) (existing : list (id * N)) (out : outcome_t) (t : btype) (i : id) : Prop :=
  (exists f p b, In f (out_index out) /\ In p (f_packs f) /\ In b (p_blobs p) /\ b_tpe b = t /\ b_id b = i
                 /\ In (p_id p) (map fst existing) /\ ~ In (p_id p) (out_removed out)
                 /\ listed_before fs (p_id p) b)
  \/
  (exists np src b, In np (out_new out) /\ In (src, b) (snd np) /\ b_tpe b = t /\ b_id b = i
                    /\ listed_before fs src b /\ In src (map fst existing)
                    /\ ~ In (fst np) (out_removed out)
                    /\ exists f, In f (out_index out) /\ In (np_ipack now np) (f_packs f)).

(* executable typed reading (the property speaks of (type, id)): some index file lists, unmarked, a
   pack that exists after the run and holds a blob of that type and id *)
Definition has_blob (t : btype) (x : id) (bs : list blob) : bool :=
  existsb (fun b => btype_eqb (b_tpe b) t && (b_id b =? x)) bs.
Definition avail_typed_b (existing : list (id * N)) (out : outcome_t) (t : btype) (x : id) : bool :=
  existsb (fun f => existsb (fun p => has_blob t x (p_blobs p)
                                      && mem (p_id p) (map fst existing ++ map fst (out_new out))
                                      && negb (mem (p_id p) (out_removed out))) (f_packs f)) (out_index out).
Definition listed_typed_b (fs : list ifile) (existing : list (id * N)) (t : btype) (x : id) : bool :=
  existsb (fun f => existsb (fun p => has_blob t x (p_blobs p) && mem (p_id p) (map fst existing)) (f_packs f ++ f_del f)) fs.
