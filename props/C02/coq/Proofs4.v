(* C02 — lemmas, part 4: PrunePlan::new (de-duplication of index listings): provenance of every
   planned pack and uniqueness of pack ids. *)
From Verif.Base Require Import Tactics.
From Verif.C02 Require Import ModelBase Extracted Model Proofs Proofs2 Proofs3.
Local Open Scope N_scope.

Lemma NoDup_app_intro : forall {A} (a b : list A),
  NoDup a -> NoDup b -> (forall x, In x a -> ~ In x b) -> NoDup (a ++ b).
Proof.
  intros A a b Ha Hb D. induction Ha as [|x l Hx Hl IH]; cbn [app]; [exact Hb|].
  constructor.
  - intro K. apply in_app_or in K. destruct K as [K|K]; [contradiction|]. exact (D x (or_introl eq_refl) K).
  - apply IH. intros y Hy. apply D. right. exact Hy.
Qed.

Lemma dedup_spec : forall l seen s r d,
  dedup seen l = (s, r, d) ->
  (forall p, In p r -> In p l /\ ~ In (p_id p) seen)
  /\ NoDup (map p_id r)
  /\ (forall i, In i s <-> In i seen \/ In i (map p_id r)).
Proof.
  induction l as [|p tl IH]; intros seen s r d H; cbn [dedup] in H.
  - inv H. split; [intros p []|]. split; [constructor|]. intro i. cbn [map In]. tauto.
  - destruct (mem (p_id p) seen) eqn:M.
    + destruct (dedup seen tl) as [[s1 r1] d1] eqn:E. inv H. destruct (IH _ _ _ _ E) as [A [B C]].
      split; [intros q Hq; destruct (A q Hq); split; [right|]; assumption|]. split; assumption.
    + destruct (dedup (p_id p :: seen) tl) as [[s1 r1] d1] eqn:E. inv H. destruct (IH _ _ _ _ E) as [A [B C]].
      assert (Np : ~ In (p_id p) seen) by (intro K; apply mem_In in K; congruence).
      split.
      * intros q [Hq|Hq]; [subst q; split; [left; reflexivity|exact Np]|].
        destruct (A q Hq) as [A1 A2]. split; [right; exact A1|]. intro K. apply A2. right. exact K.
      * split.
        -- cbn [map]. constructor; [|exact B]. intro K. apply in_map_iff in K. destruct K as [q [Eq Hq]].
           destruct (A q Hq) as [_ A2]. apply A2. left. symmetry. exact Eq.
        -- intro i. rewrite C. cbn [map In]. tauto.
Qed.

(* ids of the unmarked / marked planned packs *)
Definition um (ps : list ppack) : list id := map pp_id (filter (fun p => negb (pp_mark p)) ps).
Definition mk (ps : list ppack) : list id := map pp_id (filter pp_mark ps).

Lemma um_app : forall a b, um (a ++ b) = um a ++ um b.
Proof. intros. unfold um. rewrite filter_app, map_app. reflexivity. Qed.
Lemma mk_app : forall a b, mk (a ++ b) = mk a ++ mk b.
Proof. intros. unfold mk. rewrite filter_app, map_app. reflexivity. Qed.
Lemma um_of_false : forall n r, um (map (of_ipack n false) r) = map p_id r.
Proof. induction r as [|p t IH]; [reflexivity|]. unfold um in *. cbn. f_equal. exact IH. Qed.
Lemma um_of_true : forall n r, um (map (of_ipack n true) r) = [].
Proof. induction r as [|p t IH]; [reflexivity|]. unfold um in *. cbn. exact IH. Qed.
Lemma mk_of_true : forall n r, mk (map (of_ipack n true) r) = map p_id r.
Proof. induction r as [|p t IH]; [reflexivity|]. unfold mk in *. cbn. f_equal. exact IH. Qed.
Lemma mk_of_false : forall n r, mk (map (of_ipack n false) r) = [].
Proof. induction r as [|p t IH]; [reflexivity|]. unfold mk in *. cbn. exact IH. Qed.

(* provenance: the planned pack is the image of an index entry of file number pp_idx *)
Definition from_file (fs : list ifile) (base : nat) (pp : ppack) : Prop :=
  exists k f ip, nth_error fs k = Some f /\ pp_idx pp = (base + k)%nat
    /\ (if pp_mark pp then In ip (f_del f) else In ip (f_packs f))
    /\ pp = of_ipack (base + k) (pp_mark pp) ip.

Lemma new_files_spec : forall fs n seen seend seenF mods ps,
  new_files n seen seend fs = (seenF, mods, ps) ->
  (forall pp, In pp ps -> from_file fs n pp)
  /\ NoDup (um ps) /\ (forall i, In i (um ps) -> ~ In i seen)
  /\ (forall i, In i seenF <-> In i seen \/ In i (um ps))
  /\ NoDup (mk ps) /\ (forall i, In i (mk ps) -> ~ In i seend)
  /\ length mods = length fs
  /\ (forall pp, In pp ps -> is_pending pp = true).
Proof.
  induction fs as [|f tl IH]; intros n seen seend seenF mods ps H; cbn [new_files] in H.
  - inv H. split; [intros pp []|]. split; [constructor|]. split; [intros i []|].
    split; [intro i; cbn; tauto|]. split; [constructor|]. split; [intros i []|]. split; [reflexivity|intros pp []].
  - destruct (dedup seen (f_packs f)) as [[seen1 r1] d1] eqn:D1.
    destruct (dedup seend (f_del f)) as [[seend1 r2] d2] eqn:D2.
    destruct (new_files (S n) seen1 seend1 tl) as [[sF ms] rest] eqn:R. inv H.
    destruct (dedup_spec _ _ _ _ _ D1) as [A1 [B1 C1]].
    destruct (dedup_spec _ _ _ _ _ D2) as [A2 [B2 C2]].
    destruct (IH _ _ _ _ _ _ R) as [P [U1 [U2 [U3 [M1 [M2 [Ln Pe]]]]]]].
    split.
    { intros pp Hpp. apply in_app_or in Hpp. destruct Hpp as [Hpp|Hpp].
      - apply in_map_iff in Hpp. destruct Hpp as [ip [E Hip]]. subst pp.
        exists 0%nat, f, ip. cbn [nth_error of_ipack pp_idx pp_mark]. rewrite Nat.add_0_r.
        split; [reflexivity|]. split; [reflexivity|]. split; [apply A1; exact Hip|reflexivity].
      - apply in_app_or in Hpp. destruct Hpp as [Hpp|Hpp].
        + apply in_map_iff in Hpp. destruct Hpp as [ip [E Hip]]. subst pp.
          exists 0%nat, f, ip. cbn [nth_error of_ipack pp_idx pp_mark]. rewrite Nat.add_0_r.
          split; [reflexivity|]. split; [reflexivity|]. split; [apply A2; exact Hip|reflexivity].
        + destruct (P pp Hpp) as [k [g [ip [N1 [N2 [N3 N4]]]]]].
          exists (S k), g, ip. cbn [nth_error]. replace (n + S k)%nat with (S n + k)%nat by lia.
          split; [exact N1|]. split; [exact N2|]. split; [exact N3|exact N4]. }
    rewrite !um_app, !mk_app, um_of_false, um_of_true, mk_of_false, mk_of_true. cbn [app].
    split.
    { apply NoDup_app_intro; [exact B1|exact U1|]. intros i Hi K. apply (U2 i K). apply C1. right. exact Hi. }
    split.
    { intros i Hi K. apply in_app_or in Hi. destruct Hi as [Hi|Hi].
      - apply in_map_iff in Hi. destruct Hi as [q [Eq Hq]]. subst i. exact (proj2 (A1 q Hq) K).
      - apply (U2 i Hi). apply C1. left. exact K. }
    split.
    { intro i. rewrite U3, C1, in_app_iff. tauto. }
    split.
    { apply NoDup_app_intro; [exact B2|exact M1|]. intros i Hi K. apply (M2 i K). apply C2. right. exact Hi. }
    split.
    { intros i Hi K. apply in_app_or in Hi. destruct Hi as [Hi|Hi].
      - apply in_map_iff in Hi. destruct Hi as [q [Eq Hq]]. subst i. exact (proj2 (A2 q Hq) K).
      - apply (M2 i Hi). apply C2. left. exact K. }
    split; [cbn [length]; f_equal; exact Ln|].
    intros pp Hpp. apply in_app_or in Hpp. destruct Hpp as [Hpp|Hpp];
      [apply in_map_iff in Hpp; destruct Hpp as [ip [E _]]; subst pp; reflexivity|].
    apply in_app_or in Hpp. destruct Hpp as [Hpp|Hpp];
      [apply in_map_iff in Hpp; destruct Hpp as [ip [E _]]; subst pp; reflexivity|apply Pe; exact Hpp].
Qed.

Lemma NoDup_map_filter : forall {A B} (f : A -> B) (P : A -> bool) l, NoDup (map f l) -> NoDup (map f (filter P l)).
Proof.
  intros A B f P l. induction l as [|a t IH]; intro H; cbn [filter map]; [constructor|].
  cbn [map] in H. inv H. destruct (P a); [|apply IH; assumption].
  cbn [map]. constructor; [|apply IH; assumption].
  intro K. apply H2. apply in_map_iff in K. destruct K as [y [E Hy]]. apply filter_In in Hy.
  apply in_map_iff. exists y. split; [exact E|apply Hy].
Qed.

Lemma NoDup_by_partition : forall {A B} (f : A -> B) (P : A -> bool) l,
  NoDup (map f (filter P l)) -> NoDup (map f (filter (fun a => negb (P a)) l)) ->
  (forall a b, In a l -> In b l -> P a = true -> P b = false -> f a <> f b) ->
  NoDup (map f l).
Proof.
  intros A B f P l. induction l as [|a t IH]; intros H1 H2 D; cbn [map]; [constructor|].
  cbn [filter] in H1, H2.
  assert (Dt : forall x y, In x t -> In y t -> P x = true -> P y = false -> f x <> f y)
    by (intros x y Hx Hy; apply D; right; assumption).
  destruct (P a) eqn:Pa; cbn [negb map] in *.
  - inv H1. constructor; [|apply IH; assumption].
    intro K. apply in_map_iff in K. destruct K as [y [E Hy]]. destruct (P y) eqn:Py.
    + apply H3. apply in_map_iff. exists y. split; [exact E|apply filter_In; split; assumption].
    + apply (D a y (or_introl eq_refl) (or_intror Hy) Pa Py). symmetry. exact E.
  - inv H2. constructor; [|apply IH; assumption].
    intro K. apply in_map_iff in K. destruct K as [y [E Hy]]. destruct (P y) eqn:Py.
    + apply (D y a (or_intror Hy) (or_introl eq_refl) Py Pa). exact E.
    + apply H3. apply in_map_iff. exists y. split; [exact E|apply filter_In; split; [exact Hy|rewrite Py; reflexivity]].
Qed.

Lemma filter_filter_comm : forall {A} (P Q : A -> bool) l, filter P (filter Q l) = filter Q (filter P l).
Proof.
  intros A P Q l. induction l as [|a t IH]; [reflexivity|]. cbn [filter].
  destruct (Q a) eqn:Qa, (P a) eqn:Pa; cbn [filter]; rewrite ?Qa, ?Pa, IH; reflexivity.
Qed.

Lemma plan_new_spec : forall fs mods ps,
  plan_new fs = (mods, ps) ->
  (forall pp, In pp ps -> from_file fs 0 pp)
  /\ NoDup (map pp_id ps)
  /\ length mods = length fs
  /\ (forall pp, In pp ps -> is_pending pp = true).
Proof.
  intros fs mods ps H. unfold plan_new in H.
  destruct (new_files 0 [] [] fs) as [[seenF ms] ps0] eqn:E. inv H.
  destruct (new_files_spec _ _ _ _ _ _ _ E) as [P [U1 [U2 [U3 [M1 [M2 [Ln Pe]]]]]]].
  split; [intros pp Hpp; apply filter_In in Hpp; apply P; apply Hpp|].
  split.
  - apply (NoDup_by_partition pp_id pp_mark).
    + rewrite filter_filter_comm. apply NoDup_map_filter. exact M1.
    + rewrite filter_filter_comm. apply NoDup_map_filter. exact U1.
    + intros a b Ha Hb Ma Mb Eq. apply filter_In in Ha. apply filter_In in Hb.
      destruct Ha as [Ha Ka]. destruct Hb as [Hb Kb]. unfold keep_after_new in Ka. rewrite Ma in Ka. cbn [negb orb] in Ka.
      apply Bool.negb_true_iff in Ka.
      assert (In (pp_id b) seenF).
      { apply U3. right. unfold um. apply in_map. apply filter_In. split; [exact Hb|rewrite Mb; reflexivity]. }
      rewrite <- Eq in H. apply mem_In in H. congruence.
  - split.
    + clear - Ln. revert Ln. generalize 0%nat. generalize (length fs). revert ms.
      induction ms as [|[fid m] t IH]; intros k n0 L; cbn [mods_fix length] in *; [exact L|].
      destruct k; [discriminate|]. f_equal. apply (IH k (S n0)). lia.
    + intros pp Hpp. apply filter_In in Hpp. apply Pe. apply Hpp.
Qed.
