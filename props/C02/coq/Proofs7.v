(* C02 — typed identity, witnesses (vm_compute) and satisfiability examples. *)
From Verif.Base Require Import Tactics.
From Verif.C02 Require Import ModelBase Extracted Model Spec Proofs Proofs2 Proofs3 Proofs4 Proofs5 Proofs6.
Local Open Scope N_scope.

(* The key regenerated from the source identifies a blob by type AND id.  (With the untyped key of
   the unrepaired planner — `used_key t i := i` — this lemma is false and the typed theorem below is
   lost; the collision history then fails on the real code.) *)
Lemma key_typed : forall b t i, b_key b = used_key t i -> b_tpe b = t /\ b_id b = i.
Proof.
  intros b t i. unfold b_key, used_key. destruct (b_tpe b), t; intro H; split; try reflexivity; lia.
Qed.

Lemma prune_keeps_used_typed_lemma : forall dec packer nid o fs used existing pl out,
  packer_ok packer (taken fs existing) ->
  prune_with dec packer nid o fs used existing = inr (pl, out) ->
  forall t i, In (used_key t i) used -> avail_after_typed (o_now o) fs existing out t i.
Proof.
  intros dec packer nid o fs used existing pl out PK H t i Hu.
  destruct (prune_keeps_used_lemma _ _ _ _ _ _ _ _ _ PK H _ Hu) as [[f [p [b [A [B [C [D E]]]]]]]|[np [src [b [A [B [C D]]]]]]].
  - left. exists f, p, b. destruct (key_typed _ _ _ D). repeat split; try assumption; apply E.
  - right. exists np, src, b. destruct (key_typed _ _ _ C). repeat split; try assumption; apply D.
Qed.

(* one new pack (id 900) per repacker call *)
Definition packer1 (l : list (id * blob)) : list newpack := match l with [] => [] | _ => [(900, l)] end.

Definition sz0 : sizer := mkSizer 50 0 0.
Definition w_opts (instant : bool) : popts :=
  mkOpts 1000%Z 0%Z 0%Z false false false false instant (LPercent 0) LUnlimited sz0 sz0 1000%Z.

(* the collision scenario: (Tree, 7) lives in tree pack 101 (index 501), (Data, 7) in data pack 102
   (index 502); both are referenced (a directory whose serialisation is also the content of a file) *)
Definition w_fs : list ifile :=
  [ mkIFile 501 [mkIPack 101 [mkBlob 7 Tree 13 true] (Some 0%Z) 50] [];
    mkIFile 502 [mkIPack 102 [mkBlob 7 Data 13 true] (Some 0%Z) 50] [] ].
Definition w_used : list id := [used_key Tree 7; used_key Data 7].
Definition w_existing : list (id * N) := [(101, 50); (102, 50)].

(* a referenced (type,id) blob that was listed in an existing pack is not available afterwards *)
Definition typed_loss (o : popts) fs used existing (t : btype) (x : id) : bool :=
  match prune_with decide_repack packer1 800 o fs used existing with
  | inr (_, out) => listed_typed_b fs existing t x && negb (avail_typed_b existing out t x)
  | inl _ => false
  end.

(* both copies survive prune(instant_delete, max_unused 0%) *)
Example ex_collision_both_kept :
  listed_typed_b w_fs w_existing Tree 7 = true /\ listed_typed_b w_fs w_existing Data 7 = true
  /\ typed_loss (w_opts true) w_fs w_used w_existing Tree 7 = false
  /\ typed_loss (w_opts true) w_fs w_used w_existing Data 7 = false.
Proof. vm_compute. repeat split; reflexivity. Qed.

(* ---------------------------------------------------------------- satisfiability examples *)
(* a repository with a partly used pack (repacked), an unused pack (removed), a marked pack holding the
   only copy of a used blob (recovered) and an old marked unused pack (deleted) *)
Definition e_fs : list ifile :=
  [ mkIFile 501 [mkIPack 101 [mkBlob 1 Data 10 true; mkBlob 2 Data 10 true] (Some 0%Z) 50;
                 mkIPack 102 [mkBlob 3 Data 10 true] (Some 0%Z) 50]
                [mkIPack 103 [mkBlob 4 Data 10 true] (Some 900%Z) 50;
                 mkIPack 104 [mkBlob 5 Data 10 true] (Some 900%Z) 50] ].
Definition e_used : list id := [used_key Data 1; used_key Data 4].
Definition e_existing : list (id * N) := [(101, 50); (102, 50); (103, 50); (104, 50); (105, 7)].
Definition e_opts (instant : bool) : popts :=
  mkOpts 1000%Z 0%Z 100%Z false false false true instant (LPercent 0) LUnlimited sz0 sz0 1000%Z.

Definition todos_of (r : perr + (plan_t * outcome_t)) : list (id * todo) :=
  match r with inr (pl, _) => map (fun p => (pp_id p, pp_todo p)) (pl_packs pl) | inl _ => [] end.
Definition removed_by (r : perr + (plan_t * outcome_t)) : list id :=
  match r with inr (_, out) => out_removed out | inl _ => [] end.

Example ex_plan_non_instant :
  todos_of (prune_with decide_repack packer1 800 (e_opts false) e_fs e_used e_existing)
    = [(101, Repack); (102, MarkDelete); (103, Recover); (104, Delete)]
  /\ removed_by (prune_with decide_repack packer1 800 (e_opts false) e_fs e_used e_existing) = [104].
Proof. vm_compute. split; reflexivity. Qed.

Example ex_plan_instant :
  removed_by (prune_with decide_repack packer1 800 (e_opts true) e_fs e_used e_existing) = [105; 101; 102; 104].
Proof. vm_compute. reflexivity. Qed.

Example ex_packer1_ok : packer_ok packer1 (taken e_fs e_existing).
Proof.
  intro l. split.
  - intros sb H. destruct l as [|a t]; [destruct H|]. exists (900, a :: t), sb.
    split; [left; reflexivity|]. split; [exact H|]. split; [exact H|reflexivity].
  - intros np H. destruct l as [|a t]; [destruct H|]. destruct H as [H|[]]. subst np. cbn [fst].
    intros [K|[f [p [Hf [Hp E]]]]].
    + cbn in K. repeat destruct K as [K|K]; try discriminate; exact K.
    + cbn in Hf. destruct Hf as [Hf|[]]. subst f. cbn in Hp.
      repeat destruct Hp as [Hp|Hp]; try (subst p; discriminate); try contradiction.
Qed.

(* the hypotheses of marked_needed_recovered are satisfiable: pack 103 is marked and holds the only copy of (Data, 4) *)
Example ex_recover_premises :
  match plan_with decide_repack (e_opts false) e_fs e_used e_existing with
  | inr pl => exists p, In p (pl_packs pl) /\ pp_id p = 103 /\ pp_mark p = true
                        /\ In (used_key Data 4) (ids (pp_blobs p)) /\ pp_todo p = Recover
  | inl _ => False
  end.
Proof. vm_compute. eexists. split; [right; right; left; reflexivity|]. repeat split; try reflexivity. left. reflexivity. Qed.
