(* C02 — lemmas, part 1: the decision tables regenerated from prune.rs. *)
From Verif.Base Require Import Tactics.
From Verif.C02 Require Import ModelBase Extracted Model.
Local Open Scope N_scope.

(* a pack that is accounted at least one used blob is never marked, deleted or left marked:
   it is kept, recovered, or becomes a repack candidate *)
Definition keeps (o : outcome) : Prop :=
  match o with OTodo Keep | OTodo Recover | OCand _ => True | _ => False end.

Lemma table_used_kept : forall mark used unused g,
  1 <= used -> exists o, decide_table mark used unused g = Some o /\ keeps o.
Proof.
  intros mark used unused g Hu. unfold decide_table.
  assert (E0 : (used =? 0) = false) by (apply N.eqb_neq; lia).
  assert (E1 : (1 <=? used) = true) by (apply N.leb_le; lia).
  rewrite E0, E1.
  destruct mark; cbn [Bool.eqb andb].
  - eexists; split; [reflexivity|exact I].
  - destruct (unused =? 0) eqn:U.
    + cbn [andb]. eexists; split; [reflexivity|].
      destruct (g_too_young g), (g_keep_uncacheable g), (g_to_compress g), (g_repack_all g), (g_size_mismatch g); exact I.
    + assert (E2 : (1 <=? unused) = true) by (apply N.leb_le; apply N.eqb_neq in U; lia).
      rewrite E2. cbn [andb]. eexists; split; [reflexivity|].
      destruct (g_too_young g), (g_keep_uncacheable g); exact I.
Qed.

(* the table is total *)
Lemma table_total : forall mark used unused g, decide_table mark used unused g <> None.
Proof.
  intros mark used unused g. unfold decide_table.
  destruct mark, (used =? 0) eqn:E0, (unused =? 0) eqn:E1; cbn [Bool.eqb andb];
    try discriminate;
    assert (H1 : (1 <=? used) = true) by (apply N.leb_le; apply N.eqb_neq in E0; lia); rewrite H1; cbn [andb];
    try discriminate.
  assert (H2 : (1 <=? unused) = true) by (apply N.leb_le; apply N.eqb_neq in E1; lia); rewrite H2. discriminate.
Qed.

(* Delete is decided only for a marked pack without used blobs whose mark is old enough *)
Lemma table_delete : forall mark used unused g,
  decide_table mark used unused g = Some (OTodo Delete) ->
  mark = true /\ used = 0 /\ exists t, g_time g = Some t /\ (t <= g_del_limit g)%Z.
Proof.
  intros mark used unused g. unfold decide_table.
  destruct mark; cbn [Bool.eqb andb].
  - destruct (used =? 0) eqn:E0.
    + intro H. split; [reflexivity|]. split; [apply N.eqb_eq; exact E0|].
      destruct (g_time g) as [t|]; [|discriminate].
      destruct (g_del_limit g >=? t)%Z eqn:G; [|discriminate]. exists t. split; [reflexivity|lia].
    + destruct (1 <=? used); discriminate.
  - destruct (used =? 0); cbn [andb].
    + destruct (g_too_young g); discriminate.
    + destruct (1 <=? used); cbn [andb]; [|discriminate].
      destruct (unused =? 0); cbn [andb].
      * destruct (g_too_young g), (g_keep_uncacheable g), (g_to_compress g), (g_repack_all g), (g_size_mismatch g); discriminate.
      * destruct (1 <=? unused); [|discriminate].
        destruct (g_too_young g), (g_keep_uncacheable g); discriminate.
Qed.
