(* C02 — executable model of find_used_blobs (prune.rs) and of the forget side (delete_snapshots):
   which blob keys prune treats as used.  Definitions only. *)
From Verif.Base Require Import Tactics.
From Verif.C02 Require Import ModelBase Extracted Model.
Local Open Scope N_scope.

(* a tree blob as find_used_blobs looks at it: File nodes with their content ids, Dir nodes with their
   subtree id, everything else (symlinks, devices, ...) *)
Inductive node := NFile (content : list id) | NDir (sub : id) | NOther.
(* tree blob id -> its nodes (None: the tree cannot be loaded — TreeStreamerOnce fails) *)
Definition tstore := id -> option (list node).

(* `match node.node_type { File => content ids as Data, Dir => subtree as Tree, _ => {} }` *)
Definition node_keys (n : node) : list N :=
  match n with NFile c => map (used_key Data) c | NDir s => [used_key Tree s] | NOther => [] end.
Definition node_subs (n : node) : list id := match n with NDir s => [s] | _ => [] end.

(* TreeStreamerOnce: every tree is streamed once (visited set), sub trees are queued; `fuel` bounds the
   number of queue pops (the real walk has no bound: a result Some _ does not depend on the fuel) *)
Fixpoint walk (fuel : nat) (st : tstore) (todo visited : list id) (acc : list N) : option (list N) :=
  match todo with
  | [] => Some acc
  | t :: rest =>
      match fuel with
      | O => None
      | S f =>
          if mem t visited then walk f st rest visited acc
          else match st t with
               | None => None
               | Some ns => walk f st (flat_map node_subs ns ++ rest) (t :: visited) (flat_map node_keys ns ++ acc)
               end
      end
  end.

(* find_used_blobs: the snapshot root trees as Tree keys, then the walk *)
Definition find_used (fuel : nat) (st : tstore) (roots : list id) : option (list N) :=
  walk fuel st roots [] (map (used_key Tree) roots).

(* snapshots: (snapshot id, root tree id); delete_snapshots removes the snapshot FILES with the given ids *)
Definition snapshot := (id * id)%type.
Definition forget (ids : list id) (snaps : list snapshot) : list snapshot :=
  filter (fun s => negb (mem (fst s) ids)) snaps.
Definition roots_of (snaps : list snapshot) : list id := map snd snaps.
