(* C02 — lemmas, part 8: marks carry the time of the run that set them and are kept by later runs
   (second sentence of the property: marked packs stay available for keep-delete). *)
From Verif.Base Require Import Tactics.
From Verif.C02 Require Import ModelBase Extracted Model Spec Proofs Proofs2 Proofs3 Proofs4 Proofs5 Proofs6.
Local Open Scope N_scope.

Lemma exec_mark_facts :
  exec_table MarkDelete false = XDel TSet /\ exec_table Repack false = XDel TSet
  /\ exec_table KeepMarked false = XDel TKeepOrSet
  /\ forces_rewrite MarkDelete false = true /\ forces_rewrite Repack false = true.
Proof. repeat split; reflexivity. Qed.

(* a pack that a non-instant run decides to mark (MarkDelete, or Repack: marked after its used blobs
   were copied) is listed in `packs_to_delete` of the new index with the time of this run *)
(* the time a delete mark written by this run carries *)
Definition mark_time (o : popts) : Z := if marks_restamped then o_rel o else o_now o.

Lemma restamp_now : forall o, restamp o (Some (o_now o)) = Some (mark_time o).
Proof. intro o. unfold restamp, mark_time. destruct marks_restamped; [rewrite Z.eqb_refl|]; reflexivity. Qed.

Lemma mark_time_bounds : forall o, (o_now o <= o_rel o)%Z -> (o_now o <= mark_time o <= o_rel o)%Z.
Proof. intros o H. unfold mark_time. destruct marks_restamped; lia. Qed.

Lemma restamp_some : forall o t, exists t', restamp o (Some t) = Some t'
  /\ (t <> o_now o -> t' = t) /\ ((o_now o <= o_rel o)%Z -> (t <= t')%Z) /\ (marks_restamped = false -> t' = t).
Proof.
  intros o t. unfold restamp. destruct marks_restamped.
  - destruct (t =? o_now o)%Z eqn:E.
    + apply Z.eqb_eq in E. exists (o_rel o). split; [reflexivity|]. split; [congruence|]. split; [lia|discriminate].
    + exists t. split; [reflexivity|]. split; [reflexivity|]. split; [lia|reflexivity].
  - exists t. split; [reflexivity|]. split; [reflexivity|]. split; [lia|reflexivity].
Qed.

Lemma fresh_marks_timed_lemma : forall dec packer nid o fs used existing pl p,
  plan_with dec o fs used existing = inr pl -> o_instant o = false ->
  In p (pl_packs pl) -> pp_todo p = MarkDelete \/ pp_todo p = Repack ->
  exists f e, In f (out_index (execute packer nid o fs pl)) /\ In e (f_del f)
              /\ p_id e = pp_id p /\ p_blobs e = pp_blobs p /\ p_time e = Some (mark_time o).
Proof.
  intros dec packer nid o fs used existing pl p P I Hp K.
  pose proof (plan_with_facts _ _ _ _ _ _ P) as PF.
  destruct exec_mark_facts as [X1 [X2 [_ [F1 F2]]]].
  assert (IR : In (pp_idx p) (pl_rewritten pl)).
  { eapply forced_in_rewritten; [exact PF|exact Hp|]. rewrite I. destruct K as [K|K]; rewrite K; assumption. }
  assert (Hpr : In p (processed pl)) by (apply filter_In; split; [exact Hp|apply in_rewritten_iff; exact IR]).
  unfold execute. destruct (pl_rewritten pl) eqn:R; [destruct IR|]. cbn [out_index].
  eexists. exists (del_entry o (to_ipack (o_now o) TSet p)). split; [apply in_or_app; right; left; reflexivity|].
  cbn [f_del]. split.
  - apply in_map. apply in_or_app. right. unfold sec_del. apply in_flat_map. exists p. split; [exact Hpr|].
    rewrite I. destruct K as [K|K]; rewrite K; [rewrite X1|rewrite X2]; left; reflexivity.
  - split; [reflexivity|]. split; [reflexivity|]. cbn [del_entry to_ipack p_time new_time]. apply restamp_now.
Qed.

(* the weaker fact the property needs: the mark is not earlier than the run that set it, and not later than the
   moment the index holding it was written *)
Lemma fresh_marks_not_before_lemma : forall dec packer nid o fs used existing pl p,
  plan_with dec o fs used existing = inr pl -> o_instant o = false -> (o_now o <= o_rel o)%Z ->
  In p (pl_packs pl) -> pp_todo p = MarkDelete \/ pp_todo p = Repack ->
  exists f e t, In f (out_index (execute packer nid o fs pl)) /\ In e (f_del f)
              /\ p_id e = pp_id p /\ p_blobs e = pp_blobs p /\ p_time e = Some t /\ (o_now o <= t <= o_rel o)%Z.
Proof.
  intros dec packer nid o fs used existing pl p P I Le Hp K.
  destruct (fresh_marks_timed_lemma dec packer nid o fs used existing pl p P I Hp K) as [f [e [A [B [C [D E]]]]]].
  exists f, e, (mark_time o). repeat split; try assumption; apply mark_time_bounds; exact Le.
Qed.

Lemma fresh_marks_plan_time_lemma : forall dec packer nid o fs used existing pl p,
  marks_restamped = false ->
  plan_with dec o fs used existing = inr pl -> o_instant o = false ->
  In p (pl_packs pl) -> pp_todo p = MarkDelete \/ pp_todo p = Repack ->
  exists f e, In f (out_index (execute packer nid o fs pl)) /\ In e (f_del f)
              /\ p_id e = pp_id p /\ p_blobs e = pp_blobs p /\ p_time e = Some (o_now o).
Proof.
  intros dec packer nid o fs used existing pl p M P I Hp K.
  destruct (fresh_marks_timed_lemma dec packer nid o fs used existing pl p P I Hp K) as [f [e [A [B [C [D E]]]]]].
  exists f, e. repeat split; try assumption. rewrite E. unfold mark_time. rewrite M. reflexivity.
Qed.

(* the outcome of the index entry of a pack left marked (KeepMarked) by a non-instant run: still in
   `packs_to_delete`, with its OLD mark time — whether or not its index file is rewritten *)
Lemma table_keepmarked : forall mark used unused g,
  decide_table mark used unused g = Some (OTodo KeepMarked) -> mark = true.
Proof.
  intros mark used unused g H. destruct mark; [reflexivity|]. exfalso.
  unfold decide_table in H. cbn [Bool.eqb andb] in H.
  repeat match type of H with
         | context [if ?c then _ else _] => destruct c; cbn [andb] in H
         end; discriminate.
Qed.

Section PerPack.
Variable o : popts.
Variable Q : ppack -> Prop.
Hypothesis HQ : forall m p m' p', decide_one o m p = (m', p') -> Q p'.

Lemma map_st_Q : forall mc l m m' l',
  (forall p, In p l -> is_pending p = false -> Q p) ->
  map_st (decide_step o mc) m l = (m', l') -> (forall p, In p l' -> is_pending p = false -> Q p).
Proof.
  induction l as [|a tl IH]; intros m m' l' H E; cbn [map_st] in E.
  - inv E. intros p [].
  - destruct (decide_step o mc m a) as [s1 a1] eqn:Fa. destruct (map_st (decide_step o mc) s1 tl) as [s2 bs] eqn:M. inv E.
    intros p [Hp|Hp] Np.
    + subst p. unfold decide_step in Fa. destruct (Bool.eqb (pp_mark a) mc).
      * eapply HQ; eauto.
      * inv Fa. apply H; [left; reflexivity|exact Np].
    + eapply IH; [|exact M|exact Hp|exact Np]. intros q Hq. apply H. right. exact Hq.
Qed.

Lemma decide_packs_Q : forall m l m' l',
  (forall p, In p l -> is_pending p = true) ->
  decide_packs o m l = (m', l') -> forall p, In p l' -> is_pending p = false -> Q p.
Proof.
  intros m l m' l' Pe E. unfold decide_packs, mark_order in E. cbn [fold_left] in E.
  destruct (map_st (decide_step o true) m l) as [m1 l1] eqn:E1.
  eapply map_st_Q; [|exact E]. eapply map_st_Q; [|exact E1].
  intros p Hp Np. rewrite (Pe p Hp) in Np. discriminate.
Qed.
End PerPack.

Definition km_ok (p : ppack) : Prop := pp_todo p = KeepMarked -> pp_mark p = true.

Lemma decide_one_km : forall o m p m' p', decide_one o m p = (m', p') -> km_ok p'.
Proof.
  intros o m p m' p' H. unfold decide_one in H.
  destruct (from_pack m (pp_type p) (pp_blobs p)) as [m1 pi].
  destruct (decide_table (pp_mark p) (pi_used_blobs pi) (pi_unused_blobs pi) (guards_of o p)) as [[t|r]|] eqn:T; inv H;
    unfold km_ok; cbn [pp_todo pp_mark set_dec]; try discriminate.
  intro E. subst t. eapply table_keepmarked; eauto.
Qed.

Lemma plan_km : forall dec o fs used existing pl,
  plan_with dec o fs used existing = inr pl -> forall p, In p (pl_packs pl) -> km_ok p.
Proof.
  intros dec o fs used existing pl H. unfold plan_with in H.
  destruct (plan_new fs) as [mods ps0] eqn:PN.
  destruct (check_used (count_used (umap0 used) ps0) used) eqn:CK; cbn [negb] in H; [|discriminate].
  destruct (decide_packs o (count_used (umap0 used) ps0) ps0) as [m1 ps1] eqn:DP.
  destruct (dec o ps1) as [d|]; [|discriminate].
  destruct (cep existing m1 (map (apply_repack d) ps1)) as [e|[unref m2]] eqn:CE; [discriminate|]. inv H.
  destruct (plan_new_spec _ _ _ PN) as [_ [_ [_ PE]]].
  destruct (decide_packs_covers _ _ _ _ _ PE CK DP) as [_ [AD _]].
  cbn [pl_packs]. intros p Hp. apply in_map_iff in Hp. destruct Hp as [p1 [E1 H1]]. subst p.
  destruct (apply_repack_todo d p1) as [[_ E]|[_ T]].
  - rewrite E. eapply (decide_packs_Q o km_ok (decide_one_km o)); eauto.
  - intro K. destruct T as [T|[T|T]]; congruence.
Qed.

(* a pack left marked by a non-instant run keeps its place in `packs_to_delete`; its mark time is unchanged
   (unless it is, to the nanosecond, the plan time of this run and the source re-stamps: then it moves FORWARD to the
   release time) *)
Lemma kept_marks_keep_time_lemma : forall dec packer nid o fs used existing pl p t,
  plan_with dec o fs used existing = inr pl -> o_instant o = false ->
  In p (pl_packs pl) -> pp_todo p = KeepMarked -> pp_time p = Some t ->
  exists f e t', In f (out_index (execute packer nid o fs pl)) /\ In e (f_del f)
              /\ p_id e = pp_id p /\ p_blobs e = pp_blobs p /\ p_time e = Some t'
              /\ (t <> o_now o -> t' = t) /\ ((o_now o <= o_rel o)%Z -> (t <= t')%Z) /\ (marks_restamped = false -> t' = t).
Proof.
  intros dec packer nid o fs used existing pl p t P I Hp K Tm.
  pose proof (plan_with_facts _ _ _ _ _ _ P) as PF.
  pose proof (plan_km _ _ _ _ _ _ P p Hp K) as Mk.
  destruct exec_mark_facts as [_ [_ [X3 _]]].
  destruct (pf_entry _ _ _ _ _ PF p Hp) as [k [f [ip [N1 [N2 [N3 [E1 [E2 [E3 _]]]]]]]]]. rewrite Mk in N3.
  destruct (in_rewritten pl p) eqn:IR.
  - assert (Hpr : In p (processed pl)) by (apply filter_In; split; assumption).
    apply in_rewritten_iff in IR. unfold execute. destruct (pl_rewritten pl) eqn:R; [destruct IR|]. cbn [out_index].
    destruct (restamp_some o t) as [t' [R1 [R2 [R3 R4]]]].
    eexists. exists (del_entry o (to_ipack (o_now o) TKeepOrSet p)), t'. split; [apply in_or_app; right; left; reflexivity|].
    cbn [f_del]. split.
    + apply in_map. apply in_or_app. right. unfold sec_del. apply in_flat_map. exists p. split; [exact Hpr|].
      rewrite I, K, X3. left. reflexivity.
    + split; [reflexivity|]. split; [reflexivity|]. split; [cbn [del_entry to_ipack p_time new_time]; rewrite Tm; exact R1|].
      split; [exact R2|]. split; [exact R3|exact R4].
  - assert (NR : ~ In (pp_idx p) (pl_rewritten pl)) by (intro X; apply in_rewritten_iff in X; congruence).
    assert (UT : In f (untouched pl fs)).
    { unfold untouched. apply in_map_iff. exists (k, f). split; [reflexivity|].
      apply filter_In. split; [apply (enum_from_In fs k 0%nat f N1)|].
      apply Bool.negb_true_iff. destruct (existsb (Nat.eqb k) (pl_rewritten pl)) eqn:X; [|reflexivity].
      exfalso. apply NR. apply existsb_exists in X. destruct X as [y [Hy Ey]]. apply Nat.eqb_eq in Ey. subst y.
      rewrite N2. exact Hy. }
    exists f, ip, t. split.
    + unfold execute. destruct (pl_rewritten pl) eqn:R; cbn [out_index]; [eapply nth_error_In; eauto|].
      apply in_or_app. left. exact UT.
    + split; [exact N3|]. split; [symmetry; exact E1|]. split; [symmetry; exact E2|]. split; [congruence|].
      split; [reflexivity|]. split; [lia|reflexivity].
Qed.

Lemma survive_keep_delete_lemma : forall dec packer nid o fs used existing pl out,
  prune_with dec packer nid o fs used existing = inr (pl, out) -> o_instant o = false ->
  forall i, In i (out_removed out) ->
    exists f p t, In f fs /\ In p (f_del f) /\ p_id p = i /\ p_time p = Some t
                  /\ forall now1, (now1 <= t)%Z -> (now1 + o_keep_delete o <= o_now o)%Z.
Proof.
  intros dec packer nid o fs used existing pl out H I i Hi.
  destruct (only_unused_removed_lemma _ _ _ _ _ _ _ _ _ H i Hi) as [X|[f [p [t [pp [A [B [C [D [E _]]]]]]]]]]; [congruence|].
  exists f, p, t. repeat split; try assumption. intros now1 L. lia.
Qed.
