(* C02 — lemmas, part 9: the documented semantics of the repack options, proved about the exact model of
   decide_repack (limits, keep condition, ordering key and resize rule regenerated from prune.rs). *)
From Verif.Base Require Import Tactics.
From Verif.C02 Require Import ModelBase Extracted Model Spec Proofs Proofs2 Proofs3 Proofs4 Proofs5 Proofs6 Proofs8.
Local Open Scope N_scope.

Definition used_sz (p : ppack) : N := pi_used_size (info_of p).
(* bytes handed to the repackers, counted as the code counts them (`repack_size`: used bytes of the pack) *)
Definition repacked_size (ds : list (ppack * todo)) : N :=
  sumN (fun pt => if todo_eqb (snd pt) Repack then used_sz (fst pt) else 0) ds.
Definition accepted (s : rstate) : N := rs_tree s + rs_data s.

Lemma sumN_map : forall {A B} (g : A -> B) (f : B -> N) l, sumN f (map g l) = sumN (fun a => f (g a)) l.
Proof. intros. unfold sumN. induction l as [|a t IH]; cbn [map fold_right]; [reflexivity|]. rewrite IH. reflexivity. Qed.

Lemma sumN_le : forall {A} (f g : A -> N) l, (forall a, f a <= g a) -> sumN f l <= sumN g l.
Proof. intros A f g l H. unfold sumN. induction l as [|a t IH]; cbn [fold_right]; [lia|]. specialize (H a). lia. Qed.

(* ---------------------------------------------------------------- max_repack *)
Section Loop.
Variables (nr : bool) (mr mu : option N) (un rm : N).
Let step := repack_step nr mr mu un rm.

Definition acc_inv (s : rstate) : Prop :=
  accepted s = repacked_size (rs_dec s) + sumN used_sz (rs_resize_tree s) + sumN used_sz (rs_resize_data s)
  /\ (forall L, mr = Some L -> accepted s = 0 \/ accepted s < L).

Lemma keep_cond_repack_limit : forall tot u mxr mxu ua r t n L,
  keep_cond tot u mxr mxu ua r t n = false -> mxr = Some L -> tot + u < L.
Proof.
  intros tot u mxr mxu ua r t n L H E. subst mxr. unfold keep_cond in H.
  apply Bool.orb_false_iff in H. destruct H as [H _]. apply Bool.orb_false_iff in H. destruct H as [H _].
  unfold lim_ge in H. apply N.leb_gt in H. exact H.
Qed.

Lemma step_acc_inv : forall s p, acc_inv s -> acc_inv (step s p).
Proof.
  intros s p [I1 I2]. unfold step, repack_step.
  destruct (keep_cond _ _ _ _ _ _ _ _) eqn:K.
  - split; [|exact I2]. unfold accepted in *. cbn [rs_tree rs_data rs_dec rs_resize_tree rs_resize_data].
    unfold repacked_size in *. cbn [sumN fold_right snd todo_eqb]. unfold sumN in *. lia.
  - assert (Lim : forall L, mr = Some L -> accepted s + used_sz p < L)
      by (intros L E; eapply keep_cond_repack_limit; eauto).
    destruct (reason_eqb (cand_reason p) SizeMismatch); destruct (pi_type (info_of p));
      (split; [|intros L E; right; specialize (Lim L E); unfold accepted, used_sz in *;
                 cbn [rs_tree rs_data]; lia]);
      unfold accepted in *; cbn [rs_tree rs_data rs_dec rs_resize_tree rs_resize_data];
      unfold repacked_size in *; cbn [sumN fold_right snd fst todo_eqb]; unfold sumN, used_sz in *; lia.
Qed.

Lemma fold_acc_inv : forall l s, acc_inv s -> acc_inv (fold_left step l s).
Proof. induction l as [|a t IH]; intros s H; cbn [fold_left]; [exact H|]. apply IH. apply step_acc_inv. exact H. Qed.

(* ---------------------------------------------------------------- max_unused *)
(* monotone quantities *)
Lemma step_mono : forall s p, accepted s <= accepted (step s p) /\ rs_rm s <= rs_rm (step s p).
Proof.
  intros s p. unfold step, repack_step, accepted.
  destruct (keep_cond _ _ _ _ _ _ _ _); [cbn; lia|].
  destruct (reason_eqb (cand_reason p) SizeMismatch); destruct (pi_type (info_of p)); cbn [rs_tree rs_data rs_rm]; lia.
Qed.

Definition kept_because (s : rstate) (p : ppack) : Prop :=
  lim_lt (un - rm - rs_rm s) mu = true \/ lim_ge (accepted s + used_sz p) mr = true.

Lemma kept_because_mono : forall s s' p,
  accepted s <= accepted s' -> rs_rm s <= rs_rm s' -> kept_because s p -> kept_because s' p.
Proof.
  intros s s' p A R [H|H]; [left|right].
  - unfold lim_lt in *. destruct mu as [v|]; [|reflexivity]. apply N.ltb_lt in H. apply N.ltb_lt. lia.
  - unfold lim_ge in *. destruct mr as [v|]; [|discriminate]. apply N.leb_le in H. apply N.leb_le. lia.
Qed.

Definition unused_inv (s : rstate) : Prop :=
  (forall p, In (p, Keep) (rs_dec s) -> cand_reason p = PartlyUsed -> pi_type (info_of p) = Data -> kept_because s p)
  /\ (forall p, In p (rs_resize_tree s) \/ In p (rs_resize_data s) -> cand_reason p = SizeMismatch).

Lemma reason_eqb_eq : forall a b, reason_eqb a b = true <-> a = b.
Proof. intros a b; destruct a, b; cbn; split; intro H; try discriminate; reflexivity. Qed.

Lemma step_unused_inv : forall s p, unused_inv s -> unused_inv (step s p).
Proof.
  intros s p [J1 J2]. destruct (step_mono s p) as [MA MR].
  assert (Old : forall q, In (q, Keep) (rs_dec s) -> cand_reason q = PartlyUsed -> pi_type (info_of q) = Data ->
                          kept_because (step s p) q)
    by (intros q Hq R T; eapply kept_because_mono; eauto).
  revert MA MR Old. unfold step, repack_step.
  destruct (keep_cond _ _ _ _ _ _ _ _) eqn:K; intros MA MR Old.
  - split; [|exact J2]. cbn [rs_dec]. intros q [E|Hq] R T; [|apply Old; assumption].
    inv E. unfold kept_because, accepted, used_sz. cbn [rs_tree rs_data rs_rm].
    unfold keep_cond in K. rewrite R, T in K. cbn [reason_eqb btype_eqb] in K.
    destruct (lim_ge _ mr) eqn:G; [right; reflexivity|]. destruct (lim_lt _ mu) eqn:Lt; [left; reflexivity|].
    cbn in K. discriminate.
  - destruct (reason_eqb (cand_reason p) SizeMismatch) eqn:RS; destruct (pi_type (info_of p)) eqn:TP;
      (split; [cbn [rs_dec]; intros q Hq R T; try (destruct Hq as [E|Hq]; [inv E|]); apply Old; assumption|]);
      cbn [rs_resize_tree rs_resize_data]; intros q Hq; try (apply J2; exact Hq).
    + destruct Hq as [[E|Hq]|Hq]; [subst q; apply reason_eqb_eq; exact RS|apply J2; left; exact Hq|apply J2; right; exact Hq].
    + destruct Hq as [Hq|[E|Hq]]; [apply J2; left; exact Hq|subst q; apply reason_eqb_eq; exact RS|apply J2; right; exact Hq].
Qed.

Lemma fold_unused_inv : forall l s, unused_inv s -> unused_inv (fold_left step l s).
Proof. induction l as [|a t IH]; intros s H; cbn [fold_left]; [exact H|]. apply IH. apply step_unused_inv. exact H. Qed.

(* ---------------------------------------------------------------- no_resize *)
Definition noresize_inv (s : rstate) : Prop :=
  rs_resize_tree s = [] /\ rs_resize_data s = []
  /\ forall p t, In (p, t) (rs_dec s) -> cand_reason p = SizeMismatch -> t = Keep.

Lemma step_noresize_inv : nr = true -> forall s p, noresize_inv s -> noresize_inv (step s p).
Proof.
  intros NR s p [R1 [R2 R3]]. unfold step, repack_step.
  destruct (keep_cond _ _ _ _ _ _ _ _) eqn:K.
  - split; [exact R1|]. split; [exact R2|]. cbn [rs_dec]. intros q t [E|Hq] R; [inv E; reflexivity|eapply R3; eauto].
  - assert (NS : reason_eqb (cand_reason p) SizeMismatch = false).
    { unfold keep_cond in K. rewrite NR in K. rewrite Bool.andb_true_r in K.
      apply Bool.orb_false_iff in K. apply K. }
    rewrite NS. destruct (pi_type (info_of p)); (split; [exact R1|]); (split; [exact R2|]);
      cbn [rs_dec]; intros q t [E|Hq] R; try (eapply R3; eauto);
      inv E; apply reason_eqb_eq in R; congruence.
Qed.

Lemma fold_noresize_inv : nr = true -> forall l s, noresize_inv s -> noresize_inv (fold_left step l s).
Proof. intros NR. induction l as [|a t IH]; intros s H; cbn [fold_left]; [exact H|]. apply IH. apply step_noresize_inv; assumption. Qed.

(* ---------------------------------------------------------------- everything is repacked *)
Definition all_inv (done : list ppack) (s : rstate) : Prop :=
  rs_resize_tree s = [] /\ rs_resize_data s = []
  /\ (forall p t, In (p, t) (rs_dec s) -> t = Repack) /\ (forall p, In p done -> In (p, Repack) (rs_dec s)).

Lemma step_all_inv : mr = None -> mu = Some 0 -> forall done s p,
  cand_reason p <> SizeMismatch -> all_inv done s -> all_inv (p :: done) (step s p).
Proof.
  intros MR MU done s p NS [R1 [R2 [R3 R4]]]. unfold step, repack_step.
  assert (NSb : reason_eqb (cand_reason p) SizeMismatch = false)
    by (destruct (reason_eqb (cand_reason p) SizeMismatch) eqn:E; [apply reason_eqb_eq in E; contradiction|reflexivity]).
  assert (K : keep_cond (rs_tree s + rs_data s) (pi_used_size (info_of p)) mr mu (un - rm - rs_rm s)
                        (cand_reason p) (pi_type (info_of p)) nr = false).
  { unfold keep_cond. rewrite MR, MU, NSb. cbn [lim_ge lim_lt andb orb].
    assert (E : (un - rm - rs_rm s <? 0) = false) by (apply N.ltb_ge; lia). rewrite E. reflexivity. }
  rewrite K, NSb. destruct (pi_type (info_of p)); (split; [exact R1|]); (split; [exact R2|]); cbn [rs_dec];
    (split; [intros q t [E|Hq]; [inv E; reflexivity|eapply R3; eauto]
            |intros q [E|Hq]; [subst q; left; reflexivity|right; apply R4; exact Hq]]).
Qed.

Lemma fold_all_inv : mr = None -> mu = Some 0 -> forall l done s,
  (forall p, In p l -> cand_reason p <> SizeMismatch) -> all_inv done s ->
  exists done', all_inv done' (fold_left step l s) /\ (forall p, In p l \/ In p done -> In p done').
Proof.
  intros MR MU. induction l as [|a t IH]; intros done s NS H; cbn [fold_left].
  - exists done. split; [exact H|]. intros p [[]|Hp]; exact Hp.
  - destruct (IH (a :: done) (step s a)) as [d' [H1 H2]];
      [intros p Hp; apply NS; right; exact Hp|apply step_all_inv; auto; apply NS; left; reflexivity|].
    exists d'. split; [exact H1|]. intros p [[E|Hp]|Hp]; apply H2; [right; left; exact E|left; exact Hp|right; right; exact Hp].
Qed.
End Loop.

Lemma insert_sorted_In : forall x l y, In y (insert_sorted x l) <-> y = x \/ In y l.
Proof.
  intros x l y. induction l as [|h t IH]; cbn [insert_sorted].
  - cbn. intuition.
  - destruct (pi_le (info_of x) (info_of h)); cbn [In]; [intuition|]. rewrite IH. intuition.
Qed.

Lemma sort_cands_In : forall l y, In y (sort_cands l) <-> In y l.
Proof.
  unfold sort_cands. induction l as [|h t IH]; intro y; cbn [fold_right]; [tauto|].
  rewrite insert_sorted_In, IH. cbn [In]. intuition.
Qed.

Lemma acc_inv_0 : forall mr, acc_inv mr rs0.
Proof. intro mr. split; [reflexivity|]. intros L _. left. reflexivity. Qed.

(* repacked bytes never exceed max_repack *)
Lemma max_repack_respected_lemma : forall o ps L,
  max_repack_of o ps = Some L -> repacked_size (repack_decisions o ps) <= L.
Proof.
  intros o ps L E. unfold repack_decisions. set (s := repack_loop o ps).
  assert (I : acc_inv (max_repack_of o ps) s) by (apply fold_acc_inv; apply acc_inv_0).
  destruct I as [I1 I2]. specialize (I2 L E).
  assert (B : repacked_size (rs_dec s ++ map (fun p => (p, resize_todo o s Tree)) (rs_resize_tree s)
                                  ++ map (fun p => (p, resize_todo o s Data)) (rs_resize_data s)) <= accepted s).
  { unfold repacked_size. rewrite !sumN_app, !sumN_map. cbn [fst snd].
    assert (T : forall t0 l, sumN (fun a : ppack => if todo_eqb t0 Repack then used_sz a else 0) l <= sumN used_sz l)
      by (intros t0 l; apply sumN_le; intro a; destruct (todo_eqb t0 Repack); lia).
    pose proof (T (resize_todo o s Tree) (rs_resize_tree s)). pose proof (T (resize_todo o s Data) (rs_resize_data s)).
    unfold repacked_size in I1. lia. }
  lia.
Qed.

(* a partly used data pack stays only when the tolerated amount of unused data is reached or max_repack is exhausted *)
Lemma max_unused_respected_lemma : forall o ps p,
  In (p, Keep) (repack_decisions o ps) -> cand_reason p = PartlyUsed -> pi_type (info_of p) = Data ->
  lim_lt (size_unused ps - size_remove ps - rs_rm (repack_loop o ps)) (max_unused_of o ps) = true
  \/ lim_ge (accepted (repack_loop o ps) + used_sz p) (max_repack_of o ps) = true.
Proof.
  intros o ps p Hin R T. unfold repack_decisions in Hin. set (s := repack_loop o ps) in *.
  assert (I : unused_inv (max_repack_of o ps) (max_unused_of o ps) (size_unused ps) (size_remove ps) s).
  { apply fold_unused_inv. split; [intros q []|intros q [[]|[]]]. }
  destruct I as [J1 J2]. apply in_app_or in Hin. destruct Hin as [Hin|Hin]; [exact (J1 p Hin R T)|].
  exfalso. apply in_app_or in Hin. destruct Hin as [Hin|Hin]; apply in_map_iff in Hin; destruct Hin as [q [E Hq]]; inv E;
    [specialize (J2 p (or_introl Hq))|specialize (J2 p (or_intror Hq))]; congruence.
Qed.

Lemma no_resize_lemma : forall o ps p t,
  o_no_resize o = true -> In (p, t) (repack_decisions o ps) -> cand_reason p = SizeMismatch -> t = Keep.
Proof.
  intros o ps p t NR Hin R. unfold repack_decisions in Hin. set (s := repack_loop o ps) in *.
  assert (I : noresize_inv s).
  { unfold s, repack_loop. rewrite NR. apply fold_noresize_inv; [reflexivity|]. split; [reflexivity|]. split; [reflexivity|]. intros q t0 []. }
  destruct I as [R1 [R2 R3]]. rewrite R1, R2 in Hin. cbn [map app] in Hin. rewrite app_nil_r in Hin. eapply R3; eauto.
Qed.

(* ---------------------------------------------------------------- facts of the decision table for young packs / repack_all *)
Lemma table_young : forall used unused g,
  g_too_young g = true -> decide_table false used unused g = Some (OTodo Keep).
Proof.
  intros used unused g Y. unfold decide_table. cbn [Bool.eqb andb]. rewrite Y. cbn [orb].
  destruct (used =? 0) eqn:E0; [reflexivity|].
  assert (E1 : (1 <=? used) = true) by (apply N.leb_le; apply N.eqb_neq in E0; lia). rewrite E1. cbn [andb].
  destruct (unused =? 0) eqn:E2; [reflexivity|].
  assert (E3 : (1 <=? unused) = true) by (apply N.leb_le; apply N.eqb_neq in E2; lia). rewrite E3. reflexivity.
Qed.

Lemma table_all : forall used unused g,
  1 <= used -> g_too_young g = false -> g_keep_uncacheable g = false -> g_repack_all g = true ->
  exists r, decide_table false used unused g = Some (OCand r) /\ r <> SizeMismatch.
Proof.
  intros used unused g U Y C A. unfold decide_table. cbn [Bool.eqb andb]. rewrite Y, C, A. cbn [orb].
  assert (E0 : (used =? 0) = false) by (apply N.eqb_neq; lia). rewrite E0.
  assert (E1 : (1 <=? used) = true) by (apply N.leb_le; lia). rewrite E1. cbn [andb].
  destruct (unused =? 0) eqn:E2.
  - rewrite Bool.orb_true_r. exists ToCompress. split; [reflexivity|discriminate].
  - assert (E3 : (1 <=? unused) = true) by (apply N.leb_le; apply N.eqb_neq in E2; lia). rewrite E3.
    exists PartlyUsed. split; [reflexivity|discriminate].
Qed.

Lemma table_all_reason : forall mark used unused g r,
  g_repack_all g = true -> decide_table mark used unused g = Some (OCand r) -> r <> SizeMismatch.
Proof.
  intros mark used unused g r A H. unfold decide_table in H. rewrite A in H. rewrite ?Bool.orb_true_r in H.
  destruct mark; cbn [Bool.eqb andb] in H;
    repeat match type of H with
           | context [if ?c then _ else _] => destruct c; cbn [andb orb] in H
           | context [match ?c with Some _ => _ | None => _ end] => destruct c
           end; inv H; discriminate.
Qed.

(* per-pack facts after decide_packs *)
Definition young_ok (o : popts) (p : ppack) : Prop :=
  pp_mark p = false -> g_too_young (guards_of o p) = true -> pp_todo p = Keep /\ pp_cand p = None.

Lemma decide_one_young : forall o m p m' p', decide_one o m p = (m', p') -> young_ok o p'.
Proof.
  intros o m p m' p' H. unfold decide_one in H.
  destruct (from_pack m (pp_type p) (pp_blobs p)) as [m1 pi].
  destruct (decide_table (pp_mark p) (pi_used_blobs pi) (pi_unused_blobs pi) (guards_of o p)) as [[t|r]|] eqn:T; inv H;
    unfold young_ok; cbn [pp_mark pp_todo pp_cand set_dec]; intros Mk Y;
    change (guards_of o (set_dec p pi _ _)) with (guards_of o p) in Y;
    rewrite Mk in T; rewrite (table_young _ _ _ Y) in T; inv T; split; reflexivity.
Qed.

Definition all_ok (o : popts) (p : ppack) : Prop :=
  o_all o = true ->
  (pp_cand p <> Some SizeMismatch)
  /\ (pp_mark p = false -> 1 <= pi_used_blobs (info_of p) -> g_too_young (guards_of o p) = false ->
      g_keep_uncacheable (guards_of o p) = false -> is_cand p = true /\ pp_todo p = Undecided).

Lemma decide_one_all : forall o m p m' p', decide_one o m p = (m', p') -> all_ok o p'.
Proof.
  intros o m p m' p' H. unfold decide_one in H.
  destruct (from_pack m (pp_type p) (pp_blobs p)) as [m1 pi].
  destruct (decide_table (pp_mark p) (pi_used_blobs pi) (pi_unused_blobs pi) (guards_of o p)) as [[t|r]|] eqn:T; inv H;
    unfold all_ok; cbn [pp_mark pp_todo pp_cand set_dec info_of pp_info is_cand]; intro A;
    (split; [try discriminate|]);
    try (intros Mk U Y C; change (guards_of o (set_dec p pi _ _)) with (guards_of o p) in *;
         rewrite Mk in T; destruct (table_all _ (pi_unused_blobs pi) _ U Y C A) as [r0 [E _]]; rewrite E in T; inv T).
  - intro E. inv E. eapply table_all_reason; [|exact T|reflexivity]. exact A.
  - split; reflexivity.
Qed.
