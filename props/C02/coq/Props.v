(* C02 — property theorems (statements closed by `exact`, each followed by Print Assumptions). *)
From Verif.Base Require Import Tactics.
From Verif.C02 Require Import ModelBase Extracted Model Proofs.
Local Open Scope N_scope.

(* Decision table of decide_packs as found in the source: a pack accounted >= 1 used blob is kept,
   recovered or becomes a repack candidate — never marked, left marked or deleted. *)
Theorem decide_table_keeps_used : forall mark used unused g,
  1 <= used -> exists o, decide_table mark used unused g = Some o /\ keeps o.
Proof. exact table_used_kept. Qed.
Print Assumptions decide_table_keeps_used.
