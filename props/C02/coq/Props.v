(* C02 — property theorems.  Nothing but statements closed by `exact`, each followed by
   Print Assumptions.  Model.v mirrors the prune planner (PrunePlan::new, count_used_blobs, check,
   PackInfo::from_pack, decide_packs, decide_repack, check_existing_packs, filter_index_files) and
   the effect of prune_repository on an abstract repository; the decision tables are regenerated
   from prune.rs into Extracted.v on every run.  Blob identity is the key the planner uses (b_key, regenerated from the source). *)
From Verif.Base Require Import Tactics.
From Verif.C02 Require Import ModelBase Extracted Model ModelUsed Spec Proofs Proofs2 Proofs3 Proofs4 Proofs5 Proofs6 Proofs7 Proofs8 Proofs9 Proofs10 Proofs11 Proofs12.
Local Open Scope N_scope.

(* Decision table of decide_packs as found in the source: a pack accounted >= 1 used blob is kept,
   recovered or becomes a repack candidate — never marked, left marked or deleted. *)
Theorem decide_table_keeps_used : forall mark used unused g,
  1 <= used -> exists o, decide_table mark used unused g = Some o /\ keeps o.
Proof. exact table_used_kept. Qed.
Print Assumptions decide_table_keeps_used.

(* The duplicate-aware accounting: after count_used_blobs (saturating at cnt_max), check, and
   decide_packs over ANY list of not yet decided packs (duplicates across packs, inside a pack, more
   than cnt_max copies), every used id has its counter at 0 and lies in a pack that was decided
   Keep, Recover or repack candidate. *)
Theorem accounting_covers_used : forall o used l m' l',
  (forall p, In p l -> is_pending p = true) ->
  check_used (count_used (umap0 used) l) used = true ->
  decide_packs o (count_used (umap0 used) l) l = (m', l') ->
  map static l' = map static l /\ all_decided l' /\
  forall x, In x used -> m' x = Some 0 /\ exists p, In p l' /\ In x (ids (pp_blobs p)) /\ good p.
Proof. exact decide_packs_covers. Qed.
Print Assumptions accounting_covers_used.

(* PrunePlan::new: whatever the index files list (packs listed twice, in several files, both marked
   and unmarked), the planned packs have pairwise different ids and each stands for an index entry. *)
Theorem plan_new_dedups : forall fs mods ps,
  plan_new fs = (mods, ps) ->
  (forall pp, In pp ps -> from_file fs 0 pp) /\ NoDup (map pp_id ps) /\ length mods = length fs
  /\ (forall pp, In pp ps -> is_pending pp = true).
Proof. exact plan_new_spec. Qed.
Print Assumptions plan_new_dedups.

(* MAIN.  For every index set, used-id set, pack listing, clock, option record, every repack decision
   procedure `dec` (decide_repack is one) and every well-behaved repacker: if prune runs (plan and
   execution; an error of the planner leaves the repository untouched), every used id is afterwards
   in a pack that exists, is not removed, and is listed UNMARKED by the new index set — either an
   old pack at an entry the old index listed (same bytes), or a fresh pack whose copy was read from
   such an entry. *)
Theorem prune_keeps_used : forall dec packer nid o fs used existing pl out,
  packer_ok packer (taken fs existing) ->
  prune_with dec packer nid o fs used existing = inr (pl, out) ->
  forall x, In x used -> avail_after (o_now o) fs existing out x.
Proof. exact prune_keeps_used_lemma. Qed.
Print Assumptions prune_keeps_used.

(* A pack file is physically removed only under instant-delete, or when the index listed it as
   marked with mark_time + keep_delete <= now and the accounting found no used blob in it. *)
Theorem only_unused_removed : forall dec packer nid o fs used existing pl out,
  prune_with dec packer nid o fs used existing = inr (pl, out) ->
  forall i, In i (out_removed out) ->
    o_instant o = true
    \/ exists f p t pp, In f fs /\ In p (f_del f) /\ p_id p = i /\ p_time p = Some t
                        /\ (t + o_keep_delete o <= o_now o)%Z
                        /\ In pp (pl_packs pl) /\ pp_id pp = i /\ pp_todo pp = Delete
                        /\ pi_used_blobs (info_of pp) = 0.
Proof. exact only_unused_removed_lemma. Qed.
Print Assumptions only_unused_removed.

(* A marked pack that holds the only listed copy of a used blob is decided Recover and is listed in
   section `packs` (with the prune time) of an index file of the new index set. *)
Theorem marked_needed_recovered : forall dec packer nid o fs used existing pl p x,
  plan_with dec o fs used existing = inr pl ->
  In p (pl_packs pl) -> pp_mark p = true -> In x used -> In x (ids (pp_blobs p)) ->
  (forall q, In q (pl_packs pl) -> In x (ids (pp_blobs q)) -> q = p) ->
  pp_todo p = Recover
  /\ exists f e, In f (out_index (execute packer nid o fs pl)) /\ In e (f_packs f)
                 /\ p_id e = pp_id p /\ p_blobs e = pp_blobs p /\ p_time e = Some (o_now o).
Proof. exact marked_needed_recovered_lemma. Qed.
Print Assumptions marked_needed_recovered.

(* Two-phase delete, across runs.  A non-instant run lists every pack it decides to mark (MarkDelete, or
   Repack after copying the used blobs) in `packs_to_delete` with a time that is NOT EARLIER than this run's plan
   time and not later than the moment the index holding the mark is finalized, and a pack it
   leaves marked (KeepMarked) stays in `packs_to_delete` with its OLD mark time.  With
   only_unused_removed (a later run removes a pack only when the mark time it reads satisfies
   mark_time + keep_delete <= now) a marked pack stays available for at least keep_delete after the
   run that marked it, and marked_needed_recovered brings it back when it is needed again. *)
Theorem fresh_marks_not_before_run_time : forall dec packer nid o fs used existing pl p,
  plan_with dec o fs used existing = inr pl -> o_instant o = false -> (o_now o <= o_rel o)%Z ->
  In p (pl_packs pl) -> pp_todo p = MarkDelete \/ pp_todo p = Repack ->
  exists f e t, In f (out_index (execute packer nid o fs pl)) /\ In e (f_del f)
              /\ p_id e = pp_id p /\ p_blobs e = pp_blobs p /\ p_time e = Some t /\ (o_now o <= t <= o_rel o)%Z.
Proof. exact fresh_marks_not_before_lemma. Qed.
Print Assumptions fresh_marks_not_before_run_time.

(* ... and exactly which time: the plan time when the source stamps marks directly, the release time (o_rel: the
   clock right before the index holding the marks is finalized) when the indexer holds the marks back and
   re-stamps them (Extracted.marks_restamped, regenerated from prune.rs / indexer.rs). *)
Theorem fresh_marks_carry_mark_time : forall dec packer nid o fs used existing pl p,
  plan_with dec o fs used existing = inr pl -> o_instant o = false ->
  In p (pl_packs pl) -> pp_todo p = MarkDelete \/ pp_todo p = Repack ->
  exists f e, In f (out_index (execute packer nid o fs pl)) /\ In e (f_del f)
              /\ p_id e = pp_id p /\ p_blobs e = pp_blobs p /\ p_time e = Some (mark_time o).
Proof. exact fresh_marks_timed_lemma. Qed.
Print Assumptions fresh_marks_carry_mark_time.

Theorem fresh_marks_carry_run_time : forall dec packer nid o fs used existing pl p,
  marks_restamped = false ->
  plan_with dec o fs used existing = inr pl -> o_instant o = false ->
  In p (pl_packs pl) -> pp_todo p = MarkDelete \/ pp_todo p = Repack ->
  exists f e, In f (out_index (execute packer nid o fs pl)) /\ In e (f_del f)
              /\ p_id e = pp_id p /\ p_blobs e = pp_blobs p /\ p_time e = Some (o_now o).
Proof. exact fresh_marks_plan_time_lemma. Qed.
Print Assumptions fresh_marks_carry_run_time.

(* a mark carried over from an earlier run keeps its time (it can only move forward, to the release time, in the
   corner case that it equals this run's plan time to the nanosecond and the source re-stamps) *)
Theorem kept_marks_keep_their_time : forall dec packer nid o fs used existing pl p t,
  plan_with dec o fs used existing = inr pl -> o_instant o = false ->
  In p (pl_packs pl) -> pp_todo p = KeepMarked -> pp_time p = Some t ->
  exists f e t', In f (out_index (execute packer nid o fs pl)) /\ In e (f_del f)
              /\ p_id e = pp_id p /\ p_blobs e = pp_blobs p /\ p_time e = Some t'
              /\ (t <> o_now o -> t' = t) /\ ((o_now o <= o_rel o)%Z -> (t <= t')%Z) /\ (marks_restamped = false -> t' = t).
Proof. exact kept_marks_keep_time_lemma. Qed.
Print Assumptions kept_marks_keep_their_time.

(* keep-delete counts from the mark, whatever time >= the marking run the mark carries: a run without
   instant-delete removes a pack only if the index it reads lists the pack as marked with a time t such that, for
   EVERY run time now1 <= t (in particular the run that wrote the mark), now1 + keep_delete <= now of this run. *)
Theorem marked_packs_survive_keep_delete : forall dec packer nid o fs used existing pl out,
  prune_with dec packer nid o fs used existing = inr (pl, out) -> o_instant o = false ->
  forall i, In i (out_removed out) ->
    exists f p t, In f fs /\ In p (f_del f) /\ p_id p = i /\ p_time p = Some t
                  /\ forall now1, (now1 <= t)%Z -> (now1 + o_keep_delete o <= o_now o)%Z.
Proof. exact survive_keep_delete_lemma. Qed.
Print Assumptions marked_packs_survive_keep_delete.

(* decide_repack (max_repack, max_unused, no_resize, ordering, resize packs) only ever answers Keep or
   Repack for a candidate, and applying ANY answer list touches only candidates (Keep / Repack, or
   Undecided = planner error).  Together with prune_keeps_used being stated for every `dec`, every
   limit / no_resize / keep_pack path is safe. *)
Theorem keep_is_always_safe :
  (forall o ps d, decide_repack o ps = Some d -> forall i t, In (i, t) d -> t = Keep \/ t = Repack)
  /\ (forall d p, (pp_cand p = None /\ apply_repack d p = p)
                  \/ (pp_cand p <> None /\ (pp_todo (apply_repack d p) = Keep \/ pp_todo (apply_repack d p) = Repack
                                           \/ pp_todo (apply_repack d p) = Undecided))).
Proof. exact (conj decide_repack_keep_or_repack apply_repack_todo). Qed.
Print Assumptions keep_is_always_safe.

(* The property speaks of blobs as (type, id); the key regenerated from the source (b_key) is
   (type, id), so the main theorem reads: every referenced (type, id) is afterwards in an existing,
   unmarked-listed pack under that type and id.  (Against the unrepaired planner, whose key is the
   plain id, Extracted.v defines `used_key t i := i`, key_typed fails and this theorem is lost; the
   collision history of the e2e stage then fails on the real code — finding fixed by the `fix:` commit.) *)
Theorem prune_keeps_used_typed : forall dec packer nid o fs used existing pl out,
  packer_ok packer (taken fs existing) ->
  prune_with dec packer nid o fs used existing = inr (pl, out) ->
  forall t i, In (used_key t i) used -> avail_after_typed (o_now o) fs existing out t i.
Proof. exact prune_keeps_used_typed_lemma. Qed.
Print Assumptions prune_keeps_used_typed.

(* the planner's key separates blob types *)
Theorem planner_key_is_typed : forall b t i, b_key b = used_key t i -> b_tpe b = t /\ b_id b = i.
Proof. exact key_typed. Qed.
Print Assumptions planner_key_is_typed.

(* ------------------------------------------------------------------------------------------------
   decide_repack, modelled exactly (limit expressions, keep condition, ordering key and resize rule
   regenerated from prune.rs; `repack_decisions` lists every candidate with its decision, `plan` uses it
   and the correspondence compares the predicted decisions with the real planner's). *)

(* max_repack: the used bytes of the packs decided Repack (what the code adds to `repack_size`) never
   exceed the limit (a size, or saturating p * total / 100). *)
Theorem max_repack_respected : forall o ps L,
  max_repack_of o ps = Some L -> repacked_size (repack_decisions o ps) <= L.
Proof. exact max_repack_respected_lemma. Qed.
Print Assumptions max_repack_respected.

(* max_unused: a partly used DATA pack is left as it is only when, at the end of the run, the unused bytes
   that stay (unused - removed - dropped by repacking) are below the limit, or repacking it would have
   reached max_repack ("nothing more can be repacked").  Tree packs with unused blobs are not subject to
   max_unused at all. *)
Theorem max_unused_respected : forall o ps p,
  In (p, Keep) (repack_decisions o ps) -> cand_reason p = PartlyUsed -> pi_type (info_of p) = Data ->
  lim_lt (size_unused ps - size_remove ps - rs_rm (repack_loop o ps)) (max_unused_of o ps) = true
  \/ lim_ge (accepted (repack_loop o ps) + used_sz p) (max_repack_of o ps) = true.
Proof. exact max_unused_respected_lemma. Qed.
Print Assumptions max_unused_respected.

(* no_resize: a pack that is a candidate only because of its size is kept. *)
Theorem no_resize_keeps_sizes : forall o ps p t,
  o_no_resize o = true -> In (p, t) (repack_decisions o ps) -> cand_reason p = SizeMismatch -> t = Keep.
Proof. exact no_resize_lemma. Qed.
Print Assumptions no_resize_keeps_sizes.

(* keep_pack: an unmarked pack created less than keep_pack before the plan time is kept — for every
   option record and every repack decision procedure. *)
Theorem keep_pack_protects_young_packs : forall dec o fs used existing pl p t,
  plan_with dec o fs used existing = inr pl -> In p (pl_packs pl) ->
  pp_mark p = false -> pp_time p = Some t -> (t > o_now o - o_keep_pack o)%Z -> pp_todo p = Keep.
Proof. exact keep_pack_lemma. Qed.
Print Assumptions keep_pack_protects_young_packs.

(* repack_all (with max_repack unlimited): every unmarked pack holding a used blob that is neither too
   young nor protected by repack_cacheable_only is repacked. *)
Theorem repack_all_repacks_everything_not_young : forall o fs used existing pl p,
  plan o fs used existing = inr pl -> In p (pl_packs pl) ->
  o_all o = true -> o_max_repack o = LUnlimited ->
  pp_mark p = false -> 1 <= pi_used_blobs (info_of p) ->
  g_too_young (guards_of o p) = false -> g_keep_uncacheable (guards_of o p) = false ->
  pp_todo p = Repack.
Proof. exact repack_all_lemma. Qed.
Print Assumptions repack_all_repacks_everything_not_young.

(* ------------------------------------------------------------------------------------------------
   find_used_blobs and forget.  `reach st t k`: blob key k (type and id) is needed to restore tree t. *)
Theorem used_ids_complete : forall fuel st roots used,
  find_used fuel st roots = Some used -> forall r k, In r roots -> reach st r k -> In k used.
Proof. exact used_ids_complete_lemma. Qed.
Print Assumptions used_ids_complete.

(* The chain closed: whatever is forgotten, a snapshot that is still present keeps every blob reachable
   from its root tree — under its type, in an existing pack listed unmarked — through any prune run. *)
Theorem present_snapshots_stay_restorable : forall fuel st ids snaps used dec packer nid o fs existing pl out,
  find_used fuel st (roots_of (forget ids snaps)) = Some used ->
  packer_ok packer (taken fs existing) ->
  prune_with dec packer nid o fs used existing = inr (pl, out) ->
  forall s t i, In s snaps -> ~ In (fst s) ids -> reach st (snd s) (used_key t i) ->
  avail_after_typed (o_now o) fs existing out t i.
Proof. exact present_snapshots_lemma. Qed.
Print Assumptions present_snapshots_stay_restorable.
