"""C02 fact extractor (round 3: also the decide_repack limit expressions, keep condition, PackInfo::cmp
operands, resize rule): regenerates props/C02/coq/Extracted.v from
crates/core/src/commands/prune.rs (+ blob.rs):

  * decide_table   — the `(delete_mark, used_blobs, unused_blobs)` match of `decide_packs`,
                     arms in source order with their guards;
  * exec_table     — the `PackToDo -> new index section / removal` match of `prune_repository`
                     (instant and non-instant branch), and which arm feeds the repacker;
  * cep_table      — what `check_existing_packs` does per decision (error / drop blob ids from
                     used_ids / check the size);
  * forces_rewrite — the predicate of `filter_index_files`;
  * mark_order, cnt_max (width of the duplicate counter), MIN_INDEX_LEN, is_cacheable,
    the call order of the planner steps in `from_prune_options`, and pinned definitions of the
    local guards of decide_packs (too_young, keep_uncacheable, to_compress, size_mismatch).

Fails loudly (ExtractError) when an item no longer has the expected shape."""
import re, sys, os
sys.path.insert(0, os.path.join(os.path.dirname(__file__), "..", "..", "lib"))
from rustscan import *

TODOS = ["Undecided", "Keep", "Repack", "MarkDelete", "KeepMarked", "KeepMarkedAndCorrect", "Recover", "Delete"]
REASONS = ["PartlyUsed", "ToCompress", "SizeMismatch"]
GUARD = {"too_young": "g_too_young g", "keep_uncacheable": "g_keep_uncacheable g", "to_compress": "g_to_compress g",
         "repack_all": "g_repack_all g", "size_mismatch": "g_size_mismatch g"}
PINS = [
    "let too_young = pack.time > Some(self.time.saturating_sub(keep_pack).into());",
    "let keep_uncacheable = repack_cacheable_only && !pack.blob_type.is_cacheable();",
    "let to_compress = repack_uncompressed && !pack.is_compressed();",
    "let size_mismatch = !pack_sizer[pack.blob_type].size_ok(pack.size);",
    "let pi = PackInfo::from_pack(pack, &mut self.used_ids);",
    ".filter(|(_, p)| p.delete_mark == mark_case)",
]


def norm(s):
    return " ".join(s.split())


def strip_noise(body):
    """remove statements that only update statistics / status flags / log"""
    b = body
    b = re.sub(r"self\s*\.\s*stats\s*\.\s*packs\s*\.\s*\w+\s*\+=\s*1\s*;", "", b)
    b = re.sub(r"_\s*=\s*status\s*\.\s*insert\s*\([^;]*\)\s*;", "", b)
    b = re.sub(r"status\s*\.\s*insert_all\s*\([^;]*\)\s*;", "", b)
    while True:
        m = re.search(r"\bwarn!\s*\(", b)
        if not m:
            break
        e = match_brace(b, m.end() - 1, "(", ")")
        k = e + 1
        while k < len(b) and b[k] in " \n\t;":
            k += 1
        b = b[:m.start()] + b[k:]
    return b.strip()


def split_arms(body):
    """arms of a match body: list of (pattern_text, guard_text_or_None, arm_body_text)"""
    arms, i, n = [], 0, len(body)
    while True:
        while i < n and body[i] in " \n\t,":
            i += 1
        if i >= n:
            break
        j = body.find("=>", i)
        if j < 0:
            raise ExtractError("match arm without =>: %r" % body[i:i + 60])
        head = body[i:j].strip()
        guard = None
        # the guard follows the pattern: `PAT if COND`
        depth, k, cut = 0, 0, None
        while k < len(head):
            c = head[k]
            if c in "([": depth += 1
            elif c in ")]": depth -= 1
            elif depth == 0 and re.match(r"\bif\b", head[k:]) and (k == 0 or head[k - 1] in " \n\t"):
                cut = k; break
            k += 1
        if cut is not None:
            guard = head[cut + 2:].strip(); head = head[:cut].strip()
        k = j + 2
        while k < n and body[k] in " \n\t":
            k += 1
        if k < n and body[k] == "{":
            e = match_brace(body, k)
            arm = body[k + 1:e]; i = e + 1
        else:
            # expression arm up to the next top-level comma
            depth, e = 0, k
            while e < n:
                c = body[e]
                if c in "([{": depth += 1
                elif c in ")]}": depth -= 1
                elif c == "," and depth == 0: break
                e += 1
            arm = body[k:e]; i = e + 1
        arms.append((head, guard, arm.strip()))
    return arms


def tr_cond(c):
    parts = [p.strip() for p in c.split("||")]
    out = []
    for p in parts:
        if p not in GUARD:
            raise ExtractError("unknown guard in decide_packs: %r" % p)
        out.append("(%s)" % GUARD[p])
    return " || ".join(out)


def tr_leaf(t):
    t = norm(t).rstrip(";").strip()
    m = re.fullmatch(r"pack\s*\.\s*set_todo\(\s*PackToDo::(\w+)\s*,\s*&pi\s*,\s*status\s*,\s*&mut self\.stats\s*,?\s*\)", t)
    if m and m.group(1) in TODOS:
        return "OTodo %s" % m.group(1)
    m = re.fullmatch(r"self\s*\.\s*repack_candidates\s*\.\s*push\(\s*\(\s*pi\s*,\s*status\s*,\s*RepackReason::(\w+)\s*,\s*index_num\s*,\s*pack_num\s*,?\s*\)\s*\)", t)
    if m and m.group(1) in REASONS:
        return "OCand %s" % m.group(1)
    raise ExtractError("unrecognised statement in a decide_packs arm: %r" % t)


def tr_block(t):
    """if-chain / match pack.time / leaf  ->  Coq term of type outcome"""
    t = strip_noise(t)
    if re.match(r"if\b", t):
        b = t.find("{")
        cond = t[2:b].strip()
        e = match_brace(t, b)
        then = t[b + 1:e]
        rest = t[e + 1:].strip()
        if not rest.startswith("else"):
            raise ExtractError("if without else in a decide_packs arm")
        rest = rest[4:].strip()
        if rest.startswith("{"):
            e2 = match_brace(rest, 0)
            if rest[e2 + 1:].strip():
                raise ExtractError("statements after if/else in a decide_packs arm: %r" % rest[e2 + 1:])
            els = rest[1:e2]
        else:
            els = rest
        return "(if %s then %s else %s)" % (tr_cond(norm(cond)), tr_block(then), tr_block(els))
    m = re.match(r"match\s+pack\s*\.\s*time\s*\{", t)
    if m:
        b = m.end() - 1
        e = match_brace(t, b)
        if t[e + 1:].strip():
            raise ExtractError("statements after match pack.time")
        arms = split_arms(t[b + 1:e])
        none_leaf, some_chain = None, []
        for pat, guard, arm in arms:
            pat = norm(pat)
            if pat == "None":
                if guard: raise ExtractError("guard on None arm")
                if none_leaf is None: none_leaf = tr_block(arm)
            elif re.fullmatch(r"Some\((\w+)\)", pat):
                v = re.fullmatch(r"Some\((\w+)\)", pat).group(1)
                if guard is None:
                    some_chain.append((None, tr_block(arm)))
                else:
                    g = norm(guard)
                    if v == "_" or g != "self.time.saturating_sub(keep_delete).timestamp() >= %s" % v:
                        raise ExtractError("unrecognised guard on the marked/unused arm: %r" % g)
                    some_chain.append(("(g_del_limit g >=? t)%Z", tr_block(arm)))
            else:
                raise ExtractError("unrecognised pattern in match pack.time: %r" % pat)
        if none_leaf is None or not some_chain or some_chain[-1][0] is not None:
            raise ExtractError("match pack.time is not exhaustive in the expected way")
        s = some_chain[-1][1]
        for g, leaf in reversed(some_chain[:-1]):
            if g is None: s = leaf
            else: s = "(if %s then %s else %s)" % (g, leaf, s)
        return "(match g_time g with Some t => %s | None => %s end)" % (s, none_leaf)
    return tr_leaf(t)


def tr_pat(p):
    m = re.fullmatch(r"\(\s*(true|false)\s*,\s*(0|1\.\.|_)\s*,\s*(0|1\.\.|_)\s*\)", norm(p))
    if not m:
        raise ExtractError("unrecognised pattern in the decision match: %r" % p)
    c = ["Bool.eqb mark %s" % m.group(1)]
    for v, x in ((m.group(2), "used"), (m.group(3), "unused")):
        if v == "0": c.append("(%s =? 0)" % x)
        elif v == "1..": c.append("(1 <=? %s)" % x)
    return " && ".join(c)


def tr_lim_expr(e):
    e = norm(e).rstrip(",")
    if e == "0": return "Some 0"
    if e == "u64::MAX": return "None"
    if e == "size.as_u64()": return "Some size"
    m = re.fullmatch(r"\{? ?p\.saturating_mul\(self\.stats\.size_sum\(\)\.(used|total\(\))\) / (\(100 - p\)|100) ?\}?", e)
    if m:
        x = "used" if m.group(1) == "used" else "total"
        return "Some (sat_mul p %s / %s)" % (x, m.group(2))
    raise ExtractError("decide_repack: limit expression not recognised: %r" % e)


def tr_limit_match(body, var, with_bool):
    """the `match` that turns a LimitOption into a byte limit -> Coq term (None = u64::MAX = no limit)"""
    arms = split_arms(body)
    true_arm, by = None, {"Unlimited": [], "Size": [], "Percentage": []}
    for pat, guard, arm in arms:
        pat = norm(pat)
        if with_bool:
            m = re.fullmatch(r"\((true|false), (.*)\)", pat)
            if not m: raise ExtractError("decide_repack: limit pattern %r" % pat)
            if m.group(1) == "true":
                if m.group(2) != "_" or guard: raise ExtractError("decide_repack: limit pattern %r" % pat)
                true_arm = tr_lim_expr(arm); continue
            pat = m.group(2)
        m = re.fullmatch(r"LimitOption::(Unlimited|Size\(size\)|Percentage\(p\))", pat)
        if not m: raise ExtractError("decide_repack: limit pattern %r" % pat)
        k = m.group(1).split("(")[0]
        g = None
        if guard:
            mg = re.fullmatch(r"\*p >= (\d+)", norm(guard))
            if not mg or k != "Percentage": raise ExtractError("decide_repack: limit guard %r" % guard)
            g = "(%s <=? p)" % mg.group(1)
        by[k].append((g, tr_lim_expr(arm)))
    def chain(l):
        if not l or l[-1][0] is not None: raise ExtractError("decide_repack: limit match not exhaustive")
        t = l[-1][1]
        for g, e in reversed(l[:-1]):
            t = e if g is None else "(if %s then %s else %s)" % (g, e, t)
        return t
    inner = "match %s with LUnlimited => %s | LSize size => %s | LPercent p => %s end" % (var, chain(by["Unlimited"]), chain(by["Size"]), chain(by["Percentage"]))
    if with_bool:
        if true_arm is None: raise ExtractError("decide_repack: no (true, _) arm")
        return "if ru then %s else %s" % (true_arm, inner)
    return inner


def gen_repack(src, blob, out, meta):
    dr = fn_body(src, "decide_repack")
    ndr = norm(dr)
    # limits
    m = re.search(r"let max_unused = match\s*\(\s*repack_uncompressed\s*,\s*max_unused\s*\)\s*\{", dr)
    if not m: raise ExtractError("decide_repack: max_unused match not found")
    b = m.end() - 1
    mu = tr_limit_match(dr[b + 1:match_brace(dr, b)], "l", True)
    m = re.search(r"let max_repack = match\s+max_repack\s*\{", dr)
    if not m: raise ExtractError("decide_repack: max_repack match not found")
    b = m.end() - 1
    mr = tr_limit_match(dr[b + 1:match_brace(dr, b)], "l", False)
    fpo = norm(fn_body(src, "from_prune_options"))
    if "opts.repack_uncompressed || opts.repack_all," not in fpo:
        raise ExtractError("from_prune_options: decide_repack is no longer called with repack_uncompressed || repack_all")
    out.append("")
    out.append("(* decide_repack: byte limits (None = u64::MAX = unlimited); ru = repack_uncompressed || repack_all *)")
    out.append("Definition limit_unused_x (ru : bool) (l : limit) (used : N) : option N :=\n  %s." % mu)
    out.append("Definition limit_repack_x (l : limit) (total : N) : option N :=\n  %s." % mr)
    # ordering key
    cm = norm(fn_body(src, "cmp"))
    m = re.fullmatch(r"self\.blob_type\.cmp\(&other\.blob_type\)\.then\( \(u64::from\((\w+)\.(\w+)\) \* u64::from\((\w+)\.(\w+)\)\) \.cmp\(&\(u64::from\((\w+)\.(\w+)\) \* u64::from\((\w+)\.(\w+)\)\)\), \)", cm)
    if not m: raise ExtractError("PackInfo::cmp not recognised: %r" % cm)
    g = m.groups()
    F = {"used_size": "pi_used_size", "unused_size": "pi_unused_size"}
    for i in (0, 2, 4, 6):
        if g[i] not in ("self", "other") or g[i + 1] not in F: raise ExtractError("PackInfo::cmp operands not recognised")
    v = {"self": "a", "other": "b"}
    out.append("(* PackInfo::cmp(self = a, other = b): blob type first, then cmp_lhs.cmp(cmp_rhs) *)")
    out.append("Definition cmp_lhs (a b : pinfo) : N := %s %s * %s %s." % (F[g[1]], v[g[0]], F[g[3]], v[g[2]]))
    out.append("Definition cmp_rhs (a b : pinfo) : N := %s %s * %s %s." % (F[g[5]], v[g[4]], F[g[7]], v[g[6]]))
    en = re.search(r"pub enum BlobType \{(.*?)\}", norm(blob))
    if not en: raise ExtractError("enum BlobType not found")
    names = re.findall(r"\b(Tree|Data)\s*,", en.group(1))
    if sorted(names) != ["Data", "Tree"]: raise ExtractError("enum BlobType variants not recognised")
    out.append("Definition btype_rank (t : btype) : N := match t with %s => 0 | %s => 1 end.   (* derive(Ord): declaration order *)" % (names[0], names[1]))
    if "self.repack_candidates.sort_unstable_by_key(|rc| rc.0);" not in ndr:
        raise ExtractError("decide_repack: candidates are no longer sorted by PackInfo")
    # the loop
    m = re.search(r"if (total_repack_size \+ .*?) \{ pack\.set_todo\(PackToDo::Keep, &pi, status, &mut self\.stats\); \}", ndr)
    if not m: raise ExtractError("decide_repack: keep condition not found")
    c = m.group(1)
    c2 = c.replace("total_repack_size + u64::from(pi.used_size) >= max_repack", "lim_ge (total + used_size) max_repack")
    c2 = c2.replace("self.stats.size_sum().unused_after_prune() < max_unused", "lim_lt unused_after max_unused")
    c2 = re.sub(r"repack_reason == RepackReason::(\w+)", r"reason_eqb r \1", c2)
    c2 = re.sub(r"blob_type == BlobType::(\w+)", r"btype_eqb t \1", c2)
    left = re.sub(r"lim_ge \(total \+ used_size\) max_repack|lim_lt unused_after max_unused|reason_eqb r (PartlyUsed|ToCompress|SizeMismatch)|btype_eqb t (Tree|Data)|no_resize|&&|\|\||[()\s]", "", c2)
    if left: raise ExtractError("decide_repack: keep condition has an unrecognised shape: %r" % c)
    out.append("(* decide_repack loop: the candidate is kept when ... *)")
    out.append("Definition keep_cond (total used_size : N) (max_repack max_unused : option N) (unused_after : N) (r : reason) (t : btype) (no_resize : bool) : bool :=\n  %s." % c2)
    for pin in ["let total_repack_size: u64 = repack_size.into_values().sum();",
                "} else if repack_reason == RepackReason::SizeMismatch { resize_packs[blob_type].push((pi, status, index_num, pack_num)); repack_size[blob_type] += u64::from(pi.used_size); } else { pack.set_todo(PackToDo::Repack, &pi, status, &mut self.stats); repack_size[blob_type] += u64::from(pi.used_size); do_repack[blob_type] = true; }",
                "let todo = if do_repack[blob_type] || repack_size[blob_type] > u64::from(pack_sizer[blob_type].pack_size()) { PackToDo::Repack } else { PackToDo::Keep };"]:
        if norm(pin) not in ndr: raise ExtractError("decide_repack: pinned text changed: " + pin[:70])
    out.append("Definition resize_repacks (do_repack : bool) (repack_size target : N) : bool := do_repack || (target <? repack_size).")
    st = norm(fn_body(src, "set_todo"))
    for pin in ["stats.size[tpe].repackrm += u64::from(pi.unused_size);", "stats.size[tpe].remove += u64::from(pi.unused_size);"]:
        if pin not in st: raise ExtractError("set_todo: pinned text changed: " + pin)
    if "self.unused - self.remove - self.repackrm" not in norm(fn_body(src, "unused_after_prune")):
        raise ExtractError("SizeStats::unused_after_prune changed")
    meta["keep_cond"] = c


def gen(repo):
    src = read(repo, "crates/core/src/commands/prune.rs")
    blob = read(repo, "crates/core/src/blob.rs")
    out = ["(* GENERATED by props/C02/extract.py from crates/core/src/commands/prune.rs - do not edit *)",
           "From Verif.Base Require Import Tactics.", "From Verif.C02 Require Import ModelBase.",
           "Local Open Scope N_scope.", ""]
    meta = {}
    # --- constants
    mil = int_expr(const_value(src, "MIN_INDEX_LEN"))
    out.append("Definition MIN_INDEX_LEN : N := %d." % mil)
    m = re.search(r"used_ids\s*:\s*BTreeMap<\s*(BlobId|\(\s*BlobType\s*,\s*BlobId\s*\))\s*,\s*(u8|u16|u32)\s*>", src)
    if not m: raise ExtractError("type of PrunePlan.used_ids not recognised")
    typed = m.group(1) != "BlobId"
    m = re.search(r"(u8|u16|u32)", m.group(0))
    # every consultation of used_ids must use the same key expression as the declared key type
    key_expr = "&(blob.tpe, blob.id)" if typed else "&blob.id"
    other = "&blob.id" if typed else "&(blob.tpe, blob.id)"
    sites = [("count_used_blobs", "self.used_ids.get_mut(%s)", 1), ("from_pack", "used_ids.get_mut(%s)", 3),
             ("check_existing_packs", "self.used_ids.remove(%s)", 1), ("prune_repository", "used_ids.remove(%s)", 1)]
    for fn, pat, cnt in sites:
        body = norm(fn_body(src, fn))
        if body.count(pat % key_expr) != cnt or body.count(pat % other) != 0:
            raise ExtractError("%s: used_ids is not consulted %d time(s) with the key %s" % (fn, cnt, key_expr))
    fub = norm(fn_body(src, "find_used_blobs"))
    if typed:
        for pin in [".map(|id| ((BlobType::Tree, BlobId::from(**id)), 0))", ".map(|id| ((BlobType::Data, BlobId::from(**id)), 0))",
                    "ids.insert((BlobType::Tree, BlobId::from(*node.subtree.unwrap())), 0)"]:
            if pin not in fub: raise ExtractError("find_used_blobs: typed insertion not found: " + pin)
    out.append("(* key of PrunePlan.used_ids: %s *)" % ("(BlobType, BlobId)" if typed else "BlobId (untyped)"))
    if typed:
        out.append("Definition used_key (t : btype) (i : id) : N := 2 * i + match t with Tree => 0 | Data => 1 end.")
    else:
        out.append("Definition used_key (t : btype) (i : id) : N := i.")
    out.append("Definition b_key (b : blob) : N := used_key (b_tpe b) (b_id b).")
    meta["typed_keys"] = typed
    out.append("Definition cnt_max : N := %d.   (* %s::MAX, `count.saturating_add(1)` *)" % (2 ** int(m.group(1)[1:]) - 1, m.group(1)))
    cub = norm(fn_body(src, "count_used_blobs"))
    if "*count = count.saturating_add(1);" not in cub:
        raise ExtractError("count_used_blobs no longer uses saturating_add(1)")
    # --- is_cacheable
    ic = norm(fn_body(blob, "is_cacheable"))
    mm = re.search(r"Self::Tree => (true|false), Self::Data => (true|false)", ic)
    if not mm: raise ExtractError("BlobType::is_cacheable not recognised")
    out.append("Definition is_cacheable (t : btype) : bool := match t with Tree => %s | Data => %s end." % mm.groups())
    # --- planner call order
    fpo = fn_body(src, "from_prune_options")
    calls = re.findall(r"\bpruner\s*\.\s*(\w+)\s*\(", fpo)
    want = ["count_used_blobs", "check", "decide_packs", "decide_repack", "check_existing_packs", "filter_index_files"]
    if calls != want:
        raise ExtractError("planner steps in from_prune_options changed: %s" % calls)
    if not re.search(r"let mut pruner = Self::new\(used_ids, existing_packs, index_files\);", norm(fpo)):
        raise ExtractError("from_prune_options no longer builds the plan with Self::new")
    meta["planner_steps"] = calls
    # --- decide_packs
    dp = fn_body(src, "decide_packs")
    ndp = norm(dp)
    for p in PINS:
        if norm(p) not in ndp:
            raise ExtractError("decide_packs: pinned definition changed or missing: " + p)
    mo = re.search(r"for mark_case in \[\s*(true|false)\s*,\s*(true|false)\s*\]", ndp)
    if not mo: raise ExtractError("mark_case loop not recognised")
    out.append("Definition mark_order : list bool := [%s; %s]." % mo.groups())
    mm = re.search(r"match\s*\(\s*pack\.delete_mark\s*,\s*pi\.used_blobs\s*,\s*pi\.unused_blobs\s*\)\s*\{", dp)
    if not mm: raise ExtractError("decision match of decide_packs not found")
    b = mm.end() - 1
    arms = split_arms(dp[b + 1:match_brace(dp, b)])
    rows = []
    for pat, guard, arm in arms:
        if guard: raise ExtractError("unexpected guard on a decision arm")
        rows.append((tr_pat(pat), tr_block(arm), norm(pat)))
    out.append("")
    out.append("(* match (pack.delete_mark, pi.used_blobs, pi.unused_blobs): arms in source order; None = no arm matches *)")
    out.append("Definition decide_table (mark : bool) (used unused : N) (g : guards) : option outcome :=")
    for c, t, p in rows:
        out.append("  if %s then Some (%s) else   (* %s *)" % (c, t, p))
    out.append("  None.")
    meta["decide_arms"] = [p for _, _, p in rows]
    # --- check_existing_packs
    cep = fn_body(src, "check_existing_packs")
    mm = re.search(r"match\s+pack\s*\.\s*to_do\s*\{", cep)
    if not mm: raise ExtractError("check_existing_packs: match pack.to_do not found")
    b = mm.end() - 1
    rows = {}
    for pat, guard, arm in split_arms(cep[b + 1:match_brace(cep, b)]):
        a = norm(arm)
        eff = ("return Err" in a, "self.used_ids.remove(&" in a, "check_size()?" in a)
        for t in [x.strip() for x in pat.split("|")]:
            mt = re.fullmatch(r"PackToDo::(\w+)", t)
            if not mt or mt.group(1) not in TODOS: raise ExtractError("check_existing_packs: pattern %r" % t)
            rows[mt.group(1)] = eff
    if sorted(rows) != sorted(TODOS): raise ExtractError("check_existing_packs: arms do not cover PackToDo")
    if "let existing_size = self.existing_packs.remove(&pack.id);" not in norm(cep):
        raise ExtractError("check_existing_packs no longer removes every listed pack from existing_packs")
    out.append("")
    out.append("(* check_existing_packs per decision: (error, drops the pack's blob ids from used_ids, checks existence+size) *)")
    out.append("Definition cep_table (t : todo) : bool * bool * bool :=\n  match t with")
    for t in TODOS:
        out.append("  | %s => (%s, %s, %s)" % ((t,) + tuple(str(x).lower() for x in rows[t])))
    out.append("  end.")
    # --- filter_index_files
    fif = norm(fn_body(src, "filter_index_files"))
    mm = re.search(r"index\.packs\.iter\(\)\.any\(\|p\| \{ (.*?) \}\)", fif)
    if not mm: raise ExtractError("filter_index_files: any(..) predicate not found")
    e = mm.group(1)
    e2 = re.sub(r"p\.to_do != PackToDo::(\w+)", lambda m_: "negb (todo_eqb t %s)" % m_.group(1), e)
    e2 = e2.replace("instant_delete", "instant")
    left = re.sub(r"negb \(todo_eqb t \w+\)|instant|&&|\|\||[()\s]", "", e2)
    if left: raise ExtractError("filter_index_files predicate has an unrecognised shape: %r" % e)
    for p in ["let must_modify = index.modified || index.packs.iter().any(", "must_modify || index.len() < constants::MIN_INDEX_LEN",
              "if !any_must_modify && self.index_files.len() == 1 { self.index_files.clear(); }"]:
        if norm(p) not in fif: raise ExtractError("filter_index_files: pinned text changed: " + p)
    out.append("")
    out.append("(* filter_index_files: a pack with this decision forces its index file to be rewritten *)")
    out.append("Definition forces_rewrite (t : todo) (instant : bool) : bool := %s." % e2)
    # --- prune_repository
    pr = fn_body(src, "prune_repository")
    mm = re.search(r"for mut pack in index\.packs\s*\{\s*match\s+pack\s*\.\s*to_do\s*\{", pr)
    if not mm: raise ExtractError("prune_repository: match pack.to_do not found")
    b = mm.end() - 1
    rows, repacks = {}, {}
    def classify(txt):
        a = norm(txt)
        tm = "TSet" if "into_index_pack_with_time(prune_time)" in a else ("TKeepOrSet" if "into_index_pack(prune_time)" in a else None)
        k = []
        if "return Err" in a: k.append("XErr")
        if "delete_pack(&pack)" in a: k.append("XRemove")
        if "indexer.add_remove(pack)?" in a: k.append("XDel %s" % tm)
        if "indexer.add(pack)?" in a: k.append("XPacks %s" % tm)
        if len(k) != 1 or k[0].endswith("None"):
            raise ExtractError("prune_repository: arm effect not recognised: %r" % a[:160])
        return k[0]
    for pat, guard, arm in split_arms(pr[b + 1:match_brace(pr, b)]):
        a = arm
        mi = re.search(r"if\s+opts\s*\.\s*instant_delete\s*\{", a)
        if mi:
            bb = mi.end() - 1; ee = match_brace(a, bb)
            rest = a[ee + 1:].strip()
            if not rest.startswith("else"): raise ExtractError("prune_repository: instant_delete test without else")
            b2 = rest.find("{"); e2_ = match_brace(rest, b2)
            inst, non = classify(a[bb + 1:ee]), classify(rest[b2 + 1:e2_])
            tail = norm(rest[e2_ + 1:])
        else:
            inst = non = classify(a); tail = ""
        rp = "repack_packs.push(pack)" in norm(a)
        if rp and not re.search(r"\.retain\(\|blob\| used_ids\.remove\(&(blob\.id|\(blob\.tpe, blob\.id\))\)\.is_some\(\)\)", norm(a)):
            raise ExtractError("prune_repository: the repack arm no longer filters blobs with used_ids.remove")
        for t in [x.strip() for x in pat.split("|")]:
            mt = re.fullmatch(r"PackToDo::(\w+)", t)
            if not mt or mt.group(1) not in TODOS: raise ExtractError("prune_repository: pattern %r" % t)
            rows[mt.group(1)] = (inst, non); repacks[mt.group(1)] = rp
    if sorted(rows) != sorted(TODOS): raise ExtractError("prune_repository: arms do not cover PackToDo")
    npr = norm(pr)
    for p in ["if opts.instant_delete { let p = repo.progress_counter(\"removing unindexed packs...\");",
              "if prune_plan.index_files.is_empty() { info!(\"nothing to do!\"); return Ok(()); }",
              "let mut used_ids = prune_plan.used_ids;"]:
        if norm(p) not in npr: raise ExtractError("prune_repository: pinned text changed: " + p)
    out.append("")
    out.append("(* match pack.to_do in prune_repository: effect with and without instant_delete *)")
    out.append("Definition exec_table (t : todo) (instant : bool) : effect :=\n  match t with")
    for t in TODOS:
        out.append("  | %s => if instant then %s else %s" % (t, rows[t][0], rows[t][1]))
    out.append("  end.")
    out.append("Definition exec_repacks (t : todo) : bool :=\n  match t with")
    for t in TODOS:
        out.append("  | %s => %s" % (t, str(repacks[t]).lower()))
    out.append("  end.")
    meta["exec_rows"] = rows
    # --- how the delete marks get their time: stamped with the plan time, or held back by the indexer and
    #     re-stamped with the current time right before the index holding them is finalized
    idx = read(repo, "crates/core/src/index/indexer.rs")
    addrm = norm(fn_body(idx, "add_remove"))
    plain = addrm == "self.add_with(pack, true)"
    held = addrm == "if let Some(held) = &mut self.held_removals { held.push(pack); return Ok(()); } self.add_with(pack, true)"
    if not (plain or held): raise ExtractError("Indexer::add_remove has an unrecognised shape: %r" % addrm)
    has_hold = "indexer.hold_removals();" in npr
    n_rel = npr.count("release_removals(")
    n_fin = npr.count("indexer.finalize()?;") + npr.count("indexer.write().unwrap().finalize()?;")
    if not has_hold and n_rel == 0:
        restamped = False
    elif has_hold and held:
        rel = norm(fn_body(idx, "release_removals"))
        if rel != "for mut pack in self.held_removals.take().unwrap_or_default() { if pack.time == Some(stamped) { pack.time = Some(now); } self.add_with(pack, true)?; } Ok(())":
            raise ExtractError("Indexer::release_removals has an unrecognised shape: %r" % rel)
        if norm(fn_body(idx, "hold_removals")) != "self.held_removals = Some(Vec::new());":
            raise ExtractError("Indexer::hold_removals has an unrecognised shape")
        n_pair = npr.count("indexer.release_removals(prune_time, Timestamp::now())?; indexer.finalize()?;")
        if n_fin != 2 or n_pair != 2 or n_rel != 2:
            raise ExtractError("prune_repository: held delete marks are not released right before every finalize of the index (%d finalize, %d release, %d paired)" % (n_fin, n_rel, n_pair))
        if not (0 <= npr.find("indexer.hold_removals();") < npr.find("indexer.add_remove(")):
            raise ExtractError("prune_repository: hold_removals does not precede the first add_remove")
        if "let prune_time = prune_plan.time.timestamp();" not in npr:
            raise ExtractError("prune_repository: prune_time is no longer the plan time")
        restamped = True
    else:
        raise ExtractError("prune_repository: delete marks are neither stamped with the plan time nor held and released (hold=%s, release calls=%d, Indexer::add_remove holds=%s)" % (has_hold, n_rel, held))
    out.append("(* delete marks written by this run: false = they carry the plan time; true = the indexer holds them back and")
    out.append("   release_removals re-stamps those carrying the plan time with the current time before the index is finalized *)")
    out.append("Definition marks_restamped : bool := %s." % str(restamped).lower())
    meta["marks_restamped"] = restamped
    gen_repack(src, blob, out, meta)
    return "\n".join(out) + "\n", meta


if __name__ == "__main__":
    repo = sys.argv[1] if len(sys.argv) > 1 else "/repo"
    txt, meta = gen(repo)
    sys.stdout.write(txt)
