"""C02 — forget and prune never lose data still referenced by a snapshot.
Stages: regenerate Extracted.v from prune.rs; build + audit the Coq theorems; planner-level
correspondence of the extracted model with the hooked real planner on generated index sets;
typed-identity oracle on the model's abstract execution; end-to-end histories
{backup, forget, prune(random options)} on the real library with check(read_data) and a
byte comparison of every remaining snapshot after each step."""
import os, sys, json, re
import vlib
from vlib import ROOT, REPO, sh, log

SIG_COLLISION = "lost blob id occurs under both blob types"
TODOS = ["Keep", "Repack", "MarkDelete", "KeepMarked", "KeepMarkedAndCorrect", "Recover", "Delete", "Undecided"]


# ----------------------------------------------------------------------------- planner cases
def gen_case(rng, big=False, no_repack=False):
    """returns (line, struct) — struct keeps what the typed oracle needs"""
    now = 1_700_000_000 + rng.randint(0, 10 ** 6)
    keep_pack = rng.choice([0, 0, 0, 3600, 86400])
    keep_delete = rng.choice([0, 0, 3600, 82800])
    opts = dict(cacheable_only=int(rng.random() < 0.15), unc=int(rng.random() < 0.15), all=int(rng.random() < 0.12),
                no_resize=int(rng.random() < 0.3), instant=int(rng.random() < 0.4))
    mu = rng.choice([(0, 0), (1, 0), (1, 0), (1, 5), (1, 50), (1, 99), (1, 100), (1, 150), (1, 2 ** 61), (2, 0), (2, 100), (2, 5000)])
    mr = rng.choice([(0, 0), (0, 0), (0, 0), (1, 0), (1, 10), (1, 50), (1, 100), (1, 300), (1, 2 ** 61), (2, 0), (2, 1000), (2, 100000)])
    if no_repack: mr = (2, 0)       # max_repack 0 bytes: every repack candidate is kept (plans the exec mode can run)
    sizers = []
    for _ in range(2):
        sizers.append((rng.choice([1000, 5000, 100000]), rng.choice([0, 30, 30, 100]), rng.choice([0, 0, 100, 200])))
    K = rng.choice([3, 6, 10, 20])
    uni = {}
    for i in range(1, K + 1):
        uni[i] = (rng.randint(0, 1), rng.choice([1, 10, 100, 500, 2000, rng.randint(1, 3000)]))
    collide = rng.random() < 0.12          # some ids may appear under both types
    npk = rng.choice([1, 2, 3, 5, 8, 12])
    packs = []
    pid = 100
    for _ in range(npk):
        pid += 1
        tpe = rng.randint(0, 1)
        pool = [i for i in uni if uni[i][0] == tpe] or list(uni)
        nb = rng.choice([0, 1, 1, 2, 3, 4, 6])
        blobs = []
        for _ in range(nb):
            if collide and rng.random() < 0.3:
                i = rng.choice(list(uni))
            else:
                i = rng.choice(pool)
            if blobs and rng.random() < 0.1:
                i = rng.choice(blobs)[0]          # duplicate inside the pack
            blobs.append((i, tpe, uni[i][1], int(rng.random() < 0.85)))
        size = sum(b[2] for b in blobs) + 37 * len(blobs) + 36 if rng.random() < 0.8 else rng.choice([1, 300, 1000, 5000, 150000])
        marked = rng.random() < 0.3
        r = rng.random()
        if r < 0.1:
            time = None
        elif marked:
            time = now - keep_delete + rng.choice([-1, 0, 0, 1, -100000, 100000])
        else:
            time = now - keep_pack + rng.choice([-1, 0, 0, 1, -100000, 100000])
        packs.append(dict(id=pid, tpe=tpe, blobs=blobs, size=size, time=time, marked=marked))
    if big and packs:
        # one blob id with about 255 copies (saturating u8 counter)
        i = rng.choice(list(uni)); tpe = uni[i][0]
        ncopies = rng.choice([254, 255, 256, 257, 300])
        left = ncopies
        while left > 0:
            pid += 1
            k = min(left, rng.choice([1, 7, 40]))
            left -= k
            blobs = [(i, tpe, uni[i][1], 1)] * k
            if rng.random() < 0.3:
                j = rng.choice(list(uni)); blobs.append((j, tpe, uni[j][1], 1))
            packs.append(dict(id=pid, tpe=tpe, blobs=blobs, size=sum(b[2] for b in blobs) + 100, time=now - 10 ** 6, marked=rng.random() < 0.2))
        rng.shuffle(packs)
    nfiles = rng.choice([1, 1, 2, 3, 4])
    files = [dict(id=500 + k, packs=[], dele=[]) for k in range(nfiles)]
    for p in packs:
        f = rng.choice(files)
        (f["dele"] if p["marked"] else f["packs"]).append(p)
        if rng.random() < 0.12:                       # listed twice
            g = rng.choice(files)
            (g["dele"] if rng.random() < 0.5 else g["packs"]).append(p)
    present = sorted({(b[1], b[0]) for p in packs for b in p["blobs"]})
    # referenced (type,id) pairs; when an id occurs under both types usually both are referenced
    used_ids = {i for (_, i) in present if rng.random() < 0.5}
    used_typed = [x for x in present if x[1] in used_ids and rng.random() < 0.9]
    if rng.random() < 0.04:
        used_typed.append((rng.randint(0, 1), K + 50))           # not in any index file
    used = sorted({i for (_, i) in used_typed})
    existing = []
    for p in packs:
        r = rng.random()
        if r < 0.93: existing.append((p["id"], p["size"]))
        elif r < 0.96: existing.append((p["id"], p["size"] + 1))
    for _ in range(rng.choice([0, 0, 0, 1, 2])):
        pid += 1; existing.append((pid, rng.randint(1, 5000)))
    t = [now, keep_pack, keep_delete, opts["cacheable_only"], opts["unc"], opts["all"], opts["no_resize"], opts["instant"],
         mu[0], mu[1], mr[0], mr[1]]
    for s in sizers: t += list(s)
    t += [len(used_typed)]
    for x in used_typed: t += list(x)
    t += [len(existing)]
    for e in existing: t += list(e)
    t += [len(files)]
    def pk(p):
        r = [p["id"], p["size"]] + ([1, p["time"]] if p["time"] is not None else [0]) + [len(p["blobs"])]
        for b in p["blobs"]: r += list(b)
        return r
    for f in files:
        t += [f["id"], len(f["packs"])]
        for p in f["packs"]: t += pk(p)
        t += [len(f["dele"])]
        for p in f["dele"]: t += pk(p)
    st = dict(now=now, keep_delete=keep_delete, keep_pack=keep_pack, instant=opts["instant"], opts=opts, mu=mu, mr=mr, files=files, packs={p["id"]: p for p in packs},
              used=used, used_typed=used_typed, existing=dict(existing), big=big)
    return " ".join(map(str, t)), st


def parse_out(line):
    """'ok d=.. mod=.. rw=.. unref=.. left=.. stats=..' -> dict"""
    d = {}
    for tok in line.split()[1:]:
        k, _, v = tok.partition("=")
        d[k] = v.split(",") if v else []
    return d


def typed_oracle(st, mp, md):
    """prune_keeps_used for (type,id): every referenced (type,id) that was in a listed existing pack is,
    after the model's abstract execution, in an existing pack listed unmarked.  Returns (lost list, collision?)"""
    removed = set(int(x) for x in md.get("removed", []))
    rw = set(int(x) for x in mp["rw"])
    listed_after = set()
    for f in st["files"]:
        if f["id"] not in rw:
            for p in f["packs"]: listed_after.add(p["id"])
    for e in md.get("newpacks", []):
        listed_after.add(int(e.split(":")[0]))
    avail = set()
    for pid in listed_after:
        if pid in st["packs"] and pid in st["existing"] and pid not in removed:
            for b in st["packs"][pid]["blobs"]: avail.add((b[1], b[0]))
    for c in md.get("copied", []):
        src, i, tp = c.split(":"); avail.add((int(tp), int(i)))
    before = set()
    for f in st["files"]:
        for p in f["packs"] + f["dele"]:
            if p["id"] in st["existing"]:
                for b in p["blobs"]: before.add((b[1], b[0]))
    lost = [x for x in st["used_typed"] if x in before and x not in avail]
    both = {i for (_, i) in before if (0, i) in before and (1, i) in before}
    return lost, bool(lost) and all(i in both for (_, i) in lost)


def impl_cover_oracle(st, a):
    """On the implementation's own plan (decisions + keys left in used_ids): every referenced (type,id) must be
    in a pack decided Keep/Recover, or be still in used_ids AND in a pack decided Repack (then `retain` hands it
    to the repacker).  This is the case split from which prune_keeps_used follows (Proofs6.pf_cover)."""
    dec = {}
    for x in a["d"]:
        _, pid, _, todo = x.split(":")
        dec[int(pid)] = todo
    left = set()
    for x in a["left"]:
        t, i = x.split(":")
        left.add((None if t == "x" else int(t), int(i)))
    lost = []
    for (t, i) in st["used_typed"]:
        kept = any(todo in ("Keep", "Recover") and any(b[0] == i and b[1] == t for b in st["packs"][pid]["blobs"]) for pid, todo in dec.items())
        if kept: continue
        inleft = (t, i) in left or (None, i) in left
        repacked = any(todo == "Repack" and any(b[0] == i and b[1] == t for b in st["packs"][pid]["blobs"]) for pid, todo in dec.items())
        if not (inleft and repacked): lost.append((t, i))
    return lost


U64 = 2 ** 64 - 1


def option_oracle(st, a, md):
    """The documented semantics of the repack options (theorems max_repack_respected, max_unused_respected,
    no_resize_keeps_sizes, keep_pack_protects_young_packs, repack_all_repacks_everything_not_young) evaluated
    on the IMPLEMENTATION's decisions; per-pack used/unused bytes and candidate reasons come from the model's
    accounting (only evaluated when the accounting statistics of both sides agree)."""
    bad = []
    dec = {int(x.split(":")[1]): (x.split(":")[2], x.split(":")[3]) for x in a["d"]}
    sz = {int(x.split(":")[0]): (int(x.split(":")[1]), int(x.split(":")[2])) for x in md.get("sz", [])}
    info = {int(x.split(":")[0]): (int(x.split(":")[1]), int(x.split(":")[2]), x.split(":")[3]) for x in md.get("x", [])}
    o = st["opts"]
    stats = [int(v) for v in a["stats"]]
    used_total, unused_total = stats[4] + stats[6], stats[5] + stats[7]
    ru = o["unc"] or o["all"]
    k, v = st["mr"]
    L = None if k == 0 else (v if k == 2 else min(v * (used_total + unused_total), U64) // 100)
    k, v = st["mu"]
    MU = 0 if ru else (None if k == 0 else (v if k == 2 else (None if v >= 100 else min(v * used_total, U64) // (100 - v))))
    repacked = sum(sz[p][0] for p, (m, t) in dec.items() if t == "Repack")
    if L is not None and repacked > L:
        bad.append("max_repack: %d used bytes are repacked, the limit is %d" % (repacked, L))
    if L is None and MU is not None:
        removed = sum(sz[p][1] for p, (m, t) in dec.items() if t == "MarkDelete")
        after = unused_total - removed - sum(sz[p][1] for p, (m, t) in dec.items() if t == "Repack")
        for p, (m, t) in dec.items():
            if t == "Keep" and info[p][2] == "P" and st["packs"][p]["tpe"] == 1 and after >= MU and not (o["cacheable_only"]):
                bad.append("max_unused: partly used data pack %d is kept although %d unused bytes stay (limit %d) and max_repack is unlimited" % (p, after, MU)); break
    for p, (m, t) in dec.items():
        pk = st["packs"][p]
        young = pk["time"] is not None and pk["time"] > st["now"] - st["keep_pack"]
        if m == "0" and young and t != "Keep":
            bad.append("keep_pack: pack %d is younger than keep_pack but decided %s" % (p, t))
        if o["no_resize"] and info[p][2] == "S" and t != "Keep":
            bad.append("no_resize: pack %d is a candidate only because of its size but decided %s" % (p, t))
        if o["all"] and L is None and m == "0" and info[p][0] >= 1 and not young and not (o["cacheable_only"] and pk["tpe"] == 1) and t != "Repack":
            bad.append("repack_all: pack %d holds used blobs, is not too young, but is decided %s" % (p, t))
    return bad


REL = 4000000000000000000     # the driver's sentinel for "the release time" (see driver.ml, Model.restamp)


def same_entries(model_l, real_l, now):
    """`pack:time` lists of the model and of the real index.  Where the model says REL (a delete mark re-stamped when
    the index is finalized: the source holds the marks back) the real time may be any time >= the run time."""
    m = dict(e.split(":") for e in model_l); r = dict(e.split(":") for e in real_l)
    if len(m) != len(model_l) or len(r) != len(real_l) or set(m) != set(r): return False
    for k, t in m.items():
        if t == str(REL):
            if r[k] == "n" or int(r[k]) < now: return False
        elif r[k] != t: return False
    return True


def exec_oracle(st, a, x):
    """The statements of prune_keeps_used / only_unused_removed / fresh_marks_carry_run_time /
    kept_marks_keep_their_time evaluated on what the REAL executor wrote (exec mode of the harness)."""
    bad = []
    rw = set(int(v) for v in a["rw"])
    xp = dict(v.split(":") for v in x.get("xp", []))
    xd = dict(v.split(":") for v in x.get("xd", []))
    xrm = set(int(v) for v in x.get("xrm", []))
    now, inst = st["now"], st["instant"]
    for d in a["d"]:
        fid, pid, mark, todo = d.split(":")
        fid, pid = int(fid), int(pid)
        p = st["packs"][pid]
        touched = fid in rw
        if todo in ("Keep", "Recover"):
            if pid in xrm: bad.append("pack %d decided %s was removed" % (pid, todo))
            if touched and str(pid) not in xp: bad.append("pack %d decided %s is not listed in `packs` of the new index" % (pid, todo))
            if todo == "Recover" and xp.get(str(pid)) not in (None, str(now)) : bad.append("recovered pack %d does not carry the prune time" % pid)
        elif todo == "MarkDelete" and not inst:
            if pid in xrm: bad.append("pack %d was removed by the run that only marks it" % pid)
            if str(pid) not in xd: bad.append("pack %d decided MarkDelete has no entry in packs_to_delete afterwards (it can never be brought back)" % pid)
            elif xd[str(pid)] == "n" or int(xd[str(pid)]) < now: bad.append("pack %d is newly marked with time %s, EARLIER than the time of the run %d that marks it (keep-delete would not be counted from the marking)" % (pid, xd[str(pid)], now))
        elif todo in ("KeepMarked", "KeepMarkedAndCorrect") and not inst:
            if pid in xrm: bad.append("pack %d decided %s was removed" % (pid, todo))
            if touched:
                if str(pid) not in xd: bad.append("pack %d decided %s has no entry in packs_to_delete afterwards" % (pid, todo))
                elif p["time"] is None or p["time"] == now:
                    # no time (healed with the time of this run) or, to the tick, the plan time: any time >= the run
                    if xd[str(pid)] == "n" or int(xd[str(pid)]) < now: bad.append("pack %d stays marked with a time earlier than this run although it had none" % pid)
                elif xd[str(pid)] != str(p["time"]): bad.append("pack %d stays marked but its mark time changed from %s to %s" % (pid, p["time"], xd[str(pid)]))
    if not inst:
        deleted = {int(d.split(":")[1]) for d in a["d"] if d.split(":")[3] == "Delete"}
        for pid in xrm - deleted: bad.append("pack %d removed without instant-delete and without a Delete decision" % pid)
    return bad


def run_lines(exe, lines, tag, timeout=3000, pin=False, mode=None, env=None):
    path = os.path.join(vlib.BUILD, "C02", "in_%s_%d.txt" % (tag, os.getpid()))
    open(path, "w").write("\n".join(lines) + "\n")
    # pin=True: one core, so that rustic's parallel archiver cuts packs identically on every run (determinism)
    pre = "taskset -c 0 " if pin and os.path.exists("/usr/bin/taskset") else ""
    rc, out, err = vlib.sh2("ulimit -s unlimited 2>/dev/null; %s%s %s %s" % (pre, exe, path, mode or ""), timeout=timeout, env=env)
    os.remove(path)
    res = out.splitlines()
    if rc != 0 or len(res) != len(lines):
        raise RuntimeError("%s failed rc=%s (%d of %d lines)\n%s" % (exe, rc, len(res), len(lines), err[-2000:]))
    return res


# ----------------------------------------------------------------------------- e2e histories
def gen_prune(rng, force=None):
    o = dict(instant=int(rng.random() < 0.5), early=int(rng.random() < 0.2), fast=int(rng.random() < 0.4),
             unc=int(rng.random() < 0.1), all=int(rng.random() < 0.15), noresize=int(rng.random() < 0.3),
             cacheable=rng.choice([0, 0, 1, 2]))
    if o["unc"]: o["fast"] = 0
    mu = rng.choice([(0, 0), (1, 0), (1, 0), (1, 5), (1, 50), (1, 99), (2, 0), (2, 2000)])
    mr = rng.choice([(0, 0), (0, 0), (0, 0), (1, 10), (1, 100), (2, 0), (2, 3000), (2, 10 ** 6)])
    kp = rng.choice([0, 0, 0, 0, 3600])
    kd = rng.choice([0, 0, 3600])
    if force: o.update(force)
    return [2, o["instant"], o["early"], o["fast"], o["unc"], o["all"], o["noresize"], o["cacheable"],
            mu[0], mu[1], mr[0], mr[1], kp, o.get("kd", kd)], o


def gen_history(rng, maxsteps, with_collision=False):
    seed = rng.randint(1, 2 ** 31)
    pack_size = rng.choice([600, 2000, 4096, 20000])
    chunk = rng.choice([64, 256, 512])
    ops, nsn, nforgot, safe_forgot, coll = [], 0, 0, 0, 0
    n = rng.randint(3, maxsteps)
    while len(ops) < n:
        r = rng.random()
        if nsn == 0 or r < 0.35:
            if with_collision and coll == 0 and rng.random() < 0.5:
                # tree blob X and data blob X are introduced by two DIFFERENT backup runs (same run: C01/C07 finding)
                ops.append([5]); ops.append([6]); nsn += 2; coll = 1
            else:
                ops.append([0, rng.randint(1, 2 ** 31), rng.randint(0, 5)]); nsn += 1
        elif r < 0.40 and nsn >= 1:
            # everything is forgotten and only MARKED (keep_delete 1h); the same content is backed up again together
            # with a new file (=> duplicates of blobs that sit in marked packs, in a fresh pack that also holds the new
            # file), the new file goes away again, its snapshot is forgotten: prune must REPACK the fresh pack while
            # the old copies stay in marked packs - the needed blobs must come out of the repack
            ops.append([1, 2 ** nsn - 1])
            p, o = gen_prune(rng, force=dict(instant=0, kd=3600)); p[12] = 0; ops.append(p)
            ops.append([8, rng.choice([100, 300, 700, 1500])]); ops.append([7]); ops.append([1, 1])
            p, o = gen_prune(rng, force=dict(instant=0, kd=3600, unc=0, cacheable=rng.choice([0, 1]), noresize=0))
            p[8], p[9], p[10], p[11], p[12] = 1, 0, 0, 0, 0           # max_unused 0%, max_repack unlimited, keep_pack 0
            ops.append(p)
            nforgot += nsn + 1; nsn = 1
        elif r < 0.46 and nsn >= 1:
            # forget, prune that only MARKS (keep_delete 1h), the forgotten snapshot comes back, prune: must recover
            # (half of the time ALL snapshots are forgotten: then the rewritten index holds marked packs only)
            mask = 2 ** nsn - 1 if rng.random() < 0.5 else rng.randint(1, 2 ** nsn - 1)
            k = bin(mask).count("1")
            ops.append([1, mask])
            p, o = gen_prune(rng, force=dict(instant=0, kd=3600)); p[12] = 0; ops.append(p)
            ops.append([4, rng.randint(0, 100)])
            p, o = gen_prune(rng, force=dict(instant=0, kd=3600)); ops.append(p)
            nsn += 1 - k; nforgot += k - 1; safe_forgot += k - 1
        elif r < 0.55:
            mask = rng.randint(0, 2 ** nsn - 1)
            k = bin(mask).count("1")
            ops.append([1, mask]); nsn -= k; nforgot += k; safe_forgot += k
        elif r < 0.62 and safe_forgot > 0:
            # bring a forgotten snapshot back while its packs can only be marked, then a non-instant prune
            ops.append([4, rng.randint(0, 100)]); nsn += 1; nforgot -= 1; safe_forgot -= 1
            p, o = gen_prune(rng, force=dict(instant=0, kd=3600)); ops.append(p)
        else:
            p, o = gen_prune(rng)
            if o["instant"] or p[-1] == 0: safe_forgot = 0     # forgotten data may be physically gone now
            ops.append(p)
    toks = [seed, pack_size, chunk, len(ops)]
    for op in ops: toks += op
    return " ".join(map(str, toks))


# backup; backup with an empty dir (tree blob X); backup with a file whose bytes are the serialised empty
# tree (data blob X); prune(instant_delete, max_unused 0%).  Failed on the unrepaired tree (DESIGN 7 row 7).
COLLISION_REPLAY = "1 4096 512 4 0 5 0 5 6 2 1 0 0 0 0 0 0 1 0 0 0 0 0"


# two backups, forget the first, prune (marks its packs, keep_delete 1h), the forgotten snapshot comes back,
# prune again: the marked packs must be recovered (second line: then forget everything and prune instantly)
RECOVER_REPLAYS = [
    "3 2000 256 6 0 101 3 0 102 3 1 1 2 0 0 0 0 0 0 0 1 0 0 0 0 3600 4 0 2 0 0 0 0 0 0 0 1 0 0 0 0 3600",
    "3 2000 256 8 0 101 3 0 102 3 1 1 2 0 0 0 0 0 0 0 1 0 0 0 0 3600 4 0 2 0 0 0 0 0 0 0 1 0 0 0 0 3600 1 3 2 1 0 1 0 1 0 0 1 0 0 0 0 0",
]


P_MARK = "2 0 0 0 0 0 0 0 1 0 0 0 0 3600"       # prune: no instant-delete, max_unused 0%, max_repack unlimited, keep_delete 1h
TWO_PHASE_REPLAYS = [
    # (a) backup, forget it, prune (all packs only marked); add a file + backup (old content duplicated into a fresh
    #     pack next to the new file), remove the file + backup, forget the middle snapshot, prune: the fresh pack is
    #     repacked while the old copies sit in marked packs
    "11 20000 256 7 0 1 0 1 1 %s 8 700 7 1 1 %s" % (P_MARK, P_MARK),
    "12 600 64 7 0 1 0 1 1 %s 8 300 7 1 1 %s" % (P_MARK, P_MARK),
    # (b) a pack OLDER than keep_delete (3 s) becomes unused; prune marks it; a second prune right away must not
    #     delete it (keep-delete counts from the marking)
    "13 20000 256 7 0 1 0 8 600 7 9 3500 1 2 2 0 0 0 0 0 0 0 1 0 0 0 0 3 2 0 0 0 0 0 0 0 1 0 0 0 0 3",
    # (c) ALL snapshots forgotten, prune only marks; the snapshot comes back; prune must recover its packs
    "14 4096 256 5 0 1 2 1 1 %s 4 0 %s" % (P_MARK, P_MARK),
    "15 600 64 8 0 1 2 0 2 2 1 3 %s 4 1 %s 4 0 %s" % (P_MARK, P_MARK, P_MARK),
]


# prune with fast-repack, max_unused 0%, max_repack unlimited, no keep times: a backup, the source is mutated in a few
# places and backed up again, the first snapshot is forgotten: the packs of the first backup now hold unused blobs
# BETWEEN used ones, and the fast repack (BlobCopier::copy_fast: one coalesced read spanning the holes, blobs cut
# out of it by offset) must hand each kept blob its own bytes.  (The random histories reach this only by chance; these four and the ones of gen_fast_history do so with
# 5-12 mutations between the two backups - found to expose a copy_fast that ignores the holes in 33 of 80 tries.)
FAST_REPACK_REPLAYS = [
    "101 20000 512 4 0 1001 0 0 2001 7 1 1 2 0 0 1 0 0 0 0 1 0 0 0 0 0",
    "104 4096 64 4 0 1004 3 0 2004 7 1 1 2 0 0 1 0 0 0 0 1 0 0 0 0 0",
    "109 20000 256 4 0 1009 3 0 2009 7 1 1 2 0 0 1 0 0 0 0 1 0 0 0 0 0",
    "115 20000 256 4 0 1015 2 0 2015 11 1 1 2 0 0 1 0 0 0 0 1 0 0 0 0 0",
]


def gen_fast_history(rng):
    """backup, 5-12 mutations, backup, forget the first snapshot, prune(fast_repack, max_unused 0%, max_repack unlimited)"""
    return "%d %d %d 4 0 %d %d 0 %d %d 1 1 2 %d 0 1 0 0 0 0 1 0 0 0 0 0" % (
        rng.randint(1, 2 ** 31), rng.choice([20000, 4096, 20000]), rng.choice([64, 256, 512]),
        rng.randint(1, 2 ** 31), rng.randint(0, 3), rng.randint(1, 2 ** 31), rng.randint(5, 12), rng.randint(0, 1))


def run(ctx):
    rng, cov = ctx.rng, ctx.coverage
    # 1. facts from the source
    meta, extract_fail = vlib.regen_extracted("C02")
    # 2. theorems
    r = vlib.proof_stage(ctx)
    if extract_fail:
        r["ok"] = False
        r["failures"].append("fact extraction from prune.rs failed: " + extract_fail)
    cov["typed_keys_in_source"] = bool(meta and meta.get("typed_keys"))
    cov["delete_marks_restamped_at_release_in_source"] = bool(meta and meta.get("marks_restamped"))
    cov["trusted_base"] += ["props/C02/extract.py (translator of the decide_packs match, the prune_repository to_do match, check_existing_packs and filter_index_files predicates into Extracted.v)",
                            "hook crates/core/src/verif_hooks/c02_planner.rs (calls the planner steps in the order of PrunePlan::from_prune_options with a supplied clock)"]
    ctx.assumptions += [
        "blob identity in the theorems is the key the planner uses (b_key, regenerated from the source): (type, id) since the fix commit; against an untyped key the theorems prune_keeps_used_typed / planner_key_is_typed no longer check and the collision history fails on the real code",
        "packs are type-homogeneous (the repacker writes every blob under the type of the source PACK; check verifies uniform types per pack)",
        "the index tells the truth about pack contents (C08/C17): blob content is modelled as a function of (pack id, index entry)",
        "the repackers deliver every blob they are handed into some freshly named pack that is then indexed (packer_ok: hypothesis of the theorems, universally quantified); pack ids of new packs do not collide with existing packs",
        "decide_repack is covered by the theorems as an ARBITRARY assignment of Keep/Repack to the repack candidates; its limits/ordering/resize logic is modelled executably and validated by the correspondence only",
        "sort_unstable_by_key on candidates with equal keys: the model uses a stable order; cases with equal keys are compared on everything except the Keep/Repack split of the candidates",
        "u16/u32 counters of PackInfo and u64 statistics do not overflow (packs with < 65536 blobs, < 4 GiB)",
        "time: whole seconds, keep_pack/keep_delete are plain durations in seconds (no calendar units); plan time = execution time (slow prune: C10)",
        "max_unused percentage >= 100 panics in decide_repack (C18 finding); generated options stay below 100",
        "AEAD/zstd/SHA-256 by hypothesis (repack copies the plaintext blob)",
    ]
    # 3. builds
    model = None
    try:
        model = vlib.build_model("C02")
    except RuntimeError as e:
        if r["ok"]:
            r["ok"] = False; r["failures"].append("extracted model no longer builds: " + str(e)[-500:])
    impl = vlib.build_harness("c02")
    e2e = vlib.build_harness("c02_e2e")
    # 4. planner-level correspondence
    ncases = 30000 if ctx.thorough() else 4000
    cases = []
    corpus = os.path.join(ctx.pdir, "corpus.txt")
    while len(cases) < ncases:
        cases.append(gen_case(rng, big=(len(cases) % 40 == 7)))
    lines = [c[0] for c in cases]
    if ctx.replay:
        rp = json.load(open(ctx.replay))
        if "case" in rp.get("witness", {}):
            lines = [rp["witness"]["case"]]; cases = [(lines[0], None)]
    impl_out = run_lines(impl, lines, "impl")
    mism, hist, nontriv, weak, typed_viol, samples, cover_viol, option_viol = [], {}, set(), 0, [], [], [], []
    boundary = {"mark_time+keep_delete==now": 0, "pack_time+keep_pack==now": 0, "copies>=255": 0}
    if model:
        model_out = run_lines(model, lines, "model")
        for (line, st), io, mo in zip(cases, impl_out, model_out):
            mpart, _, diag = mo.partition(" | ")
            io = io.strip(); mpart = mpart.strip()
            key = io.split()[0] + ("_" + io.split()[1] if io.startswith("err") else "")
            hist["result_" + key] = hist.get("result_" + key, 0) + 1
            if st:
                for p in st["packs"].values():
                    if p["time"] is not None and p["marked"] and p["time"] + st["keep_delete"] == st["now"]: boundary["mark_time+keep_delete==now"] += 1
                    if p["time"] is not None and not p["marked"] and p["time"] + st["keep_pack"] == st["now"]: boundary["pack_time+keep_pack==now"] += 1
                if st["big"]: boundary["copies>=255"] += 1
            if st and io.startswith("ok"):
                lost_i = impl_cover_oracle(st, parse_out(io))
                if lost_i: cover_viol.append((line, lost_i, io))
                if mpart.startswith("ok") and diag and parse_out(io)["stats"][:11] == parse_out(mpart)["stats"][:11]:
                    ob = option_oracle(st, parse_out(io), parse_out("ok " + diag))
                    if ob: option_viol.append((line, ob, io))
            if io != mpart:
                md = parse_out("ok " + diag) if diag else {}
                ok_weak = False
                if io.startswith("ok") and mpart.startswith("ok") and md.get("ties") == ["1"]:
                    a, b = parse_out(io), parse_out(mpart)
                    cands = {x.split(":")[0] for x in md["x"] if not x.endswith(":-")}
                    da = {x.split(":")[1]: x for x in a["d"]}; db = {x.split(":")[1]: x for x in b["d"]}
                    ok_weak = (set(da) == set(db) and a["mod"] == b["mod"] and a["unref"] == b["unref"]
                               and all((da[k] == db[k]) or (k in cands and da[k].split(":")[3] in ("Keep", "Repack")) for k in da)
                               and a["stats"][:11] == b["stats"][:11])
                if ok_weak: weak += 1
                else:
                    mism.append({"case": line, "impl": io, "model": mpart}); continue
            if not mpart.startswith("ok"): continue
            mp = parse_out(mpart); md = parse_out("ok " + diag)
            tds = [x.split(":")[3] for x in parse_out(io)["d"]]
            for x in tds: hist["todo_" + x] = hist.get("todo_" + x, 0) + 1
            for x in md["x"]:
                c = x.split(":")[3]
                if c != "-": hist["cand_" + c] = hist.get("cand_" + c, 0) + 1
            if st and st["used"] and any(x not in ("Keep",) for x in tds): nontriv.add(line)
            if st:
                lost, coll = typed_oracle(st, mp, md)
                if lost:
                    typed_viol.append((line, lost, coll))
            if len(samples) < 3 and st and 2 <= len(st["packs"]) <= 4 and len(line) < 400:
                samples.append({"case": line, "impl": io, "model_diag": diag})
    # 4b. the real EXECUTOR (Repository::prune on a synthetic repository) on plans without Repack: what it writes into
    #     the new index (sections, TIMES) and what it removes, against the model's `execute` and against the theorems
    nexec = 6000 if ctx.thorough() else 1200
    xcases = [gen_case(rng, big=False, no_repack=True) for _ in range(nexec)]
    xmism, xviol, xrun = [], [], 0
    if model and not ctx.replay:
        xl = [c[0] for c in xcases]
        xi = run_lines(impl, xl, "ximpl", mode="exec")
        xm = run_lines(model, xl, "xmodel")
        for (line, st), io, mo in zip(xcases, xi, xm):
            ipart, _, xs = io.partition(" | ")
            mpart, _, diag = mo.partition(" | ")
            if not ipart.startswith("ok") or not xs: continue
            xrun += 1
            a = parse_out(ipart.strip()); x = parse_out("ok " + xs)
            if "xerr" in x:
                xviol.append((line, ["the executor failed on a plan the planner accepted: " + ",".join(x["xerr"])], io)); continue
            bad = exec_oracle(st, a, x)
            if bad: xviol.append((line, bad, io)); continue
            if mpart.strip() != ipart.strip(): continue            # planner mismatch: reported by stage 4
            md = parse_out("ok " + diag)
            same = (sorted(md.get("newpacks", [])) == sorted(x.get("xp", [])) and same_entries(md.get("newdel", []), x.get("xd", []), st["now"])
                    and sorted(set(md.get("removed", []))) == sorted(x.get("xrm", [])) and md.get("kept_files") == x.get("xkept"))
            if not same: xmism.append({"case": line, "impl": xs, "model": diag})
    cov.update({"executor_cases_run_on_real_prune_repository": xrun, "executor_model_mismatches": len(xmism),
                "executor_oracle_violations": len(xviol), "impl_plan_cover_oracle_violations": len(cover_viol),
                "impl_option_semantics_violations": len(option_viol)})
    cov.update({"planner_cases": len(cases), "model_impl_mismatches": len(mism), "compared_weakly_because_of_equal_sort_keys": weak,
                "boundaries_hit": boundary, "typed_oracle_losses_on_model": len(typed_viol)})
    # 5. end-to-end histories on the real library
    nh = 150 if ctx.thorough() else 30
    maxsteps = 8
    hl = [COLLISION_REPLAY] + RECOVER_REPLAYS + TWO_PHASE_REPLAYS + FAST_REPACK_REPLAYS
    for k in range(nh):
        hl.append(gen_history(rng, maxsteps, with_collision=(k % 7 == 3)))
    rng_fast = __import__("random").Random(ctx.seed * 7919 + 17)      # own stream: the histories above stay what they were
    for k in range(40 if ctx.thorough() else 8):
        hl.append(gen_fast_history(rng_fast))
    if ctx.replay:
        rp = json.load(open(ctx.replay))
        if "history" in rp.get("witness", {}): hl = [rp["witness"]["history"]]
    trace_path = os.path.join(vlib.BUILD, "C02", "e2e_trace_%d.txt" % os.getpid())
    if os.path.exists(trace_path): os.remove(trace_path)
    e2e_out = run_lines(e2e, hl, "e2e", timeout=3400, pin=True, env={"C02_E2E_TRACE": trace_path})
    # 5b. every prune of the histories was planned through the hook on the REAL repository (real index files, real
    #     packs, the used set walked by the harness; the plan is executed only if it agrees with the plan of the real
    #     find_used_blobs) and its outcome recorded: the model must predict decisions, the sections and mark times of
    #     the new index, removed packs and which blobs the repackers wrote (modulo names of new packs)
    tmism, tcmp, trepack = [], 0, 0
    if model and os.path.exists(trace_path):
        tl = [l.rstrip("\n") for l in open(trace_path) if " || " in l]
        os.remove(trace_path)
        tm = run_lines(model, [l.split(" || ")[0] for l in tl], "tmodel") if tl else []
        for l, mo in zip(tl, tm):
            case, obs = l.split(" || ")
            x = parse_out("ok " + obs)
            mpart, _, diag = mo.partition(" | ")
            if not mpart.startswith("ok"):
                tmism.append({"case": case, "real": obs, "model": mo[:300]}); continue
            a, md = parse_out(mpart.strip()), parse_out("ok " + diag)
            tcmp += 1
            if any(d.endswith(":Repack") for d in x["d"]): trepack += 1
            old = lambda l_: sorted(e for e in l_ if int(e.split(":")[0]) < 9000000)
            same = (a["d"] == x["d"] and a["rw"] == x["rw"] and old(md.get("newpacks", [])) == sorted(x.get("xp", []))
                    and same_entries(md.get("newdel", []), x.get("xd", []), int(case.split()[0]))
                    and sorted(set(md.get("removed", [])), key=int) == x.get("xrm", [])
                    and sorted("%s:%s" % (c.split(":")[2], c.split(":")[1]) for c in md.get("copied", [])) == sorted(x.get("xnew", []))
                    and md.get("kept_files") == x.get("xkept"))
            if not same: tmism.append({"case": case, "real": obs, "model": mpart.strip()[:600] + " | " + diag[:900]})
    cov.update({"e2e_prunes_compared_with_model_on_real_packs": tcmp, "of_which_with_repack": trepack, "e2e_prune_model_mismatches": len(tmism)})
    e2e_fail, e2e_steps, backup_side, e2e_obs = [], 0, 0, {}
    for h, o in zip(hl, e2e_out):
        f = dict(x.split("=", 1) for x in o.split()[1:] if "=" in x)
        if o.startswith("FAIL") and f.get("op") in ("0", "3", "5", "6") and f.get("lost_collide") == "1":
            # a BACKUP run that stores a tree blob and a data blob of equal id in one run drops one of them
            # (untyped Indexer.indexed, DESIGN 7 row 6: C01/C07) - not a forget/prune loss
            backup_side += 1
            continue
        if o.startswith("ok"):
            e2e_steps += int(f.get("steps", 0))
            for k in ("prunes", "packs_removed", "recovered", "repacked", "marks_checked"):
                e2e_obs[k] = e2e_obs.get(k, 0) + int(f.get(k, 0))
        else:
            e2e_fail.append((h, o, f))
    # a failing history is re-run once: a defect of prune/forget is deterministic and fails again; a failure that
    # does not reproduce (e.g. the `index still in use` race inside check under load) is counted, not reported
    flaky = 0
    if e2e_fail:
        again = run_lines(e2e, [h for h, _, _ in e2e_fail], "e2e_confirm", timeout=3400, pin=True)
        confirmed = []
        for (h, o, f), o2 in zip(e2e_fail, again):
            if o2.startswith("ok"): flaky += 1
            else: confirmed.append((h, o, f))
        e2e_fail = confirmed
    cov["e2e_failures_not_reproduced_on_rerun"] = flaky
    cov.update({"evaluations": len(cases) + len(hl), "distinct_nontrivial": len(nontriv),
                "rule": "planner cases = 1-4 index files x up to 12 packs (plus packs holding 254-300 copies of one blob) over a small blob universe: duplicates across and inside packs, packs listed twice / both marked and unmarked, marked packs at mark_time+keep_delete in {now-1,now,now+1}, pack times at the keep_pack boundary, missing time, partially used / unused / unreferenced / missing / wrong-size packs, every option; non-trivial = some used id and some pack not simply kept; distinct by case text.  e2e = histories of <= %d steps of {backup of a mutated source, forget subset, resurrect+prune, prune(random options)} with pack sizes 600-20000 and 64-512 byte chunks" % maxsteps,
                "samples": samples, "distribution": hist,
                "traces_validated_against_impl": len(cases) + len(hl), "e2e_histories": len(hl), "e2e_steps_verified": e2e_steps,
                "e2e_observed_counters_may_vary_by_thread_timing": e2e_obs,
                "e2e_failures": len(e2e_fail), "e2e_backup_side_collisions_skipped": backup_side,
                "disagreements_checked": len(mism) + len(typed_viol) + len(e2e_fail) + len(xmism) + len(xviol) + len(cover_viol)})
    # 6. decide
    for h, o, f in e2e_fail[:20]:
        sig = SIG_COLLISION if f.get("lost_collide") == "1" else None
        w = f.get("what", o[:40])
        what = {"early_delete": "a pack that prune had only marked was deleted before keep-delete had passed",
                "mark_time": "prune writes a mark time that is not the time of the marking run (keep-delete is not counted from the marking)",
                "index_entry_lost": "a marked pack lost its index entry (it can never be brought back)",
                "plan_differs": "the plan built from the real find_used_blobs differs from the planner run on the blobs reachable from the remaining snapshots (used-id set wrong)"}.get(w)
        ctx.violation(what or "after %s a remaining snapshot is no longer intact (%s)" % ("prune" if f.get("op") == "2" else "step kind " + f.get("op", "?"), w),
                      {"history": h, "result": o, "how_to_replay": "echo '<history>' | <target>/debug/c02_e2e -   (format: harness/src/bin/c02_e2e.rs)"}, signature=sig)
    for line, lost_i, io in cover_viol[:10]:
        ctx.violation("prune plan loses a referenced blob: it is neither in a pack that is kept/recovered nor handed to the repacker",
                      {"case": line, "lost_type_id": lost_i, "impl_plan": io[:1500],
                       "how_to_replay": "echo '<case>' | <target>/debug/c02 -   (format: harness/src/bin/c02.rs)"})
    for line, ob, io in option_viol[:10]:
        ctx.violation("prune plan does not honour a repack option: " + re.sub(r"\d+", "N", ob[0]),
                      {"case": line, "all": ob[:8], "impl_plan": io[:1500],
                       "how_to_replay": "echo '<case>' | <target>/debug/c02 -   (format: harness/src/bin/c02.rs)"})
    for line, bad, io in xviol[:10]:
        ctx.violation("prune execution breaks the two-phase delete: " + re.sub(r"\d+", "N", bad[0]),
                      {"case": line, "all": bad[:8], "impl": io[:1500],
                       "how_to_replay": "echo '<case>' > f; <target>/debug/c02 f exec   (format: harness/src/bin/c02.rs)"})
    for line, lost, coll in typed_viol[:20]:
        ctx.violation("model execution of prune loses a referenced (type,id) blob",
                      {"case": line, "lost": lost, "how_to_replay": "echo '<case>' | build/C02/model -   and   <target>/debug/c02 -"},
                      signature=SIG_COLLISION if coll else None)
    if tmism and not ctx.violations:
        ctx.violation("correspondence broken: the model does not predict what the real prune did on a real repository (%d of %d prunes of the e2e histories): decisions, new index sections / mark times, removed packs or repacked blobs differ; check and restore are clean" % (len(tmism), tcmp),
                      {"correspondence": "props/C02 Model.prune_with vs hook plan + Repository::prune on the e2e repositories", "first": tmism[0]}, no_input=True)
    if xmism and not ctx.violations:
        ctx.violation("correspondence broken: the model's execute disagrees with the real prune_repository on what is written/removed (%d of %d plans); the theorem statements still hold on the real output" % (len(xmism), xrun),
                      {"correspondence": "props/C02 Model.execute vs Repository::prune on a synthetic repository", "first": xmism[0]}, no_input=True)
    if mism and not ctx.violations:
        ctx.violation("correspondence broken: extracted model of the prune planner disagrees with the implementation (%d of %d cases); no data loss found by the oracle" % (len(mism), len(cases)),
                      {"correspondence": "props/C02 Model.plan vs PrunePlan (hook c02::plan)", "first": mism[0]}, no_input=True)
    elif mism:
        for v in ctx.violations: v.setdefault("correspondence_mismatches", len(mism))
    vlib.finish_broken_obligations(ctx)
