(* prelude: zn nat *)
(* C06 driver: same case lines as harness/src/bin/c06.rs.
   argv[2] = "debug" | "release" (overflow-checked or wrapping usize arithmetic).
   Output: the implementation-format result, then " | " and oracle fields. *)
let hexval c = match c with
  | '0'..'9' -> Char.code c - 48 | 'a'..'f' -> Char.code c - 87 | 'A'..'F' -> Char.code c - 55
  | _ -> failwith "hex"
let small = Array.init 256 n_of_int
let bytes_of_hex s =
  if s = "-" then [] else begin
    let n = String.length s / 2 in
    let r = ref [] in
    for i = n - 1 downto 0 do
      r := small.(16 * hexval s.[2*i] + hexval s.[2*i+1]) :: !r
    done; !r end
let n_of_hex s = (* any width: build the positive from its bits *)
  let bits = ref [] in   (* most significant first *)
  String.iter (fun c -> let v = hexval c in
    bits := !bits @ [v land 8 <> 0; v land 4 <> 0; v land 2 <> 0; v land 1 <> 0]) s;
  let rec strip = function false :: t -> strip t | l -> l in
  match strip !bits with
  | [] -> N0
  | _ :: rest -> Npos (List.fold_left (fun p b -> if b then XI p else XO p) XH rest)
let rec llen acc = function [] -> acc | _ :: t -> llen (acc+1) t
let lens cs = String.concat "" (List.map (fun c -> " " ^ string_of_int (llen 0 c)) cs)
let rd_sched t = let n = ni t in
  ntimes n (fun () -> let k = ni t in if k = 0 then Interrupted else Short (n_of_int k))
let b2i b = if b then 1 else 0
let panic_str = function PMinSizeSub -> "sub-overflow" | PWindowSub -> "sub-overflow" | PWindowSlice -> "slice-index"

let case md line =
  let t = toks line in
  match next t with
  | "P" ->
    let a = ni t in let mi = ni t in let ma = ni t in
    Printf.sprintf "ok %d" (b2i (rabin_accepts (n_of_int a) (n_of_int mi) (n_of_int ma)))
  | "R" ->
    let poly = n_of_hex (next t) in
    let avg = ni t in let mi = ni t in let ma = ni t in
    let hint = ni t in
    let sched = rd_sched t in
    let data = bytes_of_hex (next t) in
    let want_cuts = not (more t && next t = "c0") in
    let p = { c_poly = poly; c_avg = n_of_int avg; c_min = n_of_int mi; c_max = n_of_int ma } in
    if not (rabin_accepts p.c_avg p.c_min p.c_max) || not (poly_accepts poly) then "err:rejected | pok=0"
    else begin
      let r = match chunks_impl md p (n_of_int hint) data sched with
        | Ok cs -> Printf.sprintf "ok %d%s" (b2i (List.concat cs = data)) (lens cs)
        | Panic k -> "panic:" ^ panic_str k
        | OutOfFuel -> "model-out-of-fuel" in
      let pok = params_ok p in
      if pok && want_cuts then begin
        let cs = cuts p data in
        Printf.sprintf "%s | pok=1 cuts=%s bounds=%d concat=%d" r (String.trim (lens cs))
          (b2i (bounds_ok p.c_min p.c_max cs)) (b2i (List.concat cs = data))
      end else r ^ (if pok then " | pok=1" else " | pok=0")
    end
  | "F" ->
    let size = ni t in let hint = ni t in
    let sched = rd_sched t in
    let data = bytes_of_hex (next t) in
    if not (fixed_accepts (n_of_int size)) then "err:rejected | pok=0"
    else begin
      let r = match fixed_impl (n_of_int size) (n_of_int hint) data sched with
        | Some cs -> Printf.sprintf "ok %d%s" (b2i (List.concat cs = data)) (lens cs)
        | None -> "model-out-of-fuel" in
      if size > 0 then
        let cs = fixed_cuts (n_of_int size) data in
        Printf.sprintf "%s | pok=1 cuts=%s bounds=%d concat=%d" r (String.trim (lens cs))
          (b2i (fixed_bounds_ok (n_of_int size) cs)) (b2i (List.concat cs = data))
      else r ^ " | pok=0"
    end
  | "W" ->
    (* window check: W <poly hex> <avg> <min> <max> <L> <data hex>: hash of the window at length L
       and the table-free fingerprint of the same window bytes *)
    let poly = n_of_hex (next t) in
    let avg = ni t in let mi = ni t in let ma = ni t in
    let l = ni t in
    let data = bytes_of_hex (next t) in
    let p = { c_poly = poly; c_avg = n_of_int avg; c_min = n_of_int mi; c_max = n_of_int ma } in
    let w = win_at (tab_of p) p data (n_of_int l) in
    Printf.sprintf "ok %d %d" (int_of_n w.a_hash) (int_of_n (fp_direct poly w.a_fifo))
  | "D" ->
    (* D <poly hex> <window hex>: low 30 bits of the table-free fingerprint (pmod of the window bytes) *)
    let poly = n_of_hex (next t) in
    let w = bytes_of_hex (next t) in
    let rec low p d = if d = 0 then 0 else match p with
      | XH -> 1 | XO q -> 2 * low q (d - 1) | XI q -> 2 * low q (d - 1) + 1 in
    (match fp_direct poly w with N0 -> "ok 0" | Npos q -> Printf.sprintf "ok %d" (low q 30))
  | k -> "model-failure:unknown case kind " ^ k

let () =
  let md = if Array.length Sys.argv > 2 && Sys.argv.(2) = "release" then Release else Debug in
  main_loop (case md)
