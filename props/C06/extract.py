"""C06 fact extractor: regenerates props/C06/coq/Extracted.v from the current source:
  * chunker/rabin.rs     BUF_SIZE (and KB), the literal of the prefill slice
                         `vec[vec.len() - 64..vec.len()]`, the error conditions of
                         `check_rabin_params` (in source order, translated to booleans on N),
                         the initial `pos`/`buf` of `ChunkIter::new`, `split_mask = chunk_size - 1`;
  * chunker.rs           window bits of `Rabin64::new_with_polynom(6, &poly)`;
  * repofile/configfile.rs  the three default chunk sizes;
  * commands/config.rs   whether `ConfigOptions::apply` validates a fixed-size chunker at all.
Fails loudly (ExtractError) when an item no longer has the expected shape."""
import re, sys, os
sys.path.insert(0, os.path.join(os.path.dirname(__file__), "..", "..", "lib"))
from rustscan import *

VARS = {"chunk_size": "cs", "chunk_min_size": "mn", "chunk_max_size": "mx", "degree": "d"}


class P:
    """precedence-climbing translator of a Rust integer/boolean expression into Coq (N, bool)."""
    PREC = [("||",), ("&&",), ("==", "!=", "<", ">", "<=", ">="), ("|",), ("^",), ("&",), ("<<", ">>"),
            ("+", "-"), ("*", "/", "%")]

    def __init__(self, s, consts):
        self.toks = re.findall(r"[A-Za-z_][\w:]*|\d[\d_]*|\|\||&&|==|!=|<=|>=|<<|>>|[-+*/%&|^<>()!.,]", s)
        if "".join(self.toks) != re.sub(r"\s+", "", s):
            raise ExtractError("unrecognised token in condition: " + s)
        self.i = 0
        self.consts = consts

    def peek(self):
        return self.toks[self.i] if self.i < len(self.toks) else None

    def eat(self, t=None):
        x = self.peek()
        if x is None or (t is not None and x != t):
            raise ExtractError("condition not understood near token %r" % x)
        self.i += 1
        return x

    def expr(self, lvl=0):
        if lvl == len(self.PREC):
            return self.atom()
        a = self.expr(lvl + 1)
        while self.peek() in self.PREC[lvl]:
            op = self.eat()
            b = self.expr(lvl + 1)
            a = self.bin(op, a, b)
        return a

    def bin(self, op, a, b):
        m = {"||": "(%s || %s)", "&&": "(%s && %s)", "==": "(%s =? %s)", "!=": "(negb (%s =? %s))",
             "<": "(%s <? %s)", "<=": "(%s <=? %s)", "&": "(N.land %s %s)", "|": "(N.lor %s %s)",
             "^": "(N.lxor %s %s)", "+": "(%s + %s)", "-": "(%s - %s)", "*": "(%s * %s)",
             "<<": "(N.shiftl %s %s)", ">>": "(N.shiftr %s %s)", "/": "(%s / %s)", "%": "(%s mod %s)"}
        if op == ">":
            return "(%s <? %s)" % (b, a)
        if op == ">=":
            return "(%s <=? %s)" % (b, a)
        return m[op] % (a, b)

    def atom(self):
        t = self.eat()
        if t == "(":
            e = self.expr()
            self.eat(")")
        elif t == "!":
            e = "(negb %s)" % self.atom()
            return e
        elif re.fullmatch(r"\d[\d_]*", t):
            e = t.replace("_", "")
        elif t in VARS:
            e = VARS[t]
        else:
            name = t.split("::")[-1]
            if name not in self.consts:
                raise ExtractError("condition mentions unknown name " + t)
            e = name
        while self.peek() == ".":
            self.eat()
            f = self.eat()
            if f == "is_power_of_two":
                # usize::is_power_of_two: x != 0 && x & (x - 1) == 0  (N's `-` truncates at 0)
                self.eat("(")
                self.eat(")")
                e = "(negb (%s =? 0) && (N.land %s (%s - 1) =? 0))" % (e, e, e)
                continue
            if f not in ("max", "min"):
                raise ExtractError("unknown method ." + f)
            self.eat("(")
            b = self.expr()
            self.eat(")")
            e = "(N.%s %s %s)" % (f, e, b)
        return e


def conditions(body, consts):
    """`if C { return Err(..) } ... Ok(())` -> list of (C text, Coq text)."""
    res, i = [], 0
    b = body
    while True:
        m = re.compile(r"\s*if\b").match(b, i)
        if not m:
            break
        j = b.find("{", m.end())
        cond = b[m.end():j].strip()
        e = match_brace(b, j)
        blk = b[j + 1:e]
        if "return Err" not in blk:
            raise ExtractError("check_rabin_params: an `if` arm does not return an error")
        p = P(cond, consts)
        coq = p.expr()
        if p.peek() is not None:
            raise ExtractError("trailing tokens in condition " + cond)
        res.append((" ".join(cond.split()), coq))
        i = e + 1
    if re.sub(r"\s+", "", b[i:]) != "Ok(())":
        raise ExtractError("check_rabin_params does not end with Ok(()) after its checks: %r" % b[i:].strip()[:80])
    return res


def repo_cdc(repo):
    """directory of the vendored rustic_cdc the lock file names (None if not found)."""
    import glob
    try:
        lock = open(repo + "/Cargo.lock").read()
    except FileNotFoundError:
        return None
    m = re.search(r'name = "rustic_cdc"\s*\nversion = "([^"]+)"', lock)
    if not m:
        return None
    c = glob.glob(os.path.expanduser("~/.cargo/registry/src/*/rustic_cdc-%s" % m.group(1)))
    return c[0] if c else None


def gen(repo):
    rab = read(repo, "crates/core/src/chunker/rabin.rs")
    chk = read(repo, "crates/core/src/chunker.rs")
    cfg = read(repo, "crates/core/src/repofile/configfile.rs")
    cmd = read(repo, "crates/core/src/commands/config.rs")
    fix = read(repo, "crates/core/src/chunker/fixed_size.rs")
    consts = {}
    # every `const NAME: usize = expr;` in rabin.rs, evaluated in order
    cm = re.search(r"\bmod\s+constants\s*\{", rab)
    if not cm:
        raise ExtractError("mod constants not found in chunker/rabin.rs")
    cmod = rab[cm.end() - 1:match_brace(rab, cm.end() - 1)]
    for m in re.finditer(r"\bconst\s+(\w+)\s*:\s*(?:usize|i32)\s*=\s*([^;]+);", cmod):
        e = m.group(2)
        for k, v in consts.items():
            e = re.sub(r"\b(?:constants::)?%s\b" % k, str(v), e)
        consts[m.group(1)] = int_expr(e)
    if "BUF_SIZE" not in consts:
        raise ExtractError("BUF_SIZE not found in chunker/rabin.rs")
    new = fn_body(rab, "new")
    if not re.search(r"buf:\s*vec!\[0;\s*constants::BUF_SIZE\]", new) or not re.search(r"pos:\s*constants::BUF_SIZE\b", new):
        raise ExtractError("ChunkIter::new no longer starts with an empty BUF_SIZE buffer (buf/pos)")
    if not re.search(r"split_mask:\s*u64\s*=\s*chunk_size\s*-\s*1\s*;", new):
        raise ExtractError("split_mask is no longer chunk_size - 1")
    nxt = fn_body(rab, "next")
    m = re.search(r"vec\[\s*vec\.len\(\)\s*-\s*(\d+)\s*\.\.\s*vec\.len\(\)\s*\]", nxt)
    if not m:
        raise ExtractError("prefill slice vec[vec.len() - N..vec.len()] not found in next()")
    prefill = int(m.group(1))
    for pat, what in [(r"min_size\s*-=\s*open_buf_len", "min_size -= open_buf_len"),
                      (r"\.take\(\s*min_size\s+as\s+u64\s*\)\s*\.read_to_end\(", "take(min_size).read_to_end"),
                      (r"if\s+size\s*<\s*min_size", "size < min_size"),
                      (r"vec\.len\(\)\s*>=\s*self\.max_size", "vec.len() >= self.max_size"),
                      (r"\(self\.rabin\.hash\s*&\s*self\.split_mask\)\s*==\s*0", "(hash & split_mask) == 0"),
                      (r"self\.buf\.truncate\(size\)", "buf.truncate(size)"),
                      (r"ErrorKind::Interrupted\s*=>\s*continue", "Interrupted => continue")]:
        if not re.search(pat, nxt):
            raise ExtractError("ChunkIter::next: statement `%s` not found" % what)
    m = re.search(r"Rabin64::new_with_polynom\(\s*(\d+)\s*,", chk)
    if not m:
        raise ExtractError("Rabin64::new_with_polynom(<bits>, ..) not found in chunker.rs")
    wbits = int(m.group(1))
    conds = conditions(fn_body(rab, "check_rabin_params"), consts)
    # polynomial check: `check_rabin_polynomial(poly)` (degree range) called in from_config BEFORE the
    # tables are computed (Rabin64::new_with_polynom loops forever on a zero polynomial)
    poly_conds = None
    mcall = re.search(r"check_rabin_polynomial\(\s*poly\s*\)\s*\?", chk)
    mnew = re.search(r"Rabin64::new_with_polynom\(", chk)
    if mcall:
        if mcall.start() > mnew.start():
            raise ExtractError("check_rabin_polynomial is called after Rabin64::new_with_polynom")
        pb = fn_body(rab, "check_rabin_polynomial")
        mm = re.match(r"\s*let\s+degree\s*=\s*poly\.degree\(\)\s*;", pb)
        if not mm:
            raise ExtractError("check_rabin_polynomial does not start with `let degree = poly.degree();`")
        poly_conds = conditions(pb[mm.end():], consts)
        dsrc = read(repo_cdc(repo), "src/polynom.rs") if repo_cdc(repo) else None
        if dsrc is not None and not re.search(r"63\s*-\s*self\.leading_zeros\(\)\s+as\s+i32", dsrc):
            raise ExtractError("rustic_cdc Polynom64::degree is no longer 63 - leading_zeros")
    defaults = {}
    for n in ("DEFAULT_CHUNK_SIZE", "DEFAULT_CHUNK_MIN_SIZE", "DEFAULT_CHUNK_MAX_SIZE"):
        defaults[n] = int_expr(const_value(cfg, n))
    # fixed-size chunker: is size 0 rejected anywhere (apply or from_config)?
    apply_body = fn_body(cmd, "apply")
    fixed_checked_in_apply = bool(re.search(r"check_fixed_size_params|FixedSize", apply_body))
    fixed_checked_in_iter = bool(re.search(r"check_fixed_size_params", chk))
    fnext = fn_body(fix, "next")
    if not re.search(r"\.take\(\s*self\.size\s+as\s+u64\s*\)\s*\.read_to_end\(", fnext) or \
       not re.search(r"if\s+vec\.is_empty\(\)\s*\{\s*None\s*\}", fnext):
        raise ExtractError("fixed_size::ChunkIter::next no longer has the expected shape")
    fixed_min = 0
    if fixed_checked_in_apply or fixed_checked_in_iter:
        fb = None
        for src in (chk, fix, rab, cmd):
            try:
                fb = fn_body(src, "check_fixed_size_params"); break
            except ExtractError:
                pass
        if fb is None or not re.search(r"chunk_size\s*==\s*0|size\s*==\s*0", fb):
            raise ExtractError("fixed-size validation present but not of the shape `size == 0 => Err`")
        fixed_min = 1
    out = ["(* GENERATED by props/C06/extract.py from crates/core/src/chunker/rabin.rs, chunker.rs,",
           "   chunker/fixed_size.rs, repofile/configfile.rs, commands/config.rs - do not edit *)",
           "From Verif.Base Require Import Tactics.",
           "Local Open Scope N_scope.", ""]
    for k, v in consts.items():
        if k not in ("RAND_POLY_MAX_TRIES",):
            out.append("Definition %s : N := %d." % (k, v))
    out.append("Definition PREFILL_SLICE : N := %d.   (* vec[vec.len() - %d..vec.len()] *)" % (prefill, prefill))
    out.append("Definition WINDOW_BITS : N := %d.     (* Rabin64::new_with_polynom(%d, &poly) *)" % (wbits, wbits))
    for k, v in defaults.items():
        out.append("Definition %s : N := %d." % (k, v))
    out.append("")
    out.append("(* error conditions of check_rabin_params, in source order:")
    for c, _ in conds:
        out.append("     " + c)
    out.append("   (usize subtraction is N's truncated subtraction here; chunk_size = 0 is outside the")
    out.append("   domain of the theorems, see NOTES.md) *)")
    out.append("Definition rabin_param_errors (cs mn mx : N) : list bool :=\n  [ " + ";\n    ".join(c for _, c in conds) + " ].")
    out.append("")
    out.append("(* smallest fixed chunk size the code accepts (0 = size 0 is accepted) *)")
    out.append("Definition FIXED_SIZE_MIN : N := %d." % fixed_min)
    out.append("")
    if poly_conds is None:
        out.append("(* no check of the chunker polynomial found: every stored u64 is used as it is *)")
        out.append("Definition poly_accepts_src (P : N) : bool := true.")
    else:
        out.append("(* check_rabin_polynomial, called in ChunkIter::from_config before the tables are built:")
        out.append("   degree = 63 - leading_zeros (-1 for the zero polynomial); error conditions in source order:")
        for c, _ in poly_conds:
            out.append("     " + c)
        out.append("*)")
        out.append("Definition poly_degree_errors (d : N) : list bool :=\n  [ " + ";\n    ".join(c for _, c in poly_conds) + " ].")
        out.append("Definition poly_accepts_src (P : N) : bool :=")
        out.append("  negb (P =? 0) && negb (existsb (fun b => b) (poly_degree_errors (N.log2 P))).")
    meta = {"consts": consts, "prefill": prefill, "window_bits": wbits, "defaults": defaults,
            "conditions": [c for c, _ in conds], "fixed_min": fixed_min,
            "poly_conditions": None if poly_conds is None else [c for c, _ in poly_conds],
            "fixed_checked_in_apply": fixed_checked_in_apply, "fixed_checked_in_iter": fixed_checked_in_iter}
    return "\n".join(out) + "\n", meta


if __name__ == "__main__":
    repo = sys.argv[1] if len(sys.argv) > 1 else "/repo"
    txt, meta = gen(repo)
    sys.stdout.write(txt)
