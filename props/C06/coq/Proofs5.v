(* C06 — rolling_equals_recompute, partial: lifting of the two single-step table facts to every
   window the chunker ever has.

   FULL STATEMENT (not proved; see NOTES.md "Gaps"):
     forall P, 8 <= degree P <= 56 -> forall bs xs,
       Forall (fun x => x < 256) (bs ++ xs) -> length bs = 63%nat ->
       let T := rabin_tab WINDOW_BITS P in
       let w := fold_left (a_slide T) xs (a_init T bs) in
       a_hash w = fp_direct P (a_fifo w).
   Proved here: the same conclusion from the two single-step facts
     step_append_ok : appending a byte to a reduced value with the mod table
                      = reducing the number extended by that byte;
     step_out_ok    : xor-ing the out-table entry of the oldest window byte
                      = reducing the window without that byte.
   Missing for the full statement: these two facts for rabin_tab (needs linearity of pmod and
   pmod (pmod a << 8) = pmod (a << 8) on N).  Both facts are exercised on sampled windows by
   the `W` cases of the correspondence (extracted fp_direct vs. table-driven hash). *)
From Verif.Base Require Import Tactics.
From Verif.C06 Require Import Extracted Model Spec ListLemmas.
Local Open Scope N_scope.

Definition isbyte (x : N) : Prop := x < 256.
Definition push8 (a b : N) : N := N.lor (N.shiftl a 8) b.

Definition step_append_ok (T : rtab) (P : N) : Prop :=
  forall a b, isbyte b -> append_byte T (pmod a P) b = pmod (push8 a b) P.
Definition step_out_ok (T : rtab) (P : N) : Prop :=
  forall o t, isbyte o -> Forall isbyte t -> length t = (N.to_nat (t_wsize T) - 1)%nat ->
    N.lxor (pmod (bytes_to_N (o :: t)) P) (tbl (t_out T) o) = pmod (bytes_to_N t) P.

Lemma bytes_to_N_snoc t b : bytes_to_N (t ++ [b]) = push8 (bytes_to_N t) b.
Proof. unfold bytes_to_N. rewrite fold_left_app. reflexivity. Qed.

Lemma pmod_0 P : pmod 0 P = 0.
Proof. reflexivity. Qed.

Lemma fold_append T P : step_append_ok T P -> forall bs a, Forall isbyte bs ->
  fold_left (append_byte T) bs (pmod a P) = pmod (fold_left push8 bs a) P.
Proof.
  intros H. induction bs as [|b bs IH]; intros a Hb; cbn [fold_left]; [reflexivity|].
  inversion Hb; subst. rewrite H by assumption. apply IH. assumption.
Qed.

Definition win_inv (T : rtab) (P : N) (w : awin) : Prop :=
  a_hash w = fp_direct P (a_fifo w) /\ length (a_fifo w) = N.to_nat (t_wsize T) /\ Forall isbyte (a_fifo w).

Lemma init_win_inv T P bs : step_append_ok T P -> Forall isbyte bs ->
  length bs = (N.to_nat (t_wsize T) - 1)%nat -> 0 < t_wsize T -> win_inv T P (a_init T bs).
Proof.
  intros H Hb Hl Hw. unfold win_inv, a_init, fp_direct. cbn [a_fifo a_hash]. split; [|split].
  - rewrite <- (pmod_0 P) at 1. rewrite (fold_append T P H) by assumption. reflexivity.
  - cbn [length]. lia.
  - constructor; [unfold isbyte; lia|assumption].
Qed.

Lemma slide_win_inv T P w b : step_append_ok T P -> step_out_ok T P -> isbyte b -> 0 < t_wsize T ->
  win_inv T P w -> win_inv T P (a_slide T w b).
Proof.
  intros H1 H2 Hb Hw [Hh [Hl Hf]]. unfold a_slide.
  destruct (a_fifo w) as [|o t] eqn:E; [cbn [length] in Hl; lia|].
  inversion Hf; subst. cbn [length] in Hl.
  unfold win_inv, fp_direct in *. cbn [a_fifo a_hash]. split; [|split].
  - rewrite Hh, H2 by (assumption || lia). rewrite H1 by assumption. rewrite bytes_to_N_snoc. reflexivity.
  - rewrite app_length. cbn [length]. lia.
  - apply Forall_app. split; [assumption|constructor; [assumption|constructor]].
Qed.

Lemma rolling_partial_lemma : forall T P, step_append_ok T P -> step_out_ok T P -> 0 < t_wsize T ->
  forall bs xs, Forall isbyte bs -> Forall isbyte xs -> length bs = (N.to_nat (t_wsize T) - 1)%nat ->
    let w := fold_left (a_slide T) xs (a_init T bs) in a_hash w = fp_direct P (a_fifo w).
Proof.
  intros T P H1 H2 Hw bs xs Hb Hx Hl. cbv zeta.
  assert (G : forall xs w, Forall isbyte xs -> win_inv T P w -> win_inv T P (fold_left (a_slide T) xs w)).
  { induction xs0 as [|x xs0 IH]; intros w Hxs Hi; cbn [fold_left]; [assumption|].
    inversion Hxs; subst. apply IH; [assumption|]. apply slide_win_inv; assumption. }
  apply (G xs (a_init T bs) Hx). apply init_win_inv; assumption.
Qed.
