(* C06 — property theorems.  Nothing but statements closed by `exact`, each followed by
   Print Assumptions.  Model.v mirrors ChunkIter::next (chunker/rabin.rs), Rabin64
   (rustic_cdc) and the fixed-size chunker; BUF_SIZE, the prefill slice, the window bits and
   the conditions of check_rabin_params are regenerated from the source into Extracted.v.

   params_ok p  =  pow2 avg && min <= avg && avg <= max        (check_rabin_params)
                   && PREFILL_SLICE <= min && BUF_SIZE - 1 <= min   (forced by the proof). *)
From Verif.Base Require Import Tactics.
From Verif.C06 Require Import Extracted Model Spec ListLemmas Proofs Proofs2 Proofs3.
Local Open Scope N_scope.

(* For EVERY read schedule (1-byte reads, short reads, Interrupted, any mixture), every size
   hint and both arithmetic modes the iterator yields exactly the chunk list of the
   declarative specification, which mentions neither reader nor iterator state. *)
Theorem chunks_fragmentation_independent : forall md p hint s sched,
  params_ok p = true -> chunks_impl md p hint s sched = Ok (cuts p s).
Proof. exact chunks_impl_is_cuts. Qed.
Print Assumptions chunks_fragmentation_independent.

Theorem chunks_schedule_invariance : forall p s md1 md2 hint1 hint2 sched1 sched2,
  params_ok p = true ->
  chunks_impl md1 p hint1 s sched1 = chunks_impl md2 p hint2 s sched2.
Proof. exact schedule_invariance_lemma. Qed.
Print Assumptions chunks_schedule_invariance.

(* lossless: the concatenation of the chunks is the stream *)
Theorem chunks_concat : forall md p hint s sched,
  params_ok p = true ->
  exists cs, chunks_impl md p hint s sched = Ok cs /\ concat cs = s.
Proof. exact chunks_concat_lemma. Qed.
Print Assumptions chunks_concat.

(* bounded: no chunk is empty or longer than max; every chunk but the last has >= min bytes *)
Theorem chunks_bounds : forall md p hint s sched,
  params_ok p = true ->
  exists cs, chunks_impl md p hint s sched = Ok cs /\
    forall pre c post, cs = pre ++ c :: post ->
      0 < nlen c /\ nlen c <= c_max p /\ (post <> [] -> c_min p <= nlen c).
Proof. exact chunks_bounds_lemma. Qed.
Print Assumptions chunks_bounds.
