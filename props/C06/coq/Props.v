(* C06 — property theorems.  Nothing but statements closed by `exact`, each followed by
   Print Assumptions.  Model.v mirrors ChunkIter::next (chunker/rabin.rs), Rabin64
   (rustic_cdc) and the fixed-size chunker; BUF_SIZE, the prefill slice, the window bits and
   the conditions of check_rabin_params are regenerated from the source into Extracted.v.

   params_ok p  =  pow2 avg && min <= avg && avg <= max        (check_rabin_params)
                   && PREFILL_SLICE <= min && BUF_SIZE - 1 <= min   (forced by the proof). *)
From Verif.Base Require Import Tactics.
From Verif.C06 Require Import Extracted Model Spec ListLemmas Proofs Proofs2 Proofs3 Proofs4 Gf2 Proofs5 Gf2Tables Proofs6.
Local Open Scope N_scope.

(* For EVERY read schedule (1-byte reads, short reads, Interrupted, any mixture), every size
   hint and both arithmetic modes the iterator yields exactly the chunk list of the
   declarative specification, which mentions neither reader nor iterator state. *)
Theorem chunks_fragmentation_independent : forall md p hint s sched,
  params_ok p = true -> chunks_impl md p hint s sched = Ok (cuts p s).
Proof. exact chunks_impl_is_cuts. Qed.
Print Assumptions chunks_fragmentation_independent.

Theorem chunks_schedule_invariance : forall p s md1 md2 hint1 hint2 sched1 sched2,
  params_ok p = true ->
  chunks_impl md1 p hint1 s sched1 = chunks_impl md2 p hint2 s sched2.
Proof. exact schedule_invariance_lemma. Qed.
Print Assumptions chunks_schedule_invariance.

(* lossless: the concatenation of the chunks is the stream *)
Theorem chunks_concat : forall md p hint s sched,
  params_ok p = true ->
  exists cs, chunks_impl md p hint s sched = Ok cs /\ concat cs = s.
Proof. exact chunks_concat_lemma. Qed.
Print Assumptions chunks_concat.

(* bounded: no chunk is empty or longer than max; every chunk but the last has >= min bytes *)
Theorem chunks_bounds : forall md p hint s sched,
  params_ok p = true ->
  exists cs, chunks_impl md p hint s sched = Ok cs /\
    forall pre c post, cs = pre ++ c :: post ->
      0 < nlen c /\ nlen c <= c_max p /\ (post <> [] -> c_min p <= nlen c).
Proof. exact chunks_bounds_lemma. Qed.
Print Assumptions chunks_bounds.

(* The parameters the code ACCEPTS (check_rabin_params as found in the source, regenerated into
   Extracted.rabin_param_errors) satisfy the hypotheses, so for every accepted parameter set,
   every polynomial, stream, schedule: lossless, bounded, equal to the specification. *)
Theorem accepted_params_ok : forall P avg mn mx,
  rabin_accepts avg mn mx = true ->
  params_ok {| c_poly := P; c_avg := avg; c_min := mn; c_max := mx |} = true.
Proof. exact accepted_params_ok_lemma. Qed.
Print Assumptions accepted_params_ok.

Theorem accepted_rabin_partition : forall md P avg mn mx hint s sched,
  rabin_accepts avg mn mx = true ->
  let p := {| c_poly := P; c_avg := avg; c_min := mn; c_max := mx |} in
  chunks_impl md p hint s sched = Ok (cuts p s) /\ concat (cuts p s) = s /\ bounds_ok mn mx (cuts p s) = true.
Proof. exact accepted_rabin_partition_lemma. Qed.
Print Assumptions accepted_rabin_partition.

(* Where the first chunk ends: at the LEAST length L >= min at which L = max, or the window
   fingerprint has its low bits zero, or the stream ends (is_cut, Spec.v). *)
Theorem first_cut_is_least : forall T p s, c_min p <= nlen s ->
  let L := N.of_nat (first_len T p s) in
  c_min p <= L /\ L <= nlen s /\ is_cut T p s L = true /\
  forall L', c_min p <= L' -> L' < L -> is_cut T p s L' = false.
Proof. exact first_cut_is_least_lemma. Qed.
Print Assumptions first_cut_is_least.

(* Cut points depend only on the bytes since the previous cut: if |a| is a cut of a ++ t, the
   chunks after it are exactly the chunks of t alone - so two streams sharing the suffix t cut it
   identically after their first common cut. *)
Theorem resync_after_common_cut : forall p t pre a post, params_ok p = true ->
  cuts p (a ++ t) = pre ++ post -> concat pre = a -> post = cuts p t.
Proof. exact resync_lemma. Qed.
Print Assumptions resync_after_common_cut.

(* fixed-size chunker *)
Theorem fixed_size_partition : forall size hint s sched, 0 < size ->
  fixed_impl size hint s sched = Some (fixed_cuts size s) /\
  concat (fixed_cuts size s) = s /\ fixed_bounds_ok size (fixed_cuts size s) = true.
Proof. exact fixed_size_partition_lemma. Qed.
Print Assumptions fixed_size_partition.

Theorem accepted_fixed_size_partition : forall size hint s sched, fixed_accepts size = true ->
  fixed_impl size hint s sched = Some (fixed_cuts size s) /\
  concat (fixed_cuts size s) = s /\ fixed_bounds_ok size (fixed_cuts size s) = true.
Proof. exact accepted_fixed_partition_lemma. Qed.
Print Assumptions accepted_fixed_size_partition.

(* Outside the hypotheses the property fails - these are the parameter sets the unchanged tree
   accepted (defects repaired by the fix commit; the acceptance theorems above break if the
   checks are removed again). *)
Theorem chunks_bounds_tiny_params_refuted :
  exists p s, pow2 (c_avg p) = true /\ c_min p <= c_avg p /\ c_avg p <= c_max p /\ PREFILL_SLICE <= c_min p /\
    chunks_impl Debug p 0 s [] = Panic PMinSizeSub /\
    exists cs, chunks_impl Release p 0 s [] = Ok cs /\ bounds_ok (c_min p) (c_max p) cs = false.
Proof. exact chunks_bounds_tiny_params_refuted_lemma. Qed.
Print Assumptions chunks_bounds_tiny_params_refuted.

Theorem chunk_min_below_window_refuted :
  exists p s, pow2 (c_avg p) = true /\ c_min p <= c_avg p /\ c_avg p <= c_max p /\
    chunks_impl Debug p 0 s [] = Panic PWindowSub /\ chunks_impl Release p 0 s [] = Panic PWindowSlice.
Proof. exact chunk_min_below_window_refuted_lemma. Qed.
Print Assumptions chunk_min_below_window_refuted.

Theorem fixed_size_zero_refuted :
  exists s, s <> [] /\ forall hint sched, fixed_impl 0 hint s sched = Some [].
Proof. exact fixed_size_zero_refuted_lemma. Qed.
Print Assumptions fixed_size_zero_refuted.

(* rolling_equals_recompute: for EVERY polynomial of degree 8..56 (random_poly yields 53), every
   window size 2^bits, every prefill and every sequence of bytes slid in, the table-driven
   rolling hash equals the direct reduction modulo P of the window bytes read as a polynomial
   over GF(2) (most significant byte first). *)
Theorem rolling_equals_recompute : forall P bits, 8 <= N.log2 P -> N.log2 P <= 56 ->
  forall bs xs, Forall isbyte bs -> Forall isbyte xs ->
    length bs = (N.to_nat (t_wsize (rabin_tab bits P)) - 1)%nat ->
    let w := fold_left (a_slide (rabin_tab bits P)) xs (a_init (rabin_tab bits P) bs) in
    a_hash w = fp_direct P (a_fifo w).
Proof. exact rolling_lemma. Qed.
Print Assumptions rolling_equals_recompute.

(* the two single-step facts lifted to all windows (kept: it isolates what the tables must do) *)
Theorem rolling_equals_recompute_partial : forall T P,
  step_append_ok T P -> step_out_ok T P -> 0 < t_wsize T ->
  forall bs xs, Forall isbyte bs -> Forall isbyte xs -> length bs = (N.to_nat (t_wsize T) - 1)%nat ->
    let w := fold_left (a_slide T) xs (a_init T bs) in a_hash w = fp_direct P (a_fifo w).
Proof. exact rolling_partial_lemma. Qed.
Print Assumptions rolling_equals_recompute_partial.

(* the value tested against the split mask at length L (is_cut, first_cut_is_least) IS the Rabin
   fingerprint, under the repository polynomial, of the chunker's window at L *)
Theorem window_hash_is_fingerprint : forall p s L, Forall isbyte s ->
  8 <= N.log2 (c_poly p) -> N.log2 (c_poly p) <= 56 ->
  PREFILL_SLICE <= c_min p -> c_min p <= nlen s ->
  a_hash (win_at (tab_of p) p s L) = fp_direct (c_poly p) (a_fifo (win_at (tab_of p) p s L)).
Proof. exact window_hash_is_fingerprint_lemma. Qed.
Print Assumptions window_hash_is_fingerprint.

(* cut_local: from length min + 64 on, the window is exactly the most recent 64 bytes, so whether
   L is a cut is a function of (L >= max, L = |s|, s[L-64 .. L)) only.  (For min <= L < min + 64
   the window is 0 :: s[min-64 .. min-1) ++ s[min .. L), last 64 - see Spec.win_at.) *)
Theorem cut_local : forall p s L, Forall isbyte s ->
  8 <= N.log2 (c_poly p) -> N.log2 (c_poly p) <= 56 ->
  PREFILL_SLICE <= c_min p -> c_min p + 64 <= L -> L <= nlen s ->
  a_fifo (win_at (tab_of p) p s L) = ntake 64 (ndrop (L - 64) s) /\
  a_hash (win_at (tab_of p) p s L) = fp_direct (c_poly p) (ntake 64 (ndrop (L - 64) s)).
Proof. exact cut_local_lemma. Qed.
Print Assumptions cut_local.
