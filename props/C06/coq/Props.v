(* C06 — property theorems.  Nothing but statements closed by `exact`, each followed by
   Print Assumptions.  Model.v mirrors ChunkIter::next (chunker/rabin.rs), Rabin64
   (rustic_cdc) and the fixed-size chunker; BUF_SIZE, the prefill slice, the window bits and
   the conditions of check_rabin_params are regenerated from the source into Extracted.v.

   params_ok p  =  pow2 avg && min <= avg && avg <= max        (check_rabin_params)
                   && PREFILL_SLICE <= min && BUF_SIZE - 1 <= min   (forced by the proof). *)
From Verif.Base Require Import Tactics.
From Verif.C06 Require Import Extracted Model Spec ListLemmas Proofs Proofs2 Proofs3 Proofs4 Gf2 Proofs5 Gf2Tables Proofs6 Proofs7 Proofs8 Proofs9.
Local Open Scope N_scope.

(* For EVERY read schedule (1-byte reads, short reads, Interrupted, any mixture), every size
   hint and both arithmetic modes the iterator yields exactly the chunk list of the
   declarative specification, which mentions neither reader nor iterator state. *)
Theorem chunks_fragmentation_independent : forall md p hint s sched,
  params_ok p = true -> chunks_impl md p hint s sched = Ok (cuts p s).
Proof. exact chunks_impl_is_cuts. Qed.
Print Assumptions chunks_fragmentation_independent.

Theorem chunks_schedule_invariance : forall p s md1 md2 hint1 hint2 sched1 sched2,
  params_ok p = true ->
  chunks_impl md1 p hint1 s sched1 = chunks_impl md2 p hint2 s sched2.
Proof. exact schedule_invariance_lemma. Qed.
Print Assumptions chunks_schedule_invariance.

(* lossless: the concatenation of the chunks is the stream *)
Theorem chunks_concat : forall md p hint s sched,
  params_ok p = true ->
  exists cs, chunks_impl md p hint s sched = Ok cs /\ concat cs = s.
Proof. exact chunks_concat_lemma. Qed.
Print Assumptions chunks_concat.

(* bounded: no chunk is empty or longer than max; every chunk but the last has >= min bytes *)
Theorem chunks_bounds : forall md p hint s sched,
  params_ok p = true ->
  exists cs, chunks_impl md p hint s sched = Ok cs /\
    forall pre c post, cs = pre ++ c :: post ->
      0 < nlen c /\ nlen c <= c_max p /\ (post <> [] -> c_min p <= nlen c).
Proof. exact chunks_bounds_lemma. Qed.
Print Assumptions chunks_bounds.

(* The parameters the code ACCEPTS (check_rabin_params as found in the source, regenerated into
   Extracted.rabin_param_errors) satisfy the hypotheses, so for every accepted parameter set,
   every polynomial, stream, schedule: lossless, bounded, equal to the specification. *)
Theorem accepted_params_ok : forall P avg mn mx,
  rabin_accepts avg mn mx = true ->
  params_ok {| c_poly := P; c_avg := avg; c_min := mn; c_max := mx |} = true.
Proof. exact accepted_params_ok_lemma. Qed.
Print Assumptions accepted_params_ok.

Theorem accepted_rabin_partition : forall md P avg mn mx hint s sched,
  rabin_accepts avg mn mx = true ->
  let p := {| c_poly := P; c_avg := avg; c_min := mn; c_max := mx |} in
  chunks_impl md p hint s sched = Ok (cuts p s) /\ concat (cuts p s) = s /\ bounds_ok mn mx (cuts p s) = true.
Proof. exact accepted_rabin_partition_lemma. Qed.
Print Assumptions accepted_rabin_partition.

(* Where the first chunk ends: at the LEAST length L >= min at which L = max, or the window
   fingerprint has its low bits zero, or the stream ends (is_cut, Spec.v). *)
Theorem first_cut_is_least : forall T p s, c_min p <= nlen s ->
  let L := N.of_nat (first_len T p s) in
  c_min p <= L /\ L <= nlen s /\ is_cut T p s L = true /\
  forall L', c_min p <= L' -> L' < L -> is_cut T p s L' = false.
Proof. exact first_cut_is_least_lemma. Qed.
Print Assumptions first_cut_is_least.

(* Cut points depend only on the bytes since the previous cut: if |a| is a cut of a ++ t, the
   chunks after it are exactly the chunks of t alone - so two streams sharing the suffix t cut it
   identically after their first common cut. *)
Theorem resync_after_common_cut : forall p t pre a post, params_ok p = true ->
  cuts p (a ++ t) = pre ++ post -> concat pre = a -> post = cuts p t.
Proof. exact resync_lemma. Qed.
Print Assumptions resync_after_common_cut.

(* fixed-size chunker *)
Theorem fixed_size_partition : forall size hint s sched, 0 < size ->
  fixed_impl size hint s sched = Some (fixed_cuts size s) /\
  concat (fixed_cuts size s) = s /\ fixed_bounds_ok size (fixed_cuts size s) = true.
Proof. exact fixed_size_partition_lemma. Qed.
Print Assumptions fixed_size_partition.

Theorem accepted_fixed_size_partition : forall size hint s sched, fixed_accepts size = true ->
  fixed_impl size hint s sched = Some (fixed_cuts size s) /\
  concat (fixed_cuts size s) = s /\ fixed_bounds_ok size (fixed_cuts size s) = true.
Proof. exact accepted_fixed_partition_lemma. Qed.
Print Assumptions accepted_fixed_size_partition.

(* Outside the hypotheses the property fails - these are the parameter sets the unchanged tree
   accepted (defects repaired by the fix commit; the acceptance theorems above break if the
   checks are removed again). *)
Theorem chunks_bounds_tiny_params_refuted :
  exists p s, pow2 (c_avg p) = true /\ c_min p <= c_avg p /\ c_avg p <= c_max p /\ PREFILL_SLICE <= c_min p /\
    chunks_impl Debug p 0 s [] = Panic PMinSizeSub /\
    exists cs, chunks_impl Release p 0 s [] = Ok cs /\ bounds_ok (c_min p) (c_max p) cs = false.
Proof. exact chunks_bounds_tiny_params_refuted_lemma. Qed.
Print Assumptions chunks_bounds_tiny_params_refuted.

Theorem chunk_min_below_window_refuted :
  exists p s, pow2 (c_avg p) = true /\ c_min p <= c_avg p /\ c_avg p <= c_max p /\
    chunks_impl Debug p 0 s [] = Panic PWindowSub /\ chunks_impl Release p 0 s [] = Panic PWindowSlice.
Proof. exact chunk_min_below_window_refuted_lemma. Qed.
Print Assumptions chunk_min_below_window_refuted.

Theorem fixed_size_zero_refuted :
  exists s, s <> [] /\ forall hint sched, fixed_impl 0 hint s sched = Some [].
Proof. exact fixed_size_zero_refuted_lemma. Qed.
Print Assumptions fixed_size_zero_refuted.

(* rolling_equals_recompute: for EVERY polynomial of degree 8..56 (random_poly yields 53), every
   window size 2^bits, every prefill and every sequence of bytes slid in, the table-driven
   rolling hash equals the direct reduction modulo P of the window bytes read as a polynomial
   over GF(2) (most significant byte first). *)
Theorem rolling_equals_recompute : forall P bits, 8 <= N.log2 P -> N.log2 P <= 56 ->
  forall bs xs, Forall isbyte bs -> Forall isbyte xs ->
    length bs = (N.to_nat (t_wsize (rabin_tab bits P)) - 1)%nat ->
    let w := fold_left (a_slide (rabin_tab bits P)) xs (a_init (rabin_tab bits P) bs) in
    a_hash w = fp_direct P (a_fifo w).
Proof. exact rolling_lemma. Qed.
Print Assumptions rolling_equals_recompute.

(* the two single-step facts lifted to all windows (kept: it isolates what the tables must do) *)
Theorem rolling_equals_recompute_partial : forall T P,
  step_append_ok T P -> step_out_ok T P -> 0 < t_wsize T ->
  forall bs xs, Forall isbyte bs -> Forall isbyte xs -> length bs = (N.to_nat (t_wsize T) - 1)%nat ->
    let w := fold_left (a_slide T) xs (a_init T bs) in a_hash w = fp_direct P (a_fifo w).
Proof. exact rolling_partial_lemma. Qed.
Print Assumptions rolling_equals_recompute_partial.

(* the value tested against the split mask at length L (is_cut, first_cut_is_least) IS the Rabin
   fingerprint, under the repository polynomial, of the chunker's window at L *)
Theorem window_hash_is_fingerprint : forall p s L, Forall isbyte s ->
  8 <= N.log2 (c_poly p) -> N.log2 (c_poly p) <= 56 ->
  PREFILL_SLICE <= c_min p -> c_min p <= nlen s ->
  a_hash (win_at (tab_of p) p s L) = fp_direct (c_poly p) (a_fifo (win_at (tab_of p) p s L)).
Proof. exact window_hash_is_fingerprint_lemma. Qed.
Print Assumptions window_hash_is_fingerprint.

(* cut_local: from length min + 64 on, the window is exactly the most recent 64 bytes, so whether
   L is a cut is a function of (L >= max, L = |s|, s[L-64 .. L)) only.  (For min <= L < min + 64
   the window is 0 :: s[min-64 .. min-1) ++ s[min .. L), last 64 - see Spec.win_at.) *)
Theorem cut_local : forall p s L, Forall isbyte s ->
  8 <= N.log2 (c_poly p) -> N.log2 (c_poly p) <= 56 ->
  PREFILL_SLICE <= c_min p -> c_min p + 64 <= L -> L <= nlen s ->
  a_fifo (win_at (tab_of p) p s L) = ntake 64 (ndrop (L - 64) s) /\
  a_hash (win_at (tab_of p) p s L) = fp_direct (c_poly p) (ntake 64 (ndrop (L - 64) s)).
Proof. exact cut_local_lemma. Qed.
Print Assumptions cut_local.

(* ---------------------------------------------------------------- deepening *)

(* EVERY degree >= 8 (also 57..63, where `hash <<= 8` and `b << k` lose bits in u64): the rolling
   hash is a function of the window alone - the from-scratch fold of the same one-byte step over
   the window bytes (wfold).  The chunker is therefore content-defined for every polynomial; what
   depends on the degree is only whether that function is the remainder modulo P. *)
Theorem rolling_hash_is_window_function : forall P bits, 8 <= N.log2 P ->
  forall bs xs, Forall isbyte bs -> Forall isbyte xs ->
    length bs = (N.to_nat (t_wsize (rabin_tab bits P)) - 1)%nat ->
    let w := fold_left (a_slide (rabin_tab bits P)) xs (a_init (rabin_tab bits P) bs) in
    a_hash w = wfold (rabin_tab bits P) (a_fifo w).
Proof. exact rolling_any_degree_lemma. Qed.
Print Assumptions rolling_hash_is_window_function.

Theorem cut_local_any_degree : forall p s L, Forall isbyte s ->
  8 <= N.log2 (c_poly p) -> PREFILL_SLICE <= c_min p -> c_min p + 64 <= L -> L <= nlen s ->
  a_hash (win_at (tab_of p) p s L) = wfold (tab_of p) (ntake 64 (ndrop (L - 64) s)).
Proof. exact cut_local_any_degree_lemma. Qed.
Print Assumptions cut_local_any_degree.

(* ... and above degree 56 it is NOT the remainder: witness of degree 57 (the hash bits 56..k-1 are
   dropped by `hash <<= 8` instead of being reduced).  Replayed on the real chunker: with such a
   stored polynomial the unchanged tree cut at other positions than the Rabin fingerprint zeros. *)
Theorem rolling_not_fingerprint_above_56_refuted :
  exists P bs, N.log2 P = 57 /\ Forall isbyte bs /\ length bs = 63%nat /\
    let T := rabin_tab WINDOW_BITS P in
    let w := a_init T bs in
    a_hash w <> fp_direct P (a_fifo w) /\ a_hash w = wfold T (a_fifo w).
Proof. exact degree57_refuted_lemma. Qed.
Print Assumptions rolling_not_fingerprint_above_56_refuted.

(* The repaired tree uses a stored polynomial only if its degree is 8..56 (check_rabin_polynomial,
   regenerated into Extracted.poly_accepts_src) ... *)
Theorem accepted_poly_degree : forall P, poly_accepts P = true -> 8 <= N.log2 P /\ N.log2 P <= 56.
Proof. exact accepted_poly_degree_lemma. Qed.
Print Assumptions accepted_poly_degree.

(* ... so for EVERY accepted configuration (polynomial and sizes) and every byte stream the first
   chunk ends at the least L >= min at which L >= max, or the Rabin fingerprint modulo the
   repository polynomial of the chunker's window (win_at) has its low bits zero, or the stream ends. *)
Theorem accepted_cut_points_are_fingerprint_zeros : forall P avg mn mx s,
  poly_accepts P = true -> rabin_accepts avg mn mx = true -> Forall isbyte s -> mn <= nlen s ->
  let p := {| c_poly := P; c_avg := avg; c_min := mn; c_max := mx |} in
  let L := N.of_nat (first_len (tab_of p) p s) in
  mn <= L /\ L <= nlen s /\ is_cut_fp p s L = true /\
  forall L', mn <= L' -> L' < L -> is_cut_fp p s L' = false.
Proof. exact accepted_cut_points_lemma. Qed.
Print Assumptions accepted_cut_points_are_fingerprint_zeros.

(* The window, exactly.  From min + 64 on it is the most recent 64 bytes (cut_local).  For
   min <= L <= min + 64 it is the last 64 of  0 :: s[min-64 .. min-1) ++ s[min .. L):  the byte
   s[min-1] never enters it (reset_and_prefill_window consumes 63 of the 64 bytes it is given). *)
Theorem window_near_min : forall p (s : bytes) L,
  PREFILL_SLICE <= c_min p -> c_min p <= L -> L <= c_min p + 64 -> L <= nlen s ->
  a_fifo (win_at (tab_of p) p s L)
  = skipn (N.to_nat (L - c_min p)) (0 :: ntake 63 (ndrop (c_min p - 64) s))
    ++ ntake (L - c_min p) (ndrop (c_min p) s).
Proof. exact win_fifo_near. Qed.
Print Assumptions window_near_min.

(* OPEN FINDING (recorded, deliberately not repaired): the literal reading "the fingerprint of the
   most recent 64 bytes has its low bits zero" fails at the positions min <= L < min + 64 of a
   chunk.  Accepted parameters, a stream on which the code cuts at L = min although the last 64
   bytes have a fingerprint with non-zero low bits. *)
Theorem cut_is_fingerprint_of_last_64_bytes_refuted :
  exists p s L,
    rabin_accepts (c_avg p) (c_min p) (c_max p) = true /\
    8 <= N.log2 (c_poly p) /\ N.log2 (c_poly p) <= 56 /\ Forall isbyte s /\
    c_min p <= L /\ L < c_max p /\ L < nlen s /\
    N.of_nat (first_len (tab_of p) p s) = L /\
    N.land (a_hash (win_at (tab_of p) p s L)) (c_avg p - 1) = 0 /\
    N.land (fp_direct (c_poly p) (ntake 64 (ndrop (L - 64) s))) (c_avg p - 1) <> 0.
Proof. exact last64_refuted_lemma. Qed.
Print Assumptions cut_is_fingerprint_of_last_64_bytes_refuted.

(* The property's last clause, literally: two streams that share a suffix t cut it identically
   after their first common cut (|a1| a cut of a1 ++ t, |a2| a cut of a2 ++ t). *)
Theorem shared_suffix_cut_identically : forall p t a1 a2 pre1 post1 pre2 post2, params_ok p = true ->
  cuts p (a1 ++ t) = pre1 ++ post1 -> concat pre1 = a1 ->
  cuts p (a2 ++ t) = pre2 ++ post2 -> concat pre2 = a2 ->
  post1 = post2 /\ post1 = cuts p t.
Proof. exact shared_suffix_lemma. Qed.
Print Assumptions shared_suffix_cut_identically.

(* ... and for the iterator itself, accepted parameters, any two read schedules / hints / modes *)
Theorem shared_suffix_cut_identically_impl :
  forall P avg mn mx t a1 a2 pre1 post1 pre2 post2 md1 md2 h1 h2 sc1 sc2,
  rabin_accepts avg mn mx = true ->
  let p := {| c_poly := P; c_avg := avg; c_min := mn; c_max := mx |} in
  chunks_impl md1 p h1 (a1 ++ t) sc1 = Ok (pre1 ++ post1) -> concat pre1 = a1 ->
  chunks_impl md2 p h2 (a2 ++ t) sc2 = Ok (pre2 ++ post2) -> concat pre2 = a2 ->
  post1 = post2.
Proof. exact shared_suffix_impl_lemma. Qed.
Print Assumptions shared_suffix_cut_identically_impl.

(* ... and the converse: the most recent 64 bytes have a fingerprint with zero low bits at
   L = min, yet the code does not cut there. *)
Theorem fingerprint_zero_of_last_64_bytes_not_cut_refuted :
  exists p s L,
    rabin_accepts (c_avg p) (c_min p) (c_max p) = true /\ poly_accepts (c_poly p) = true /\
    Forall isbyte s /\ c_min p <= L /\ L < c_max p /\ L < nlen s /\
    N.land (fp_direct (c_poly p) (ntake 64 (ndrop (L - 64) s))) (c_avg p - 1) = 0 /\
    is_cut (tab_of p) p s L = false /\ L < N.of_nat (first_len (tab_of p) p s).
Proof. exact last64_zero_not_cut_lemma. Qed.
Print Assumptions fingerprint_zero_of_last_64_bytes_not_cut_refuted.
