(* C06 — extraction of the executable model and oracle (ExtrOcamlBasic only). *)
Require Extraction.
Require Import ExtrOcamlBasic.
From Coq Require Import ZArith.
From Verif.C06 Require Import Extracted Model Spec.
Extraction "model_ml.ml" chunks_impl cuts bounds_ok params_ok rabin_accepts
  fixed_impl fixed_cuts fixed_bounds_ok fixed_accepts tab_of win_at is_cut fp_direct a_fifo a_hash poly_accepts Z.of_N.
