(* C06 — the mod table and the out table of Rabin64 do what the single-step hypotheses of
   Proofs5.v demand, for every polynomial of degree 8..56 (no u64 truncation occurs). *)
From Verif.Base Require Import Tactics.
From Verif.C06 Require Import Extracted Model Spec ListLemmas Gf2 Proofs5.
Local Open Scope N_scope.

Lemma tbl_map f i : i < 256 -> tbl (map f byte_values) i = f i.
Proof.
  intros H. unfold tbl, byte_values. rewrite map_map.
  set (g := fun x : nat => f (N.of_nat x)).
  rewrite (nth_indep _ 0 (g 0%nat)) by (rewrite map_length, seq_length; lia).
  rewrite (map_nth g). rewrite seq_nth by lia. unfold g. f_equal. lia.
Qed.

Lemma lor_lxor_disjoint x y : (forall m, N.testbit x m && N.testbit y m = false) -> N.lor x y = N.lxor x y.
Proof.
  intros H. apply N.bits_inj. intro m. rewrite N.lor_spec, N.lxor_spec. specialize (H m).
  destruct (N.testbit x m), (N.testbit y m); cbn in *; congruence.
Qed.

Lemma below_shiftl n j x : below n x -> below (n + j) (N.shiftl x j).
Proof. intros H m Hm. rewrite N.shiftl_spec_high by lia. apply H. lia. Qed.

Lemma shl64_id n x j : below n x -> n + j <= 64 -> shl64 x j = N.shiftl x j.
Proof.
  intros H Hn. unfold shl64, U64. apply N.mod_small.
  apply N.lt_le_trans with (2 ^ (n + j)); [apply lt_below, below_shiftl; assumption|].
  apply N.pow_le_mono_r; lia.
Qed.

Lemma byte_below b : isbyte b -> below 8 b.
Proof. intros H. apply below_lt. exact H. Qed.

(* low-bits-zero and below are disjoint *)
Lemma shiftl_disjoint_below a n y : below n y -> forall m, N.testbit (N.shiftl a n) m && N.testbit y m = false.
Proof.
  intros H m. destruct (N.lt_ge_cases m n) as [L|L].
  - rewrite N.shiftl_spec_low by assumption. reflexivity.
  - rewrite (H m L). apply andb_false_r.
Qed.

Lemma push8_lxor a b : isbyte b -> push8 a b = N.lxor (N.shiftl a 8) b.
Proof. intros H. unfold push8. apply lor_lxor_disjoint. apply shiftl_disjoint_below. apply byte_below. assumption. Qed.

Section Tables.
  Variables (P bits : N).
  Hypothesis Hlo : 8 <= N.log2 P.
  Hypothesis Hhi : N.log2 P <= 56.
  Let k := N.log2 P.
  Let T := rabin_tab bits P.

  Lemma P_nz : P <> 0.
  Proof. intros ->. cbn in Hlo. lia. Qed.

  Lemma append_ok : step_append_ok T P.
  Proof.
    intros a b Hb. pose proof P_nz as HP.
    set (h := pmod a P).
    assert (Hh : below k h) by (apply pmod_below; assumption).
    unfold append_byte. change (t_shift T) with (degree P - 8). change (t_mod T) with (map (mod_entry P) byte_values).
    unfold degree. fold k.
    set (mi := N.land (N.shiftr h (k - 8)) 255).
    assert (Hmi : mi < 256).
    { unfold mi. change 255 with (N.ones 8). rewrite N.land_ones. apply N.mod_lt. discriminate. }
    rewrite (tbl_map _ _ Hmi). unfold mod_entry, degree. fold k.
    rewrite (shl64_id k h 8 Hh) by lia.
    rewrite (shl64_id 8 mi k (below_lt 8 mi Hmi)) by lia.
    set (X := N.shiftl mi k).
    (* bits of mi *)
    assert (Bmi : forall j, N.testbit mi j = if j <? 8 then N.testbit h (j + (k - 8)) else false).
    { intros j. unfold mi. rewrite N.land_spec, N.shiftr_spec'. change 255 with (N.ones 8).
      destruct (N.ltb_spec j 8).
      - rewrite N.ones_spec_low by assumption. apply andb_true_r.
      - rewrite N.ones_spec_high by assumption. apply andb_false_r. }
    set (low := N.lxor (N.shiftl h 8) X).
    assert (Hlow : below k low).
    { intros m Hm. unfold low, X. rewrite N.lxor_spec, !N.shiftl_spec_high by lia. rewrite Bmi.
      destruct (N.ltb_spec (m - k) 8).
      - replace (m - k + (k - 8)) with (m - 8) by lia. apply xorb_nilpotent.
      - rewrite (Hh (m - 8)) by lia. reflexivity. }
    assert (E1 : N.lor (N.shiftl h 8) b = N.lxor (N.shiftl h 8) b).
    { apply lor_lxor_disjoint. apply shiftl_disjoint_below. apply byte_below. assumption. }
    assert (E2 : N.lor (pmod X P) X = N.lxor (pmod X P) X).
    { apply lor_lxor_disjoint. intros m. rewrite andb_comm. unfold X. apply shiftl_disjoint_below.
      apply pmod_below. assumption. }
    rewrite E1, E2.
    (* right-hand side *)
    rewrite (push8_lxor a b Hb), (pmod_linear P HP).
    rewrite (pmod_small P HP b) by (apply (below_mono 8); [lia|apply byte_below; assumption]).
    rewrite <- (pmod_shift_pmod P HP a 8). fold h.
    replace (N.shiftl h 8) with (N.lxor X low) at 2 by (unfold low; bitwise).
    rewrite (pmod_linear P HP), (pmod_small P HP low Hlow).
    unfold low. bitwise.
  Qed.

  Lemma iter_out : forall n x,
    iter n (fun h => pmod (shl64 h 8) P) (pmod x P) = pmod (N.shiftl x (8 * N.of_nat n)) P.
  Proof.
    pose proof P_nz as HP.
    induction n as [|n IH]; intros x; cbn [iter].
    - rewrite N.shiftl_0_r. reflexivity.
    - rewrite (shl64_id k (pmod x P) 8) by (try apply pmod_below; try assumption; lia).
      rewrite (pmod_shift_pmod P HP x 8), IH, N.shiftl_shiftl. f_equal. f_equal. lia.
  Qed.

  Lemma fold_push8_split : forall t a, Forall isbyte t ->
    fold_left (fun a b => N.lor (N.shiftl a 8) b) t a
    = N.lxor (N.shiftl a (8 * N.of_nat (length t))) (fold_left (fun a b => N.lor (N.shiftl a 8) b) t 0).
  Proof.
    induction t as [|x t IH]; intros a Ht; cbn [fold_left length].
    - rewrite N.shiftl_0_r, N.lxor_0_r. reflexivity.
    - inversion Ht; subst.
      rewrite (IH (N.lor (N.shiftl a 8) x)) by assumption.
      rewrite (IH (N.lor (N.shiftl 0 8) x)) by assumption.
      fold (push8 a x). fold (push8 0 x). rewrite !push8_lxor by assumption.
      rewrite N.shiftl_0_l, N.lxor_0_l, N.shiftl_lxor, N.shiftl_shiftl.
      replace (8 + 8 * N.of_nat (length t)) with (8 * N.of_nat (S (length t))) by lia.
      bitwise.
  Qed.

  Lemma out_ok : step_out_ok T P.
  Proof.
    intros o t Ho Ht Hl. pose proof P_nz as HP.
    change (t_out T) with (map (out_entry (t_wsize T) P) byte_values).
    rewrite (tbl_map _ _ Ho). unfold out_entry. rewrite iter_out.
    unfold bytes_to_N. cbn [fold_left]. rewrite (fold_push8_split t _ Ht).
    rewrite N.shiftl_0_l, N.lor_0_l, (pmod_linear P HP).
    replace (N.of_nat (N.to_nat (t_wsize T - 1))) with (N.of_nat (length t)) by lia.
    bitwise.
  Qed.

  Lemma rolling_lemma : forall bs xs, Forall isbyte bs -> Forall isbyte xs ->
    length bs = (N.to_nat (t_wsize T) - 1)%nat ->
    let w := fold_left (a_slide T) xs (a_init T bs) in a_hash w = fp_direct P (a_fifo w).
  Proof.
    apply rolling_partial_lemma; [apply append_ok|apply out_ok|].
    unfold T. cbn [rabin_tab t_wsize]. rewrite N.shiftl_1_l. apply N.neq_0_lt_0, N.pow_nonzero. lia.
  Qed.
End Tables.
