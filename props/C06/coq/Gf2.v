(* C06 — GF(2)[x] on N: the reduction `pmod _ P` (the while loop of Polynom64::modulo) is
   linear, idempotent, bounded by the degree, and compatible with shifts. *)
From Verif.Base Require Import Tactics.
From Verif.C06 Require Import Extracted Model.
Local Open Scope N_scope.

Ltac bitwise :=
  apply N.bits_inj; intro; rewrite ?N.lxor_spec;
  repeat match goal with |- context [N.testbit ?a ?m] => destruct (N.testbit a m) end; reflexivity.

Lemma lxor_cancel a b : N.lxor a (N.lxor b a) = b.
Proof. bitwise. Qed.
Lemma lxor_swap a b c : N.lxor (N.lxor a c) (N.lxor b c) = N.lxor a b.
Proof. bitwise. Qed.
Lemma lxor_rot a b c : N.lxor (N.lxor a b) c = N.lxor (N.lxor a c) b.
Proof. bitwise. Qed.

(* all bits from position n upwards are zero *)
Definition below (n a : N) : Prop := forall m, n <= m -> N.testbit a m = false.

Lemma below_lt n a : a < 2 ^ n -> below n a.
Proof.
  intros H m Hm. destruct (N.eq_dec a 0) as [->|Ha]; [apply N.bits_0|].
  apply N.bits_above_log2. apply N.log2_lt_pow2 in H; lia.
Qed.
Lemma lt_below n a : below n a -> a < 2 ^ n.
Proof.
  intros H. destruct (N.eq_dec a 0) as [->|Ha].
  - apply N.neq_0_lt_0, N.pow_nonzero. lia.
  - apply N.log2_lt_pow2; [lia|]. destruct (N.lt_ge_cases (N.log2 a) n) as [L|L]; [assumption|].
    specialize (H _ L). rewrite N.bit_log2 in H by assumption. discriminate.
Qed.
Lemma below_lxor n a b : below n a -> below n b -> below n (N.lxor a b).
Proof. intros Ha Hb m Hm. rewrite N.lxor_spec, Ha, Hb by assumption. reflexivity. Qed.
Lemma below_mono n n' a : n <= n' -> below n a -> below n' a.
Proof. intros H Ha m Hm. apply Ha. lia. Qed.
Lemma below_0 n : below n 0.
Proof. intros m _. apply N.bits_0. Qed.
Lemma below_size a : below (N.size a) a.
Proof.
  intros m Hm. destruct (N.eq_dec a 0) as [->|Ha]; [apply N.bits_0|].
  apply N.bits_above_log2. rewrite N.size_log2 in Hm by assumption. lia.
Qed.

Section Poly.
  Variable P : N.
  Hypothesis HP : P <> 0.
  Let k := N.log2 P.

  Definition Pi (i : nat) : N := N.shiftl P (N.of_nat i).
  Definition st (i : nat) (a : N) : N :=
    if N.testbit a (k + N.of_nat i) then N.lxor a (Pi i) else a.
  Fixpoint sweep (n : nat) (a : N) : N :=
    match n with O => a | S i => sweep i (st i a) end.

  Lemma Pi_top i : N.testbit (Pi i) (k + N.of_nat i) = true.
  Proof.
    unfold Pi. rewrite N.shiftl_spec_high by lia.
    replace (k + N.of_nat i - N.of_nat i) with k by lia. apply N.bit_log2. assumption.
  Qed.
  Lemma Pi_below i : below (k + N.of_nat i + 1) (Pi i).
  Proof.
    intros m Hm. unfold Pi. rewrite N.shiftl_spec_high by lia.
    apply N.bits_above_log2. fold k. lia.
  Qed.

  Lemma st_linear i a b : st i (N.lxor a b) = N.lxor (st i a) (st i b).
  Proof.
    unfold st. rewrite N.lxor_spec.
    destruct (N.testbit a (k + N.of_nat i)), (N.testbit b (k + N.of_nat i)); cbn [xorb]; bitwise.
  Qed.
  Lemma sweep_linear n : forall a b, sweep n (N.lxor a b) = N.lxor (sweep n a) (sweep n b).
  Proof. induction n as [|i IH]; intros a b; cbn [sweep]; [reflexivity|]. rewrite st_linear. apply IH. Qed.

  Lemma st_below i a : below (k + N.of_nat (S i)) a -> below (k + N.of_nat i) (st i a).
  Proof.
    intros H m Hm. unfold st.
    destruct (N.eq_dec m (k + N.of_nat i)) as [->|Hne].
    - destruct (N.testbit a (k + N.of_nat i)) eqn:E.
      + rewrite N.lxor_spec, E, Pi_top. reflexivity.
      + assumption.
    - assert (Ha : N.testbit a m = false) by (apply H; lia).
      destruct (N.testbit a (k + N.of_nat i)); [|assumption].
      rewrite N.lxor_spec, Ha. rewrite (Pi_below i m) by lia. reflexivity.
  Qed.
  Lemma sweep_below n : forall a, below (k + N.of_nat n) a -> below k (sweep n a).
  Proof.
    induction n as [|i IH]; intros a H; cbn [sweep].
    - intros m Hm. apply H. lia.
    - apply IH. apply st_below. assumption.
  Qed.
  Lemma st_id i a : N.testbit a (k + N.of_nat i) = false -> st i a = a.
  Proof. intros H. unfold st. rewrite H. reflexivity. Qed.
  Lemma sweep_small n : forall a, below k a -> sweep n a = a.
  Proof.
    induction n as [|i IH]; intros a H; cbn [sweep]; [reflexivity|].
    rewrite st_id by (apply H; lia). apply IH. assumption.
  Qed.
  Lemma sweep_extend n a : below (k + N.of_nat n) a -> forall j, sweep (j + n) a = sweep n a.
  Proof.
    intros H. induction j as [|j IH]; [reflexivity|].
    cbn [plus sweep]. rewrite st_id by (apply H; lia). assumption.
  Qed.
  Lemma sweep_0 n : sweep n 0 = 0.
  Proof. apply sweep_small. apply below_0. Qed.

  (* the while loop = the sweep *)
  Lemma pmod_fuel_small f a : below k a -> pmod_fuel f a P = a.
  Proof.
    intros H. destruct f as [|f]; [reflexivity|]. cbn [pmod_fuel].
    destruct (N.eqb_spec a 0); [reflexivity|].
    destruct (N.leb_spec (N.log2 P) (N.log2 a)) as [L|L]; [|reflexivity].
    fold k in L. specialize (H _ L). rewrite N.bit_log2 in H by assumption. discriminate.
  Qed.

  Lemma pmod_fuel_sweep : forall n a f, below (k + N.of_nat n) a -> (n <= f)%nat -> pmod_fuel f a P = sweep n a.
  Proof.
    induction n as [|i IH]; intros a f H Hf.
    - cbn [sweep]. apply pmod_fuel_small. intros m Hm. apply H. lia.
    - destruct f as [|f]; [lia|]. cbn [sweep].
      destruct (N.testbit a (k + N.of_nat i)) eqn:E.
      + assert (Ha : a <> 0) by (intros ->; rewrite N.bits_0 in E; discriminate).
        assert (Hl : N.log2 a = k + N.of_nat i).
        { apply N.log2_bits_unique; [assumption|]. intros m Hm. apply H. lia. }
        cbn [pmod_fuel]. destruct (N.eqb_spec a 0); [contradiction|].
        rewrite Hl. fold k. destruct (N.leb_spec k (k + N.of_nat i)); [|lia].
        replace (k + N.of_nat i - k) with (N.of_nat i) by lia.
        assert (Es : st i a = N.lxor a (N.shiftl P (N.of_nat i))) by (unfold st, Pi; rewrite E; reflexivity).
        rewrite <- Es. apply IH; [|lia]. apply st_below. assumption.
      + rewrite st_id by assumption. apply IH; [|lia].
        intros m Hm. destruct (N.eq_dec m (k + N.of_nat i)) as [->|]; [assumption|]. apply H. lia.
  Qed.

  Lemma pmod_sweep n a : below (k + N.of_nat n) a -> pmod a P = sweep n a.
  Proof.
    intros H. unfold pmod. set (s := N.to_nat (N.size a)).
    assert (Hs : below (k + N.of_nat s) a).
    { apply (below_mono (N.size a)); [unfold s; lia|apply below_size]. }
    rewrite (pmod_fuel_sweep s a s Hs) by lia.
    destruct (Nat.le_ge_cases s n) as [L|L].
    - replace n with ((n - s) + s)%nat by lia. symmetry. apply sweep_extend. assumption.
    - replace s with ((s - n) + n)%nat at 1 by lia. apply sweep_extend. assumption.
  Qed.

  Lemma pmod_linear a b : pmod (N.lxor a b) P = N.lxor (pmod a P) (pmod b P).
  Proof.
    set (n := N.to_nat (N.size a + N.size b)).
    assert (Ha : below (k + N.of_nat n) a) by (apply (below_mono (N.size a)); [unfold n; lia|apply below_size]).
    assert (Hb : below (k + N.of_nat n) b) by (apply (below_mono (N.size b)); [unfold n; lia|apply below_size]).
    rewrite (pmod_sweep n _ (below_lxor _ _ _ Ha Hb)), (pmod_sweep n a Ha), (pmod_sweep n b Hb).
    apply sweep_linear.
  Qed.
  Lemma pmod_below a : below k (pmod a P).
  Proof.
    set (n := N.to_nat (N.size a)).
    assert (Ha : below (k + N.of_nat n) a) by (apply (below_mono (N.size a)); [unfold n; lia|apply below_size]).
    rewrite (pmod_sweep n a Ha). apply sweep_below. assumption.
  Qed.
  Lemma pmod_small a : below k a -> pmod a P = a.
  Proof. intros H. rewrite (pmod_sweep 0 a) by (intros m Hm; apply H; lia). reflexivity. Qed.
  Lemma pmod_P_shift j : pmod (N.shiftl P j) P = 0.
  Proof.
    set (i := N.to_nat j). replace j with (N.of_nat i) by (unfold i; lia). fold (Pi i).
    rewrite (pmod_sweep (S i)) by (apply (below_mono (k + N.of_nat i + 1)); [lia|apply Pi_below]).
    cbn [sweep]. unfold st. rewrite Pi_top, N.lxor_nilpotent. apply sweep_0.
  Qed.

  (* xor-combinations of shifts of P reduce to 0 and are closed under shifts *)
  Inductive Comb : N -> Prop :=
  | C0 : Comb 0
  | C1 c j : Comb c -> Comb (N.lxor c (N.shiftl P j)).
  Lemma comb_lxor c d : Comb c -> Comb d -> Comb (N.lxor c d).
  Proof.
    intros Hc Hd. induction Hd as [|d j Hd IH]; [rewrite N.lxor_0_r; assumption|].
    rewrite <- N.lxor_assoc. constructor. assumption.
  Qed.
  Lemma comb_shift c i : Comb c -> Comb (N.shiftl c i).
  Proof.
    intros Hc. induction Hc as [|c j Hc IH]; [rewrite N.shiftl_0_l; constructor|].
    rewrite N.shiftl_lxor, N.shiftl_shiftl. constructor. assumption.
  Qed.
  Lemma pmod_comb c : Comb c -> pmod c P = 0.
  Proof.
    intros Hc. induction Hc as [|c j Hc IH]; [reflexivity|].
    rewrite pmod_linear, IH, pmod_P_shift. reflexivity.
  Qed.
  Lemma sweep_comb n : forall a, Comb (N.lxor a (sweep n a)).
  Proof.
    induction n as [|i IH]; intros a; cbn [sweep]; [rewrite N.lxor_nilpotent; constructor|].
    replace (N.lxor a (sweep i (st i a))) with (N.lxor (N.lxor a (st i a)) (N.lxor (st i a) (sweep i (st i a)))) by bitwise.
    apply comb_lxor; [|apply IH]. unfold st. destruct (N.testbit a (k + N.of_nat i)).
    - replace (N.lxor a (N.lxor a (Pi i))) with (N.lxor 0 (Pi i)) by (rewrite N.lxor_0_l; bitwise). constructor. constructor.
    - rewrite N.lxor_nilpotent. constructor.
  Qed.
  Lemma pmod_comb_diff a : Comb (N.lxor a (pmod a P)).
  Proof.
    set (n := N.to_nat (N.size a)).
    assert (Ha : below (k + N.of_nat n) a) by (apply (below_mono (N.size a)); [unfold n; lia|apply below_size]).
    rewrite (pmod_sweep n a Ha). apply sweep_comb.
  Qed.

  Lemma pmod_shift_pmod a j : pmod (N.shiftl (pmod a P) j) P = pmod (N.shiftl a j) P.
  Proof.
    replace (N.shiftl a j) with (N.lxor (N.shiftl (pmod a P) j) (N.shiftl (N.lxor a (pmod a P)) j)).
    - rewrite pmod_linear, (pmod_comb _ (comb_shift _ j (pmod_comb_diff a))), N.lxor_0_r. reflexivity.
    - rewrite <- N.shiftl_lxor. f_equal. bitwise.
  Qed.
  Lemma pmod_idem a : pmod (pmod a P) P = pmod a P.
  Proof. apply pmod_small. apply pmod_below. Qed.
End Poly.
