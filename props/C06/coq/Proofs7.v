(* C06 — the rolling hash for EVERY polynomial of degree >= 8, including degrees 57..63 where
   `hash <<= 8` and `b << k` lose bits in u64.

   What the code computes is always a function of the window alone: the non-rolling fold of the
   same one-byte step over the 64 window bytes, starting from 0 (`wfold`).  The step is
   GF(2)-linear in the hash, which is all the out table needs.  For degree <= 56 the fold is the
   reduction modulo P (Gf2Tables.v / Props.rolling_equals_recompute); for degree >= 57 it is
   NOT in general (`rolling_not_fingerprint_above_56`, Proofs8.v): the step drops the hash bits
   56 .. k-1 instead of reducing them. *)
From Verif.Base Require Import Tactics.
From Verif.C06 Require Import Extracted Model Spec ListLemmas Gf2 Proofs5 Gf2Tables.
Local Open Scope N_scope.

(* the hash-only part of one step: hash <<= 8; hash ^= mod_table[(old hash >> shift) & 255] *)
Definition stepA (T : rtab) (h : N) : N :=
  N.lxor (shl64 h 8) (tbl (t_mod T) (N.land (N.shiftr h (t_shift T)) 255)).
(* recompute from scratch: push the window bytes, oldest first, into a zero hash *)
Definition wfold (T : rtab) (w : bytes) : N := fold_left (append_byte T) w 0.

Lemma mod64_bit x m : N.testbit (x mod U64) m = if m <? 64 then N.testbit x m else false.
Proof.
  unfold U64. destruct (N.ltb_spec m 64).
  - apply N.mod_pow2_bits_low. assumption.
  - apply N.mod_pow2_bits_high. assumption.
Qed.
Lemma shl64_bit x j m : N.testbit (shl64 x j) m =
  if m <? 64 then (if m <? j then false else N.testbit x (m - j)) else false.
Proof.
  unfold shl64. rewrite mod64_bit. destruct (m <? 64); [|reflexivity].
  destruct (N.ltb_spec m j).
  - rewrite N.shiftl_spec_low by lia. reflexivity.
  - rewrite N.shiftl_spec_high by lia. reflexivity.
Qed.
Lemma shl64_lxor x y j : shl64 (N.lxor x y) j = N.lxor (shl64 x j) (shl64 y j).
Proof.
  apply N.bits_inj. intro m. rewrite N.lxor_spec, !shl64_bit, N.lxor_spec.
  destruct (m <? 64), (m <? j); reflexivity.
Qed.
Lemma land_lxor_l x y c : N.land (N.lxor x y) c = N.lxor (N.land x c) (N.land y c).
Proof.
  apply N.bits_inj. intro m. rewrite !N.land_spec, !N.lxor_spec, !N.land_spec.
  destruct (N.testbit x m), (N.testbit y m), (N.testbit c m); reflexivity.
Qed.
Lemma land255_lt x : N.land x 255 < 256.
Proof. change 255 with (N.ones 8). rewrite N.land_ones. apply N.mod_lt. discriminate. Qed.
Lemma lxor_byte x y : x < 256 -> y < 256 -> N.lxor x y < 256.
Proof. intros Hx Hy. apply (lt_below 8). apply below_lxor; apply below_lt; assumption. Qed.

Lemma append_is_stepA T h b : isbyte b -> append_byte T h b = N.lxor (stepA T h) b.
Proof.
  intros Hb. unfold append_byte, stepA.
  rewrite (lor_lxor_disjoint (shl64 h 8) b).
  - apply N.bits_inj. intro m. rewrite !N.lxor_spec.
    destruct (N.testbit (shl64 h 8) m), (N.testbit b m), (N.testbit (tbl (t_mod T) (N.land (N.shiftr h (t_shift T)) 255)) m); reflexivity.
  - intros m. destruct (N.lt_ge_cases m 8) as [L|L].
    + rewrite shl64_bit. destruct (m <? 64); [|reflexivity]. destruct (N.ltb_spec m 8); [reflexivity|lia].
    + rewrite (byte_below b Hb m L). apply andb_false_r.
Qed.

(* ---------------------------------------------------------- abstract: any table with a linear step *)
Section Linear.
  Variable T : rtab.
  Hypothesis HA : forall x y, stepA T (N.lxor x y) = N.lxor (stepA T x) (stepA T y).
  Hypothesis Hout : forall o, isbyte o -> tbl (t_out T) o = iter (N.to_nat (t_wsize T) - 1) (stepA T) o.
  Hypothesis Hw : 0 < t_wsize T.

  Lemma stepA_0 : stepA T 0 = 0.
  Proof. pose proof (HA 0 0) as H. rewrite N.lxor_nilpotent in H. rewrite H. apply N.lxor_nilpotent. Qed.
  Lemma iter_lxor n : forall x y, iter n (stepA T) (N.lxor x y) = N.lxor (iter n (stepA T) x) (iter n (stepA T) y).
  Proof. induction n as [|n IH]; intros x y; cbn [iter]; [reflexivity|]. rewrite HA. apply IH. Qed.
  Lemma iter_S_out n x : iter (S n) (stepA T) x = iter n (stepA T) (stepA T x).
  Proof. reflexivity. Qed.

  Lemma fold_from t : Forall isbyte t -> forall h,
    fold_left (append_byte T) t h = N.lxor (iter (length t) (stepA T) h) (fold_left (append_byte T) t 0).
  Proof.
    induction 1 as [|x t Hx Ht IH]; intros h; cbn [fold_left length iter].
    - rewrite N.lxor_0_r. reflexivity.
    - rewrite (IH (append_byte T h x)), (IH (append_byte T 0 x)).
      rewrite !append_is_stepA by assumption. rewrite stepA_0, N.lxor_0_l, iter_lxor.
      bitwise.
  Qed.

  Definition lin_inv (w : awin) : Prop :=
    a_hash w = wfold T (a_fifo w) /\ length (a_fifo w) = N.to_nat (t_wsize T) /\ Forall isbyte (a_fifo w).

  Lemma lin_init bs : Forall isbyte bs -> length bs = (N.to_nat (t_wsize T) - 1)%nat -> lin_inv (a_init T bs).
  Proof.
    intros Hb Hl. unfold lin_inv, a_init, wfold. cbn [a_fifo a_hash fold_left]. split; [|split].
    - rewrite append_is_stepA by (unfold isbyte; lia). rewrite stepA_0. reflexivity.
    - cbn [length]. lia.
    - constructor; [unfold isbyte; lia|assumption].
  Qed.

  Lemma lin_slide w b : isbyte b -> lin_inv w -> lin_inv (a_slide T w b).
  Proof.
    intros Hb [Hh [Hl Hf]]. unfold a_slide.
    destruct (a_fifo w) as [|o t] eqn:E; [cbn [length] in Hl; lia|].
    inversion Hf; subst. cbn [length] in Hl.
    unfold lin_inv, wfold in *. cbn [a_fifo a_hash]. split; [|split].
    - rewrite fold_left_app. cbn [fold_left]. f_equal.
      rewrite Hh. cbn [fold_left]. rewrite (fold_from t) by assumption.
      rewrite append_is_stepA, stepA_0, N.lxor_0_l by assumption.
      rewrite (Hout o) by assumption.
      replace (N.to_nat (t_wsize T) - 1)%nat with (length t) by lia. bitwise.
    - rewrite app_length. cbn [length]. lia.
    - apply Forall_app. split; [assumption|constructor; [assumption|constructor]].
  Qed.

  Lemma lin_rolling bs xs : Forall isbyte bs -> Forall isbyte xs ->
    length bs = (N.to_nat (t_wsize T) - 1)%nat ->
    lin_inv (fold_left (a_slide T) xs (a_init T bs)).
  Proof.
    intros Hb Hx Hl.
    assert (G : forall xs w, Forall isbyte xs -> lin_inv w -> lin_inv (fold_left (a_slide T) xs w)).
    { induction xs0 as [|x xs0 IH]; intros w Hxs Hi; cbn [fold_left]; [assumption|].
      inversion Hxs; subst. apply IH; [assumption|]. apply lin_slide; assumption. }
    apply G; [assumption|]. apply lin_init; assumption.
  Qed.
End Linear.

(* ---------------------------------------------------------- the tables of Rabin64, any degree >= 8 *)
Section AnyDegree.
  Variables (P bits : N).
  Hypothesis Hlo : 8 <= N.log2 P.
  Let k := N.log2 P.
  Let T := rabin_tab bits P.

  Lemma P_nz' : P <> 0.
  Proof. intros ->. cbn in Hlo. lia. Qed.

  Lemma mod_entry_lxor i j : mod_entry P (N.lxor i j) = N.lxor (mod_entry P i) (mod_entry P j).
  Proof.
    pose proof P_nz' as HP.
    assert (D : forall t, mod_entry P t = N.lxor (pmod (shl64 t k) P) (shl64 t k)).
    { intros t. unfold mod_entry, degree. fold k. apply lor_lxor_disjoint. intros m.
      destruct (N.lt_ge_cases m k) as [L|L].
      - rewrite shl64_bit. destruct (m <? 64); [|apply andb_false_r].
        destruct (N.ltb_spec m k); [apply andb_false_r|lia].
      - rewrite (pmod_below P HP (shl64 t k) m L). reflexivity. }
    rewrite !D, shl64_lxor, (pmod_linear P HP). bitwise.
  Qed.

  Lemma stepA_linear x y : stepA T (N.lxor x y) = N.lxor (stepA T x) (stepA T y).
  Proof.
    unfold stepA. change (t_mod T) with (map (mod_entry P) byte_values).
    rewrite shl64_lxor, N.shiftr_lxor, land_lxor_l.
    rewrite !tbl_map by (try apply lxor_byte; apply land255_lt).
    rewrite mod_entry_lxor. bitwise.
  Qed.

  (* on reduced values the step is "shift (truncated to 64 bits), then reduce" *)
  Lemma stepA_reduced h : below k h -> stepA T h = pmod (shl64 h 8) P /\ below k (stepA T h).
  Proof.
    intros Hh. pose proof P_nz' as HP.
    assert (E : stepA T h = pmod (shl64 h 8) P).
    { unfold stepA. change (t_mod T) with (map (mod_entry P) byte_values).
      change (t_shift T) with (degree P - 8). unfold degree. fold k.
      rewrite (tbl_map _ _ (land255_lt _)).
      set (t := N.land (N.shiftr h (k - 8)) 255).
      assert (Bt : forall j, N.testbit t j = if j <? 8 then N.testbit h (j + (k - 8)) else false).
      { intros j. unfold t. rewrite N.land_spec, N.shiftr_spec'. change 255 with (N.ones 8).
        destruct (N.ltb_spec j 8).
        - rewrite N.ones_spec_low by assumption. apply andb_true_r.
        - rewrite N.ones_spec_high by assumption. apply andb_false_r. }
      set (u := shl64 h 8). set (X := shl64 t k).
      set (low := N.lxor u X).
      assert (Hlow : below k low).
      { intros m Hm. unfold low, u, X. rewrite N.lxor_spec, !shl64_bit.
        destruct (m <? 64); [|reflexivity].
        destruct (N.ltb_spec m 8); [lia|]. destruct (N.ltb_spec m k); [lia|].
        rewrite Bt. destruct (N.ltb_spec (m - k) 8).
        - replace (m - k + (k - 8)) with (m - 8) by lia. apply xorb_nilpotent.
        - rewrite (Hh (m - 8)) by lia. reflexivity. }
      assert (D : mod_entry P t = N.lxor (pmod X P) X).
      { unfold mod_entry, degree. fold k. fold X. apply lor_lxor_disjoint. intros m.
        destruct (N.lt_ge_cases m k) as [L|L].
        - unfold X. rewrite shl64_bit. destruct (m <? 64); [|apply andb_false_r].
          destruct (N.ltb_spec m k); [apply andb_false_r|lia].
        - rewrite (pmod_below P HP X m L). reflexivity. }
      rewrite D.
      replace u with (N.lxor X low) at 2 by (unfold low; bitwise).
      rewrite (pmod_linear P HP), (pmod_small P HP low Hlow). unfold low. bitwise. }
    split; [assumption|]. rewrite E. apply pmod_below. assumption.
  Qed.

  Lemma out_is_iter o : isbyte o ->
    tbl (t_out T) o = iter (N.to_nat (t_wsize T) - 1) (stepA T) o.
  Proof.
    intros Ho. pose proof P_nz' as HP.
    change (t_out T) with (map (out_entry (t_wsize T) P) byte_values).
    rewrite (tbl_map _ _ Ho). unfold out_entry.
    assert (Hob : below k o) by (apply (below_mono 8); [lia|apply byte_below; assumption]).
    rewrite (pmod_small P HP o Hob).
    replace (N.to_nat (t_wsize T - 1)) with (N.to_nat (t_wsize T) - 1)%nat by lia.
    assert (G : forall n o', below k o' ->
               iter n (fun h => pmod (shl64 h 8) P) o' = iter n (stepA T) o').
    { induction n as [|n IH]; intros o' Hb'; cbn [iter]; [reflexivity|].
      destruct (stepA_reduced o' Hb') as [E B]. rewrite <- E. apply IH. assumption. }
    apply G. assumption.
  Qed.

  Lemma wsize_pos : 0 < t_wsize T.
  Proof. unfold T. cbn [rabin_tab t_wsize]. rewrite N.shiftl_1_l. apply N.neq_0_lt_0, N.pow_nonzero. lia. Qed.

  Lemma rolling_any_degree_lemma : forall bs xs, Forall isbyte bs -> Forall isbyte xs ->
    length bs = (N.to_nat (t_wsize T) - 1)%nat ->
    let w := fold_left (a_slide T) xs (a_init T bs) in a_hash w = wfold T (a_fifo w).
  Proof.
    intros bs xs Hb Hx Hl. cbv zeta.
    apply (lin_rolling T stepA_linear out_is_iter wsize_pos bs xs Hb Hx Hl).
  Qed.
End AnyDegree.
