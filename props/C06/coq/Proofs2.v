(* C06 — one call of next() meets the specification; the whole iteration equals `cuts`;
   concatenation and size bounds of `cuts`. *)
From Verif.Base Require Import Tactics.
From Verif.C06 Require Import Extracted Model Spec ListLemmas Proofs.
Local Open Scope N_scope.

Definition st_inv (T : rtab) (st : cstate) (rest : bytes) : Prop :=
  wfr T (st_rabin st) /\ buf_inv (st_avail st) (st_buflen st) /\
  (st_finished st = true -> st_avail st = [] /\ rest = []).

(* what the proofs need of the parameters (implied by params_ok, see params_ok_hyps) *)
Record hyps (T : rtab) (p : cparams) : Prop := {
  h_wft : wft T;
  h_win : t_wsize T - 1 <= PREFILL_SLICE;
  h_slice : PREFILL_SLICE <= c_min p;
  h_buf : BUF_SIZE - 1 <= c_min p;
  h_min1 : 1 <= c_min p;
  h_minmax : c_min p <= c_max p }.

Lemma min_size_ok md mn open : open <= mn ->
  (if 0 <? open then usize_sub md mn open else Some mn) = Some (mn - open).
Proof.
  intros H. destruct (N.ltb_spec 0 open).
  - unfold usize_sub. destruct (N.leb_spec open mn); [reflexivity|lia].
  - f_equal. lia.
Qed.

Lemma first_len_pos T p s : 1 <= c_min p -> s <> [] -> (1 <= first_len T p s)%nat.
Proof.
  intros Hm Hs. unfold first_len. destruct (nlen s <? c_min p).
  - destruct s; [congruence|]. cbn [length]. lia.
  - lia.
Qed.

Definition next_post (T : rtab) (p : cparams) (s : bytes) (o : option bytes) (st' : cstate) (rest' : bytes) : Prop :=
  match s with
  | [] => o = None
  | _ => o = Some (firstn (first_len T p s) s) /\
         st_avail st' ++ rest' = skipn (first_len T p s) s
  end.

Lemma chunk_next_spec md T p st rest sched : hyps T p -> st_inv T st rest ->
  exists o st' rest' sched',
    chunk_next md T p st rest sched = Ok (o, st', rest', sched') /\
    st_inv T st' rest' /\ next_post T p (st_avail st ++ rest) o st' rest'.
Proof.
  intros H [Hr [Hb Hfin]]. unfold chunk_next.
  destruct (st_finished st) eqn:Ef.
  { destruct (Hfin eq_refl) as [Ha Hre]. exists None, st, rest, sched.
    split; [reflexivity|]. split; [unfold st_inv; auto|]. rewrite Ha, Hre. reflexivity. }
  set (s := st_avail st ++ rest).
  assert (Hopen : nlen (st_avail st) <= c_min p).
  { destruct Hb as [[Hb|Hb] [Hb2 Hb3]]; [rewrite Hb; cbn; lia|]. pose proof (h_buf T p H). lia. }
  rewrite (min_size_ok md _ _ Hopen).
  destruct (read_to_end_spec sched (c_min p - nlen (st_avail st)) rest) as [sc1 Hrte]. rewrite Hrte.
  set (msz := c_min p - nlen (st_avail st)).
  assert (Hvec : st_avail st ++ ntake msz rest = ntake (c_min p) s).
  { unfold s. rewrite ntake_app. rewrite (ntake_all (c_min p) (st_avail st)) by assumption. reflexivity. }
  assert (Hdrop : ndrop msz rest = ndrop (c_min p) s).
  { unfold s. rewrite ndrop_app. rewrite (ndrop_all (c_min p) (st_avail st)) by assumption. reflexivity. }
  assert (Hs : nlen s = nlen (st_avail st) + nlen rest) by (unfold s; apply nlen_app).
  rewrite Hvec, Hdrop.
  rewrite (nlen_ntake msz rest).
  destruct (N.ltb_spec (N.min msz (nlen rest)) msz) as [Hlt|Hge].
  - (* stream shorter than min: last chunk *)
    assert (Hshort : nlen s < c_min p) by lia.
    rewrite (ntake_all (c_min p) s) by lia.
    rewrite (ndrop_all (c_min p) s) by lia.
    eexists _, _, _, _. split; [reflexivity|]. split.
    + unfold st_inv. cbn [st_rabin st_avail st_buflen st_finished]. split; [assumption|]. split.
      * destruct Hb as [_ Hb]. unfold buf_inv. auto.
      * auto.
    + unfold next_post. fold s. destruct s as [|x t] eqn:Es; [reflexivity|]. rewrite <- Es in *.
      unfold first_len. destruct (N.ltb_spec (nlen s) (c_min p)); [|lia].
      rewrite firstn_all, skipn_all. cbn [st_avail app]. auto.
  - (* at least min bytes *)
    assert (Hlong : c_min p <= nlen s) by lia.
    replace (nlen (st_avail st) + N.min msz (nlen rest)) with (c_min p) by lia.
    pose proof (h_slice T p H) as Hsl.
    destruct (N.ltb_spec (c_min p) PREFILL_SLICE) as [Hbad|_]; [lia|].
    set (it := ndrop (c_min p - PREFILL_SLICE) (ntake (c_min p) s)).
    assert (Hit : t_wsize T - 1 <= nlen it).
    { unfold it. rewrite nlen_ndrop, nlen_ntake. pose proof (h_win T p H). lia. }
    destruct (prefill_abs T (st_rabin st) it (h_wft T p H) Hr Hit) as [Habs Hw1].
    set (r1 := rb_reset_prefill T (st_rabin st) it) in *.
    destruct (main_loop_spec T (c_avg p - 1) (c_max p) (h_wft T p H)
                (loop_fuel (ndrop (c_min p) s) sc1) (rev (ntake (c_min p) s)) (c_min p) r1 []
                (st_buflen st) (ndrop (c_min p) s) sc1 Hw1) as [ls [Hml Hpost]].
    { destruct Hb as [_ Hb]. unfold buf_inv. auto. }
    { unfold loop_fuel. cbn [length]. lia. }
    rewrite Hml.
    eexists _, _, _, _. split; [reflexivity|].
    unfold loop_post in Hpost. cbn [app] in Hpost. rewrite Habs in Hpost.
    change (a_init T (ntake (t_wsize T - 1) it)) with (win_start T p s) in Hpost.
    destruct Hpost as [P1 [P2 [P3 [P4 [P5 P6]]]]].
    split.
    + unfold st_inv. cbn [st_rabin st_avail st_buflen st_finished]. auto.
    + unfold next_post. fold s. destruct s as [|x t] eqn:Es.
      { cbn in Hlong. pose proof (h_min1 T p H). lia. }
      rewrite <- Es in *.
      assert (FL : first_len T p s =
                   (N.to_nat (c_min p) + scan T (c_avg p - 1) (c_max p) (win_start T p s) (c_min p) (ndrop (c_min p) s))%nat).
      { unfold first_len. destruct (N.ltb_spec (nlen s) (c_min p)); [lia|reflexivity]. }
      rewrite FL. cbn [st_avail]. split.
      * f_equal. rewrite P1, rev_app_distr, !rev_involutive.
        rewrite firstn_plus, <- ntake_firstn, <- ndrop_skipn. reflexivity.
      * rewrite P2, skipn_plus, <- ndrop_skipn. reflexivity.
Qed.

Lemma cuts_fuel_nil n T p : cuts_fuel n T p [] = [].
Proof. destruct n; reflexivity. Qed.

Lemma cuts_fuel_cons m T p s : s <> [] ->
  cuts_fuel (S m) T p s = firstn (first_len T p s) s :: cuts_fuel m T p (skipn (first_len T p s) s).
Proof. destruct s; [congruence|reflexivity]. Qed.

Lemma chunks_loop_spec md T p : hyps T p -> forall n m st rest sched,
  st_inv T st rest ->
  (length (st_avail st ++ rest) < n)%nat -> (length (st_avail st ++ rest) <= m)%nat ->
  chunks_loop n md T p st rest sched = Ok (cuts_fuel m T p (st_avail st ++ rest)).
Proof.
  intros H. induction n as [|n IH]; intros m st rest sched Hinv Hn Hm; [lia|].
  cbn [chunks_loop].
  destruct (chunk_next_spec md T p st rest sched H Hinv) as [o [st' [rest' [sched' [Hc [Hinv' Hpost]]]]]].
  rewrite Hc. unfold next_post in Hpost.
  destruct (st_avail st ++ rest) as [|x t] eqn:Es.
  - subst o. rewrite cuts_fuel_nil. reflexivity.
  - rewrite <- Es in *. destruct Hpost as [Ho Hrest]. subst o.
    assert (Hne : st_avail st ++ rest <> []) by (rewrite Es; discriminate).
    pose proof (first_len_pos T p _ (h_min1 T p H) Hne) as Hpos.
    assert (Hl : (length (skipn (first_len T p (st_avail st ++ rest)) (st_avail st ++ rest))
                  < length (st_avail st ++ rest))%nat).
    { rewrite skipn_length. rewrite Es. cbn [length]. rewrite Es in Hpos. lia. }
    destruct m as [|m]; [rewrite Es in Hm; cbn [length] in Hm; lia|].
    rewrite (IH m st' rest' sched' Hinv') by (rewrite Hrest; lia).
    rewrite Hrest. rewrite (cuts_fuel_cons m T p _ Hne). reflexivity.
Qed.

Lemma tab_window_ok P : t_wsize (rabin_tab WINDOW_BITS P) - 1 <= PREFILL_SLICE.
Proof. cbn [rabin_tab t_wsize]. apply N.leb_le. vm_compute. reflexivity. Qed.

Lemma buf_size_pos : 1 <= BUF_SIZE.
Proof. apply N.leb_le. vm_compute. reflexivity. Qed.

Lemma params_ok_hyps p : params_ok p = true -> hyps (tab_of p) p.
Proof.
  unfold params_ok. intros H.
  apply andb_prop in H. destruct H as [H H5]. apply andb_prop in H. destruct H as [H H4].
  apply andb_prop in H. destruct H as [H H3]. apply andb_prop in H. destruct H as [H1 H2].
  apply N.leb_le in H2, H3, H4, H5.
  pose proof buf_size_pos.
  assert (1 <= c_min p).
  { unfold pow2 in H1. apply andb_prop in H1. destruct H1 as [H1 _]. apply N.ltb_lt in H1.
    assert (E : 1 <= PREFILL_SLICE) by (apply N.leb_le; vm_compute; reflexivity). lia. }
  constructor; try apply wft_tab; try apply tab_window_ok; try assumption; lia.
Qed.

Lemma init_inv T hint s : wft T -> st_inv T (init_state T hint) s.
Proof.
  intros HT. unfold st_inv, init_state. cbn [st_rabin st_avail st_buflen st_finished].
  split; [apply wfr_init; assumption|]. split; [|discriminate].
  unfold buf_inv. pose proof buf_size_pos. split; [left; reflexivity|lia].
Qed.

Lemma chunks_impl_is_cuts md p hint s sched :
  params_ok p = true -> chunks_impl md p hint s sched = Ok (cuts p s).
Proof.
  intros Hp. pose proof (params_ok_hyps p Hp) as H. unfold chunks_impl, cuts.
  apply (chunks_loop_spec md (tab_of p) p H (S (S (length s))) (length s)
           (init_state (tab_of p) hint) s sched).
  - apply init_inv. apply (h_wft _ _ H).
  - cbn [init_state st_avail app]. lia.
  - cbn [init_state st_avail app]. lia.
Qed.

(* ------------------------------------------------------------ properties of cuts *)
Lemma scan_le_len T mask mx : forall l w len, (scan T mask mx w len l <= length l)%nat.
Proof.
  induction l as [|b l IH]; intros w len; rewrite scan_unfold.
  - repeat destr_if; cbn [length]; lia.
  - repeat destr_if; cbn [length]; try lia. specialize (IH (a_slide T w b) (len + 1)). lia.
Qed.

Lemma scan_le_max T mask mx : forall l w len, len <= mx -> N.of_nat (scan T mask mx w len l) <= mx - len.
Proof.
  induction l as [|b l IH]; intros w len Hl; rewrite scan_unfold.
  - repeat destr_if; lia.
  - destruct (N.leb_spec mx len); [lia|]. destruct (N.land (a_hash w) mask =? 0); [lia|].
    specialize (IH (a_slide T w b) (len + 1)). lia.
Qed.

Lemma first_len_le T p s : (first_len T p s <= length s)%nat.
Proof.
  unfold first_len. destruct (N.ltb_spec (nlen s) (c_min p)); [lia|].
  pose proof (scan_le_len T (c_avg p - 1) (c_max p) (ndrop (c_min p) s) (win_start T p s) (c_min p)) as Hs.
  assert (E : length (ndrop (c_min p) s) = (length s - N.to_nat (c_min p))%nat).
  { rewrite ndrop_skipn. apply skipn_length. }
  unfold nlen in *. lia.
Qed.

Lemma first_len_bounds T p s : c_min p <= c_max p -> c_min p <= nlen s ->
  c_min p <= N.of_nat (first_len T p s) <= c_max p.
Proof.
  intros Hmm Hl. unfold first_len. destruct (N.ltb_spec (nlen s) (c_min p)); [lia|].
  pose proof (scan_le_max T (c_avg p - 1) (c_max p) (ndrop (c_min p) s) (win_start T p s) (c_min p) Hmm).
  lia.
Qed.

Lemma cuts_fuel_concat T p : 1 <= c_min p -> forall m s, (length s <= m)%nat ->
  concat (cuts_fuel m T p s) = s.
Proof.
  intros Hm. induction m as [|m IH]; intros s Hl.
  - destruct s; [reflexivity|cbn [length] in Hl; lia].
  - destruct s as [|x t] eqn:Es; [reflexivity|]. rewrite <- Es in *.
    assert (Hne : s <> []) by (rewrite Es; discriminate).
    rewrite (cuts_fuel_cons m T p s Hne). cbn [concat].
    pose proof (first_len_pos T p s Hm Hne).
    rewrite IH.
    + apply firstn_skipn.
    + rewrite skipn_length. rewrite Es in *. cbn [length] in *. lia.
Qed.

Lemma cuts_fuel_bounds T p : 1 <= c_min p -> c_min p <= c_max p -> forall m s, (length s <= m)%nat ->
  bounds_ok (c_min p) (c_max p) (cuts_fuel m T p s) = true.
Proof.
  intros Hm Hmm. induction m as [|m IH]; intros s Hl.
  - destruct s; [reflexivity|cbn [length] in Hl; lia].
  - destruct s as [|x t] eqn:Es; [reflexivity|]. rewrite <- Es in *.
    assert (Hne : s <> []) by (rewrite Es; discriminate).
    rewrite (cuts_fuel_cons m T p s Hne).
    pose proof (first_len_pos T p s Hm Hne) as Hpos.
    pose proof (first_len_le T p s) as Hle.
    assert (Hc : nlen (firstn (first_len T p s) s) = N.of_nat (first_len T p s)).
    { unfold nlen. rewrite firstn_length. lia. }
    assert (Hrec : bounds_ok (c_min p) (c_max p) (cuts_fuel m T p (skipn (first_len T p s) s)) = true).
    { apply IH. rewrite skipn_length. rewrite Es in *. cbn [length] in *. lia. }
    destruct (N.ltb_spec (nlen s) (c_min p)) as [Hshort|Hlong].
    + assert (E : first_len T p s = length s).
      { unfold first_len. destruct (N.ltb_spec (nlen s) (c_min p)); [reflexivity|lia]. }
      rewrite E, skipn_all, cuts_fuel_nil. cbn [bounds_ok]. rewrite firstn_all.
      unfold nlen in *. apply andb_true_intro. split; [apply N.ltb_lt|apply N.leb_le]; lia.
    + pose proof (first_len_bounds T p s Hmm Hlong) as [B1 B2].
      cbn [bounds_ok]. rewrite Hc.
      destruct (cuts_fuel m T p (skipn (first_len T p s) s)) as [|c' cs'] eqn:Ec.
      * apply andb_true_intro. split; [apply N.ltb_lt|apply N.leb_le]; lia.
      * rewrite Hrec. rewrite andb_true_r. apply andb_true_intro. split; apply N.leb_le; lia.
Qed.

(* bounds_ok as a statement about every element *)
Lemma bounds_ok_prop mn mx : forall cs, bounds_ok mn mx cs = true ->
  forall pre c post, cs = pre ++ c :: post ->
    nlen c <= mx /\ (post <> [] -> mn <= nlen c) /\ (post = [] -> 0 < nlen c).
Proof.
  induction cs as [|c0 cs IH]; intros Hb pre c post E.
  - destruct pre; discriminate.
  - destruct cs as [|c1 cs'].
    + destruct pre as [|p0 pre]; [|destruct pre; discriminate].
      cbn [app] in E. inversion E; subst. cbn [bounds_ok] in Hb.
      apply andb_prop in Hb. destruct Hb as [H1 H2]. apply N.ltb_lt in H1. apply N.leb_le in H2.
      split; [assumption|]. split; [intros; congruence|auto].
    + change (bounds_ok mn mx (c0 :: c1 :: cs')) with
        ((mn <=? nlen c0) && (nlen c0 <=? mx) && bounds_ok mn mx (c1 :: cs')) in Hb.
      apply andb_prop in Hb. destruct Hb as [Hb H3]. apply andb_prop in Hb. destruct Hb as [H1 H2].
      apply N.leb_le in H1, H2.
      destruct pre as [|p0 pre].
      * cbn [app] in E. inversion E; subst.
        split; [assumption|]. split; [auto|intros; discriminate].
      * cbn [app] in E. inversion E; subst. apply (IH H3 pre c post). assumption.
Qed.
