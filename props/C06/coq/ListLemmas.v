(* C06 — list lemmas: ntake/ndrop are firstn/skipn; splitting; circular buffer vs FIFO. *)
From Verif.Base Require Import Tactics.
From Verif.C06 Require Import Extracted Model.
Local Open Scope N_scope.

Lemma ntake_firstn {A} (l : list A) : forall n, ntake n l = firstn (N.to_nat n) l.
Proof.
  induction l as [|x t IH]; intros n; cbn [ntake].
  - now rewrite firstn_nil.
  - destruct (N.eqb_spec n 0) as [->|Hn]; [reflexivity|].
    rewrite IH. replace (N.to_nat n) with (S (N.to_nat (n - 1))) by lia. reflexivity.
Qed.

Lemma ndrop_skipn {A} (l : list A) : forall n, ndrop n l = skipn (N.to_nat n) l.
Proof.
  induction l as [|x t IH]; intros n; cbn [ndrop].
  - now rewrite skipn_nil.
  - destruct (N.eqb_spec n 0) as [->|Hn]; [reflexivity|].
    rewrite IH. replace (N.to_nat n) with (S (N.to_nat (n - 1))) by lia. reflexivity.
Qed.

Lemma nlen_app {A} (a b : list A) : nlen (a ++ b) = nlen a + nlen b.
Proof. unfold nlen. rewrite app_length. lia. Qed.
Lemma nlen_cons {A} (x : A) l : nlen (x :: l) = 1 + nlen l.
Proof. unfold nlen. cbn [length]. lia. Qed.
Lemma nlen_nil {A} : nlen (@nil A) = 0.
Proof. reflexivity. Qed.
Lemma nlen_rev {A} (l : list A) : nlen (rev l) = nlen l.
Proof. unfold nlen. now rewrite rev_length. Qed.
Lemma nlen_0 {A} (l : list A) : nlen l = 0 -> l = [].
Proof. destruct l; [reflexivity|]. rewrite nlen_cons. lia. Qed.

Lemma nlen_ntake {A} n (l : list A) : nlen (ntake n l) = N.min n (nlen l).
Proof. rewrite ntake_firstn. unfold nlen. rewrite firstn_length. lia. Qed.
Lemma nlen_ndrop {A} n (l : list A) : nlen (ndrop n l) = nlen l - n.
Proof. rewrite ndrop_skipn. unfold nlen. rewrite skipn_length. lia. Qed.
Lemma ntake_ndrop {A} n (l : list A) : ntake n l ++ ndrop n l = l.
Proof. rewrite ntake_firstn, ndrop_skipn. apply firstn_skipn. Qed.
Lemma ntake_0 {A} (l : list A) : ntake 0 l = [].
Proof. now rewrite ntake_firstn. Qed.
Lemma ndrop_0 {A} (l : list A) : ndrop 0 l = l.
Proof. now rewrite ndrop_skipn. Qed.
Lemma ntake_all {A} n (l : list A) : nlen l <= n -> ntake n l = l.
Proof. intros H. rewrite ntake_firstn. apply firstn_all2. unfold nlen in H. lia. Qed.
Lemma ndrop_all {A} n (l : list A) : nlen l <= n -> ndrop n l = [].
Proof. intros H. rewrite ndrop_skipn. apply skipn_all2. unfold nlen in H. lia. Qed.
Lemma ntake_app {A} n (a b : list A) : ntake n (a ++ b) = ntake n a ++ ntake (n - nlen a) b.
Proof.
  rewrite !ntake_firstn, firstn_app. unfold nlen.
  replace (N.to_nat (n - N.of_nat (length a))) with (N.to_nat n - length a)%nat by lia. reflexivity.
Qed.
Lemma ndrop_app {A} n (a b : list A) : ndrop n (a ++ b) = ndrop n a ++ ndrop (n - nlen a) b.
Proof.
  rewrite !ndrop_skipn, skipn_app. unfold nlen.
  replace (N.to_nat (n - N.of_nat (length a))) with (N.to_nat n - length a)%nat by lia. reflexivity.
Qed.

Lemma firstn_plus {A} (a b : nat) (l : list A) : firstn (a + b) l = firstn a l ++ firstn b (skipn a l).
Proof.
  revert l. induction a as [|a IH]; intros l; [reflexivity|].
  destruct l as [|x t]; [rewrite skipn_nil, !firstn_nil; reflexivity|].
  cbn [plus firstn skipn app]. now rewrite IH.
Qed.
Lemma skipn_plus {A} (a b : nat) (l : list A) : skipn (a + b) l = skipn b (skipn a l).
Proof.
  revert l. induction a as [|a IH]; intros l; [reflexivity|].
  destruct l as [|x t]; [rewrite !skipn_nil; reflexivity|].
  cbn [plus skipn]. now rewrite IH.
Qed.
Lemma ntake_plus {A} a b (l : list A) : ntake (a + b) l = ntake a l ++ ntake b (ndrop a l).
Proof. rewrite !ntake_firstn, ndrop_skipn, N2Nat.inj_add. apply firstn_plus. Qed.
Lemma ndrop_plus {A} a b (l : list A) : ndrop (a + b) l = ndrop b (ndrop a l).
Proof. rewrite !ndrop_skipn, N2Nat.inj_add. apply skipn_plus. Qed.

Lemma ntake_nil_inv {A} n (l : list A) : ntake n l = [] -> n = 0 \/ l = [].
Proof.
  destruct l as [|x t]; [now right|]. cbn [ntake].
  destruct (N.eqb_spec n 0); [now left|discriminate].
Qed.
(* dropping min(n,|l|) or n is the same; taking likewise *)
Lemma ndrop_nlen_ntake {A} n (l : list A) : ndrop (nlen (ntake n l)) l = ndrop n l.
Proof.
  rewrite nlen_ntake. destruct (N.le_gt_cases n (nlen l)).
  - now rewrite N.min_l.
  - rewrite N.min_r by lia. rewrite !ndrop_all by lia. reflexivity.
Qed.
Lemma ntake_nlen_ntake {A} n (l : list A) : ntake (nlen (ntake n l)) l = ntake n l.
Proof.
  rewrite nlen_ntake. destruct (N.le_gt_cases n (nlen l)).
  - now rewrite N.min_l.
  - rewrite N.min_r by lia. rewrite !ntake_all by lia. reflexivity.
Qed.

(* ---------------------------------------------------------- read_to_end *)
Lemma read_to_end_spec : forall sched limit rest,
  exists sc', read_to_end limit rest sched = (ntake limit rest, ndrop limit rest, sc').
Proof.
  induction sched as [|ev sc IH]; intros limit rest; cbn [read_to_end].
  - eexists; reflexivity.
  - destruct (N.eqb_spec limit 0) as [->|Hl].
    { rewrite ntake_0, ndrop_0. eexists; reflexivity. }
    destruct ev as [k|]; [|apply IH].
    set (n := N.min (N.max 1 k) limit).
    destruct (ntake n rest) as [|d0 d] eqn:E.
    + apply ntake_nil_inv in E. destruct E as [E|E]; [lia|]. subst rest.
      eexists. rewrite ntake_firstn, ndrop_skipn, firstn_nil, skipn_nil. reflexivity.
    + rewrite <- E.
      destruct (IH (limit - nlen (ntake n rest)) (ndrop n rest)) as [sc' H]. rewrite H.
      eexists. f_equal. f_equal.
      * assert (Hle : nlen (ntake n rest) <= limit) by (rewrite nlen_ntake; lia).
        replace limit with (nlen (ntake n rest) + (limit - nlen (ntake n rest))) at 2 by lia.
        rewrite ntake_plus, ntake_nlen_ntake, ndrop_nlen_ntake. reflexivity.
      * assert (Hle : nlen (ntake n rest) <= limit) by (rewrite nlen_ntake; lia).
        replace limit with (nlen (ntake n rest) + (limit - nlen (ntake n rest))) at 2 by lia.
        rewrite ndrop_plus, ndrop_nlen_ntake. reflexivity.
Qed.

(* ---------------------------------------------------------- circular buffer = FIFO *)
Lemma set_nth_length v : forall l i, length (set_nth i v l) = length l.
Proof. induction l as [|x t IH]; intros [|i]; cbn [set_nth length]; auto. Qed.

Lemma set_nth_split v : forall l i, (i < length l)%nat ->
  set_nth i v l = firstn i l ++ v :: skipn (S i) l.
Proof.
  induction l as [|x t IH]; intros [|i] H; cbn [length] in H; try lia.
  - reflexivity.
  - cbn [set_nth firstn skipn app]. f_equal. apply IH. lia.
Qed.

Lemma skipn_nth_split : forall (l : list N) i, (i < length l)%nat ->
  skipn i l = nth i l 0 :: skipn (S i) l.
Proof.
  induction l as [|x t IH]; intros [|i] H; cbn [length] in H; try lia.
  - reflexivity.
  - cbn [skipn nth]. rewrite IH by lia. reflexivity.
Qed.

Definition rot (i : nat) (l : list N) : list N := skipn i l ++ firstn i l.

Lemma rot_head l i : (i < length l)%nat -> rot i l = nth i l 0 :: (skipn (S i) l ++ firstn i l).
Proof. intros H. unfold rot. rewrite skipn_nth_split by assumption. reflexivity. Qed.

(* overwriting the slot at the index replaces the head of the FIFO *)
Lemma rot_set_head l i v : (i < length l)%nat ->
  rot i (set_nth i v l) = v :: (skipn (S i) l ++ firstn i l).
Proof.
  intros H. unfold rot. rewrite set_nth_split by assumption.
  assert (Hf : length (firstn i l) = i) by (rewrite firstn_length; lia).
  rewrite skipn_app, firstn_app, Hf, Nat.sub_diag.
  rewrite (skipn_all2 (firstn i l)) by lia.
  rewrite (firstn_all2 (firstn i l)) by lia.
  cbn [skipn firstn app]. rewrite app_nil_r. reflexivity.
Qed.

(* overwriting the slot and advancing the index = dropping the oldest, appending the new *)
Lemma rot_put l i v : (i < length l)%nat ->
  rot (S i mod length l) (set_nth i v l) = (skipn (S i) l ++ firstn i l) ++ [v].
Proof.
  intros H. unfold rot. rewrite set_nth_split by assumption.
  assert (Hf : length (firstn i l) = i) by (rewrite firstn_length; lia).
  destruct (Nat.eq_dec (S i) (length l)) as [E|E].
  - rewrite E, Nat.mod_same by lia. cbn [skipn firstn]. rewrite app_nil_r.
    rewrite <- E. rewrite (skipn_all2 l) by lia. cbn [app]. reflexivity.
  - rewrite Nat.mod_small by lia.
    rewrite skipn_app, firstn_app, Hf.
    rewrite (skipn_all2 (firstn i l)) by lia.
    rewrite (firstn_all2 (firstn i l)) by lia.
    replace (S i - i)%nat with 1%nat by lia. cbn [skipn firstn app].
    rewrite <- app_assoc. reflexivity.
Qed.

(* pushing k <= |f| bytes through a FIFO *)
Definition fifo_push (f : list N) (b : N) : list N := tl f ++ [b].
Lemma fifo_push_fold : forall bs f, (length bs <= length f)%nat ->
  fold_left fifo_push bs f = skipn (length bs) f ++ bs.
Proof.
  induction bs as [|b bs IH]; intros f H; cbn [fold_left length] in *.
  - cbn [skipn]. now rewrite app_nil_r.
  - destruct f as [|o t]; cbn [length] in H; [lia|].
    unfold fifo_push at 2. cbn [tl]. rewrite IH by (rewrite app_length; cbn [length]; lia).
    rewrite skipn_app. cbn [skipn].
    replace (length bs - length t)%nat with 0%nat by lia. cbn [skipn].
    rewrite <- app_assoc. reflexivity.
Qed.
