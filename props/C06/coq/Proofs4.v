(* C06 — fixed-size chunker; accepted parameters satisfy the hypotheses; witnesses for
   parameters outside the hypotheses; the first cut is the least cut position; resync. *)
From Verif.Base Require Import Tactics.
From Verif.C06 Require Import Extracted Model Spec ListLemmas Proofs Proofs2 Proofs3.
Local Open Scope N_scope.

(* ------------------------------------------------------------ fixed-size chunker *)
Lemma fixed_cuts_fuel_nil n size : fixed_cuts_fuel n size [] = [].
Proof. destruct n; reflexivity. Qed.
Lemma fixed_cuts_fuel_cons m size s : s <> [] ->
  fixed_cuts_fuel (S m) size s = ntake size s :: fixed_cuts_fuel m size (ndrop size s).
Proof. destruct s; [congruence|reflexivity]. Qed.

Lemma ndrop_shorter size (s : bytes) : 0 < size -> s <> [] -> (length (ndrop size s) < length s)%nat.
Proof.
  intros Hs Hne. pose proof (nlen_ndrop size s) as H. unfold nlen in H.
  destruct s; [congruence|]. cbn [length] in *. lia.
Qed.

Lemma fixed_loop_spec size : 0 < size -> forall n m st rest sched,
  (f_finished st = true -> rest = []) -> (length rest < n)%nat -> (length rest <= m)%nat ->
  fixed_loop n size st rest sched = Some (fixed_cuts_fuel m size rest).
Proof.
  intros Hs. induction n as [|n IH]; intros m st rest sched Hfin Hn Hm; [lia|].
  cbn [fixed_loop]. unfold fixed_next.
  destruct (f_finished st) eqn:Ef.
  { rewrite (Hfin eq_refl), fixed_cuts_fuel_nil. reflexivity. }
  destruct (read_to_end_spec sched size rest) as [sc' Hr]. rewrite Hr.
  destruct (ntake size rest) as [|d0 d] eqn:Ed.
  - apply ntake_nil_inv in Ed. destruct Ed as [Ed|Ed]; [lia|]. subst rest.
    rewrite fixed_cuts_fuel_nil. reflexivity.
  - assert (Hne : rest <> []) by (intros ->; rewrite ntake_firstn, firstn_nil in Ed; discriminate).
    rewrite <- Ed.
    pose proof (ndrop_shorter size rest Hs Hne) as Hsh.
    destruct m as [|m]; [destruct rest; [congruence|cbn [length] in Hm; lia]|].
    rewrite (IH m) ; try lia.
    + rewrite (fixed_cuts_fuel_cons m size rest Hne). reflexivity.
    + cbn [f_finished]. intros Hf. apply N.ltb_lt in Hf. rewrite nlen_ntake in Hf.
      apply ndrop_all. lia.
Qed.

Lemma fixed_cuts_concat size : 0 < size -> forall m s, (length s <= m)%nat ->
  concat (fixed_cuts_fuel m size s) = s.
Proof.
  intros Hs. induction m as [|m IH]; intros s Hl.
  - destruct s; [reflexivity|cbn [length] in Hl; lia].
  - destruct s as [|x t] eqn:Es; [reflexivity|]. rewrite <- Es in *.
    assert (Hne : s <> []) by (rewrite Es; discriminate).
    rewrite (fixed_cuts_fuel_cons m size s Hne). cbn [concat].
    rewrite IH; [apply ntake_ndrop|]. pose proof (ndrop_shorter size s Hs Hne). lia.
Qed.

Lemma fixed_cuts_bounds size : 0 < size -> forall m s, (length s <= m)%nat ->
  fixed_bounds_ok size (fixed_cuts_fuel m size s) = true.
Proof.
  intros Hs. induction m as [|m IH]; intros s Hl.
  - destruct s; [reflexivity|cbn [length] in Hl; lia].
  - destruct s as [|x t] eqn:Es; [reflexivity|]. rewrite <- Es in *.
    assert (Hne : s <> []) by (rewrite Es; discriminate).
    rewrite (fixed_cuts_fuel_cons m size s Hne).
    pose proof (ndrop_shorter size s Hs Hne) as Hsh.
    assert (Hrec : fixed_bounds_ok size (fixed_cuts_fuel m size (ndrop size s)) = true) by (apply IH; lia).
    assert (Hpos : 0 < nlen s) by (rewrite Es, nlen_cons; lia).
    destruct (N.le_gt_cases (nlen s) size) as [Hshort|Hlong].
    + rewrite (ndrop_all size s Hshort), fixed_cuts_fuel_nil, (ntake_all size s Hshort).
      cbn [fixed_bounds_ok]. apply andb_true_intro. split; [apply N.ltb_lt|apply N.leb_le]; lia.
    + assert (Hc : nlen (ntake size s) = size) by (rewrite nlen_ntake; lia).
      cbn [fixed_bounds_ok]. rewrite Hc.
      destruct (fixed_cuts_fuel m size (ndrop size s)) as [|c' cs'].
      * apply andb_true_intro. split; [apply N.ltb_lt|apply N.leb_le]; lia.
      * rewrite Hrec, N.eqb_refl. reflexivity.
Qed.

Lemma fixed_size_partition_lemma : forall size hint s sched, 0 < size ->
  fixed_impl size hint s sched = Some (fixed_cuts size s) /\
  concat (fixed_cuts size s) = s /\ fixed_bounds_ok size (fixed_cuts size s) = true.
Proof.
  intros size hint s sched Hs. unfold fixed_impl, fixed_cuts. split; [|split].
  - apply fixed_loop_spec; try lia. cbn [f_finished]. discriminate.
  - apply fixed_cuts_concat; [assumption|lia].
  - apply fixed_cuts_bounds; [assumption|lia].
Qed.
Example fixed_size_example : fixed_impl 3 0 [1;2;3;4;5;6;7] [Short 1; Interrupted; Short 2] = Some [[1;2;3];[4;5;6];[7]].
Proof. vm_compute. reflexivity. Qed.

(* size 0 (accepted by the unchanged tree): no chunk at all for a non-empty stream *)
Lemma fixed_size_zero_refuted_lemma : exists s, s <> [] /\ forall hint sched, fixed_impl 0 hint s sched = Some [].
Proof.
  exists [7]. split; [discriminate|]. intros hint sched. unfold fixed_impl. cbn [length fixed_loop fixed_next f_finished].
  destruct (read_to_end_spec sched 0 [7]) as [sc' H]. rewrite H. reflexivity.
Qed.

(* ------------------------------------------------------------ acceptance implies the hypotheses *)
Lemma accepted_params_ok_lemma : forall P avg mn mx,
  rabin_accepts avg mn mx = true ->
  params_ok {| c_poly := P; c_avg := avg; c_min := mn; c_max := mx |} = true.
Proof.
  intros P avg mn mx H. unfold rabin_accepts, rabin_param_errors in H. cbn [existsb] in H.
  apply negb_true_iff in H.
  repeat (apply orb_false_elim in H; destruct H as [?H H]).
  assert (B1 : PREFILL_SLICE <= MIN_CHUNK_MIN_SIZE) by (apply N.leb_le; vm_compute; reflexivity).
  assert (B2 : BUF_SIZE - 1 <= MIN_CHUNK_MIN_SIZE) by (apply N.leb_le; vm_compute; reflexivity).
  assert (B3 : 1 <= MIN_CHUNK_MIN_SIZE) by (apply N.leb_le; vm_compute; reflexivity).
  (* the power-of-two test, whichever way the source writes it
     (`(cs & (cs - 1)) != 0` or `!cs.is_power_of_two()`) *)
  assert (L : (N.land avg (avg - 1) =? 0) = true).
  { destruct (N.land avg (avg - 1) =? 0) eqn:E; [reflexivity|].
    rewrite ?andb_false_r in H0. cbn in H0. discriminate. }
  apply N.ltb_ge in H1, H2, H3.
  unfold params_ok, pow2. cbn [c_avg c_min c_max]. rewrite L.
  repeat (apply andb_true_intro; split); try apply N.leb_le; try apply N.ltb_lt; try reflexivity; lia.
Qed.

Lemma accepted_fixed_size_pos size : fixed_accepts size = true -> 0 < size.
Proof.
  unfold fixed_accepts. intros H. apply N.leb_le in H.
  assert (1 <= FIXED_SIZE_MIN) by (apply N.leb_le; vm_compute; reflexivity). lia.
Qed.

Lemma accepted_rabin_partition_lemma : forall md P avg mn mx hint s sched,
  rabin_accepts avg mn mx = true ->
  let p := {| c_poly := P; c_avg := avg; c_min := mn; c_max := mx |} in
  chunks_impl md p hint s sched = Ok (cuts p s) /\ concat (cuts p s) = s /\ bounds_ok mn mx (cuts p s) = true.
Proof.
  intros md P avg mn mx hint s sched H p.
  pose proof (accepted_params_ok_lemma P avg mn mx H) as Hp. fold p in Hp.
  split; [apply chunks_impl_is_cuts; assumption|]. split.
  - pose proof (params_ok_hyps p Hp) as Hh. unfold cuts.
    apply cuts_fuel_concat; [apply (h_min1 _ _ Hh)|lia].
  - apply (cuts_bounds_ok p s Hp).
Qed.

Lemma accepted_fixed_partition_lemma : forall size hint s sched, fixed_accepts size = true ->
  fixed_impl size hint s sched = Some (fixed_cuts size s) /\
  concat (fixed_cuts size s) = s /\ fixed_bounds_ok size (fixed_cuts size s) = true.
Proof. intros. apply fixed_size_partition_lemma. apply accepted_fixed_size_pos. assumption. Qed.

(* ------------------------------------------------------------ witnesses outside the hypotheses *)
Definition ex_stream (n : nat) : bytes := map (fun i => (N.of_nat i * 37 + 11) mod 256) (seq 0 n).

(* avg 64 / min 64 / max 128 passes the three original checks of check_rabin_params.  The first
   chunk leaves more than min bytes in the read buffer: the overflow-checked build panics at
   `min_size -= open_buf_len`, the wrapping build emits one chunk far above max. *)
Definition tiny_params : cparams := {| c_poly := 0x3DA3358B4DC173; c_avg := 64; c_min := 64; c_max := 128 |}.
Lemma chunks_bounds_tiny_params_refuted_lemma :
  exists p s, pow2 (c_avg p) = true /\ c_min p <= c_avg p /\ c_avg p <= c_max p /\ PREFILL_SLICE <= c_min p /\
    chunks_impl Debug p 0 s [] = Panic PMinSizeSub /\
    exists cs, chunks_impl Release p 0 s [] = Ok cs /\ bounds_ok (c_min p) (c_max p) cs = false.
Proof.
  exists tiny_params, (ex_stream 400).
  split; [vm_compute; reflexivity|]. split; [vm_compute; discriminate|]. split; [vm_compute; discriminate|].
  split; [vm_compute; discriminate|].
  split; [vm_compute; reflexivity|].
  eexists. split; [vm_compute; reflexivity|]. vm_compute. reflexivity.
Qed.

(* min below the 64 bytes of the prefill slice: `vec.len() - 64` *)
Lemma chunk_min_below_window_refuted_lemma :
  exists p s, pow2 (c_avg p) = true /\ c_min p <= c_avg p /\ c_avg p <= c_max p /\
    chunks_impl Debug p 0 s [] = Panic PWindowSub /\ chunks_impl Release p 0 s [] = Panic PWindowSlice.
Proof.
  exists {| c_poly := 0x3DA3358B4DC173; c_avg := 16; c_min := 10; c_max := 64 |}, (ex_stream 100).
  split; [vm_compute; reflexivity|]. split; [vm_compute; discriminate|]. split; [vm_compute; discriminate|].
  split; vm_compute; reflexivity.
Qed.

(* ------------------------------------------------------------ the first cut is the least cut *)
Definition stop (mask mx : N) (w : awin) (L : N) (atend : bool) : bool :=
  (mx <=? L) || (N.land (a_hash w) mask =? 0) || atend.

Lemma scan_spec T mask mx : forall l w len,
  let k := scan T mask mx w len l in
  stop mask mx (fold_left (a_slide T) (firstn k l) w) (len + N.of_nat k) (Nat.eqb k (length l)) = true /\
  forall j, (j < k)%nat ->
    stop mask mx (fold_left (a_slide T) (firstn j l) w) (len + N.of_nat j) (Nat.eqb j (length l)) = false.
Proof.
  induction l as [|b l IH]; intros w len; cbv zeta; rewrite scan_unfold; unfold stop.
  - destruct (mx <=? len) eqn:E1; [cbn [firstn fold_left]; rewrite N.add_0_r, E1; split; [reflexivity|intros; lia]|].
    destruct (N.land (a_hash w) mask =? 0) eqn:E2; cbn [firstn fold_left length Nat.eqb];
      rewrite N.add_0_r, E1, ?E2; (split; [cbn; rewrite ?orb_true_r; reflexivity|intros; lia]).
  - destruct (mx <=? len) eqn:E1; [cbn [firstn fold_left]; rewrite N.add_0_r, E1; split; [reflexivity|intros; lia]|].
    destruct (N.land (a_hash w) mask =? 0) eqn:E2.
    { cbn [firstn fold_left]. rewrite N.add_0_r, E1, E2. split; [reflexivity|intros; lia]. }
    specialize (IH (a_slide T w b) (len + 1)). cbv zeta in IH. destruct IH as [I1 I2].
    set (k := scan T mask mx (a_slide T w b) (len + 1) l) in *.
    split.
    + cbn [firstn fold_left length Nat.eqb]. unfold stop in I1.
      replace (len + N.of_nat (S k)) with (len + 1 + N.of_nat k) by lia. exact I1.
    + intros j Hj. destruct j as [|j].
      * cbn [firstn fold_left length Nat.eqb]. rewrite N.add_0_r, E1, E2. reflexivity.
      * cbn [firstn fold_left length Nat.eqb]. unfold stop in I2.
        replace (len + N.of_nat (S j)) with (len + 1 + N.of_nat j) by lia. apply I2. lia.
Qed.

Lemma first_cut_is_least_lemma : forall T p s, c_min p <= nlen s ->
  let L := N.of_nat (first_len T p s) in
  c_min p <= L /\ L <= nlen s /\ is_cut T p s L = true /\
  forall L', c_min p <= L' -> L' < L -> is_cut T p s L' = false.
Proof.
  intros T p s Hl. cbv zeta.
  assert (FL : first_len T p s =
               (N.to_nat (c_min p) + scan T (c_avg p - 1) (c_max p) (win_start T p s) (c_min p) (ndrop (c_min p) s))%nat).
  { unfold first_len. destruct (N.ltb_spec (nlen s) (c_min p)); [lia|reflexivity]. }
  pose proof (first_len_le T p s) as Hle.
  destruct (scan_spec T (c_avg p - 1) (c_max p) (ndrop (c_min p) s) (win_start T p s) (c_min p)) as [S1 S2].
  set (k := scan T (c_avg p - 1) (c_max p) (win_start T p s) (c_min p) (ndrop (c_min p) s)) in *.
  assert (Hlen : length (ndrop (c_min p) s) = (length s - N.to_nat (c_min p))%nat).
  { rewrite ndrop_skipn. apply skipn_length. }
  assert (Hwin : forall j, win_at T p s (c_min p + N.of_nat j)
                 = fold_left (a_slide T) (firstn j (ndrop (c_min p) s)) (win_start T p s)).
  { intros j. unfold win_at. rewrite ntake_firstn. do 2 f_equal. lia. }
  assert (Hend : forall j, (j <= length s - N.to_nat (c_min p))%nat ->
                 (c_min p + N.of_nat j =? nlen s) = Nat.eqb j (length (ndrop (c_min p) s))).
  { intros j Hj. rewrite Hlen. unfold nlen in *.
    destruct (Nat.eqb_spec j (length s - N.to_nat (c_min p))); [apply N.eqb_eq|apply N.eqb_neq]; lia. }
  rewrite FL. unfold nlen in *.
  split; [lia|]. split; [lia|]. split.
  - unfold is_cut. replace (N.of_nat (N.to_nat (c_min p) + k)) with (c_min p + N.of_nat k) by lia.
    rewrite Hwin. unfold nlen. rewrite Hend by lia. exact S1.
  - intros L' H1 H2. set (j := N.to_nat (L' - c_min p)).
    assert (Hj : (j < k)%nat) by (unfold j; lia).
    replace L' with (c_min p + N.of_nat j) by (unfold j; lia).
    unfold is_cut. rewrite Hwin. unfold nlen. rewrite Hend by lia. apply S2. assumption.
Qed.

(* ------------------------------------------------------------ resync after a common cut *)
Lemma cuts_fuel_indep T p : 1 <= c_min p -> forall m m' s, (length s <= m)%nat -> (length s <= m')%nat ->
  cuts_fuel m T p s = cuts_fuel m' T p s.
Proof.
  intros Hm. induction m as [|m IH]; intros m' s H1 H2.
  - destruct s; [now rewrite !cuts_fuel_nil|cbn [length] in H1; lia].
  - destruct s as [|x t] eqn:Es; [now rewrite !cuts_fuel_nil|]. rewrite <- Es in *.
    assert (Hne : s <> []) by (rewrite Es; discriminate).
    destruct m' as [|m']; [rewrite Es in H2; cbn [length] in H2; lia|].
    rewrite !(cuts_fuel_cons _ T p s Hne). f_equal.
    pose proof (first_len_pos T p s Hm Hne).
    assert ((length (skipn (first_len T p s) s) < length s)%nat).
    { rewrite skipn_length. rewrite Es in *. cbn [length] in *. lia. }
    apply IH; lia.
Qed.

Lemma resync_lemma : forall p t pre a post, params_ok p = true ->
  cuts p (a ++ t) = pre ++ post -> concat pre = a -> post = cuts p t.
Proof.
  intros p t pre. induction pre as [|c pre IH]; intros a post Hp Hc Ha.
  - cbn [concat] in Ha. subst a. exact (eq_sym Hc).
  - pose proof (params_ok_hyps p Hp) as H. pose proof (h_min1 _ _ H) as Hm.
    cbn [concat] in Ha. unfold cuts in Hc.
    destruct (a ++ t) as [|x r] eqn:Es.
    { cbn in Hc. discriminate. }
    rewrite <- Es in *.
    assert (Hne : a ++ t <> []) by (rewrite Es; discriminate).
    destruct (length (a ++ t)) as [|m] eqn:El; [rewrite Es in El; discriminate|].
    rewrite (cuts_fuel_cons m (tab_of p) p _ Hne) in Hc. cbn [app] in Hc. inversion Hc as [[Hc1 Hc2]].
    set (L := first_len (tab_of p) p (a ++ t)) in *.
    assert (Hsplit : skipn L (a ++ t) = concat pre ++ t).
    { pose proof (firstn_skipn L (a ++ t)) as Hfs. rewrite Hc1 in Hfs.
      assert (E : c ++ skipn L (a ++ t) = c ++ (concat pre ++ t)).
      { rewrite Hfs. rewrite <- Ha. rewrite <- app_assoc. reflexivity. }
      apply app_inv_head in E. exact E. }
    apply (IH (concat pre) post Hp); [|reflexivity].
    unfold cuts. rewrite <- Hsplit, <- Hc2.
    pose proof (first_len_pos (tab_of p) p _ Hm Hne).
    assert ((length (skipn L (a ++ t)) <= m)%nat) by (rewrite skipn_length; fold L in H0; lia).
    apply cuts_fuel_indep; [assumption|lia|assumption].
Qed.
