(* C06 — declarative specification of the chunk boundaries (executable: used as the oracle).

   The window of the chunker is described as a FIFO of the last `window_size` bytes (oldest
   first) together with the fingerprint the table-driven code maintains for it; nothing of
   the iterator state (read buffer, window index, old window contents, finished flag,
   read schedule) appears here.  `cuts p s` depends on `p` and the bytes of `s` only. *)
From Verif.Base Require Import Tactics.
From Verif.C06 Require Import Extracted Model.
Local Open Scope N_scope.

Record awin := { a_fifo : bytes; a_hash : N }.

(* window after the prefill with bytes bs (the slot that is zeroed is the oldest one) *)
Definition a_init (T : rtab) (bs : bytes) : awin :=
  {| a_fifo := 0 :: bs; a_hash := fold_left (append_byte T) bs 0 |}.
(* one more byte: the oldest byte leaves, b enters *)
Definition a_slide (T : rtab) (w : awin) (b : N) : awin :=
  match a_fifo w with
  | [] => w
  | o :: t => {| a_fifo := t ++ [b];
                 a_hash := append_byte T (N.lxor (a_hash w) (tbl (t_out T) o)) b |}
  end.

(* the window the chunker has when the chunk that starts at s[0] has length L >= min:
   the 63 bytes s[min-64 .. min-1) followed by s[min .. L)   (the byte s[min-1] is skipped:
   reset_and_prefill_window takes only window_size-1 of the 64 bytes it is given) *)
Definition win_start (T : rtab) (p : cparams) (s : bytes) : awin :=
  a_init T (ntake (t_wsize T - 1) (ndrop (c_min p - PREFILL_SLICE) (ntake (c_min p) s))).
Definition win_at (T : rtab) (p : cparams) (s : bytes) (L : N) : awin :=
  fold_left (a_slide T) (ntake (L - c_min p) (ndrop (c_min p) s)) (win_start T p s).

(* position L (a length, min <= L <= |s|) ends the chunk that starts at s[0] *)
Definition is_cut (T : rtab) (p : cparams) (s : bytes) (L : N) : bool :=
  (c_max p <=? L) || (N.land (a_hash (win_at T p s L)) (c_avg p - 1) =? 0) || (L =? nlen s).

(* executable search for the least such L: number of bytes taken beyond min *)
Fixpoint scan (T : rtab) (mask max_size : N) (w : awin) (len : N) (l : bytes) : nat :=
  if max_size <=? len then O
  else if N.land (a_hash w) mask =? 0 then O
  else match l with
       | [] => O
       | b :: l' => S (scan T mask max_size (a_slide T w b) (len + 1) l')
       end.

(* length of the first chunk of s *)
Definition first_len (T : rtab) (p : cparams) (s : bytes) : nat :=
  if nlen s <? c_min p then length s
  else (N.to_nat (c_min p) + scan T (c_avg p - 1) (c_max p) (win_start T p s) (c_min p) (ndrop (c_min p) s))%nat.

Fixpoint cuts_fuel (n : nat) (T : rtab) (p : cparams) (s : bytes) : list bytes :=
  match n with
  | O => []
  | S k => match s with
           | [] => []
           | _ => let L := first_len T p s in firstn L s :: cuts_fuel k T p (skipn L s)
           end
  end.
Definition cuts (p : cparams) (s : bytes) : list bytes := cuts_fuel (length s) (tab_of p) p s.

(* hypotheses of the theorems, as booleans *)
Definition pow2 (n : N) : bool := (0 <? n) && (N.land n (n - 1) =? 0).
Definition params_ok (p : cparams) : bool :=
  pow2 (c_avg p) && (c_min p <=? c_avg p) && (c_avg p <=? c_max p)
  && (PREFILL_SLICE <=? c_min p) && (BUF_SIZE - 1 <=? c_min p).

(* size bounds of a chunk list: all but the last within [mn, mx], the last within (0, mx] *)
Fixpoint bounds_ok (mn mx : N) (cs : list bytes) : bool :=
  match cs with
  | [] => true
  | [c] => (0 <? nlen c) && (nlen c <=? mx)
  | c :: cs' => (mn <=? nlen c) && (nlen c <=? mx) && bounds_ok mn mx cs'
  end.

(* fixed-size chunker: pieces of `size` bytes, the last one shorter *)
Fixpoint fixed_cuts_fuel (n : nat) (size : N) (s : bytes) : list bytes :=
  match n with
  | O => []
  | S k => match s with
           | [] => []
           | _ => ntake size s :: fixed_cuts_fuel k size (ndrop size s)
           end
  end.
Definition fixed_cuts (size : N) (s : bytes) : list bytes := fixed_cuts_fuel (length s) size s.
Fixpoint fixed_bounds_ok (size : N) (cs : list bytes) : bool :=
  match cs with
  | [] => true
  | [c] => (0 <? nlen c) && (nlen c <=? size)
  | c :: cs' => (nlen c =? size) && fixed_bounds_ok size cs'
  end.

(* direct (table-free) fingerprint of a window: the bytes as a polynomial over GF(2),
   most significant byte first, reduced modulo P *)
Definition bytes_to_N (w : bytes) : N := fold_left (fun a b => N.lor (N.shiftl a 8) b) w 0.
Definition fp_direct (P : N) (w : bytes) : N := pmod (bytes_to_N w) P.
