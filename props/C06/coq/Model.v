(* C06 — executable model of the chunkers of rustic_core.

   Rabin chunker: crates/core/src/chunker/rabin.rs (ChunkIter::new / Iterator::next),
   rolling hash: rustic_cdc 0.3.1 rolling_hash.rs (Rabin64) and polynom.rs (Polynom64).
   Fixed-size chunker: crates/core/src/chunker/fixed_size.rs.
   Constants (BUF_SIZE, the 64 of the prefill slice, the window bits, the conditions of
   check_rabin_params) come from Extracted.v, i.e. from the current source.

   Conventions
   * bytes are N (< 256), streams are lists; usize/u64 are N with explicit truncation
     (`shl64`) or explicit checked subtraction (`usize_sub`: Debug -> panic, Release -> wrap).
   * The reader is the remaining stream plus a read schedule `list rd`: each call of
     `Read::read` pops one event; `Short k` delivers at most max(1,k) bytes (never more than
     the buffer offered, never more than what remains), `Interrupted` fails with
     ErrorKind::Interrupted; once the list is used up every read is as long as possible.
     (A terminating run consumes finitely many events, so finite lists lose nothing; the
     sizes of the buffers std's `read_to_end` offers are folded into the schedule.)
   * The read-ahead buffer `buf`/`pos` is represented by `st_avail` = buf[pos..] and
     `st_buflen` = buf.len() (it shrinks permanently: `buf.truncate(size)`); buf[..pos] is
     never read again by the code.
   * `vec` is accumulated in reverse inside the main loop (`b :: acc` = vec.push(b)). *)
From Verif.Base Require Import Tactics.
From Verif.C06 Require Import Extracted.
Local Open Scope N_scope.

Definition byte := N.
Definition bytes := list N.
Definition nlen {A} (l : list A) : N := N.of_nat (length l).
(* firstn / skipn with a binary count (a wrapped usize must not be turned into a unary nat);
   Proofs.v shows ntake n l = firstn (N.to_nat n) l and ndrop n l = skipn (N.to_nat n) l *)
Fixpoint ntake {A} (n : N) (l : list A) : list A :=
  match l with [] => [] | x :: t => if n =? 0 then [] else x :: ntake (n - 1) t end.
Fixpoint ndrop {A} (n : N) (l : list A) : list A :=
  match l with [] => [] | x :: t => if n =? 0 then l else ndrop (n - 1) t end.

Inductive mode := Debug | Release.
Inductive panic :=
| PMinSizeSub      (* `min_size -= open_buf_len`: attempt to subtract with overflow *)
| PWindowSub       (* `vec.len() - 64`: attempt to subtract with overflow (debug) *)
| PWindowSlice.    (* `vec[huge..len]`: slice index out of range (release) *)
Inductive res (A : Type) := Ok (a : A) | Panic (p : panic) | OutOfFuel.
Arguments Ok {A} a.
Arguments Panic {A} p.
Arguments OutOfFuel {A}.

Definition U64 : N := 2 ^ 64.
Definition usize_sub (md : mode) (a b : N) : option N :=
  if b <=? a then Some (a - b)
  else match md with Debug => None | Release => Some (a + U64 - b) end.

(* ------------------------------------------------------------------ Polynom64 *)
Definition shl64 (x k : N) : N := (N.shiftl x k) mod U64.
(* `63 - leading_zeros` for p > 0 (the model is only used with polynomials of degree >= 8) *)
Definition degree (p : N) : N := N.log2 p.

(* `while p.degree() >= m.degree() { p ^= m << (p.degree() - m.degree()) }` *)
Fixpoint pmod_fuel (fuel : nat) (p m : N) : N :=
  match fuel with
  | O => p
  | S f =>
      if p =? 0 then p
      else if N.log2 m <=? N.log2 p
           then pmod_fuel f (N.lxor p (N.shiftl m (N.log2 p - N.log2 m))) m
           else p
  end.
Definition pmod (p m : N) : N := pmod_fuel (N.to_nat (N.size p)) p m.

(* ------------------------------------------------------------------ Rabin64 *)
Record rtab := { t_shift : N; t_out : list N; t_mod : list N; t_wsize : N; t_wmask : N }.
Record rstate := { r_win : list N; r_idx : N; r_hash : N }.

Fixpoint iter {A} (n : nat) (f : A -> A) (x : A) : A :=
  match n with O => x | S k => iter k f (f x) end.

(* calculate_out_table: hash = b mod P; (window_size-1) times: hash <<= 8; hash = hash mod P *)
Definition out_entry (wsize P b : N) : N :=
  iter (N.to_nat (wsize - 1)) (fun h => pmod (shl64 h 8) P) (pmod b P).
(* calculate_mod_table: p = b << k; elem = p.modulo(P) | p *)
Definition mod_entry (P b : N) : N :=
  let p := shl64 b (degree P) in N.lor (pmod p P) p.
Definition byte_values : list N := map N.of_nat (seq 0 256).

(* Rabin64::new_with_polynom(bits, P) — the immutable part *)
Definition rabin_tab (bits P : N) : rtab :=
  let ws := N.shiftl 1 bits in
  {| t_shift := degree P - 8;
     t_out := map (out_entry ws P) byte_values;
     t_mod := map (mod_entry P) byte_values;
     t_wsize := ws; t_wmask := ws - 1 |}.
(* ... and the mutable part: window_data = vec![0; window_size], window_index = 0, hash = 0 *)
Definition rabin_init (T : rtab) : rstate :=
  {| r_win := repeat 0 (N.to_nat (t_wsize T)); r_idx := 0; r_hash := 0 |}.

Definition tbl (t : list N) (i : N) : N := nth (N.to_nat i) t 0.
Fixpoint set_nth (n : nat) (v : N) (l : list N) : list N :=
  match l, n with
  | [], _ => []
  | _ :: t, O => v :: t
  | x :: t, S k => x :: set_nth k v t
  end.

(* mod_index = (hash >> polynom_shift) & 255; hash <<= 8; hash |= byte; hash ^= mod_table[mod_index] *)
Definition append_byte (T : rtab) (h b : N) : N :=
  let mi := N.land (N.shiftr h (t_shift T)) 255 in
  N.lxor (N.lor (shl64 h 8) b) (tbl (t_mod T) mi).

(* window_data[window_index] = byte; <hash update>; window_index = (window_index + 1) & mask *)
Definition rb_put (T : rtab) (r : rstate) (h b : N) : rstate :=
  {| r_win := set_nth (N.to_nat (r_idx r)) b (r_win r);
     r_idx := N.land (r_idx r + 1) (t_wmask T);
     r_hash := append_byte T h b |}.

(* slide: out_value = window_data[window_index]; hash ^= out_table[out_value]; then as above *)
Definition rb_slide (T : rtab) (r : rstate) (b : N) : rstate :=
  let out := tbl (r_win r) (r_idx r) in
  rb_put T r (N.lxor (r_hash r) (tbl (t_out T) out)) b.

(* reset_and_prefill_window: hash = 0; up to window_size-1 bytes are put WITHOUT removing the
   old value; window_index is NOT reset; finally window_data[window_index] = 0 *)
Definition rb_prefill_step (T : rtab) (r : rstate) (b : N) : rstate := rb_put T r (r_hash r) b.
Definition rb_reset_prefill (T : rtab) (r : rstate) (it : bytes) : rstate :=
  let r0 := {| r_win := r_win r; r_idx := r_idx r; r_hash := 0 |} in
  let r1 := fold_left (rb_prefill_step T) (ntake (t_wsize T - 1) it) r0 in
  {| r_win := set_nth (N.to_nat (r_idx r1)) 0 (r_win r1); r_idx := r_idx r1; r_hash := r_hash r1 |}.

(* ------------------------------------------------------------------ the reader *)
Inductive rd := Short (k : N) | Interrupted.

Inductive rdres := RInt (sc : list rd) | RData (d rest : bytes) (sc : list rd).
(* one `reader.read(&mut buf[..cap])`, cap >= 1 *)
Definition sread (cap : N) (rest : bytes) (sched : list rd) : rdres :=
  match sched with
  | Interrupted :: sc => RInt sc
  | Short k :: sc => let n := N.min (N.max 1 k) cap in RData (ntake n rest) (ndrop n rest) sc
  | [] => RData (ntake cap rest) (ndrop cap rest) []
  end.

(* `(&mut reader).take(limit).read_to_end(&mut vec)`: reads until the limit is reached (Take
   then answers Ok(0) without touching the reader) or the reader says Ok(0); Interrupted is
   retried.  Returns (bytes appended, remaining stream, remaining schedule). *)
Fixpoint read_to_end (limit : N) (rest : bytes) (sched : list rd) : bytes * bytes * list rd :=
  match sched with
  | [] => (ntake limit rest, ndrop limit rest, [])
  | ev :: sc =>
      if limit =? 0 then ([], rest, sched)
      else match ev with
           | Interrupted => read_to_end limit rest sc
           | Short k =>
               let n := N.min (N.max 1 k) limit in
               match ntake n rest with
               | [] => ([], rest, sc)
               | d => let '(d', rest', sc') := read_to_end (limit - nlen d) (ndrop n rest) sc in
                      (d ++ d', rest', sc')
               end
           end
  end.

(* ------------------------------------------------------------------ Rabin ChunkIter *)
Record cparams := { c_poly : N; c_avg : N; c_min : N; c_max : N }.
Record cstate := { st_avail : bytes; st_buflen : N; st_finished : bool;
                   st_rabin : rstate; st_hint : N }.

(* ChunkIter::new: buf = vec![0; BUF_SIZE], pos = BUF_SIZE, finished = false *)
Definition init_state (T : rtab) (hint : N) : cstate :=
  {| st_avail := []; st_buflen := BUF_SIZE; st_finished := false;
     st_rabin := rabin_init T; st_hint := hint |}.

Record lstate := { l_acc : bytes; l_len : N; l_r : rstate; l_avail : bytes; l_buflen : N;
                   l_rest : bytes; l_sched : list rd; l_fin : bool }.

(* the `loop { ... }` of next(); acc = vec reversed, len = vec.len() *)
Fixpoint main_loop (fuel : nat) (T : rtab) (mask max_size : N) (acc : bytes) (len : N)
         (r : rstate) (avail : bytes) (buflen : N) (rest : bytes) (sched : list rd)
  : option lstate :=
  match fuel with
  | O => None
  | S f =>
      if max_size <=? len then Some (Build_lstate acc len r avail buflen rest sched false)
      else if N.land (r_hash r) mask =? 0 then Some (Build_lstate acc len r avail buflen rest sched false)
      else match avail with
           | b :: av =>                                   (* buf.len() != pos *)
               main_loop f T mask max_size (b :: acc) (len + 1) (rb_slide T r b) av buflen rest sched
           | [] =>                                        (* refill: reader.read(&mut buf[..]) *)
               match sread buflen rest sched with
               | RInt sc => main_loop f T mask max_size acc len r [] buflen rest sc   (* continue *)
               | RData [] rest' sc =>                     (* Ok(0): finished = true; break *)
                   Some (Build_lstate acc len r [] buflen rest' sc true)
               | RData (b :: d) rest' sc =>               (* Ok(n): pos = 0; buf.truncate(n); push *)
                   main_loop f T mask max_size (b :: acc) (len + 1) (rb_slide T r b) d (1 + nlen d) rest' sc
               end
           end
  end.

Definition loop_fuel (rest : bytes) (sched : list rd) : nat := (2 * length rest + length sched + 2)%nat.

(* one call of Iterator::next.  Result: (item, new state, remaining stream, remaining schedule) *)
Definition chunk_next (md : mode) (T : rtab) (p : cparams) (st : cstate) (rest : bytes) (sched : list rd)
  : res (option bytes * cstate * bytes * list rd) :=
  if st_finished st then Ok (None, st, rest, sched) else
  let open_buf_len := nlen (st_avail st) in
  (* vec = buf[pos..]; pos = buf.len(); min_size -= open_buf_len *)
  match (if 0 <? open_buf_len then usize_sub md (c_min p) open_buf_len else Some (c_min p)) with
  | None => Panic PMinSizeSub
  | Some min_size =>
      let '(data, rest1, sched1) := read_to_end min_size rest sched in
      let size := nlen data in
      let vec := st_avail st ++ data in
      if size <? min_size then
        (* finished = true; vec.truncate(size + open_buf_len); None if empty *)
        let st' := {| st_avail := []; st_buflen := st_buflen st; st_finished := true;
                      st_rabin := st_rabin st; st_hint := st_hint st |} in
        Ok (match vec with [] => None | _ => Some vec end, st', rest1, sched1)
      else
        let vlen := open_buf_len + size in
        if vlen <? PREFILL_SLICE then
          Panic (match md with Debug => PWindowSub | Release => PWindowSlice end)
        else
          let r1 := rb_reset_prefill T (st_rabin st) (ndrop (vlen - PREFILL_SLICE) vec) in
          match main_loop (loop_fuel rest1 sched1) T (c_avg p - 1) (c_max p) (rev vec) vlen r1 []
                          (st_buflen st) rest1 sched1 with
          | None => OutOfFuel
          | Some ls =>
              let st' := {| st_avail := l_avail ls; st_buflen := l_buflen ls; st_finished := l_fin ls;
                            st_rabin := l_r ls; st_hint := st_hint st - l_len ls |} in
              Ok (Some (rev (l_acc ls)), st', l_rest ls, l_sched ls)
          end
  end.

(* drive the iterator to its first None *)
Fixpoint chunks_loop (n : nat) (md : mode) (T : rtab) (p : cparams) (st : cstate) (rest : bytes)
         (sched : list rd) : res (list bytes) :=
  match n with
  | O => OutOfFuel
  | S k =>
      match chunk_next md T p st rest sched with
      | Ok (None, _, _, _) => Ok []
      | Ok (Some c, st', rest', sched') =>
          match chunks_loop k md T p st' rest' sched' with
          | Ok cs => Ok (c :: cs)
          | e => e
          end
      | Panic x => Panic x
      | OutOfFuel => OutOfFuel
      end
  end.

Definition tab_of (p : cparams) : rtab := rabin_tab WINDOW_BITS (c_poly p).

Definition chunks_impl (md : mode) (p : cparams) (hint : N) (s : bytes) (sched : list rd) : res (list bytes) :=
  let T := tab_of p in
  chunks_loop (S (S (length s))) md T p (init_state T hint) s sched.

(* check_rabin_params: Ok iff none of the error conditions found in the source holds *)
Definition rabin_accepts (cs mn mx : N) : bool := negb (existsb (fun b => b) (rabin_param_errors cs mn mx)).

(* check_rabin_polynomial (ChunkIter::from_config): the stored polynomial is used only if the
   condition found in the source holds (`true` when the source has no such check) *)
Definition poly_accepts (P : N) : bool := poly_accepts_src P.

(* ------------------------------------------------------------------ fixed-size ChunkIter *)
Record fstate := { f_finished : bool; f_hint : N }.
Definition fixed_next (size : N) (st : fstate) (rest : bytes) (sched : list rd)
  : option bytes * fstate * bytes * list rd :=
  if f_finished st then (None, st, rest, sched) else
  let '(data, rest1, sched1) := read_to_end size rest sched in
  let fin := nlen data <? size in
  (match data with [] => None | _ => Some data end,
   {| f_finished := fin; f_hint := f_hint st - nlen data |}, rest1, sched1).

Fixpoint fixed_loop (n : nat) (size : N) (st : fstate) (rest : bytes) (sched : list rd) : option (list bytes) :=
  match n with
  | O => None
  | S k =>
      match fixed_next size st rest sched with
      | (None, _, _, _) => Some []
      | (Some c, st', rest', sched') =>
          match fixed_loop k size st' rest' sched' with Some cs => Some (c :: cs) | None => None end
      end
  end.
Definition fixed_impl (size hint : N) (s : bytes) (sched : list rd) : option (list bytes) :=
  fixed_loop (S (S (length s))) size {| f_finished := false; f_hint := hint |} s sched.
Definition fixed_accepts (size : N) : bool := FIXED_SIZE_MIN <=? size.
