(* C06 — accepted polynomials: the chunker is used only with polynomials of degree 8..56, for
   which the tested hash is the Rabin fingerprint; hence for every accepted configuration the
   cut points are exactly the fingerprint zeros of the chunker's window. *)
From Verif.Base Require Import Tactics.
From Verif.C06 Require Import Extracted Model Spec ListLemmas Proofs Proofs2 Proofs3 Proofs4
     Gf2 Proofs5 Gf2Tables Proofs6 Proofs7 Proofs8.
Local Open Scope N_scope.

Lemma accepted_poly_degree_lemma : forall P, poly_accepts P = true -> 8 <= N.log2 P /\ N.log2 P <= 56.
Proof.
  intros P H. unfold poly_accepts, poly_accepts_src, poly_degree_errors in H. cbn [existsb] in H.
  apply andb_prop in H. destruct H as [_ H]. apply negb_true_iff in H.
  rewrite orb_false_r in H. apply orb_false_elim in H. destruct H as [H1 H2].
  apply N.ltb_ge in H1, H2.
  assert (B1 : 8 <= MIN_POLY_DEGREE) by (apply N.leb_le; vm_compute; reflexivity).
  assert (B2 : MAX_POLY_DEGREE <= 56) by (apply N.leb_le; vm_compute; reflexivity).
  lia.
Qed.
Example default_poly_accepted : poly_accepts 0x3DA3358B4DC173 = true.
Proof. vm_compute. reflexivity. Qed.
Example zero_poly_rejected : poly_accepts 0 = false /\ poly_accepts 0x83 = false /\ poly_accepts 0x3236eb02265b1f5 = false.
Proof. vm_compute. auto. Qed.

(* the cut predicate with the table-free fingerprint *)
Definition is_cut_fp (p : cparams) (s : bytes) (L : N) : bool :=
  (c_max p <=? L)
  || (N.land (fp_direct (c_poly p) (a_fifo (win_at (tab_of p) p s L))) (c_avg p - 1) =? 0)
  || (L =? nlen s).

Lemma accepted_is_cut_fp : forall P avg mn mx s L,
  poly_accepts P = true -> rabin_accepts avg mn mx = true -> Forall isbyte s -> mn <= nlen s ->
  let p := {| c_poly := P; c_avg := avg; c_min := mn; c_max := mx |} in
  is_cut (tab_of p) p s L = is_cut_fp p s L.
Proof.
  intros P avg mn mx s L HP Ha Hs Hl p.
  destruct (accepted_poly_degree_lemma P HP) as [D1 D2].
  pose proof (accepted_params_ok_lemma P avg mn mx Ha) as Hp. fold p in Hp.
  pose proof (params_ok_hyps p Hp) as Hh.
  unfold is_cut, is_cut_fp.
  rewrite (window_hash_is_fingerprint_lemma p s L Hs D1 D2 (h_slice _ _ Hh) Hl). reflexivity.
Qed.

Lemma accepted_cut_points_lemma : forall P avg mn mx s,
  poly_accepts P = true -> rabin_accepts avg mn mx = true -> Forall isbyte s -> mn <= nlen s ->
  let p := {| c_poly := P; c_avg := avg; c_min := mn; c_max := mx |} in
  let L := N.of_nat (first_len (tab_of p) p s) in
  mn <= L /\ L <= nlen s /\ is_cut_fp p s L = true /\
  forall L', mn <= L' -> L' < L -> is_cut_fp p s L' = false.
Proof.
  intros P avg mn mx s HP Ha Hs Hl p L.
  destruct (first_cut_is_least_lemma (tab_of p) p s Hl) as [B1 [B2 [B3 B4]]].
  fold L in B1, B2, B3, B4.
  split; [assumption|]. split; [assumption|]. split.
  - pose proof (accepted_is_cut_fp P avg mn mx s L HP Ha Hs Hl) as E. cbv zeta in E. fold p in E.
    rewrite <- E. assumption.
  - intros L' H1 H2.
    pose proof (accepted_is_cut_fp P avg mn mx s L' HP Ha Hs Hl) as E. cbv zeta in E. fold p in E.
    rewrite <- E. apply B4; assumption.
Qed.

(* the converse direction of the open finding: the most recent 64 bytes have a fingerprint with
   zero low bits at L = min, but the code does not cut there (its window lacks s[min-1]) *)
Lemma last64_zero_not_cut_lemma :
  exists p s L,
    rabin_accepts (c_avg p) (c_min p) (c_max p) = true /\ poly_accepts (c_poly p) = true /\
    Forall isbyte s /\ c_min p <= L /\ L < c_max p /\ L < nlen s /\
    N.land (fp_direct (c_poly p) (ntake 64 (ndrop (L - 64) s))) (c_avg p - 1) = 0 /\
    is_cut (tab_of p) p s L = false /\ L < N.of_nat (first_len (tab_of p) p s).
Proof.
  exists prefill_witness_params, (repeat 0 4094 ++ [16; 0] ++ [1; 2; 3])%list, 4096.
  split; [vm_compute; reflexivity|]. split; [vm_compute; reflexivity|]. split.
  { apply Forall_app. split.
    - apply Forall_forall. intros x Hx. apply repeat_spec in Hx. subst. unfold isbyte. lia.
    - repeat constructor. }
  split; [vm_compute; discriminate|]. split; [vm_compute; reflexivity|]. split; [vm_compute; reflexivity|].
  split; [vm_compute; reflexivity|]. split; [vm_compute; reflexivity|]. vm_compute. reflexivity.
Qed.
